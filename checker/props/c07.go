package props

import (
	"go/ast"
	"go/types"
	"sort"
	"strings"

	"verif/checker/core"
)

func init() {
	register(&Prop{
		ID:        "C07",
		Engine:    "e2cfg",
		Technique: "exactly-once-per-iteration path rule on generateMatchedSDP's loop over the remote m-sections (per back edge, under every valuation of the loop-invariant finite-domain variables), constant-argument + dominance rule for includeUnmatched, per-iteration and per-return emission counts in populateSDP / addTransceiverSDP / addDataMediaSection, shape rule for the rejected section",
		LevelText: "Path rules that cover every remote offer at once: (R1) every way of finishing one iteration of the loop over the offer's m-sections appends exactly one section carrying that m-section's mid, the only other exits are error returns, and sections are only appended at the tail; (R2) the blocks that add further sections are guarded by the includeUnmatched parameter, which CreateAnswer passes as the constant false; (R3) every section leads to exactly one descr.WithMedia on every non-error path; (R4) the rejected section has port 0, the transceiver's kind and the section's mid.",
		LevelNote: "Trusted: go/types, go/cfg. Finite valuations range over the declared constants of SDPSemantics (an undeclared value matches no arm of the semantics switch and is reported as not judged). Media-type equality when a mid is reused for another kind and Plan-B are not covered.",
		DesignRef: "DESIGN.md §5 C07",
		Run:       runC07,
	})
}

func runC07(c *Ctx) {
	r := c.R
	// Instance minima count the semantic facts a rule must establish (one per kind of section source, per
	// attribute, per table cell, per guarded write …), not the incidental number of sites: a refactor that merges
	// two sites (one error return instead of two, one literal shared by two arms, a block moved into a helper)
	// must not trip them, while losing an anchor still does.
	r.Rule("C07.R1", "generateMatchedSDP, loop over remoteDescription.parsed.MediaDescriptions: on every path from the start of an iteration to the next one exactly one mediaSection is appended (at the tail) whose id is getMidValue of that iteration's m-section; the only other ways out of the loop body are error returns", 6)
	r.Rule("C07.R2", "every append of a section after the remote loop is guarded by a true test of one boolean parameter (includeUnmatched), and CreateAnswer passes the constant false for it", 2)
	r.Rule("C07.R3", "populateSDP: every iteration over the sections calls exactly one of addDataMediaSection / addTransceiverSDP (other exits are error returns); addDataMediaSection reaches a nil-error return only after exactly one descr.WithMedia; addTransceiverSDP after exactly one (full or rejected); nothing else calls WithMedia", 8)
	r.Rule("C07.R5", "association keeps the media type: every non-nil transceiver satisfyTypeAndDirection returns is dominated by a branch establishing <it>.kind == the offered kind (the answer renders the transceiver's kind as the section's media type)", 1)
	r.Rule("C07.R4", "the rejected section emitted by addTransceiverSDP has port 0, the first transceiver's kind as media name and a mid attribute taken from the mid parameter", 3)
	r.NotCovered = append(r.NotCovered,
		"media-type equality when the remote reuses a mid for another kind",
		"Plan-B answers",
		"SDPSemantics values other than the declared constants (no arm of the semantics switch matches: the section is skipped)")
	r.Trusted = append(r.Trusted, "sdp.SessionDescription.WithMedia appends one m-section at the end")
	c06Tick(c, "loaded")

	c07Rules(c)
	c06Agree386(c, "C07.R1", c07Rules)
	c06Dump(c)
}

// c07Rules runs every rule of the property on the program held by c.
func c07Rules(c *Ctx) {
	env := c06Anchors(c, "C07.R1")
	if !env.ok {
		return
	}
	ml := c07RemoteLoop(env, "C07.R1")
	if ml != nil {
		c07R1(env, ml)
		c07R2(env, ml)
	}
	c07R3(env)
	c07R3ErrChecked(env) // c07b.go
	c07R5(env.c)
	c07R4(env, "C07.R4")
}

// c07Matched describes generateMatchedSDP's section list and its loop over the remote m-sections.
type c07Matched struct {
	g        *core.Graph
	loop     *c06Loop
	sections *types.Var          // the local slice handed to populateSDP
	appends  map[int]*c06Section // node -> appended literal (tail appends to sections)
	badWrite []int               // writes to sections that are not tail appends of literals
}

// c06SectionList finds, in a generator, the []mediaSection variable passed to populateSDP and classifies its writes.
func c06SectionList(env *c06Env, rule string, fi *core.FuncInfo) (g *core.Graph, sections *types.Var, appends map[int]*c06Section, bad []int, ok bool) {
	c, r := env.c, env.c.R
	g = c.P.GraphOf(fi)
	info := g.Info
	pos := c.P.Pos(fi.Decl.Pos())
	calls := g.FindNodes(func(x ast.Node) bool { return core.IsCallTo(info, x, env.populate.Obj) })
	psig := env.populate.Obj.Type().(*types.Signature)
	idx := -1
	for i := 0; i < psig.Params().Len(); i++ {
		if sl, isSl := psig.Params().At(i).Type().(*types.Slice); isSl && c06IsNamed(sl.Elem(), env.msType) {
			idx = i
		}
	}
	if len(calls) != 1 || idx < 0 {
		r.Undecided(rule, fi.Name()+"|section-list", pos, sprintf("expected one call of populateSDP with a []mediaSection argument, found %d", len(calls)))
		return
	}
	core.InspectShallow(g.Nodes[calls[0]].Ast, func(x ast.Node) bool {
		if core.IsCallTo(info, x, env.populate.Obj) {
			call := x.(*ast.CallExpr)
			if idx < len(call.Args) {
				sections = core.VarOf(info, call.Args[idx])
			}
		}
		return true
	})
	if sections == nil || c06IsParam(g, sections) >= 0 || c06WrittenInLiterals(g, sections) {
		r.Undecided(rule, fi.Name()+"|section-list", pos, "the section list handed to populateSDP is not a plain local variable")
		sections = nil
		return
	}
	appends = map[int]*c06Section{}
	byExpr := map[ast.Expr]*c06Section{}
	for _, s := range c06Sections(env, fi) {
		byExpr[s.Expr] = s
	}
	for _, n := range g.Nodes {
		if n.Ast == nil {
			continue
		}
		d, isDef := c06DefAt(g, n, sections)
		if !isDef {
			continue
		}
		// initialisation with an empty literal
		if d.Kind == "assign" {
			if cl, isLit := ast.Unparen(d.Rhs).(*ast.CompositeLit); isLit && len(cl.Elts) == 0 {
				continue
			}
		}
		if l, elems, isApp := c06TailAppend(info, n.Ast); isApp && l == sections && len(elems) == 1 {
			// a mediaSection literal, or a call of a helper that returns one
			if sec := byExpr[ast.Unparen(elems[0])]; sec != nil {
				appends[n.ID] = sec
				continue
			}
		}
		bad = append(bad, n.ID)
	}
	// uses other than len(), the appends and the populateSDP argument (e.g. slices.Insert, sort, index writes)
	ast.Inspect(g.Body, func(x ast.Node) bool {
		switch s := x.(type) {
		case *ast.AssignStmt:
			for _, l := range s.Lhs {
				if ix, isIx := ast.Unparen(l).(*ast.IndexExpr); isIx && core.VarOf(info, ix.X) == sections {
					bad = append(bad, -1)
				}
			}
		case *ast.CallExpr:
			if core.IsCallTo(info, s, env.populate.Obj) || c06IsBuiltin(info, s, "len") || c06IsBuiltin(info, s, "append") {
				return true
			}
			for _, a := range s.Args {
				if core.VarOf(info, a) == sections {
					bad = append(bad, -1)
				}
				if u, isU := ast.Unparen(a).(*ast.UnaryExpr); isU && core.VarOf(info, u.X) == sections {
					bad = append(bad, -1)
				}
			}
		}
		return true
	})
	ok = true
	return
}

func c07RemoteLoop(env *c06Env, rule string) *c07Matched {
	c, r := env.c, env.c.R
	fi := env.genMatched
	g, sections, appends, bad, ok := c06SectionList(env, rule, fi)
	if !ok {
		return nil
	}
	m := &c07Matched{g: g, sections: sections, appends: appends, badWrite: bad}
	pos := c.P.Pos(fi.Decl.Pos())
	for _, l := range c06RangeLoops(g) {
		fv := core.FieldOf(g.Info, l.Range.X)
		if fv == nil || fv.Name() != "MediaDescriptions" || fv.Pkg() == nil || fv.Pkg().Path() != c06SDPPkg {
			continue
		}
		has := false
		for n := range appends {
			if l.Body[n] {
				has = true
			}
		}
		if !has {
			continue
		}
		if m.loop != nil {
			r.Undecided(rule, fi.Name()+"|remote-media-loop", pos, "more than one loop over the remote media descriptions appends sections")
			return nil
		}
		m.loop = l
	}
	if m.loop == nil || m.loop.ValueVar == nil {
		r.Fail(rule, fi.Name()+"|remote-media-loop", pos, "no loop over remoteDescription.parsed.MediaDescriptions that appends sections was found: the answer is not built section by section from the offer")
		return nil
	}
	return m
}

// c07GuardDesc renders what guards node n inside the loop: the conditions of the branch edges taken
// on the way from the iteration start that n is control-dependent on (canonical, locals replaced).
func c07GuardDesc(l *c06Loop, n int) string {
	g := l.G
	inHeader := func(x int) bool { return x >= l.headBlock && x <= l.Head }
	type q struct {
		from, idx int
		desc      string
	}
	var qs []q
	for id := range l.Body {
		nd := g.Nodes[id]
		for i, e := range nd.Succs {
			if e.Cond == nil || e.Branch == 0 {
				continue
			}
			// n is reached only through this edge?
			reach := g.Reach([]int{l.BodyEntry}, inHeader, func(from, idx int, _ core.Edge) bool { return from == id && idx == i })
			if reach[n] {
				continue
			}
			// and the edge leads to n
			if e.To != n && !g.Reach([]int{e.To}, inHeader, nil)[n] {
				continue
			}
			cond := c06Canon(g, id, e.Cond)
			if e.Tag != nil {
				cond = c06Canon(g, id, e.Tag) + "==" + cond
			}
			if e.Branch == 2 {
				cond = "!(" + cond + ")"
			}
			qs = append(qs, q{id, i, cond})
		}
	}
	// keep the innermost guard(s): those after which no other guard of n is evaluated
	seen := map[string]bool{}
	var parts []string
	for _, a := range qs {
		after := g.Reach([]int{g.Nodes[a.from].Succs[a.idx].To}, inHeader, nil)
		inner := true
		for _, b := range qs {
			if b.from != a.from && after[b.from] {
				inner = false
			}
		}
		if inner && !seen[a.desc] {
			seen[a.desc] = true
			parts = append(parts, a.desc)
		}
	}
	if len(parts) == 0 {
		return "unconditional"
	}
	sort.Strings(parts)
	return strings.Join(parts, " && ")
}

func c07R1(env *c06Env, m *c07Matched) {
	c, r := env.c, env.c.R
	const rule = "C07.R1"
	g, l := m.g, m.loop
	fname := env.genMatched.Name()
	lpos := c.P.Pos(l.Range.Pos())

	// tail appends only
	r.Check(len(m.badWrite) == 0, rule, fname+"|section-list|tail-appends-only", lpos,
		sprintf("%d tail appends of section literals, no other write", len(m.appends)), sprintf("the section list is modified other than by `list = append(list, mediaSection{…})` (%d site(s)): order or count of the answer's sections no longer follows the offer", len(m.badWrite)))

	// each append inside the loop carries this iteration's mid
	var inLoop []int
	for n := range m.appends {
		if l.Body[n] {
			inLoop = append(inLoop, n)
		}
	}
	sort.Ints(inLoop)
	for _, n := range inLoop {
		s := m.appends[n]
		key := fname + "|remote-media-loop|append|mediaSection{" + s.fieldNames() + "}|id"
		pos := c.P.Pos(s.pos())
		src, has := s.idSrc(env)
		if !has {
			r.Fail(rule, key, pos, "the appended section has no id")
			continue
		}
		r.Check(src.Class == "remote-mid" && src.Var == l.ValueVar, rule, key, pos, "id is getMidValue of this iteration's m-section",
			"the section appended for a remote m-section does not carry that m-section's mid ("+src.Desc+")")
	}

	// exits other than the back edge must be error returns
	exitSeen := map[string]bool{}
	for _, e := range l.exits() {
		from := g.Nodes[e.From]
		to := from.Succs[e.Idx].To
		if ret, isRet := from.Ast.(*ast.ReturnStmt); isRet {
			mayFail, ex := g.ReturnMayFail(ret, nil)
			cause := "naked"
			if ex != nil {
				cause = c06Canon(g, e.From, ex)
			}
			key := fname + "|remote-media-loop|exit|return|" + cause
			if exitSeen[key] {
				continue
			}
			exitSeen[key] = true
			r.Check(mayFail, rule, key, c.P.Pos(ret.Pos()), "error return", "a nil-error return inside the loop over the offer's m-sections: CreateAnswer succeeds with the remaining offered sections unanswered")
			continue
		}
		if to == g.Panic {
			r.Info(rule, fname+"|remote-media-loop|exit|panic", c.P.Pos(g.PosOf(e.From)), "explicit panic inside the loop")
			continue
		}
		key := fname + "|remote-media-loop|exit|break|" + c07GuardDesc(l, e.From)
		if !exitSeen[key] {
			exitSeen[key] = true
			r.Fail(rule, key, c.P.Pos(g.PosOf(e.From)), "the loop over the offer's m-sections can be left early (break/goto): the remaining offered sections get no answer section")
		}
	}

	// exactly one append per iteration, per back edge, under every finite valuation
	fin := c06NewFinite(c.P, g, l.Body)
	vals, descs := fin.valuations()
	appendW := func(n int) c06Span {
		if _, ok := m.appends[n]; ok {
			return c06Span{1, 1}
		}
		return c06Span{}
	}
	type agg struct {
		span  c06Span
		any   bool
		worst string
	}
	per := map[int]*agg{}
	backs := l.backNodes()
	for vi, val := range vals {
		avoid := func(from, idx int, e core.Edge) bool { return fin.infeasible(e, val) }
		for _, b := range backs {
			sp, ok := c06PathCount(g, l.BodyEntry, b, func(n int) bool { return !l.Body[n] }, avoid, appendW)
			r.Cells++
			if !ok {
				if l.BodyEntry != b {
					continue // this back edge is not taken under this valuation
				}
				sp = c06Span{}
			}
			sp = sp.add(appendW(b))
			a := per[b]
			if a == nil {
				a = &agg{span: sp}
				per[b] = a
			}
			if !a.any {
				a.span, a.any = sp, true
			} else {
				a.span = c06Span{min(a.span.Min, sp.Min), max(a.span.Max, sp.Max)}
			}
			if (sp != c06Span{1, 1}) && a.worst == "" {
				a.worst = descs[vi]
			}
		}
	}
	for _, b := range backs {
		a := per[b]
		guard := c07GuardDesc(l, b)
		key := fname + "|remote-media-loop|next-iteration|" + guard
		pos := c.P.Pos(g.PosOf(b))
		switch {
		case a == nil || !a.any:
			r.Info(rule, key, pos, "back edge not feasible under any valuation of the loop-invariant variables")
		case a.span == c06Span{1, 1}:
			r.OK(rule, key, pos, sprintf("exactly one section appended on every path to this back edge (%d valuation(s) of %d invariant variable(s))", len(vals), len(fin.atoms)))
		case a.span.Max == 0:
			r.Fail(rule, key, pos, "the next offered m-section is reached without appending a section for this one: the answer has fewer m-sections than the offer (offered section dropped instead of rejected in place)"+c07Under(a.worst))
		case a.span.Min == 0:
			r.Fail(rule, key, pos, "some path to the next offered m-section appends no section for this one ("+a.span.String()+" appends)"+c07Under(a.worst))
		default:
			r.Fail(rule, key, pos, "an offered m-section can produce "+a.span.String()+" answer sections"+c07Under(a.worst))
		}
	}
	var names []string
	for k := range fin.atoms {
		names = append(names, k)
	}
	sort.Strings(names)
	r.Extra["c07_loop_invariant_variables"] = names
}

func c07Under(v string) string {
	if v == "" {
		return ""
	}
	return " [e.g. with " + v + "]"
}

func c07R2(env *c06Env, m *c07Matched) {
	c, r := env.c, env.c.R
	const rule = "C07.R2"
	g, l := m.g, m.loop
	fname := env.genMatched.Name()
	sig := g.Sig()
	var post []int
	for n := range m.appends {
		if !l.Body[n] {
			post = append(post, n)
		}
	}
	sort.Ints(post)
	// candidate parameters: boolean, never reassigned
	var flag *types.Var
	flagIdx := -1
	for i := 0; i < sig.Params().Len(); i++ {
		pv := sig.Params().At(i)
		if b, ok := pv.Type().Underlying().(*types.Basic); !ok || b.Info()&types.IsBoolean == 0 || c06AssignedAnywhere(g, pv) != 0 {
			continue
		}
		edges := c06EdgesWhere(g, func(from int, f c06Fact) bool { return c06BoolVarFact(g.Info, f, pv, true) })
		if len(edges) == 0 {
			continue
		}
		all := len(post) > 0
		for _, n := range post {
			if !g.DominatedByEdges(n, edges) {
				all = false
			}
		}
		if all {
			flag, flagIdx = pv, i
		}
	}
	for _, n := range post {
		s := m.appends[n]
		src := "(none)"
		if sr, ok := s.idSrc(env); ok {
			src = sr.Desc
		}
		key := fname + "|post-loop-append|mediaSection{" + s.fieldNames() + "}|id<-" + src
		r.Check(flag != nil, rule, key, c.P.Pos(s.pos()), "guarded by the includeUnmatched parameter", "a section is appended after the remote loop without a true test of a boolean parameter that CreateAnswer passes as false: the answer gets more m-sections than the offer")
	}
	if len(post) == 0 {
		r.Info(rule, fname+"|post-loop-append|none", c.P.Pos(env.genMatched.Decl.Pos()), "no section is appended after the remote loop")
	}
	// the call in CreateAnswer
	ag := c.P.GraphOf(env.createAnswer)
	calls := ag.FindNodes(func(x ast.Node) bool { return core.IsCallTo(ag.Info, x, env.genMatched.Obj) })
	key := "(*PeerConnection).CreateAnswer|call:generateMatchedSDP|includeUnmatched"
	if len(calls) != 1 {
		r.Fail(rule, key, c.P.Pos(env.createAnswer.Decl.Pos()), sprintf("CreateAnswer calls generateMatchedSDP %d time(s), expected once", len(calls)))
		return
	}
	var call *ast.CallExpr
	core.InspectShallow(ag.Nodes[calls[0]].Ast, func(x ast.Node) bool {
		if core.IsCallTo(ag.Info, x, env.genMatched.Obj) {
			call = x.(*ast.CallExpr)
		}
		return true
	})
	switch {
	case flag == nil:
		if len(post) > 0 {
			r.Undecided(rule, key, c.P.Pos(call.Pos()), "no single boolean parameter guards the post-loop appends")
		} else {
			r.OK(rule, key, c.P.Pos(call.Pos()), "nothing to guard")
		}
	case flagIdx >= len(call.Args):
		r.Undecided(rule, key, c.P.Pos(call.Pos()), "argument list does not match the signature")
	default:
		b, isConst := c06ConstBool(ag.Info, call.Args[flagIdx])
		r.Check(isConst && !b, rule, key, c.P.Pos(call.Args[flagIdx].Pos()), "constant false", "CreateAnswer does not pass the constant false for includeUnmatched: unmatched local transceivers / a data section are added to the answer")
	}
	// who else calls generateMatchedSDP in answer-like fashion: list
	for _, fi := range c.P.AllFuncs() {
		if fi == env.createAnswer || fi.Decl.Body == nil || fi.Pkg != c.P.Pkg("") {
			continue
		}
		if c06Mentions(fi, func(x ast.Node) bool { return core.IsCallTo(fi.Pkg.TypesInfo, x, env.genMatched.Obj) }) {
			r.Info(rule, "call:generateMatchedSDP|in:"+fi.Name(), c.P.Pos(fi.Decl.Pos()), "other caller (offer side)")
		}
	}
}

func c07R3(env *c06Env) {
	c, r := env.c, env.c.R
	const rule = "C07.R3"
	p := c06PopulateShape(env, rule)
	if p != nil {
		g, l := p.g, p.loop
		builders := map[int]bool{}
		for _, n := range append(append([]int{}, p.addTrN...), p.addDataN...) {
			builders[n] = true
		}
		w := func(n int) c06Span {
			if builders[n] {
				return c06Span{1, 1}
			}
			return c06Span{}
		}
		for _, b := range l.backNodes() {
			sp, ok := c06PathCount(g, l.BodyEntry, b, func(n int) bool { return !l.Body[n] }, nil, w)
			if !ok && l.BodyEntry == b {
				ok = true
			}
			sp = sp.add(w(b))
			r.Cells++
			key := "populateSDP|section-loop|" + c07GuardDesc(l, b)
			r.Check(ok && sp == c06Span{1, 1}, rule, key, c.P.Pos(g.PosOf(b)), "exactly one section builder runs per section", "a section passes "+sp.String()+" section builders before the next one: an m-section is dropped or duplicated")
		}
		// the builders write into populateSDP's own description
		for n := range builders {
			var call *ast.CallExpr
			core.InspectShallow(g.Nodes[n].Ast, func(x ast.Node) bool {
				if cl, ok := x.(*ast.CallExpr); ok && (core.IsCallTo(g.Info, cl, env.addTr.Obj) || core.IsCallTo(g.Info, cl, env.addData.Obj)) {
					call = cl
				}
				return true
			})
			fn := core.Callee(g.Info, call)
			sig := fn.Type().(*types.Signature)
			ok := false
			for i, a := range call.Args {
				if i < sig.Params().Len() && c06IsExtNamed(sig.Params().At(i).Type(), c06SDPPkg, "SessionDescription") && core.VarOf(g.Info, a) == p.descr {
					ok = true
				}
			}
			r.Check(ok && c06AssignedBeforeLoop(g, p), rule, "populateSDP|call:"+core.FuncName(fn)+"|description-argument", c.P.Pos(call.Pos()), "appends to the description populateSDP returns", "the section builder does not receive populateSDP's own description")
		}
		// exits of the loop body are error returns
		seen := map[string]bool{}
		for _, e := range l.exits() {
			from := g.Nodes[e.From]
			if ret, isRet := from.Ast.(*ast.ReturnStmt); isRet {
				mayFail, ex := g.ReturnMayFail(ret, nil)
				cause := "naked"
				if ex != nil {
					cause = c06Canon(g, e.From, ex)
				}
				key := "populateSDP|section-loop|exit|return|" + cause
				if seen[key] {
					continue
				}
				seen[key] = true
				r.Check(mayFail, rule, key, c.P.Pos(ret.Pos()), "error return", "populateSDP returns success from inside the section loop")
				continue
			}
			if from.Succs[e.Idx].To == g.Panic {
				continue
			}
			key := "populateSDP|section-loop|exit|break|" + c07GuardDesc(l, e.From)
			if !seen[key] {
				seen[key] = true
				r.Fail(rule, key, c.P.Pos(g.PosOf(e.From)), "the section loop can be left early: the remaining sections are not emitted")
			}
		}
	}

	// addDataMediaSection: every nil-error return passes exactly one WithMedia
	for _, fi := range []*core.FuncInfo{env.addData, env.addTr} {
		em := c06Emissions(env, fi)
		g := em.g
		all := append(append(append([]int{}, em.normal...), em.reject...), em.other...)
		w := func(n int) c06Span {
			for _, x := range all {
				if x == n {
					return c06Span{1, 1}
				}
			}
			return c06Span{}
		}
		nOK := 0
		for _, rn := range g.Returns() {
			ret := g.Nodes[rn].Ast.(*ast.ReturnStmt)
			mayFail, _ := g.ReturnMayFail(ret, nil)
			if mayFail {
				continue
			}
			nOK++
			sp, ok := c06PathCount(g, g.Entry, rn, nil, nil, w)
			r.Cells++
			desc := "return(nil)"
			if len(ret.Results) == 2 {
				desc = "return(" + c06Canon(g, rn, ret.Results[0]) + ",nil)"
			}
			r.Check(ok && sp == c06Span{1, 1}, rule, fi.Name()+"|"+desc+"|emissions", c.P.Pos(ret.Pos()), "exactly one descr.WithMedia on every path to this return",
				"a successful return is reached after "+sp.String()+" descr.WithMedia calls: the description gets no (or more than one) m-section for this section")
		}
		if nOK == 0 {
			r.Fail(rule, fi.Name()+"|success-return", c.P.Pos(fi.Decl.Pos()), "no nil-error return found")
		}
		// the receiver of WithMedia is the description parameter
		for _, n := range all {
			okRecv := false
			core.InspectShallow(g.Nodes[n].Ast, func(x ast.Node) bool {
				if call, ok := x.(*ast.CallExpr); ok && c06ExtMethod(g.Info, call, c06SDPPkg, "SessionDescription", "WithMedia") {
					if em.descr != nil && core.VarOf(g.Info, c06Recv(g.Info, call)) == em.descr && c06AssignedAnywhere(g, em.descr) == 0 {
						okRecv = true
					}
				}
				return true
			})
			if !okRecv {
				r.Fail(rule, fi.Name()+"|WithMedia|receiver", c.P.Pos(g.PosOf(n)), "WithMedia is not applied to the description parameter")
			}
		}
	}

	// who may call WithMedia
	for _, fi := range c.P.AllFuncs() {
		if fi.Decl.Body == nil {
			continue
		}
		info := fi.Pkg.TypesInfo
		ast.Inspect(fi.Decl.Body, func(x ast.Node) bool {
			call, ok := x.(*ast.CallExpr)
			if !ok || !c06ExtMethod(info, call, c06SDPPkg, "SessionDescription", "WithMedia") {
				return true
			}
			r.Check(fi == env.addData || fi == env.addTr, rule, "call:WithMedia|in:"+c06PkgLabelOf(c, fi)+fi.Name(), c.P.Pos(call.Pos()), "inside a section builder", "an m-section is appended to a description outside addDataMediaSection/addTransceiverSDP: the one-section-per-mediaSection accounting no longer holds")
			return true
		})
	}
}

func c06PkgLabelOf(c *Ctx, fi *core.FuncInfo) string {
	rel := strings.TrimPrefix(strings.TrimPrefix(fi.Pkg.PkgPath, core.ModPath), "/")
	return pkgLabel(rel)
}

// c06AssignedBeforeLoop: the description parameter is not replaced before/inside the loop.
func c06AssignedBeforeLoop(g *core.Graph, p *c06Populate) bool {
	for _, n := range g.Nodes {
		if n.Ast == nil {
			continue
		}
		if _, ok := c06DefAt(g, n, p.descr); ok {
			// reassignments after the loop (descr = descr.WithValueAttribute(...)) are fine
			if p.loop.Body[n.ID] || g.Reach([]int{n.ID}, nil, nil)[p.loop.Head] {
				return false
			}
		}
	}
	return true
}

func c07R4(env *c06Env, rule string) {
	c, r := env.c, env.c.R
	fi := env.addTr
	em := c06Emissions(env, fi)
	g := em.g
	info := g.Info
	fpos := c.P.Pos(fi.Decl.Pos())
	if len(em.reject) != 1 {
		r.Fail(rule, "addTransceiverSDP|rejected-section|emission", fpos, sprintf("expected exactly one emission of a rejected (port 0 literal) media description, found %d: a section the answerer cannot use is not rejected in place", len(em.reject)))
		return
	}
	n := em.reject[0]
	arg := em.argOf[n]
	pos := c.P.Pos(arg.Pos())
	// the literal lives in addTransceiverSDP or in a same-package helper that returns it; linfo is its types.Info
	h := em.helper[n]
	linfo := info
	if h != nil {
		linfo = h.g.Info
	}
	lit := c06MDLiteral(linfo, em.create[n])
	if lit == nil {
		r.Undecided(rule, "addTransceiverSDP|rejected-section|shape", pos, "the rejected section is not built from an sdp.MediaDescription literal")
		return
	}
	// inCaller maps an operand of the literal / builder chain to the expression it denotes inside
	// addTransceiverSDP: itself, or the call argument bound to the helper parameter it names
	inCaller := func(e ast.Expr) ast.Expr {
		if e == nil {
			return nil
		}
		if h == nil {
			return e
		}
		return h.bound(e)
	}
	field := c06LitField
	var mediaE ast.Expr
	if mn, ok := ast.Unparen(field(lit, "MediaName")).(*ast.CompositeLit); ok && mn != nil {
		mediaE = field(mn, "Media")
		if pl, ok := ast.Unparen(field(mn, "Port")).(*ast.CompositeLit); ok && pl != nil && field(pl, "Range") != nil {
			r.Fail(rule, "addTransceiverSDP|rejected-section|port", pos, "the rejected section has a port range")
		}
	}
	// port 0 is what classifies the emission as the rejected one
	r.OK(rule, "addTransceiverSDP|rejected-section|port", pos, "port 0")
	// media name = kind of the first transceiver of the section: K.String() with K = <section transceiver>.kind
	kindField := c.mustField(rule, "", "RTPTransceiver", "kind")
	kindString := c.mustFunc(rule, "", "RTPCodecType.String")
	kindOK := false
	if mc, ok := ast.Unparen(mediaE).(*ast.CallExpr); ok && mediaE != nil && kindField != nil && kindString != nil && core.IsCallTo(linfo, mc, kindString.Obj) {
		if rv := inCaller(c06Recv(linfo, mc)); rv != nil && core.FieldOf(info, rv) == kindField {
			if se, ok := ast.Unparen(rv).(*ast.SelectorExpr); ok {
				kindOK = c06IsSectionTransceiver(env, g, n, se.X)
			}
		}
	}
	r.Check(kindOK, rule, "addTransceiverSDP|rejected-section|media-name", pos, "the media name is the kind of the section's first transceiver", "the rejected section's media type is not the kind of the section's transceiver (the answer's m-line type differs from the offer's)")
	// mid attribute from the mid parameter
	p := c06PopulateShape(env, rule)
	var midParam *types.Var
	if p != nil && len(p.addTrN) == 1 {
		var call *ast.CallExpr
		core.InspectShallow(p.g.Nodes[p.addTrN[0]].Ast, func(x ast.Node) bool {
			if core.IsCallTo(p.g.Info, x, fi.Obj) {
				call = x.(*ast.CallExpr)
			}
			return true
		})
		sig := fi.Obj.Type().(*types.Signature)
		for i, a := range call.Args {
			if src := c06MidSource(env, p.g, p.addTrN[0], a); src.Class == "section-id" && src.Var == p.loop.ValueVar && i < sig.Params().Len() {
				midParam = sig.Params().At(i)
			}
		}
	}
	if midParam == nil {
		r.Undecided(rule, "addTransceiverSDP|rejected-section|mid", pos, "cannot identify the parameter that carries the section's mid")
		return
	}
	// mid attributes are counted on both sides: builder calls / Attributes entries inside the helper (values
	// resolved through the parameter binding) and builder calls in addTransceiverSDP itself
	isMidCall := func(ci *types.Info, call *ast.CallExpr, resolve func(ast.Expr) ast.Expr) (isMid, good bool) {
		if c06ExtMethod(ci, call, c06SDPPkg, "MediaDescription", "WithValueAttribute") && len(call.Args) == 2 {
			if k, ok := c06ConstString(ci, call.Args[0]); ok && k == "mid" {
				v := resolve(call.Args[1])
				return true, v != nil && core.VarOf(info, v) == midParam
			}
		}
		return false, false
	}
	same := func(e ast.Expr) ast.Expr { return e }
	// countOnVar: spans (any, good) of mid builder calls applied to variable mv on the paths entry -> node `to` of graph cg
	countOnVar := func(cg *core.Graph, mv *types.Var, to int, resolve func(ast.Expr) ast.Expr) (c06Span, c06Span) {
		mk := func(wantGood bool) func(int) c06Span {
			return func(x int) c06Span {
				k := 0
				if a := cg.Nodes[x].Ast; a != nil {
					for _, call := range c06CallsOnVar(cg.Info, a, mv) {
						m, gd := isMidCall(cg.Info, call, resolve)
						if (wantGood && gd) || (!wantGood && m) {
							k++
						}
					}
				}
				return c06Span{k, k}
			}
		}
		sa, _ := c06PathCount(cg, cg.Entry, to, nil, nil, mk(false))
		sg, _ := c06PathCount(cg, cg.Entry, to, nil, nil, mk(true))
		r.Cells += 2
		return sa, sg
	}
	countChain := func(ci *types.Info, e ast.Expr, resolve func(ast.Expr) ast.Expr) (int, int) {
		a, gd := 0, 0
		chain, _ := c06ChainCalls(ci, e)
		for _, call := range chain {
			if m, ok := isMidCall(ci, call, resolve); m {
				a++
				if ok {
					gd++
				}
			}
		}
		return a, gd
	}
	anySpan, goodSpan := c06Span{}, c06Span{}
	addN := func(a, gd int) { anySpan, goodSpan = anySpan.add(c06Span{a, a}), goodSpan.add(c06Span{gd, gd}) }
	// caller side
	if mv := em.media[n]; mv != nil {
		sa, sg := countOnVar(g, mv, n, same)
		anySpan, goodSpan = anySpan.add(sa), goodSpan.add(sg)
	} else {
		addN(countChain(info, arg, same))
	}
	// helper side
	if h != nil {
		if h.media != nil {
			sa, sg := countOnVar(h.g, h.media, h.ret, h.bound)
			anySpan, goodSpan = anySpan.add(sa), goodSpan.add(sg)
		} else {
			addN(countChain(h.g.Info, h.expr, h.bound))
		}
	}
	// Attributes: []sdp.Attribute{{Key: "mid", Value: midValue}}
	if at, ok := ast.Unparen(field(lit, "Attributes")).(*ast.CompositeLit); ok && at != nil {
		for _, el := range at.Elts {
			if acl, ok := ast.Unparen(el).(*ast.CompositeLit); ok {
				if k, isC := c06ConstString(linfo, field(acl, "Key")); isC && k == "mid" {
					gd := 0
					if v := inCaller(field(acl, "Value")); v != nil && core.VarOf(info, v) == midParam {
						gd = 1
					}
					addN(1, gd)
				}
			}
		}
	}
	key := "addTransceiverSDP|rejected-section|mid"
	if anySpan.Min != anySpan.Max || goodSpan.Min != goodSpan.Max {
		r.Fail(rule, key+"|source", pos, sprintf("the rejected section gets %s mid attribute(s) (%s from the mid parameter) depending on the path", anySpan, goodSpan))
		return
	}
	nMid, nGood := anySpan.Max, goodSpan.Max
	switch {
	case nMid == 1 && nGood == 1 && c06AssignedAnywhere(g, midParam) == 0:
		r.OK(rule, key, pos, "a=mid from the mid parameter")
	case nMid == 0:
		r.Fail(rule, key+"|absent", pos, "the rejected (port 0) section carries no a=mid: the answer's section does not have the same mid as the offered section it rejects")
	default:
		r.Fail(rule, key+"|source", pos, sprintf("the rejected section carries %d mid attribute(s), %d from the mid parameter (exactly one from the parameter required)", nMid, nGood))
	}
}

// c06IsSectionTransceiver reports whether e denotes the first transceiver of the mediaSection parameter:
// mediaSection.transceivers[0], or a local defined (once) by it, possibly through a local alias of the slice.
func c06IsSectionTransceiver(env *c06Env, g *core.Graph, at int, e ast.Expr) bool {
	info := g.Info
	resolve := func(x ast.Expr, node int) (ast.Expr, int, bool) {
		v := core.VarOf(info, x)
		if v == nil {
			return x, node, true
		}
		if c06IsParam(g, v) >= 0 {
			return x, node, true
		}
		defs := c06Defs(g, node, v)
		if len(defs) != 1 || defs[0].Kind != "assign" {
			return nil, 0, false
		}
		return defs[0].Rhs, defs[0].Node, true
	}
	x, node, ok := resolve(e, at)
	if !ok {
		return false
	}
	ix, isIx := ast.Unparen(x).(*ast.IndexExpr)
	if !isIx {
		return false
	}
	if k, isC := c06ConstInt(info, ix.Index); !isC || k != 0 {
		return false
	}
	base, _, ok := resolve(ix.X, node)
	if !ok {
		return false
	}
	if core.FieldOf(info, base) != env.fTransceivers {
		return false
	}
	se, _ := ast.Unparen(base).(*ast.SelectorExpr)
	if se == nil {
		return false
	}
	pv := core.VarOf(info, se.X)
	return pv != nil && c06IsParam(g, pv) >= 0 && c06AssignedAnywhere(g, pv) == 0
}
