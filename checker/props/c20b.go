package props

import (
	"go/ast"
	"go/token"
	"go/types"

	"verif/checker/core"
)

// c20R5: "once Close has been called and the transport is gone, it ends in closed". A channel whose SCTP stream never
// came up has no read loop that could move it on; the only thing that ends it is W3C close step 5 in PeerConnection.close:
// every registered channel gets setReadyState(closed). So for the first closer (isClosed.Swap(true) returned false) every
// path of close() to its exit passes a "closes every registered channel" point: a range loop over
// SCTPTransport.dataChannels whose body calls setReadyState(DataChannelStateClosed) on its element on every iteration, or
// a call of a same-module function every path of which passes such a point.
func c20R5(c *Ctx) {
	r := c.R
	const rule = "C20.R5"
	closeFn := c.mustFunc(rule, "", "PeerConnection.close")
	setRS := c.mustFunc(rule, "", "DataChannel.setReadyState")
	closed := c.mustConst(rule, "", "DataChannelStateClosed")
	dcsF := c.mustField(rule, "", "SCTPTransport", "dataChannels")
	isClosedF := c.mustField(rule, "", "PeerConnection", "isClosed")
	if closeFn == nil || setRS == nil || closed == nil || dcsF == nil || isClosedF == nil {
		return
	}
	// points of a graph that close every registered channel
	var closesAll func(fi *core.FuncInfo, depth int) bool
	points := func(g *core.Graph, depth int) map[int]bool {
		info := g.Info
		out := map[int]bool{}
		for _, l := range c06RangeLoops(g) {
			if core.FieldOf(info, l.Range.X) != dcsF || l.ValueVar == nil {
				continue
			}
			// nodes of the body that call elem.setReadyState(closed)
			marks := map[int]bool{}
			for n := range l.Body {
				a := g.Nodes[n].Ast
				if a == nil {
					continue
				}
				core.InspectShallow(a, func(x ast.Node) bool {
					call, ok := x.(*ast.CallExpr)
					if !ok || !core.IsCallTo(info, call, setRS.Obj) || len(call.Args) != 1 {
						return true
					}
					sel, ok := ast.Unparen(call.Fun).(*ast.SelectorExpr)
					if !ok || core.VarOf(info, sel.X) != l.ValueVar {
						return true
					}
					if tv, ok := info.Types[call.Args[0]]; ok && tv.Value != nil && tv.Value.ExactString() == closed.Val().ExactString() {
						marks[n] = true
					}
					return true
				})
			}
			if len(marks) == 0 {
				continue
			}
			// every iteration passes a mark, and the loop is not left early
			reach := g.Reach([]int{l.BodyEntry}, func(x int) bool { return marks[x] || !l.Body[x] }, nil)
			ok := true
			for _, b := range l.backNodes() {
				if reach[b] && !marks[b] {
					ok = false
				}
			}
			for _, e := range l.exits() {
				if e.From != l.Head && g.Nodes[e.From].Succs[e.Idx].To != g.Panic {
					ok = false
				}
			}
			if ok {
				out[l.Head] = true
			}
		}
		if depth > 0 {
			for _, n := range g.Nodes {
				if n.Ast == nil {
					continue
				}
				if _, isDefer := n.Ast.(*ast.DeferStmt); isDefer {
					continue
				}
				if _, isGo := n.Ast.(*ast.GoStmt); isGo {
					continue
				}
				core.InspectShallow(n.Ast, func(x ast.Node) bool {
					call, ok := x.(*ast.CallExpr)
					if !ok {
						return true
					}
					if fn := core.Callee(info, call); fn != nil {
						if cal := c.P.DeclOf(fn); cal != nil && cal.Decl != nil && cal.Decl.Body != nil && closesAll(cal, depth-1) {
							out[n.ID] = true
						}
					}
					return true
				})
			}
		}
		return out
	}
	memo := map[*core.FuncInfo]bool{}
	closesAll = func(fi *core.FuncInfo, depth int) bool {
		if v, ok := memo[fi]; ok {
			return v
		}
		memo[fi] = false
		g := c.P.GraphOf(fi)
		pts := points(g, depth)
		res := len(pts) > 0 && !g.ReachFromEntry(func(x int) bool { return pts[x] }, nil)[g.Exit]
		memo[fi] = res
		return res
	}
	g := c.P.GraphOf(closeFn)
	info := g.Info
	pos := c.P.Pos(closeFn.Decl.Pos())
	// the "already closed" flag: result of pc.isClosed.Swap(true)
	var already *types.Var
	swapNode := -1
	for _, n := range g.Nodes {
		as, ok := n.Ast.(*ast.AssignStmt)
		if !ok || len(as.Lhs) != 1 || len(as.Rhs) != 1 {
			continue
		}
		call, ok := ast.Unparen(as.Rhs[0]).(*ast.CallExpr)
		if !ok {
			continue
		}
		sel, ok := ast.Unparen(call.Fun).(*ast.SelectorExpr)
		if ok && sel.Sel.Name == "Swap" && core.FieldOf(info, sel.X) == isClosedF {
			already, swapNode = core.VarOf(info, as.Lhs[0]), n.ID
		}
	}
	if already == nil {
		r.Undecided(rule, "close|first-closer-closes-every-channel", pos, "no `already := pc.isClosed.Swap(true)` in close (the first closer can no longer be told apart)")
		return
	}
	pts := points(g, 2)
	alreadyEdge := func(e core.Edge) bool { // edge on which `already` is true
		if e.Cond == nil || e.Tag != nil || e.Branch == 0 {
			return false
		}
		cond, pol := ast.Unparen(e.Cond), e.Branch == 1
		for {
			u, ok := cond.(*ast.UnaryExpr)
			if !ok || u.Op != token.NOT {
				break
			}
			cond, pol = ast.Unparen(u.X), !pol
		}
		return core.VarOf(info, cond) == already && pol
	}
	reach := g.Reach([]int{swapNode}, func(x int) bool { return pts[x] }, func(from, idx int, e core.Edge) bool { return alreadyEdge(e) })
	r.Cells++
	r.Check(len(pts) > 0 && !reach[g.Exit], rule, "close|first-closer-closes-every-channel", pos, sprintf("every path of the first closer passes one of %d point(s) that set every registered data channel to closed", len(pts)),
		"PeerConnection.close can return for the first closer without having set every registered data channel to closed (no unconditional loop over sctpTransport.dataChannels calling setReadyState(DataChannelStateClosed), directly or in a callee all of whose paths do it): a channel whose transport never came up stays connecting/closing forever")
}
