package props

import (
	"go/ast"
	"go/token"
	"go/types"
	"regexp"
	"strings"

	"verif/checker/absint"
	"verif/checker/core"
)

func init() {
	register(&Prop{
		ID:        "C04",
		Engine:    "e1tab+e2cfg",
		Technique: "finite-domain abstract interpretation of negotiationNeededOp over (closed, operations empty, signaling state, check result, flag), of onNegotiationNeeded, operations.start and setDescription's flag handling; who-may-call / who-may-write sweeps for the handler and the [[NegotiationNeeded]] flag; must-pass-through rule (abstract interpretation with error-nilness) for the five API calls that require renegotiation",
		LevelText: "Structural clauses of W3C 4.7.3 decided for all inputs: (1) the exhaustive table of negotiationNeededOp shows the handler call exactly in the cell not-closed/chain-empty/stable/needed/flag-clear, after the flag is set; (2) the handler is loaded and invoked nowhere else, the flag is set only there and cleared only there and on setDescription's transition into stable (tabulated), so a second firing needs a completed exchange or a false check; (3) every successful return of AddTrack, RemoveTrack, AddTransceiverFromKind, AddTransceiverFromTrack and CreateDataChannel has called onNegotiationNeeded; (4) onNegotiationNeeded enqueues the op iff the chain is empty and otherwise arms the deferred flag, which operations.start consumes only after the queue drained.",
		LevelNote: "Trusted: absint soundness on the supported fragment; W3C 4.7.3 steps as transcribed in props/c04.go. Does not decide timing/liveness (that the queued op eventually runs), checkNegotiationNeeded's own completeness, nor the race between IsEmpty and Enqueue (the property's quantifier is sequential).",
		DesignRef: "DESIGN.md §5 C04",
		Run:       runC04,
	})
}

var c04Bools = []absint.Val{absint.BoolVal(false), absint.BoolVal(true)}

const (
	c04FlagKey     = "$recv.isNegotiationNeeded.Load()"
	c04DeferredKey = "$recv.updateNegotiationNeededFlagOnEmptyChain.Load()"
	c04FlagSet     = "$recv.isNegotiationNeeded.Store(true)"
	c04FlagClear   = "$recv.isNegotiationNeeded.Store(false)"
	c04DeferredSet = "$recv.updateNegotiationNeededFlagOnEmptyChain.Store(true)"
	c04DeferredClr = "$recv.updateNegotiationNeededFlagOnEmptyChain.Store(false)"
)

func runC04(c *Ctx) {
	r := c.R
	r.Exhaustive = true
	r.Rule("C04.R1", "negotiationNeededOp, tabulated over (closed, operations empty, signaling state, checkNegotiationNeeded, [[NegotiationNeeded]]): the user handler may be called only in the cell not-closed & empty & stable & needed & flag-clear, there the flag is set first; when the check is false the flag is cleared; when operations are pending only the deferred flag is armed; every other cell has no effect", 128)
	r.Rule("C04.R2", "who-may: the handler is loaded/invoked only in negotiationNeededOp and stored only by OnNegotiationNeeded; [[NegotiationNeeded]] is set true only in negotiationNeededOp and cleared only there and in setDescription, where (tabulated) the clear and the re-check happen exactly on a successful transition into stable, clear first; negotiationNeededOp is referenced only as the operation onNegotiationNeeded enqueues", 152)
	r.Rule("C04.R3", "every return of AddTrack, RemoveTrack, AddTransceiverFromKind, AddTransceiverFromTrack and CreateDataChannel whose error may be nil has called onNegotiationNeeded (directly or through a helper such as addRTPTransceiver)", 5)
	r.Rule("C04.R4", "onNegotiationNeeded enqueues negotiationNeededOp iff the operations chain is empty and otherwise arms the deferred flag; operations.start reads the deferred flag only after pop() returned nil (queue drained), clears it before calling back, and calls back iff it was set; the constructor wires the callback and the flag into the queue", 6)
	r.Rule("C04.R5", "checkNegotiationNeeded: true when there is no current local description; the loop over pc.rtpTransceivers is left early only by `return true`; an iteration goes on to the next transceiver only after its m-section was found in the current local description (step 5.2) and the branch on localDesc.Type (direction vs description, steps 5.3.2/5.3.3) was passed, except through the reviewed skip 'sender's track is nil'", 4)
	r.Rule("C04.R6", "setSendingTrack (how AddTrack/RemoveTrack on a negotiated transceiver become visible to checkNegotiationNeeded), tabulated over (track nil?, direction): every successful outcome with a track ends in a sending direction, every successful outcome without one in a non-sending direction (W3C addTrack / removeTrack direction table)", 8)
	r.NotCovered = append(r.NotCovered,
		"liveness/timing: that the enqueued operation eventually runs and the event fires 'once the connection is stable'",
		"the value-level comparisons of checkNegotiationNeeded (msid / direction attribute contents); C04.R5 decides only that every transceiver is examined",
		"races between IsEmpty and Enqueue / between the state test and the handler call (the quantifier is sequential)")
	r.Trusted = append(r.Trusted, "W3C webrtc §4.7.3 'update the negotiation-needed flag' steps as transcribed in props/c04.go", "absint soundness on the supported fragment")

	op := c.mustFunc("C04.R1", "", "PeerConnection.negotiationNeededOp")
	onNeg := c.mustFunc("C04.R4", "", "PeerConnection.onNegotiationNeeded")
	setter := c.mustFunc("C04.R2", "", "PeerConnection.OnNegotiationNeeded")
	setDesc := c.mustFunc("C04.R2", "", "PeerConnection.setDescription")
	handlerF := c.mustField("C04.R2", "", "PeerConnection", "onNegotiationNeededHandler")
	flagF := c.mustField("C04.R2", "", "PeerConnection", "isNegotiationNeeded")
	deferredF := c.mustField("C04.R4", "", "PeerConnection", "updateNegotiationNeededFlagOnEmptyChain")
	stable := c.mustConst("C04.R1", "", "SignalingStateStable")
	if op == nil || onNeg == nil || setter == nil || setDesc == nil || handlerF == nil || flagF == nil || deferredF == nil || stable == nil {
		return
	}
	states, ok := enumDomain(c, "C04.R1", "", "SignalingState", 77)
	if !ok {
		return
	}
	c04R1(c, op, handlerF, flagF, deferredF, states, absint.ConstOf(stable).String())
	c04R2(c, op, onNeg, setter, setDesc, handlerF, flagF, states)
	c04R3(c, onNeg)
	c04R4(c, op, onNeg, deferredF)
	c04R5(c) // c04b.go
	c04R6(c) // c08c.go
	c13DebugDump(c)
}

// c04HelpersOf returns the functions all of whose static callers are root or other such helpers and that are never
// used as values: code extracted from root into unexported helpers. They are interpreted together with root.
func c04HelpersOf(sc *core.StaticCalls, root *types.Func, candidates map[*types.Func]bool) map[*types.Func]bool {
	helper := map[*types.Func]bool{}
	for changed := true; changed; {
		changed = false
		for f := range candidates {
			if helper[f] || f == root || len(sc.ValueRefs[f]) > 0 || len(sc.Callers[f]) == 0 {
				continue
			}
			ok := true
			for caller := range sc.Callers[f] {
				if caller != root && !helper[caller] {
					ok = false
				}
			}
			if ok {
				helper[f] = true
				changed = true
			}
		}
	}
	return helper
}

// c04Touchers lists the module functions that mention one of the given fields.
func c04Touchers(c *Ctx, fields ...*types.Var) map[*types.Func]bool {
	out := map[*types.Func]bool{}
	for _, fi := range c.P.AllFuncs() {
		if fi.Decl.Body == nil {
			continue
		}
		info := fi.Pkg.TypesInfo
		ast.Inspect(fi.Decl.Body, func(n ast.Node) bool {
			if se, ok := n.(*ast.SelectorExpr); ok {
				f := core.FieldOf(info, se)
				for _, want := range fields {
					if f != nil && f == want {
						out[fi.Obj] = true
					}
				}
			}
			return true
		})
	}
	return out
}

// c04HandlerVars: the local variables (anywhere in the module) that receive <x>.onNegotiationNeededHandler.Load().(func()).
func c04HandlerVars(c *Ctx, handlerF *types.Var) map[*types.Var]bool {
	out := map[*types.Var]bool{}
	for _, fi := range c.P.AllFuncs() {
		if fi.Decl.Body != nil {
			c04HandlerVarsIn(fi, handlerF, out)
		}
	}
	return out
}

func c04HandlerVarsIn(fi *core.FuncInfo, handlerF *types.Var, out map[*types.Var]bool) {
	info := fi.Pkg.TypesInfo
	ast.Inspect(fi.Decl.Body, func(n ast.Node) bool {
		as, ok := n.(*ast.AssignStmt)
		if !ok || len(as.Rhs) != 1 {
			return true
		}
		rhs := ast.Unparen(as.Rhs[0])
		if ta, ok := rhs.(*ast.TypeAssertExpr); ok {
			rhs = ast.Unparen(ta.X)
		}
		call, ok := rhs.(*ast.CallExpr)
		if !ok {
			return true
		}
		if sel, ok := ast.Unparen(call.Fun).(*ast.SelectorExpr); ok && sel.Sel.Name == "Load" && core.FieldOf(info, sel.X) == handlerF {
			if v := core.VarOf(info, as.Lhs[0]); v != nil {
				out[v] = true
			}
		}
		return true
	})
}

func c04R1(c *Ctx, op *core.FuncInfo, handlerF, flagF, deferredF *types.Var, states []absint.Val, stable string) {
	r := c.R
	pos := c.P.Pos(op.Decl.Pos())
	hv := c04HandlerVars(c, handlerF)
	sc := c.P.BuildStaticCalls()
	helpers := c04HelpersOf(sc, op.Obj, c04Touchers(c, handlerF, flagF, deferredF))
	if len(hv) == 0 {
		r.Undecided("C04.R1", "negotiationNeededOp|handler-load", pos, "cannot find the local that receives onNegotiationNeededHandler.Load()")
		return
	}
	dims := []absint.Dim{
		{Key: "$recv.isClosed.Load()", Domain: c04Bools},
		{Key: "$recv.ops.IsEmpty()", Domain: c04Bools},
		{Key: "$recv.SignalingState()", Domain: states},
		{Key: "$recv.checkNegotiationNeeded()", Domain: c04Bools},
		{Key: c04FlagKey, Domain: c04Bools},
	}
	t := absint.Tabulate(absint.Config{P: c.P, Dims: dims,
		Inline:     func(fn *types.Func) bool { return helpers[fn] },
		WatchStore: func(p string) bool { return p == c04FlagKey || p == c04DeferredKey },
		WatchDyn: func(info *types.Info, call *ast.CallExpr) string {
			if v := core.VarOf(info, call.Fun); v != nil && hv[v] {
				return "fire"
			}
			return "dynamic-call:" + exprStr(call.Fun)
		},
	}, op)
	if tableProblems(c, "C04.R1", "negotiationNeededOp|table", pos, t) {
		return
	}
	r.Cells += len(t.Rows)
	for _, row := range t.Rows {
		closed, empty, st := row.Get("$recv.isClosed.Load()") == "true", row.Get("$recv.ops.IsEmpty()") == "true", row.Get("$recv.SignalingState()")
		needed, flag := row.Get("$recv.checkNegotiationNeeded()") == "true", row.Get(c04FlagKey) == "true"
		key := sprintf("negotiationNeededOp|cell|closed=%v,opsEmpty=%v,%s,needed=%v,flag=%v", closed, empty, st, needed, flag)
		// expected effects (W3C 4.7.3.2 steps 1-7)
		var want []string
		mayFire := false
		switch {
		case closed:
		case !empty:
			want = []string{c04DeferredSet}
		case st != stable:
		case !needed:
			want = []string{c04FlagClear}
		case flag:
		default:
			want = []string{c04FlagSet}
			mayFire = true
		}
		bad := ""
		fired := false
		if len(row.Outcomes) == 0 {
			bad = "no outcome computed"
		}
		for _, o := range row.Outcomes {
			if o.Panic != "" {
				bad = "panics: " + o.String()
				break
			}
			tr := append([]string{}, o.Trace...)
			for i := range tr {
				if strings.HasPrefix(tr[i], "fire(") {
					tr[i] = "fire"
				}
			}
			if n := len(tr); n > 0 && tr[n-1] == "fire" {
				if !mayFire {
					bad = sprintf("the negotiationneeded handler is called although %s", c04Why(closed, !empty, st != stable, needed, flag))
					break
				}
				fired = true
				tr = tr[:n-1]
			}
			if strings.Join(tr, "; ") != strings.Join(want, "; ") {
				switch {
				case containsStr(tr, "fire"):
					bad = "the handler is called before [[NegotiationNeeded]] is set (or more than once): " + strings.Join(o.Trace, "; ")
				default:
					bad = sprintf("effects [%s], W3C 4.7.3 prescribes [%s]", strings.Join(o.Trace, "; "), strings.Join(want, "; "))
				}
				break
			}
		}
		if bad == "" && mayFire && !fired {
			bad = "the handler is never called in the one cell where the event must fire"
		}
		r.Check(bad == "", "C04.R1", key, pos, sprintf("effects [%s]%s", strings.Join(want, "; "), map[bool]string{true: " then the handler", false: ""}[mayFire]), bad)
	}
}

func c04Why(closed, pending, notStable, needed, flag bool) string {
	switch {
	case closed:
		return "the connection is closed"
	case pending:
		return "operations are pending"
	case notStable:
		return "the signaling state is not stable"
	case !needed:
		return "no negotiation is needed"
	case flag:
		return "[[NegotiationNeeded]] is already set (no exchange completed since the last event)"
	}
	return "?"
}

func containsStr(s []string, x string) bool {
	for _, e := range s {
		if e == x {
			return true
		}
	}
	return false
}

func c04R2(c *Ctx, op, onNeg, setter, setDesc *core.FuncInfo, handlerF, flagF *types.Var, states []absint.Val) {
	r := c.R
	const rule = "C04.R2"
	// (a)+(b): every use of the two fields in the module
	ctor := c.P.Func("", "API.NewPeerConnection")
	sc := c.P.BuildStaticCalls()
	touch := c04Touchers(c, handlerF, flagF)
	opHelpers := c04HelpersOf(sc, op.Obj, touch)
	sdHelpers := c04HelpersOf(sc, setDesc.Obj, touch)
	inOp := func(fi *core.FuncInfo) bool { return fi == op || opHelpers[fi.Obj] }
	inSetDesc := func(fi *core.FuncInfo) bool { return fi == setDesc || sdHelpers[fi.Obj] }
	for _, fi := range c.P.AllFuncs() {
		if fi.Decl.Body == nil {
			continue
		}
		info := fi.Pkg.TypesInfo
		// method calls on the field: <x>.<field>.<Method>(args)
		accounted := map[ast.Node]bool{}
		ast.Inspect(fi.Decl.Body, func(n ast.Node) bool {
			call, ok := n.(*ast.CallExpr)
			if !ok {
				return true
			}
			sel, ok := ast.Unparen(call.Fun).(*ast.SelectorExpr)
			if !ok {
				return true
			}
			f := core.FieldOf(info, sel.X)
			if f != handlerF && f != flagF {
				return true
			}
			accounted[ast.Unparen(sel.X)] = true
			pos := c.P.Pos(call.Pos())
			m := sel.Sel.Name
			if f == handlerF {
				key := sprintf("handler.%s|in:%s", m, fi.Name())
				switch m {
				case "Load":
					r.Check(inOp(fi), rule, key, pos, "loaded where it is invoked", "the negotiationneeded handler is loaded outside negotiationNeededOp: it can be invoked without the stable/closed/flag tests")
				case "Store":
					r.Check(fi == setter, rule, key, pos, "stored by the public setter", "the negotiationneeded handler is stored outside OnNegotiationNeeded")
				default:
					r.Undecided(rule, key, pos, "unexpected operation on the handler cell")
				}
				return true
			}
			arg := "?"
			if len(call.Args) == 1 {
				if tv := info.Types[call.Args[0]]; tv.Value != nil {
					arg = tv.Value.String()
				}
			}
			key := sprintf("flag.%s(%s)|in:%s", m, arg, fi.Name())
			switch {
			case m == "Load":
				r.Info(rule, key, pos, "read (listed, not judged)")
			case m == "Store" && arg == "true":
				r.Check(inOp(fi), rule, key, pos, "set where the event fires", "[[NegotiationNeeded]] is set outside negotiationNeededOp: a later needed negotiation would be swallowed")
			case m == "Store" && arg == "false":
				r.Check(inOp(fi) || inSetDesc(fi), rule, key, pos, "cleared by the op (check false) or by setDescription (stable reached)",
					"[[NegotiationNeeded]] is cleared outside negotiationNeededOp/setDescription: the event can fire again although no offer/answer exchange completed")
			default:
				r.Undecided(rule, key, pos, "write of [[NegotiationNeeded]] that is neither Store(true) nor Store(false)")
			}
			return true
		})
		// any other mention of the fields
		ast.Inspect(fi.Decl.Body, func(n ast.Node) bool {
			switch x := n.(type) {
			case *ast.SelectorExpr:
				f := core.FieldOf(info, x)
				if (f == handlerF || f == flagF) && !accounted[n] {
					r.Undecided(rule, sprintf("escape:%s|in:%s", f.Name(), fi.Name()), c.P.Pos(x.Pos()), "the cell is used other than through its Load/Store methods (aliasing not analysed)")
				}
			case *ast.KeyValueExpr:
				if id, ok := x.Key.(*ast.Ident); ok {
					if f, _ := info.Uses[id].(*types.Var); f == flagF || (f == handlerF && f != nil) {
						okInit := fi == ctor
						r.Check(okInit, rule, sprintf("init:%s|in:%s", f.Name(), fi.Name()), c.P.Pos(x.Pos()), "initialised by the constructor", "the cell is initialised outside the constructor")
					}
				}
			}
			return true
		})
	}
	// (c) negotiationNeededOp is only the operation onNegotiationNeeded enqueues
	for caller := range sc.Callers[op.Obj] {
		r.Fail(rule, "call:negotiationNeededOp|in:"+core.FuncName(caller), "-", "negotiationNeededOp is called directly, outside the operations chain")
	}
	nRef := 0
	for ref := range sc.ValueRefs[op.Obj] {
		nRef++
		r.Check(ref == onNeg.Obj, rule, "ref:negotiationNeededOp|in:"+core.FuncName(ref), c.P.Pos(onNeg.Decl.Pos()), "handed to the operations chain by onNegotiationNeeded", "negotiationNeededOp is taken as a value outside onNegotiationNeeded")
	}
	if nRef == 0 {
		r.Fail(rule, "ref:negotiationNeededOp|none", c.P.Pos(op.Decl.Pos()), "negotiationNeededOp is never enqueued")
	}

	// (d) setDescription: the flag is cleared and the check re-armed exactly on a successful transition into stable
	check := c.mustFunc(rule, "", "checkNextSignalingState")
	setFn := c.mustFunc(rule, "", "SignalingState.Set")
	newSDPType := c.mustFunc(rule, "", "NewSDPType")
	sdpString := c.mustFunc(rule, "", "SDPType.String")
	stable := c.mustConst(rule, "", "SignalingStateStable")
	ops, ok1 := enumDomain(c, rule, "", "stateChangeOp", 0)
	typs, ok2 := enumDomain(c, rule, "", "SDPType", 77)
	if check == nil || setFn == nil || newSDPType == nil || sdpString == nil || stable == nil || !ok1 || !ok2 {
		return
	}
	inline := map[*types.Func]bool{check.Obj: true, newSDPType.Obj: true, sdpString.Obj: true}
	dims := []absint.Dim{
		{Key: "$p1", Domain: ops},
		{Key: "$p0.Type", Domain: typs},
		{Key: "$recv.SignalingState()", Domain: states},
		{Key: "$recv.isClosed.Load()", Domain: []absint.Val{absint.BoolVal(false)}},
	}
	t := absint.Tabulate(absint.Config{P: c.P, Dims: dims,
		Inline:     func(fn *types.Func) bool { return inline[fn] || sdHelpers[fn] },
		WatchStore: func(p string) bool { return p == c04FlagKey },
		OnCall: func(in *absint.Interp, st *absint.State, call *ast.CallExpr, fn *types.Func, recv absint.Val, args []absint.Val) (absint.Val, bool) {
			switch fn {
			case setFn.Obj:
				if rr, ok := recv.(absint.Ref); ok && len(args) == 1 {
					st.SetPath(rr.Path+".Get()", args[0])
					st.Emit("Set(" + args[0].String() + ")")
					return absint.Tuple{}, true
				}
			case onNeg.Obj:
				st.Emit("onNegotiationNeeded()")
				return absint.Tuple{}, true
			}
			return nil, false
		}}, setDesc)
	pos := c.P.Pos(setDesc.Decl.Pos())
	if tableProblems(c, rule, "setDescription|table", pos, t) {
		return
	}
	r.Cells += len(t.Rows)
	stableName := absint.ConstOf(stable).String()
	intoStable := 0
	for _, row := range t.Rows {
		key := sprintf("setDescription|row|%s(%s) from %s", row.Get("$p1"), row.Get("$p0.Type"), row.Get("$recv.SignalingState()"))
		bad := ""
		for _, o := range row.Outcomes {
			if o.Panic != "" || len(o.Results) != 1 {
				bad = "indefinite outcome " + o.String()
				break
			}
			var sets []string
			clearAt, callAt, nClear, nCall := -1, -1, 0, 0
			for i, ev := range o.Trace {
				switch {
				case strings.HasPrefix(ev, "Set("):
					sets = append(sets, strings.TrimSuffix(strings.TrimPrefix(ev, "Set("), ")"))
				case ev == c04FlagClear:
					clearAt, nClear = i, nClear+1
				case ev == c04FlagSet:
					bad = "setDescription sets [[NegotiationNeeded]]"
				case ev == "onNegotiationNeeded()":
					callAt, nCall = i, nCall+1
				}
			}
			_, failed := o.Results[0].(absint.NonNil)
			reachedStable := !failed && len(sets) == 1 && sets[0] == stableName
			switch {
			case bad != "":
			case reachedStable && (nClear != 1 || nCall != 1):
				bad = sprintf("a successful transition into stable must clear [[NegotiationNeeded]] once and re-run the negotiation-needed check once; got %d clear(s), %d check(s)", nClear, nCall)
			case reachedStable && clearAt > callAt:
				bad = "the negotiation-needed check is queued before [[NegotiationNeeded]] is cleared: a needed negotiation is swallowed"
			case !reachedStable && (nClear != 0 || nCall != 0):
				bad = sprintf("[[NegotiationNeeded]] is cleared / the check re-armed although the call did not reach stable (error=%v, Set=%v): the event can fire again without a completed exchange", failed, sets)
			}
			if reachedStable {
				intoStable++
			}
			if bad != "" {
				bad += "  [" + o.String() + "]"
				break
			}
		}
		if len(row.Outcomes) == 0 {
			bad = "no outcome computed"
		}
		r.Check(bad == "", rule, key, pos, "flag cleared and check re-armed iff stable was reached", bad)
	}
	r.Check(intoStable >= 4, rule, "setDescription|edges-into-stable", pos, sprintf("%d successful outcomes reach stable and re-arm the check", intoStable), "fewer than four transitions into stable found: the re-arming clause would be vacuous")
}

// c04R3: must-pass-through for the five API calls.
func c04R3(c *Ctx, onNeg *core.FuncInfo) {
	r := c.R
	sc := c.P.BuildStaticCalls()
	reach := sc.MayReach(onNeg.Obj)
	names := []string{"AddTrack", "RemoveTrack", "AddTransceiverFromKind", "AddTransceiverFromTrack", "CreateDataChannel"}
	for _, nm := range names {
		fi := c.mustFunc("C04.R3", "", "PeerConnection."+nm)
		if fi == nil {
			continue
		}
		pos := c.P.Pos(fi.Decl.Pos())
		key := "must-call-onNegotiationNeeded|" + fi.Name()
		t := absint.Tabulate(absint.Config{P: c.P, MaxPaths: 400000, MaxDepth: 5,
			Dims: []absint.Dim{{Key: "$recv.isClosed.Load()", Domain: []absint.Val{absint.BoolVal(false)}}},
			// helpers through which the call may happen are interpreted
			Inline: func(fn *types.Func) bool { return reach[fn] && fn != fi.Obj },
			OnCall: func(in *absint.Interp, st *absint.State, call *ast.CallExpr, fn *types.Func, recv absint.Val, args []absint.Val) (absint.Val, bool) {
				if fn == onNeg.Obj {
					st.Emit("onNegotiationNeeded()")
					return absint.Tuple{}, true
				}
				return nil, false
			}}, fi)
		if tableProblems(c, "C04.R3", key, pos, t) {
			continue
		}
		r.Cells += t.Paths
		bad := ""
		nOK, nErr := 0, 0
		for _, row := range t.Rows {
			for _, o := range row.Outcomes {
				if o.Panic != "" {
					continue // a panic is not a successful return
				}
				if len(o.Results) == 0 {
					bad = "outcome without results: " + o.String()
					continue
				}
				if _, isErr := o.Results[len(o.Results)-1].(absint.NonNil); isErr {
					nErr++
					continue
				}
				if !containsStr(o.Trace, "onNegotiationNeeded()") {
					bad = "a return whose error may be nil is reachable without onNegotiationNeeded(): " + o.String()
					continue
				}
				nOK++
			}
		}
		if bad == "" && nOK == 0 {
			bad = "no successful outcome found"
		}
		r.Check(bad == "", "C04.R3", key, pos, sprintf("%d successful outcome(s) all after onNegotiationNeeded(); %d error outcome(s)", nOK, nErr), bad)
	}
	if c.Thorough {
		// list every exported PeerConnection method that can reach onNegotiationNeeded (discovery aid, not judged)
		pcT := c.P.Named("", "PeerConnection")
		for _, fi := range c.P.AllFuncs() {
			sig := fi.Obj.Type().(*types.Signature)
			if sig.Recv() == nil || !fi.Obj.Exported() || !reach[fi.Obj] {
				continue
			}
			rt := sig.Recv().Type()
			if p, ok := rt.(*types.Pointer); ok {
				rt = p.Elem()
			}
			if pcT != nil && types.Identical(rt, pcT) {
				r.Info("C04.R3", "reaches-onNegotiationNeeded|"+fi.Name(), c.P.Pos(fi.Decl.Pos()), "exported method that can reach onNegotiationNeeded (static call relation)")
			}
		}
	}
}

var c04StartTrace = regexp.MustCompile(`^pop( op pop)*( clear renegotiate)?$`)

func c04R4(c *Ctx, op, onNeg *core.FuncInfo, deferredF *types.Var) {
	r := c.R
	const rule = "C04.R4"
	enqueue := c.mustFunc(rule, "", "operations.Enqueue")
	start := c.mustFunc(rule, "", "operations.start")
	pop := c.mustFunc(rule, "", "operations.pop")
	newOps := c.mustFunc(rule, "", "newOperations")
	cbField := c.mustField(rule, "", "operations", "onNegotiationNeeded")
	opsFlag := c.mustField(rule, "", "operations", "updateNegotiationNeededFlagOnEmptyChain")
	ctor := c.mustFunc(rule, "", "API.NewPeerConnection")
	if enqueue == nil || start == nil || pop == nil || newOps == nil || cbField == nil || opsFlag == nil || ctor == nil {
		return
	}
	// onNegotiationNeeded
	{
		pos := c.P.Pos(onNeg.Decl.Pos())
		t := absint.Tabulate(absint.Config{P: c.P, Dims: []absint.Dim{{Key: "$recv.ops.IsEmpty()", Domain: c04Bools}},
			WatchStore: func(p string) bool { return p == c04DeferredKey || p == c04FlagKey },
			OnCall: func(in *absint.Interp, st *absint.State, call *ast.CallExpr, fn *types.Func, recv absint.Val, args []absint.Val) (absint.Val, bool) {
				if fn == enqueue.Obj {
					st.Emit("Enqueue" + absint.Tuple(args).String())
					return absint.Tuple{}, true
				}
				return nil, false
			}}, onNeg)
		if !tableProblems(c, rule, "onNegotiationNeeded|table", pos, t) {
			r.Cells += len(t.Rows)
			wantEnq := "Enqueue(func:" + core.FuncName(op.Obj) + ")"
			for _, row := range t.Rows {
				empty := row.Get("$recv.ops.IsEmpty()") == "true"
				key := sprintf("onNegotiationNeeded|opsEmpty=%v", empty)
				want := c04DeferredSet
				if empty {
					want = wantEnq
				}
				ok := len(row.Outcomes) == 1 && row.Outcomes[0].Panic == "" && strings.Join(row.Outcomes[0].Trace, "; ") == want
				r.Check(ok, rule, key, pos, want, "expected exactly ["+want+"], got "+outcomesStr(row.Outcomes))
			}
		}
	}
	// operations.start
	{
		pos := c.P.Pos(start.Decl.Pos())
		info := start.Pkg.TypesInfo
		t := absint.Tabulate(absint.Config{P: c.P, Dims: []absint.Dim{{Key: c04DeferredKey, Domain: c04Bools}},
			WatchStore: func(p string) bool { return p == c04DeferredKey },
			WatchDyn: func(_ *types.Info, call *ast.CallExpr) string {
				if core.FieldOf(info, call.Fun) == cbField {
					return "renegotiate"
				}
				return "op"
			},
			OnCall: func(in *absint.Interp, st *absint.State, call *ast.CallExpr, fn *types.Func, recv absint.Val, args []absint.Val) (absint.Val, bool) {
				if fn == pop.Obj {
					st.Emit("pop")
					return absint.Top{}, true
				}
				return nil, false
			}}, start)
		if !tableProblems(c, rule, "operations.start|table", pos, t) {
			r.Cells += len(t.Rows)
			for _, row := range t.Rows {
				set := row.Get(c04DeferredKey) == "true"
				key := sprintf("operations.start|deferredFlag=%v", set)
				bad := ""
				if len(row.Outcomes) == 0 {
					bad = "no outcome"
				}
				for _, o := range row.Outcomes {
					if o.Panic != "" {
						continue
					}
					var ev []string
					for _, e := range o.Trace {
						switch {
						case e == "pop":
							ev = append(ev, "pop")
						case strings.HasPrefix(e, "op("):
							ev = append(ev, "op")
						case strings.HasPrefix(e, "renegotiate("):
							ev = append(ev, "renegotiate")
						case e == c04DeferredClr:
							ev = append(ev, "clear")
						case e == c04DeferredSet:
							ev = append(ev, "set")
						}
					}
					s := strings.Join(ev, " ")
					switch {
					case !c04StartTrace.MatchString(s):
						bad = "the deferred flag must be consumed only after pop() returned nil, cleared first, then the callback: got [" + s + "]"
					case set != strings.HasSuffix(s, "renegotiate"):
						bad = sprintf("callback %v although the deferred flag is %v: [%s]", strings.HasSuffix(s, "renegotiate"), set, s)
					}
				}
				r.Check(bad == "", rule, key, pos, "drain queue, then clear+callback iff the deferred flag was set", bad)
			}
		}
	}
	// wiring: newOperations stores its parameters into the two fields; the constructor passes pc's flag and pc.onNegotiationNeeded
	{
		info := newOps.Pkg.TypesInfo
		sig := newOps.Obj.Type().(*types.Signature)
		okCB, okFlag := false, false
		ast.Inspect(newOps.Decl.Body, func(n ast.Node) bool {
			kv, ok := n.(*ast.KeyValueExpr)
			if !ok {
				return true
			}
			id, ok := kv.Key.(*ast.Ident)
			if !ok {
				return true
			}
			v := core.VarOf(info, kv.Value)
			switch info.Uses[id] {
			case types.Object(cbField):
				okCB = v != nil && sig.Params().Len() == 2 && v == sig.Params().At(1)
			case types.Object(opsFlag):
				okFlag = v != nil && sig.Params().Len() == 2 && v == sig.Params().At(0)
			}
			return true
		})
		r.Check(okCB && okFlag, rule, "newOperations|stores-flag-and-callback", c.P.Pos(newOps.Decl.Pos()), "fields initialised from the two parameters", "newOperations no longer stores its flag/callback parameters into the queue")
		// other writes of the two fields
		for _, fi := range c.P.AllFuncs() {
			if fi.Decl.Body == nil {
				continue
			}
			finfo := fi.Pkg.TypesInfo
			ast.Inspect(fi.Decl.Body, func(n ast.Node) bool {
				if as, ok := n.(*ast.AssignStmt); ok {
					for _, l := range as.Lhs {
						if f := core.FieldOf(finfo, l); f == cbField || (f == opsFlag && f != nil) {
							r.Fail(rule, "write:operations."+f.Name()+"|in:"+fi.Name(), c.P.Pos(l.Pos()), "the queue's callback/flag is re-assigned after construction")
						}
					}
				}
				return true
			})
		}
		cinfo := ctor.Pkg.TypesInfo
		n := 0
		ast.Inspect(ctor.Decl.Body, func(x ast.Node) bool {
			call, ok := x.(*ast.CallExpr)
			if !ok || !core.IsCallTo(cinfo, call, newOps.Obj) || len(call.Args) != 2 {
				return true
			}
			n++
			okA := core.FieldOf(cinfo, call.Args[0]) == deferredF
			okB := false
			if se, ok := ast.Unparen(call.Args[1]).(*ast.SelectorExpr); ok && cinfo.Uses[se.Sel] == types.Object(onNeg.Obj) {
				okB = true
			}
			r.Check(okA && okB, rule, "NewPeerConnection|wires-operations", c.P.Pos(call.Pos()), "newOperations(pc.updateNegotiationNeededFlagOnEmptyChain, pc.onNegotiationNeeded)",
				"the operations queue is not wired to the connection's deferred flag and onNegotiationNeeded")
			return true
		})
		if n != 1 {
			r.Fail(rule, "NewPeerConnection|wires-operations", c.P.Pos(ctor.Decl.Pos()), sprintf("expected one newOperations call in the constructor, found %d", n))
		}
		_ = token.NoPos
	}
}
