package props

import (
	"go/ast"
	"go/types"
	"sort"

	"verif/checker/core"
)

// c40R4: guarded storage is not read through a stale alias.
//
// R2 judges every *selection* of a guarded field. A slice or map header copied
// into a local while the lock is held (`bs := s.bindings`) and then ranged or
// indexed after the lock was released reads the shared backing store without
// the lock. That is harmless for a slice that is only ever grown by append
// (elements below the copied length are never rewritten), and a data race for
// storage that is edited in place: element assignment, swap/shift removal
// (`x.f[i] = …`, `x.f = append(x.f[:i], …)`, `x.f = x.f[:n]`), and every map.
// The rule finds, per mutex-guarded field, whether in-place edits exist in the
// module, and then requires every element access through a local alias of
// such a field to hold the guard. (Added after seeds C40-m2 / C29-m2.)
func c40R4(c *Ctx) {
	r := c.R
	idx := c40FieldIndex(c)
	root := c.P.Pkg("")
	// 1. which guarded slice fields are edited in place; maps always are
	inPlace := map[*types.Var]string{}
	for f, key := range idx {
		g, ok := c40Table[key]
		if !ok || g.Kind != "mutex" {
			continue
		}
		if _, isMap := f.Type().Underlying().(*types.Map); isMap {
			inPlace[f] = "map"
		}
	}
	for _, fi := range c.P.AllFuncs() {
		if fi.Pkg != root || fi.Decl.Body == nil {
			continue
		}
		info := fi.Pkg.TypesInfo
		ast.Inspect(fi.Decl.Body, func(x ast.Node) bool {
			as, ok := x.(*ast.AssignStmt)
			if !ok {
				return true
			}
			for i, l := range as.Lhs {
				l = ast.Unparen(l)
				// x.f[i] = v
				if ix, ok := l.(*ast.IndexExpr); ok {
					if f := core.FieldOf(info, ix.X); f != nil {
						if _, isSl := f.Type().Underlying().(*types.Slice); isSl && idx[f] != "" {
							inPlace[f] = "element assignment in " + fi.Name()
						}
					}
					continue
				}
				f := core.FieldOf(info, l)
				if f == nil || idx[f] == "" || i >= len(as.Rhs) {
					continue
				}
				if _, isSl := f.Type().Underlying().(*types.Slice); !isSl {
					continue
				}
				rhs := ast.Unparen(as.Rhs[i])
				// x.f = x.f[:n]  /  x.f = append(x.f[:i], …)
				reslice := func(e ast.Expr) bool {
					se, ok := ast.Unparen(e).(*ast.SliceExpr)
					return ok && core.FieldOf(info, se.X) == f
				}
				if reslice(rhs) {
					inPlace[f] = "re-slicing in " + fi.Name()
				}
				if call, ok := rhs.(*ast.CallExpr); ok && len(call.Args) >= 1 {
					if id, ok := call.Fun.(*ast.Ident); ok && id.Name == "append" && reslice(call.Args[0]) {
						inPlace[f] = "shift removal in " + fi.Name()
					}
				}
			}
			return true
		})
	}
	var fields []*types.Var
	for f := range inPlace {
		fields = append(fields, f)
	}
	sort.Slice(fields, func(i, j int) bool { return idx[fields[i]] < idx[fields[j]] })
	for _, f := range fields {
		r.Info("C40.R4", "in-place-edited|"+idx[f], "-", inPlace[f])
	}
	// 2. element accesses through local aliases
	n := 0
	judgeBody := func(owner *core.FuncInfo, g *core.Graph, name string) {
		if g == nil {
			return
		}
		info := g.Info
		li := core.Locks(g)
		alias := map[*types.Var]*types.Var{} // local -> field
		for _, nd := range g.Nodes {
			as, ok := nd.Ast.(*ast.AssignStmt)
			if !ok || len(as.Lhs) != len(as.Rhs) {
				continue
			}
			for i, l := range as.Lhs {
				v := core.VarOf(info, l)
				f := core.FieldOf(info, as.Rhs[i])
				if v != nil && f != nil && inPlace[f] != "" {
					alias[v] = f
				}
			}
		}
		if len(alias) == 0 {
			return
		}
		for _, nd := range g.Nodes {
			if nd.Ast == nil {
				continue
			}
			var uses []*types.Var
			switch x := nd.Ast.(type) {
			case *ast.RangeStmt:
				// go/cfg does not place the RangeStmt itself; its X is a node of its own (handled below as an expression)
				_ = x
			}
			core.InspectShallow(nd.Ast, func(y ast.Node) bool {
				switch e := y.(type) {
				case *ast.IndexExpr:
					if v := core.VarOf(info, e.X); v != nil && alias[v] != nil {
						uses = append(uses, v)
					}
				case *ast.SliceExpr:
					if v := core.VarOf(info, e.X); v != nil && alias[v] != nil {
						uses = append(uses, v)
					}
				}
				return true
			})
			// the operand of a range statement appears as a bare expression node
			if e, ok := nd.Ast.(ast.Expr); ok {
				if v := core.VarOf(info, e); v != nil && alias[v] != nil && c40IsRangeOperand(g, e) {
					uses = append(uses, v)
				}
			}
			for _, v := range uses {
				f := alias[v]
				guard := c40Table[idx[f]]
				held := li.HeldClasses(li.In[nd.ID])
				n++
				key := "alias-access|" + idx[f] + "|in:" + name + "|via:" + v.Name()
				_, ok := held[guard.Class]
				if tn, _, _ := stringsCut(idx[f], "."); !ok && c40Extended[tn] {
					r.Info("C40.R4", key, c.P.Pos(g.PosOf(nd.ID)), "extended scope (type outside the property's call set: listed, not judged): element access through `"+v.Name()+"` without "+guard.Class+"; "+inPlace[f])
					continue
				}
				r.Check(ok, "C40.R4", key, c.P.Pos(g.PosOf(nd.ID)), "element access through the alias holds "+guard.Class,
					"`"+v.Name()+"` is a copy of the slice/map header of "+idx[f]+" ("+inPlace[f]+" elsewhere) and is ranged/indexed here without "+guard.Class+": a concurrent in-place edit races with this read and can make an element be visited twice or not at all")
			}
		}
	}
	for _, fi := range c.P.AllFuncs() {
		if fi.Pkg != root || fi.Decl.Body == nil {
			continue
		}
		judgeBody(fi, c.P.GraphOf(fi), fi.Name())
		k := 0
		ast.Inspect(fi.Decl.Body, func(x ast.Node) bool {
			if fl, ok := x.(*ast.FuncLit); ok {
				k++
				judgeBody(fi, c.P.GraphOfLit(fl), sprintf("%s$%d", fi.Name(), k))
			}
			return true
		})
	}
	r.Cells += n
	if n == 0 {
		r.OK("C40.R4", "alias-access|none", "-", sprintf("no element access through a local alias of the %d in-place-edited guarded fields", len(inPlace)))
	}
}

func stringsCut(s, sep string) (string, string, bool) {
	for i := 0; i+len(sep) <= len(s); i++ {
		if s[i:i+len(sep)] == sep {
			return s[:i], s[i+len(sep):], true
		}
	}
	return s, "", false
}

// c40IsRangeOperand reports whether expression e is the operand X of a range statement of the graph's body.
func c40IsRangeOperand(g *core.Graph, e ast.Expr) bool {
	found := false
	ast.Inspect(g.Body, func(x ast.Node) bool {
		if rs, ok := x.(*ast.RangeStmt); ok && rs.X == e {
			found = true
		}
		return !found
	})
	return found
}
