package props

import (
	"go/ast"
	"go/token"
	"go/types"
	"sort"
	"strings"

	"verif/checker/core"
)

// c16R7: a preference given without a payload type follows the offer's numbering. RTPTransceiver.getCodecs is the only
// codec source of an answer section (C16.R2); a preference it returns carries the payload type of the element of
// getCodecsByKind(t.kind) it matched (the negotiated, remote-numbered list once negotiated) unless the application chose
// one itself. So in getCodecs' loop every path to the append of a preference passes `pref.PayloadType = <match>.PayloadType`
// for the match of the same iteration or a test that pref.PayloadType != 0; and SetCodecPreferences never fills in a payload
// type itself (at that time the list is the locally registered one).
func c16R7(c *Ctx, rule string) {
	r := c.R
	getCodecs := c.mustFunc(rule, "", "RTPTransceiver.getCodecs")
	setPrefs := c.mustFunc(rule, "", "RTPTransceiver.SetCodecPreferences")
	fuzzy := c.mustFunc(rule, "", "codecParametersFuzzySearch")
	codecsF := c.mustField(rule, "", "RTPTransceiver", "codecs")
	ptF := c.mustField(rule, "", "RTPCodecParameters", "PayloadType")
	if getCodecs == nil || setPrefs == nil || fuzzy == nil || codecsF == nil || ptF == nil {
		return
	}
	g := c.P.GraphOf(getCodecs)
	info := g.Info
	pos := c.P.Pos(getCodecs.Decl.Pos())
	var loop *c06Loop
	for _, l := range c06RangeLoops(g) {
		if core.FieldOf(info, l.Range.X) == codecsF && l.ValueVar != nil {
			loop = l
		}
	}
	if loop == nil {
		r.Undecided(rule, "getCodecs|preference-loop", pos, "no `for _, pref := range t.codecs` loop in getCodecs")
	} else {
		l := loop
		pref := l.ValueVar
		// match variables: result 0 of codecParametersFuzzySearch(pref, ...) in the body
		match := map[*types.Var]bool{}
		for n := range l.Body {
			as, ok := g.Nodes[n].Ast.(*ast.AssignStmt)
			if !ok || len(as.Rhs) != 1 || len(as.Lhs) < 1 {
				continue
			}
			call, ok := ast.Unparen(as.Rhs[0]).(*ast.CallExpr)
			if ok && core.IsCallTo(info, call, fuzzy.Obj) && len(call.Args) == 2 && core.VarOf(info, call.Args[0]) == pref {
				if v := core.VarOf(info, as.Lhs[0]); v != nil {
					match[v] = true
				}
			}
		}
		isPrefPT := func(e ast.Expr) bool {
			sel, ok := ast.Unparen(e).(*ast.SelectorExpr)
			return ok && core.FieldOf(info, sel) == ptF && core.VarOf(info, sel.X) == pref
		}
		resolves := func(n int) bool {
			as, ok := g.Nodes[n].Ast.(*ast.AssignStmt)
			if !ok || len(as.Lhs) != len(as.Rhs) {
				return false
			}
			for i, lh := range as.Lhs {
				if !isPrefPT(lh) {
					continue
				}
				sel, ok := ast.Unparen(as.Rhs[i]).(*ast.SelectorExpr)
				if ok && core.FieldOf(info, sel) == ptF && match[core.VarOf(info, sel.X)] {
					return true
				}
			}
			return false
		}
		nonZeroEdge := func(e core.Edge) bool {
			if e.Cond == nil || e.Tag != nil || e.Branch == 0 {
				return false
			}
			b, ok := ast.Unparen(e.Cond).(*ast.BinaryExpr)
			if !ok || (b.Op != token.EQL && b.Op != token.NEQ) || (e.Branch == 1) != (b.Op == token.NEQ) {
				return false
			}
			isZero := func(x ast.Expr) bool {
				tv, ok := info.Types[x]
				return ok && tv.Value != nil && tv.Value.ExactString() == "0"
			}
			return isPrefPT(b.X) && isZero(b.Y) || isPrefPT(b.Y) && isZero(b.X)
		}
		// appends of pref
		var appends []int
		for n := range l.Body {
			a := g.Nodes[n].Ast
			if a == nil {
				continue
			}
			core.InspectShallow(a, func(x ast.Node) bool {
				call, ok := x.(*ast.CallExpr)
				if !ok {
					return true
				}
				if id, ok := call.Fun.(*ast.Ident); ok && id.Name == "append" && info.Uses[id] == types.Universe.Lookup("append") {
					for _, arg := range call.Args[1:] {
						if core.VarOf(info, arg) == pref {
							appends = append(appends, n)
						}
					}
				}
				return true
			})
		}
		sort.Ints(appends)
		if len(appends) == 0 {
			r.Undecided(rule, "getCodecs|preference-loop|append", c.P.Pos(l.Range.Pos()), "the loop over t.codecs never appends its element")
		}
		reach := g.Reach([]int{l.BodyEntry}, func(x int) bool { return !l.Body[x] || resolves(x) }, func(from, idx int, e core.Edge) bool { return nonZeroEdge(e) })
		for i, a := range appends {
			r.Cells++
			r.Check(!reach[a] || resolves(a), rule, sprintf("getCodecs|preference-loop|append#%d|payload-type-resolved", i+1), c.P.Pos(g.PosOf(a)),
				"a returned preference has its own non-zero payload type or the one of the element of getCodecsByKind(t.kind) it matched in this iteration",
				"a preference can be returned with PayloadType 0 never resolved against the list it matched (getCodecsByKind(t.kind): the negotiated, remote-numbered codecs): the answer lists a payload type the offer did not contain")
		}
	}
	// SetCodecPreferences leaves payload types alone
	{
		info := setPrefs.Pkg.TypesInfo
		var bad []string
		ast.Inspect(setPrefs.Decl.Body, func(x ast.Node) bool {
			as, ok := x.(*ast.AssignStmt)
			if !ok {
				return true
			}
			for _, lh := range as.Lhs {
				if sel, ok := ast.Unparen(lh).(*ast.SelectorExpr); ok && core.FieldOf(info, sel) == ptF {
					bad = append(bad, c.P.Pos(as.Pos()))
				}
			}
			return true
		})
		r.Check(len(bad) == 0, rule, "SetCodecPreferences|does-not-resolve-payload-types", c.P.Pos(setPrefs.Decl.Pos()), "SetCodecPreferences stores the preferences without filling in payload types",
			"SetCodecPreferences writes a PayloadType (at "+strings.Join(bad, ", ")+"): a payload-type-less preference is frozen to the numbering of the list known when it was set (the locally registered one before negotiation) instead of following the offer")
	}
}

// c16R9: the negotiated codec set - what every later answer is built from - grows only from remote descriptions that were
// ACCEPTED: in SetRemoteDescription the call of MediaEngine.updateFromRemoteDescription is dominated by the success of
// pc.setDescription (the signaling-state check). A refused description (a stray answer in stable) that still pushed its
// codecs would make a later answer list codecs the offer it answers never contained.
func c16R9(c *Ctx) {
	r := c.R
	const rule = "C16.R9"
	srd := c.mustFunc(rule, "", "PeerConnection.SetRemoteDescription")
	upd := c.mustFunc(rule, "", "MediaEngine.updateFromRemoteDescription")
	setDesc := c.mustFunc(rule, "", "PeerConnection.setDescription")
	if srd == nil || upd == nil || setDesc == nil {
		return
	}
	g := c.P.GraphOf(srd)
	info := g.Info
	pos := c.P.Pos(srd.Decl.Pos())
	find := func(fn *types.Func) []int {
		var out []int
		for _, n := range g.Nodes {
			if n.Ast == nil {
				continue
			}
			hit := false
			core.InspectShallow(n.Ast, func(x ast.Node) bool {
				if call, ok := x.(*ast.CallExpr); ok && core.IsCallTo(info, call, fn) {
					hit = true
				}
				return true
			})
			if hit {
				out = append(out, n.ID)
			}
		}
		return out
	}
	us, ss := find(upd.Obj), find(setDesc.Obj)
	key := "SetRemoteDescription|codecs-learnt-only-after-the-state-check"
	if len(us) == 0 {
		r.OK(rule, key, pos, "SetRemoteDescription does not update the MediaEngine itself")
		return
	}
	if len(ss) != 1 {
		r.Undecided(rule, key, pos, sprintf("expected one pc.setDescription call in SetRemoteDescription, found %d", len(ss)))
		return
	}
	s := ss[0]
	var errVar *types.Var
	if as, ok := g.Nodes[s].Ast.(*ast.AssignStmt); ok && len(as.Lhs) == 1 {
		errVar = core.VarOf(info, as.Lhs[0])
	}
	if errVar == nil {
		r.Undecided(rule, key, c.P.Pos(g.PosOf(s)), "the result of pc.setDescription is not assigned to an error variable")
		return
	}
	nilEdge := func(e core.Edge) bool {
		if e.Cond == nil || e.Tag != nil || e.Branch == 0 {
			return false
		}
		b, ok := ast.Unparen(e.Cond).(*ast.BinaryExpr)
		if !ok || (b.Op != token.EQL && b.Op != token.NEQ) || (e.Branch == 1) != (b.Op == token.EQL) {
			return false
		}
		return core.VarOf(info, b.X) == errVar && core.IsNilIdent(info, b.Y) || core.VarOf(info, b.Y) == errVar && core.IsNilIdent(info, b.X)
	}
	for i, u := range us {
		ok := g.Dominated(u, map[int]bool{s: true})
		if ok {
			// from the state check, the update is reachable only through the edge that establishes its error nil
			reach := g.Reach([]int{s}, nil, func(from, idx int, e core.Edge) bool { return nilEdge(e) })
			if reach[u] && u != s {
				ok = false
			}
		}
		r.Cells++
		r.Check(ok, rule, sprintf("%s#%d", key, i+1), c.P.Pos(g.PosOf(u)), "updateFromRemoteDescription runs only after pc.setDescription returned nil",
			"SetRemoteDescription hands the description to MediaEngine.updateFromRemoteDescription before (or regardless of) the signaling-state check: a description that is then refused has already pushed its codecs into the negotiated set, and a later answer lists codecs its offer never contained")
	}
}
