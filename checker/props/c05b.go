package props

import (
	"go/ast"
	"go/token"
	"go/types"
	"sort"
	"strings"

	"verif/checker/core"
)

// c05R6 (C05.R6 / C21.R7): "after a graceful close, nothing queued later runs" / "once GracefulClose returns no goroutine
// started by the connection is still running" need PeerConnection.close(graceful) to close AND wait for the operations
// queue on every return of a graceful caller - also on the path of a caller that lost the isClosed swap to a plain
// Close(). Path rule: from the entry of close(), without passing a point that calls pc.ops.GracefulClose() (directly, or
// through a local closure / same-package helper every graceful path of which calls it) and without taking a branch that
// establishes `!shouldGracefullyClose` or "another graceful closer is already at work" (the sampled
// isGracefullyClosingOrClosed flag), no return is reachable.
func c05R6(c *Ctx, rule string) {
	r := c.R
	closeFn := c.mustFunc(rule, "", "PeerConnection.close")
	opsF := c.mustField(rule, "", "PeerConnection", "ops")
	gcFn := c.mustFunc(rule, "", "operations.GracefulClose")
	gracefulFlagF := c.mustField(rule, "", "PeerConnection", "isGracefullyClosingOrClosed")
	if closeFn == nil || opsF == nil || gcFn == nil || gracefulFlagF == nil {
		return
	}
	g := c.P.GraphOf(closeFn)
	info := g.Info
	pos := c.P.Pos(closeFn.Decl.Pos())
	key := "close|graceful-caller-closes-and-waits-for-the-queue"
	sig := closeFn.Obj.Type().(*types.Signature)
	var graceful *types.Var
	for i := 0; i < sig.Params().Len(); i++ {
		if types.Identical(sig.Params().At(i).Type(), types.Typ[types.Bool]) {
			graceful = sig.Params().At(i)
		}
	}
	if graceful == nil {
		r.Undecided(rule, key, pos, "close no longer takes the graceful flag")
		return
	}
	// locals sampled from the "already graceful" flag
	already := map[*types.Var]bool{}
	for _, n := range g.Nodes {
		as, ok := n.Ast.(*ast.AssignStmt)
		if !ok || len(as.Lhs) != len(as.Rhs) {
			continue
		}
		for i, rh := range as.Rhs {
			if core.FieldOf(info, rh) == gracefulFlagF {
				if v := core.VarOf(info, as.Lhs[i]); v != nil {
					already[v] = true
				}
			}
		}
	}
	var notRequiredIn func(inf *types.Info, gv map[*types.Var]bool, e ast.Expr, truth bool) bool
	notRequiredIn = func(inf *types.Info, gv map[*types.Var]bool, e ast.Expr, truth bool) bool {
		switch v := ast.Unparen(e).(type) {
		case *ast.UnaryExpr:
			if v.Op == token.NOT {
				return notRequiredIn(inf, gv, v.X, !truth)
			}
		case *ast.BinaryExpr:
			switch {
			case v.Op == token.LAND && truth, v.Op == token.LOR && !truth:
				return notRequiredIn(inf, gv, v.X, truth) || notRequiredIn(inf, gv, v.Y, truth)
			case v.Op == token.LAND && !truth, v.Op == token.LOR && truth:
				return notRequiredIn(inf, gv, v.X, truth) && notRequiredIn(inf, gv, v.Y, truth)
			}
		case *ast.Ident:
			vv := core.VarOf(inf, v)
			return gv[vv] && !truth || already[vv] && truth
		}
		return false
	}
	gracefulVars := map[*types.Var]bool{graceful: true}
	notRequired := func(e ast.Expr, truth bool) bool { return notRequiredIn(info, gracefulVars, e, truth) }
	directCall := func(info *types.Info, n ast.Node) bool {
		found := false
		core.InspectShallow(n, func(x ast.Node) bool {
			if call, ok := x.(*ast.CallExpr); ok && core.IsCallTo(info, call, gcFn.Obj) {
				if sel, ok := ast.Unparen(call.Fun).(*ast.SelectorExpr); ok && core.FieldOf(info, sel.X) == opsF {
					found = true
				}
			}
			return true
		})
		return found
	}
	// does every graceful path of graph lg (a closure of close, or a helper) call the queue's GracefulClose?
	qualifiesWith := func(lg *core.Graph, gv map[*types.Var]bool) bool {
		pts := map[int]bool{}
		for _, n := range lg.Nodes {
			if n.Ast == nil {
				continue
			}
			if _, isDefer := n.Ast.(*ast.DeferStmt); isDefer {
				continue
			}
			if _, isGo := n.Ast.(*ast.GoStmt); isGo {
				continue
			}
			if directCall(lg.Info, n.Ast) {
				pts[n.ID] = true
			}
		}
		if len(pts) == 0 {
			return false
		}
		reach := lg.ReachFromEntry(func(x int) bool { return pts[x] }, func(from, idx int, e core.Edge) bool {
			return e.Cond != nil && e.Tag == nil && e.Branch != 0 && notRequiredIn(lg.Info, gv, e.Cond, e.Branch == 1)
		})
		return !reach[lg.Exit]
	}
	qualifies := func(lg *core.Graph) bool { return qualifiesWith(lg, gracefulVars) }
	// closures bound to locals of close()
	closureOK := map[*types.Var]bool{}
	ast.Inspect(closeFn.Decl.Body, func(x ast.Node) bool {
		as, ok := x.(*ast.AssignStmt)
		if !ok || len(as.Lhs) != len(as.Rhs) {
			return true
		}
		for i, rh := range as.Rhs {
			if fl, ok := ast.Unparen(rh).(*ast.FuncLit); ok {
				if v := core.VarOf(info, as.Lhs[i]); v != nil {
					if lg := c.P.GraphOfLit(fl); lg != nil {
						closureOK[v] = qualifies(lg)
					}
				}
			}
		}
		return true
	})
	pts := map[int]bool{}
	for _, n := range g.Nodes {
		if n.Ast == nil {
			continue
		}
		if _, isDefer := n.Ast.(*ast.DeferStmt); isDefer {
			continue
		}
		if _, isGo := n.Ast.(*ast.GoStmt); isGo {
			continue
		}
		if directCall(info, n.Ast) {
			pts[n.ID] = true
		}
		core.InspectShallow(n.Ast, func(x ast.Node) bool {
			call, ok := x.(*ast.CallExpr)
			if !ok {
				return true
			}
			if v := core.VarOf(info, call.Fun); v != nil && closureOK[v] {
				pts[n.ID] = true
			}
			if fn := core.Callee(info, call); fn != nil && fn != gcFn.Obj {
				if d := c.P.DeclOf(fn); d != nil && d.Pkg == closeFn.Pkg && d.Decl != nil && d.Decl.Body != nil && d != closeFn {
					if hg := c.P.GraphOf(d); hg != nil {
						// the helper's bool parameters that receive the graceful flag play its role inside the helper
						gv := map[*types.Var]bool{}
						hsig := fn.Type().(*types.Signature)
						for k, a := range call.Args {
							if k < hsig.Params().Len() && core.VarOf(info, a) == graceful {
								gv[hsig.Params().At(k)] = true
							}
						}
						if qualifiesWith(hg, gv) {
							pts[n.ID] = true
						}
					}
				}
			}
			return true
		})
	}
	if len(pts) == 0 {
		r.Fail(rule, key, pos, "close() never calls pc.ops.GracefulClose(): a graceful close neither closes the operations queue nor waits for the running operation")
		return
	}
	reach := g.ReachFromEntry(func(x int) bool { return pts[x] }, func(from, idx int, e core.Edge) bool {
		return e.Cond != nil && e.Tag == nil && e.Branch != 0 && notRequired(e.Cond, e.Branch == 1)
	})
	var bad []string
	for x := range reach {
		if _, ok := g.Nodes[x].Ast.(*ast.ReturnStmt); ok {
			bad = append(bad, c.P.Pos(g.PosOf(x)))
		}
	}
	sort.Strings(bad)
	r.Cells++
	r.Check(!reach[g.Exit], rule, key, pos, sprintf("every return of a graceful caller is preceded by one of %d point(s) that close and wait for the operations queue", len(pts)),
		"a graceful close can return (at "+strings.Join(bad, ", ")+") without pc.ops.GracefulClose() having run on that path: the call returns while a queued operation is still running, and work enqueued afterwards still executes")
}
