package props

import (
	"go/ast"
	"go/token"
	"go/types"
	"sort"
	"strings"

	"verif/checker/core"
)

// c05R6 (C05.R6 / C21.R7): "after a graceful close, nothing queued later runs" / "once GracefulClose returns no goroutine
// started by the connection is still running" need PeerConnection.close(graceful) to close AND wait for the operations
// queue on every return of a graceful caller - also on the path of a caller that lost the isClosed swap to a plain
// Close(). Path rule: from the entry of close(), without passing a point that calls pc.ops.GracefulClose() (directly, or
// through a local closure / same-package helper every graceful path of which calls it) and without taking a branch that
// establishes `!shouldGracefullyClose` or "another graceful closer is already at work" (the sampled
// isGracefullyClosingOrClosed flag), no return is reachable.
func c05R6(c *Ctx, rule string) {
	r := c.R
	closeFn := c.mustFunc(rule, "", "PeerConnection.close")
	opsF := c.mustField(rule, "", "PeerConnection", "ops")
	gcFn := c.mustFunc(rule, "", "operations.GracefulClose")
	gracefulFlagF := c.mustField(rule, "", "PeerConnection", "isGracefullyClosingOrClosed")
	if closeFn == nil || opsF == nil || gcFn == nil || gracefulFlagF == nil {
		return
	}
	g := c.P.GraphOf(closeFn)
	info := g.Info
	pos := c.P.Pos(closeFn.Decl.Pos())
	key := "close|graceful-caller-closes-and-waits-for-the-queue"
	sig := closeFn.Obj.Type().(*types.Signature)
	var graceful *types.Var
	for i := 0; i < sig.Params().Len(); i++ {
		if types.Identical(sig.Params().At(i).Type(), types.Typ[types.Bool]) {
			graceful = sig.Params().At(i)
		}
	}
	if graceful == nil {
		r.Undecided(rule, key, pos, "close no longer takes the graceful flag")
		return
	}
	// locals sampled from the "already graceful" flag
	already := map[*types.Var]bool{}
	for _, n := range g.Nodes {
		as, ok := n.Ast.(*ast.AssignStmt)
		if !ok || len(as.Lhs) != len(as.Rhs) {
			continue
		}
		for i, rh := range as.Rhs {
			if core.FieldOf(info, rh) == gracefulFlagF {
				if v := core.VarOf(info, as.Lhs[i]); v != nil {
					already[v] = true
				}
			}
		}
	}
	var notRequired func(e ast.Expr, truth bool) bool
	notRequired = func(e ast.Expr, truth bool) bool {
		switch v := ast.Unparen(e).(type) {
		case *ast.UnaryExpr:
			if v.Op == token.NOT {
				return notRequired(v.X, !truth)
			}
		case *ast.BinaryExpr:
			switch {
			case v.Op == token.LAND && truth, v.Op == token.LOR && !truth:
				return notRequired(v.X, truth) || notRequired(v.Y, truth)
			case v.Op == token.LAND && !truth, v.Op == token.LOR && truth:
				return notRequired(v.X, truth) && notRequired(v.Y, truth)
			}
		case *ast.Ident:
			vv := core.VarOf(info, v)
			return vv == graceful && !truth || already[vv] && truth
		}
		return false
	}
	directCall := func(info *types.Info, n ast.Node) bool {
		found := false
		core.InspectShallow(n, func(x ast.Node) bool {
			if call, ok := x.(*ast.CallExpr); ok && core.IsCallTo(info, call, gcFn.Obj) {
				if sel, ok := ast.Unparen(call.Fun).(*ast.SelectorExpr); ok && core.FieldOf(info, sel.X) == opsF {
					found = true
				}
			}
			return true
		})
		return found
	}
	// does every graceful path of graph lg (a closure of close, or a helper) call the queue's GracefulClose?
	qualifies := func(lg *core.Graph) bool {
		pts := map[int]bool{}
		for _, n := range lg.Nodes {
			if n.Ast == nil {
				continue
			}
			if _, isDefer := n.Ast.(*ast.DeferStmt); isDefer {
				continue
			}
			if _, isGo := n.Ast.(*ast.GoStmt); isGo {
				continue
			}
			if directCall(lg.Info, n.Ast) {
				pts[n.ID] = true
			}
		}
		if len(pts) == 0 {
			return false
		}
		reach := lg.ReachFromEntry(func(x int) bool { return pts[x] }, func(from, idx int, e core.Edge) bool {
			return e.Cond != nil && e.Tag == nil && e.Branch != 0 && notRequired(e.Cond, e.Branch == 1)
		})
		return !reach[lg.Exit]
	}
	// closures bound to locals of close()
	closureOK := map[*types.Var]bool{}
	ast.Inspect(closeFn.Decl.Body, func(x ast.Node) bool {
		as, ok := x.(*ast.AssignStmt)
		if !ok || len(as.Lhs) != len(as.Rhs) {
			return true
		}
		for i, rh := range as.Rhs {
			if fl, ok := ast.Unparen(rh).(*ast.FuncLit); ok {
				if v := core.VarOf(info, as.Lhs[i]); v != nil {
					if lg := c.P.GraphOfLit(fl); lg != nil {
						closureOK[v] = qualifies(lg)
					}
				}
			}
		}
		return true
	})
	pts := map[int]bool{}
	for _, n := range g.Nodes {
		if n.Ast == nil {
			continue
		}
		if _, isDefer := n.Ast.(*ast.DeferStmt); isDefer {
			continue
		}
		if _, isGo := n.Ast.(*ast.GoStmt); isGo {
			continue
		}
		if directCall(info, n.Ast) {
			pts[n.ID] = true
		}
		core.InspectShallow(n.Ast, func(x ast.Node) bool {
			call, ok := x.(*ast.CallExpr)
			if !ok {
				return true
			}
			if v := core.VarOf(info, call.Fun); v != nil && closureOK[v] {
				pts[n.ID] = true
			}
			if fn := core.Callee(info, call); fn != nil && fn != gcFn.Obj {
				if d := c.P.DeclOf(fn); d != nil && d.Pkg == closeFn.Pkg && d.Decl != nil && d.Decl.Body != nil && d != closeFn {
					if hg := c.P.GraphOf(d); hg != nil {
						hp := false
						for _, hn := range hg.Nodes {
							if hn.Ast != nil && directCall(hg.Info, hn.Ast) {
								hp = true
							}
						}
						if hp {
							hpts := map[int]bool{}
							for _, hn := range hg.Nodes {
								if hn.Ast != nil && directCall(hg.Info, hn.Ast) {
									hpts[hn.ID] = true
								}
							}
							if !hg.ReachFromEntry(func(y int) bool { return hpts[y] }, nil)[hg.Exit] {
								pts[n.ID] = true
							}
						}
					}
				}
			}
			return true
		})
	}
	if len(pts) == 0 {
		r.Fail(rule, key, pos, "close() never calls pc.ops.GracefulClose(): a graceful close neither closes the operations queue nor waits for the running operation")
		return
	}
	reach := g.ReachFromEntry(func(x int) bool { return pts[x] }, func(from, idx int, e core.Edge) bool {
		return e.Cond != nil && e.Tag == nil && e.Branch != 0 && notRequired(e.Cond, e.Branch == 1)
	})
	var bad []string
	for x := range reach {
		if _, ok := g.Nodes[x].Ast.(*ast.ReturnStmt); ok {
			bad = append(bad, c.P.Pos(g.PosOf(x)))
		}
	}
	sort.Strings(bad)
	r.Cells++
	r.Check(!reach[g.Exit], rule, key, pos, sprintf("every return of a graceful caller is preceded by one of %d point(s) that close and wait for the operations queue", len(pts)),
		"a graceful close can return (at "+strings.Join(bad, ", ")+") without pc.ops.GracefulClose() having run on that path: the call returns while a queued operation is still running, and work enqueued afterwards still executes")
}
