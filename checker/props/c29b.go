package props

import (
	"go/ast"
	"go/constant"
	"go/token"
	"go/types"

	"verif/checker/core"
)

// c29Unbind: Unbind removes exactly the binding of the context being unbound.
//
// Recognised removal idioms over the bindings slice B with index i:
//
//	swap-remove:  B[i] = B[len(B)-1]; B = B[:len(B)-1]
//	shift-remove: B = append(B[:i], B[i+1:]...)
//
// In both, i must be the index for which `B[i].id == ctx.ID()` was established
// (the removal is dominated by the true edge of that comparison), and a
// truncation `B = B[:len(B)-1]` must be dominated by the element move that
// saves the last binding into slot i - otherwise the LAST binding is dropped
// and the unbound one keeps receiving packets. (Added after seed C23-m2.)
func c29Unbind(c *Ctx, rule string) {
	r := c.R
	fi := c.mustFunc(rule, "", "TrackLocalStaticRTP.Unbind")
	fB := c.mustField(rule, "", "TrackLocalStaticRTP", "bindings")
	fID := c.mustField(rule, "", "trackBinding", "id")
	if fi == nil || fB == nil || fID == nil {
		return
	}
	g := c.P.GraphOf(fi)
	info := g.Info
	pos := c.P.Pos(fi.Decl.Pos())
	ctxParam := fi.Obj.Type().(*types.Signature).Params().At(0)
	isB := func(e ast.Expr) bool { return core.FieldOf(info, e) == fB }
	curBody := ast.Node(fi.Decl.Body) // body in which single-definition locals are resolved (Unbind or a helper)
	var lenMinus1 func(e ast.Expr) bool
	lenMinus1 = func(e ast.Expr) bool { // len(B)-1, possibly through a local defined once as len(B)-1
		if v := core.VarOf(info, e); v != nil {
			defs := 0
			okDef := false
			ast.Inspect(curBody, func(x ast.Node) bool {
				if as, ok := x.(*ast.AssignStmt); ok {
					for i, l := range as.Lhs {
						if core.VarOf(info, l) == v {
							defs++
							if len(as.Rhs) == len(as.Lhs) && lenMinus1(as.Rhs[i]) {
								okDef = true
							}
						}
					}
				}
				return true
			})
			return defs == 1 && okDef
		}
		be, ok := ast.Unparen(e).(*ast.BinaryExpr)
		if !ok || be.Op != token.SUB {
			return false
		}
		if tv := info.Types[be.Y]; tv.Value == nil || !constant.Compare(tv.Value, token.EQL, constant.MakeInt64(1)) {
			return false
		}
		call, ok := ast.Unparen(be.X).(*ast.CallExpr)
		if !ok || len(call.Args) != 1 || !isB(call.Args[0]) {
			return false
		}
		id, ok := call.Fun.(*ast.Ident)
		return ok && id.Name == "len"
	}
	// edges that establish B[i].id == ctx.ID() for index variable i
	matchEdges := func(iv *types.Var) map[core.EdgeRef]bool {
		out := map[core.EdgeRef]bool{}
		for _, n := range g.Nodes {
			for k, e := range n.Succs {
				if e.Cond == nil || e.Tag != nil || e.Branch == 0 {
					continue
				}
				x, truth := c31StripNot(e.Cond, e.Branch == 1)
				be, ok := x.(*ast.BinaryExpr)
				if !ok || !((be.Op == token.EQL && truth) || (be.Op == token.NEQ && !truth)) {
					continue
				}
				for _, pr := range [][2]ast.Expr{{be.X, be.Y}, {be.Y, be.X}} {
					se, ok := ast.Unparen(pr[0]).(*ast.SelectorExpr)
					if !ok || core.FieldOf(info, se) != fID {
						continue
					}
					// se.X is B[i] or a range value of B bound at index i
					okElem := false
					if ix, ok := ast.Unparen(se.X).(*ast.IndexExpr); ok && isB(ix.X) && core.VarOf(info, ix.Index) == iv {
						okElem = true
					}
					call, ok := ast.Unparen(pr[1]).(*ast.CallExpr)
					if !okElem || !ok {
						continue
					}
					if sel, ok := ast.Unparen(call.Fun).(*ast.SelectorExpr); ok && sel.Sel.Name == "ID" && core.VarOf(info, sel.X) == ctxParam {
						out[core.EdgeRef{From: n.ID, Idx: k}] = true
					}
				}
			}
		}
		return out
	}
	type removal struct {
		node  int
		kind  string
		iv    *types.Var
		inner bool // found in a helper: node is the call in Unbind, the helper-internal order was checked there
		okIn  bool // helper-internal check (truncate-last: the move dominates the truncation inside the helper)
	}
	scan := func(sg *core.Graph) (moves, cuts []removal) {
		for _, n := range sg.Nodes {
			as, ok := n.Ast.(*ast.AssignStmt)
			if !ok || len(as.Lhs) != 1 || len(as.Rhs) != 1 {
				continue
			}
			lhs, rhs := ast.Unparen(as.Lhs[0]), ast.Unparen(as.Rhs[0])
			if ix, ok := lhs.(*ast.IndexExpr); ok && isB(ix.X) {
				iv := core.VarOf(info, ix.Index)
				if rx, ok := rhs.(*ast.IndexExpr); ok && isB(rx.X) && lenMinus1(rx.Index) && iv != nil {
					moves = append(moves, removal{node: n.ID, kind: "move-last-into-slot", iv: iv})
				} else {
					moves = append(moves, removal{node: n.ID, kind: "other-element-write", iv: iv})
				}
				continue
			}
			if !isB(lhs) {
				continue
			}
			switch x := rhs.(type) {
			case *ast.SliceExpr:
				if isB(x.X) && x.Low == nil && lenMinus1(x.High) {
					cuts = append(cuts, removal{node: n.ID, kind: "truncate-last"})
					continue
				}
			case *ast.CallExpr:
				if id, ok := x.Fun.(*ast.Ident); ok && id.Name == "append" && len(x.Args) == 2 && x.Ellipsis.IsValid() {
					lo, ok1 := ast.Unparen(x.Args[0]).(*ast.SliceExpr)
					hi, ok2 := ast.Unparen(x.Args[1]).(*ast.SliceExpr)
					if ok1 && ok2 && isB(lo.X) && isB(hi.X) && lo.Low == nil && hi.High == nil {
						iv := core.VarOf(info, lo.High)
						if hb, ok := ast.Unparen(hi.Low).(*ast.BinaryExpr); ok && hb.Op == token.ADD && core.VarOf(info, hb.X) == iv && iv != nil {
							if tv := info.Types[hb.Y]; tv.Value != nil && constant.Compare(tv.Value, token.EQL, constant.MakeInt64(1)) {
								cuts = append(cuts, removal{node: n.ID, kind: "shift-remove", iv: iv})
								continue
							}
						}
					}
				}
			}
			cuts = append(cuts, removal{node: n.ID, kind: "other-list-write"})
		}
		return
	}
	moves, cuts := scan(g)
	// the removal may be extracted into a same-package helper called from Unbind with the matching index:
	// the helper is scanned with the same idioms and its index parameter is bound to the call's argument
	for _, n := range g.Nodes {
		if n.Ast == nil {
			continue
		}
		for _, call := range core.CallsIn(n.Ast) {
			callee := core.Callee(info, call)
			hfi := c.P.DeclOf(callee)
			if hfi == nil || hfi.Decl.Body == nil || hfi.Pkg != fi.Pkg || hfi == fi {
				continue
			}
			hg := c.P.GraphOf(hfi)
			if hg == nil {
				continue
			}
			sig := callee.Type().(*types.Signature)
			if sig.Variadic() || sig.Params().Len() != len(call.Args) {
				continue
			}
			argOf := func(hv *types.Var) *types.Var {
				for i := 0; i < sig.Params().Len(); i++ {
					if sig.Params().At(i) == hv {
						return core.VarOf(info, call.Args[i])
					}
				}
				return nil
			}
			curBody = hfi.Decl.Body
			hm, hc := scan(hg)
			curBody = fi.Decl.Body
			if len(hc) == 0 && len(hm) == 0 {
				continue
			}
			r.Saw(hfi.Name())
			for _, m := range hm {
				if m.kind == "other-element-write" {
					moves = append(moves, removal{node: n.ID, kind: m.kind, inner: true})
				}
			}
			for _, cut := range hc {
				up := removal{node: n.ID, kind: cut.kind, inner: true}
				switch cut.kind {
				case "shift-remove":
					up.iv = argOf(cut.iv)
					up.okIn = up.iv != nil
				case "truncate-last":
					for _, m := range hm {
						if m.kind == "move-last-into-slot" && hg.Dominated(cut.node, map[int]bool{m.node: true}) {
							if av := argOf(m.iv); av != nil {
								up.iv, up.okIn = av, true
							}
						}
					}
				}
				cuts = append(cuts, up)
			}
		}
	}
	if len(cuts) == 0 {
		r.Fail(rule, "Unbind|removal", pos, "Unbind never shortens the bindings list: an unbound sender keeps receiving every packet")
		return
	}
	for i, cut := range cuts {
		key := sprintf("Unbind|removal#%d|%s", i, cut.kind)
		p := c.P.Pos(g.PosOf(cut.node))
		switch cut.kind {
		case "shift-remove":
			if cut.inner && !cut.okIn {
				r.Undecided(rule, key, p, "the removal helper is not called with a local index variable")
				continue
			}
			me := matchEdges(cut.iv)
			r.Check(len(me) > 0 && g.DominatedByEdges(cut.node, me), rule, key, p, "removes the element whose id equals the context's id",
				"the element removed is not the one whose id was compared with the context's ID()")
		case "truncate-last":
			okMove := false
			if cut.inner && cut.okIn {
				// swap-remove inside a helper: the move dominates the truncation there; the call must be made
				// with the index for which the id comparison held
				me := matchEdges(cut.iv)
				okMove = len(me) > 0 && g.DominatedByEdges(cut.node, me)
			}
			for _, m := range moves {
				if cut.inner {
					break
				}
				if m.kind != "move-last-into-slot" || !g.Dominated(cut.node, map[int]bool{m.node: true}) {
					continue
				}
				me := matchEdges(m.iv)
				if len(me) > 0 && g.DominatedByEdges(m.node, me) {
					okMove = true
				}
			}
			r.Check(okMove, rule, key, p, "swap-remove: the last binding is first saved into the slot of the matching binding",
				"the list is truncated by one without first moving the last binding into the slot of the binding whose id matched: the LAST binding is dropped, the unbound one stays and keeps receiving packets while another sender stops receiving them")
		default:
			r.Undecided(rule, key, p, "unrecognised write of the bindings list in Unbind")
		}
	}
	for _, m := range moves {
		if m.kind == "other-element-write" {
			r.Undecided(rule, "Unbind|element-write", c.P.Pos(g.PosOf(m.node)), "unrecognised element write of the bindings list in Unbind")
		}
	}
}
