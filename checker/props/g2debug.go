package props

import (
	"fmt"
	"os"
)

// c13DebugDump prints every obligation recorded so far when VERIF_DEBUG is set (development aid for C04/C08/C13).
func c13DebugDump(c *Ctx) {
	if os.Getenv("VERIF_DEBUG") == "" {
		return
	}
	for _, o := range c.R.Obs {
		fmt.Fprintf(os.Stderr, "OB %s | %s | %s | %s | %s\n", o.Rule, o.Key, o.Status, o.Pos, o.Detail)
	}
}
