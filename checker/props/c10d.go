package props

import (
	"go/ast"
	"go/token"
	"go/types"
	"sort"
	"strings"

	"verif/checker/core"
)

// c10R7: no in-place element removal on shared codec storage.
//
// `s = append(s[:i], s[i+1:]...)` shifts the tail of s's *backing array*. When s
// aliases a list stored in a struct (the MediaEngine's registered/negotiated
// codec lists, a transceiver's preferences) the owner's slice header keeps its
// old length and now ends in a duplicated element: the next generated section
// lists a payload type twice. The rule computes, for every in-place removal on a
// []RTPCodecParameters in the root package, which backing arrays the slice may
// alias (through locals, sub-slices, append-to-same, same-module callees that
// return a stored list, and — for a parameter — every call site's argument),
// and fails when a struct field is among them. A slice that was first cloned
// (append to an empty literal / nil / make, slices.Clone) is fresh.
func c10R7(c *Ctx) {
	r := c.R
	codecT := c.P.Named("", "RTPCodecParameters")
	if codecT == nil {
		r.Fail("C10.R7", "anchor:RTPCodecParameters", "-", "type no longer resolves")
		return
	}
	isCodecSlice := func(t types.Type) bool {
		s, ok := t.Underlying().(*types.Slice)
		return ok && types.Identical(s.Elem(), codecT)
	}
	root := c.P.Pkg("")
	a := &c10Alias{c: c, provs: map[*core.FuncInfo]*core.Prov{}}
	n := 0
	for _, fi := range c.P.AllFuncs() {
		if fi.Pkg != root || fi.Decl.Body == nil {
			continue
		}
		info := fi.Pkg.TypesInfo
		ast.Inspect(fi.Decl.Body, func(x ast.Node) bool {
			as, ok := x.(*ast.AssignStmt)
			if !ok || len(as.Lhs) != 1 || len(as.Rhs) != 1 {
				return true
			}
			sv := core.VarOf(info, as.Lhs[0])
			if sv == nil || !isCodecSlice(sv.Type()) || !c10IsInPlaceRemoval(info, as.Rhs[0], sv) {
				return true
			}
			n++
			al := map[string]bool{}
			a.ofVarAt(fi, sv, as, al, map[string]bool{})
			var fields, others []string
			for k := range al {
				if strings.HasPrefix(k, "field:") {
					fields = append(fields, k)
				} else {
					others = append(others, k)
				}
			}
			sort.Strings(fields)
			sort.Strings(others)
			r.Cells += len(al)
			key := "in-place-removal|" + fi.Name() + "|" + sv.Name()
			if len(fields) > 0 {
				r.Fail("C10.R7", key, c.P.Pos(as.Pos()), "the slice edited in place may share its backing array with "+strings.Join(fields, ", ")+
					": removing an element shifts the owner's storage and leaves it with a duplicated tail element (a payload type is then listed twice in the next generated section)")
			} else {
				r.OK("C10.R7", key, c.P.Pos(as.Pos()), "edits only fresh storage ("+strings.Join(others, ", ")+")")
			}
			return true
		})
	}
	if n == 0 {
		r.Info("C10.R7", "in-place-removal|none", "-", "no in-place removal on a codec list in the root package")
	}
}

// c10IsCloneOf recognises append([]T{}, v...), append([]T(nil), v...), slices.Clone(v).
func c10IsCloneOf(info *types.Info, e ast.Expr, v *types.Var) bool {
	call, ok := ast.Unparen(e).(*ast.CallExpr)
	if !ok {
		return false
	}
	if fn := core.Callee(info, call); fn != nil && fn.Pkg() != nil && fn.Pkg().Path() == "slices" && fn.Name() == "Clone" && len(call.Args) == 1 {
		return core.VarOf(info, call.Args[0]) == v
	}
	id, ok := call.Fun.(*ast.Ident)
	if !ok || id.Name != "append" || len(call.Args) != 2 || !call.Ellipsis.IsValid() || core.VarOf(info, call.Args[1]) != v {
		return false
	}
	if _, isB := info.Uses[id].(*types.Builtin); !isB {
		return false
	}
	switch a0 := ast.Unparen(call.Args[0]).(type) {
	case *ast.CompositeLit:
		return len(a0.Elts) == 0
	case *ast.CallExpr: // []T(nil)
		if tv, ok := info.Types[a0.Fun]; ok && tv.IsType() && len(a0.Args) == 1 {
			return core.IsNilIdent(info, a0.Args[0])
		}
	}
	return false
}

// c10IsInPlaceRemoval recognises append(s[:i], s[j:]...) on the variable s itself.
func c10IsInPlaceRemoval(info *types.Info, e ast.Expr, sv *types.Var) bool {
	call, ok := ast.Unparen(e).(*ast.CallExpr)
	if !ok || len(call.Args) != 2 || !call.Ellipsis.IsValid() {
		return false
	}
	if id, ok := call.Fun.(*ast.Ident); !ok || id.Name != "append" {
		return false
	} else if _, isB := info.Uses[id].(*types.Builtin); !isB {
		return false
	}
	lo, ok1 := ast.Unparen(call.Args[0]).(*ast.SliceExpr)
	hi, ok2 := ast.Unparen(call.Args[1]).(*ast.SliceExpr)
	return ok1 && ok2 && core.VarOf(info, lo.X) == sv && core.VarOf(info, hi.X) == sv
}

type c10Alias struct {
	c     *Ctx
	provs map[*core.FuncInfo]*core.Prov
}

func (a *c10Alias) prov(fi *core.FuncInfo) *core.Prov {
	if p := a.provs[fi]; p != nil {
		return p
	}
	p := core.NewProv(a.c.P, fi)
	a.provs[fi] = p
	return p
}

// ofVarAt is the flow-sensitive entry: only the definitions of v that reach statement `at`
// in fi's own graph count (a clone that dominates the removal kills the parameter's alias).
// Falls back to the flow-insensitive closure when `at` is inside a function literal.
func (a *c10Alias) ofVarAt(fi *core.FuncInfo, v *types.Var, at ast.Stmt, out, seen map[string]bool) {
	g := a.c.P.GraphOf(fi)
	start := -1
	for _, n := range g.Nodes {
		if n.Ast == ast.Node(at) {
			start = n.ID
		}
	}
	if start < 0 {
		a.ofVar(fi, v, out, seen, 0)
		return
	}
	info := fi.Pkg.TypesInfo
	// backward walk over predecessors; a node that assigns v stops the walk along that path
	visited := map[int]bool{}
	var walk func(n int)
	reachedEntry := false
	walk = func(n int) {
		for _, p := range g.Nodes[n].Preds {
			if visited[p] {
				continue
			}
			visited[p] = true
			pn := g.Nodes[p]
			killed := false
			if as, ok := pn.Ast.(*ast.AssignStmt); ok {
				for i, l := range as.Lhs {
					if core.VarOf(info, l) != v {
						continue
					}
					killed = true
					if p == start {
						continue // the removal itself: aliases whatever reaches it (already being computed)
					}
					if len(as.Rhs) == len(as.Lhs) {
						a.ofExprAt(fi, as.Rhs[i], v, out, seen)
					} else {
						out["unknown:multi-assign"] = true
					}
				}
			}
			if killed {
				continue
			}
			if p == g.Entry {
				reachedEntry = true
			}
			walk(p)
		}
	}
	walk(start)
	if reachedEntry {
		sig := fi.Obj.Type().(*types.Signature)
		isParam := false
		for i := 0; i < sig.Params().Len(); i++ {
			if sig.Params().At(i) == v {
				isParam = true
				a.ofParam(fi, i, out, seen, 0)
			}
		}
		if !isParam {
			out["fresh"] = true // zero value
		}
	}
}

// ofExprAt evaluates a reaching definition's right-hand side; references to v itself inside it
// (append(v[:i], ...), v[a:b]) denote the value that reached that definition and are resolved flow-insensitively
// only when they are not a clone.
func (a *c10Alias) ofExprAt(fi *core.FuncInfo, rhs ast.Expr, v *types.Var, out, seen map[string]bool) {
	info := fi.Pkg.TypesInfo
	if c10IsCloneOf(info, rhs, v) {
		out["fresh"] = true
		return
	}
	a.ofExpr(fi, rhs, out, seen, 0)
}

// ofVar adds the backing arrays local/parameter v of fi may alias.
func (a *c10Alias) ofVar(fi *core.FuncInfo, v *types.Var, out, seen map[string]bool, depth int) {
	k := fi.Name() + "|" + v.Name() + "|" + core.FuncName(fi.Obj)
	if seen[k] {
		return
	}
	seen[k] = true
	sig := fi.Obj.Type().(*types.Signature)
	for i := 0; i < sig.Params().Len(); i++ {
		if sig.Params().At(i) == v {
			a.ofParam(fi, i, out, seen, depth)
		}
	}
	for _, rhs := range a.prov(fi).DefExprs(v) {
		if rhs == nil {
			out["fresh"] = true
			continue
		}
		a.ofExpr(fi, rhs, out, seen, depth)
	}
}

func (a *c10Alias) ofParam(fi *core.FuncInfo, idx int, out, seen map[string]bool, depth int) {
	if depth > 4 {
		out["unknown:depth"] = true
		return
	}
	sites := 0
	for _, caller := range a.c.P.AllFuncs() {
		if caller.Decl.Body == nil {
			continue
		}
		info := caller.Pkg.TypesInfo
		ast.Inspect(caller.Decl.Body, func(x ast.Node) bool {
			call, ok := x.(*ast.CallExpr)
			if !ok || core.Callee(info, call) != fi.Obj || idx >= len(call.Args) {
				return true
			}
			sites++
			a.ofExpr(caller, call.Args[idx], out, seen, depth+1)
			return true
		})
	}
	if sites == 0 || ast.IsExported(fi.Obj.Name()) {
		out["param:"+fi.Name()] = true // callers outside the module
	}
}

func (a *c10Alias) ofExpr(fi *core.FuncInfo, e ast.Expr, out, seen map[string]bool, depth int) {
	info := fi.Pkg.TypesInfo
	e = ast.Unparen(e)
	switch x := e.(type) {
	case *ast.Ident:
		if core.IsNilIdent(info, x) {
			out["fresh"] = true
			return
		}
		if v := core.VarOf(info, x); v != nil {
			if v.Pkg() != nil && v.Parent() == v.Pkg().Scope() {
				out["global:"+v.Name()] = true
				return
			}
			a.ofVar(fi, v, out, seen, depth)
		}
	case *ast.SliceExpr:
		a.ofExpr(fi, x.X, out, seen, depth)
	case *ast.CompositeLit:
		out["fresh"] = true
	case *ast.SelectorExpr:
		if f := core.FieldOf(info, x); f != nil {
			owner := "?"
			if sel := info.Selections[x]; sel != nil {
				t := sel.Recv()
				if p, ok := t.(*types.Pointer); ok {
					t = p.Elem()
				}
				if n, ok := t.(*types.Named); ok {
					owner = n.Obj().Name()
				}
			}
			out["field:"+owner+"."+f.Name()] = true
			return
		}
		out["unknown:"+exprStr(x)] = true
	case *ast.CallExpr:
		if tv, ok := info.Types[x.Fun]; ok && tv.IsType() && len(x.Args) == 1 {
			a.ofExpr(fi, x.Args[0], out, seen, depth)
			return
		}
		if id, ok := x.Fun.(*ast.Ident); ok {
			if b, ok := info.Uses[id].(*types.Builtin); ok {
				switch b.Name() {
				case "make", "new":
					out["fresh"] = true
				case "append":
					// result aliases the first operand's array (or a fresh one when it grows);
					// appending to an empty literal / nil / make is a clone
					a.ofExpr(fi, x.Args[0], out, seen, depth)
					out["fresh"] = true
				default:
					out["unknown:builtin "+b.Name()] = true
				}
				return
			}
		}
		fn := core.Callee(info, x)
		if fn == nil {
			out["unknown:dynamic call"] = true
			return
		}
		if fn.Pkg() != nil && fn.Pkg().Path() == "slices" && fn.Name() == "Clone" {
			out["fresh"] = true
			return
		}
		callee := a.c.P.DeclOf(fn)
		if callee == nil || callee.Decl.Body == nil || depth > 4 {
			out["unknown:call "+core.FuncName(fn)] = true
			return
		}
		// what the callee returns (first slice-typed result)
		k := "ret|" + core.FuncName(fn)
		if seen[k] {
			return
		}
		seen[k] = true
		ast.Inspect(callee.Decl.Body, func(y ast.Node) bool {
			if _, ok := y.(*ast.FuncLit); ok {
				return false
			}
			rs, ok := y.(*ast.ReturnStmt)
			if !ok || len(rs.Results) == 0 {
				return true
			}
			res := rs.Results[0]
			if len(rs.Results) > 1 {
				for _, cand := range rs.Results {
					if t := callee.Pkg.TypesInfo.TypeOf(cand); t != nil {
						if _, isS := t.Underlying().(*types.Slice); isS {
							res = cand
							break
						}
					}
				}
			}
			// a parameter of the callee returned as-is aliases the corresponding argument here
			if v := core.VarOf(callee.Pkg.TypesInfo, res); v != nil {
				csig := callee.Obj.Type().(*types.Signature)
				for i := 0; i < csig.Params().Len(); i++ {
					if csig.Params().At(i) == v && i < len(x.Args) {
						a.ofExpr(fi, x.Args[i], out, seen, depth+1)
					}
				}
			}
			a.ofExpr(callee, res, out, seen, depth+1)
			return true
		})
	case *ast.UnaryExpr:
		if x.Op == token.AND {
			a.ofExpr(fi, x.X, out, seen, depth)
		}
	case *ast.IndexExpr:
		out["unknown:element"] = true
	default:
		out["unknown:"+exprStr(e)] = true
	}
}
