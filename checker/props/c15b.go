package props

import (
	"go/ast"
	"go/constant"
	"go/token"
	"go/types"
	"sort"
	"strings"

	"verif/checker/absint"
	"verif/checker/core"
)

// ---- R3: feedback intersection before every add; shape of rtcpFeedbackIntersection

func c15R3(c *Ctx, rule string, u *c15Upd) {
	r := c.R
	info := u.g.Info
	fn := u.fi.Name()
	fbField := c.mustField(rule, "", "RTPCodecCapability", "RTCPFeedback")
	if fbField == nil {
		return
	}
	for pi, p := range u.passes {
		pg := p.g
		head, body, _, ok := pg.RangeLoop(p.rs)
		if !ok {
			continue
		}
		// the intersection stores of this pass
		stores := map[int]bool{}
		why := "no assignment <remote>.RTCPFeedback = rtcpFeedbackIntersection(<local>.RTCPFeedback, <remote>.RTCPFeedback) in this pass"
		for _, n := range pg.Nodes {
			as, ok := n.Ast.(*ast.AssignStmt)
			if !ok || len(as.Lhs) != len(as.Rhs) {
				continue
			}
			for i, l := range as.Lhs {
				if core.FieldOf(info, l) != fbField || c15RootVar(info, l) != p.remote {
					continue
				}
				call, ok := ast.Unparen(as.Rhs[i]).(*ast.CallExpr)
				if !ok || !core.IsCallTo(info, call, u.inter.Obj) || len(call.Args) != 2 {
					continue
				}
				roots := map[*types.Var]bool{}
				okArgs := true
				for _, a := range call.Args {
					if core.FieldOf(info, a) != fbField {
						okArgs = false
					}
					roots[c15RootVar(info, a)] = true
				}
				if !okArgs || !roots[p.remote] || !roots[p.local] || len(roots) != 2 {
					why = "the feedback intersection at " + c.P.Pos(call.Pos()) + " is not computed from the RTCPFeedback of the remote codec and of its own local match (" + exprStr(call) + ")"
					continue
				}
				stores[n.ID] = true
			}
		}
		for _, a := range p.adds {
			key := sprintf("%s|%s|feedback-before-add|into:%s", fn, c15PassName(pi), c15ListRole(u, a.list))
			if len(stores) == 0 {
				r.Fail(rule, key, c.P.Pos(a.pos), why)
				continue
			}
			// within one iteration: from the body entry, avoiding the stores and not re-entering the loop head, the add must be unreachable
			reach := pg.Reach([]int{body}, func(n int) bool { return stores[n] || n == head }, nil)
			// the store must also come after the match call (localCodec is this iteration's match)
			afterMatch := true
			for s := range stores {
				rr := pg.Reach([]int{body}, func(n int) bool { return n == p.defNode || n == head }, nil)
				if rr[s] && s != p.defNode {
					afterMatch = false
				}
			}
			switch {
			case reach[a.node]:
				r.Fail(rule, key, c.P.Pos(a.pos), "the remote codec can be added without its RTCPFeedback having been replaced by the intersection with the local codec's feedback in this iteration (the negotiated codec would advertise feedback the local side does not support)")
			case !afterMatch:
				r.Fail(rule, key, c.P.Pos(a.pos), "the feedback intersection can execute before matchRemoteCodec of the same iteration: it would use the previous iteration's local codec")
			default:
				r.OK(rule, key, c.P.Pos(a.pos), "dominated by the intersection store within the iteration")
			}
		}
	}

	// shape of rtcpFeedbackIntersection
	fi := u.inter
	g := c.P.GraphOf(fi)
	pv := core.NewProv(c.P, fi)
	finfo := g.Info
	sig := fi.Obj.Type().(*types.Signature)
	pos := c.P.Pos(fi.Decl.Pos())
	if sig.Params().Len() != 2 || sig.Results().Len() != 1 {
		r.Undecided(rule, fi.Name()+"|shape", pos, "unexpected signature")
		return
	}
	pa, pb := sig.Params().At(0), sig.Params().At(1)
	// side of an expression: which parameter it is an element of
	side := func(e ast.Expr) *types.Var {
		lv := pv.Leaves(e)
		var s *types.Var
		for _, lf := range lv {
			if lf.Kind != "param" {
				return nil
			}
			if s != nil && s != lf.Var {
				return nil
			}
			s = lf.Var
		}
		return s
	}
	fieldCmp := func(e ast.Expr, field string) bool {
		// a.F == b.F or strings.EqualFold(a.F, b.F) with a, b elements of different parameters
		var x, y ast.Expr
		switch b := ast.Unparen(e).(type) {
		case *ast.BinaryExpr:
			if b.Op != token.EQL {
				return false
			}
			x, y = b.X, b.Y
		case *ast.CallExpr:
			if calleeName(finfo, b) != "EqualFold" || len(b.Args) != 2 {
				return false
			}
			if f := core.Callee(finfo, b); f == nil || f.Pkg() == nil || f.Pkg().Path() != "strings" {
				return false
			}
			x, y = b.Args[0], b.Args[1]
		default:
			return false
		}
		fx, fy := core.FieldOf(finfo, x), core.FieldOf(finfo, y)
		if fx == nil || fx != fy || fx.Name() != field {
			return false
		}
		sx, sy := side(x), side(y)
		return sx != nil && sy != nil && sx != sy && (sx == pa || sx == pb) && (sy == pa || sy == pb)
	}
	// append sites
	type app struct {
		node int
		elem ast.Expr
		pos  token.Pos
	}
	var apps []app
	resVar := sig.Results().At(0)
	for _, n := range g.Nodes {
		if n.Ast == nil {
			continue
		}
		for _, call := range core.CallsIn(n.Ast) {
			id, ok := ast.Unparen(call.Fun).(*ast.Ident)
			if !ok {
				continue
			}
			if b, ok := finfo.Uses[id].(*types.Builtin); ok && b.Name() == "append" {
				if len(call.Args) != 2 || call.Ellipsis.IsValid() {
					r.Undecided(rule, fi.Name()+"|append", c.P.Pos(call.Pos()), "append of several / spread elements")
					continue
				}
				apps = append(apps, app{n.ID, call.Args[1], call.Pos()})
			}
		}
	}
	_ = resVar
	if len(apps) == 0 {
		r.Fail(rule, fi.Name()+"|append", pos, "rtcpFeedbackIntersection never appends: the intersection is always empty")
		return
	}
	// everything returned derives from the parameters' elements only
	rl := pv.ReturnLeaves(0)
	badLeaf := ""
	for k, lf := range rl {
		if lf.Kind != "param" {
			badLeaf = k
		}
	}
	r.Check(badLeaf == "", rule, fi.Name()+"|result-sources", pos, "result elements derive from the operands only", "the result can contain a value from "+badLeaf)
	for _, field := range []string{"Type", "Parameter"} {
		field := field
		nCmp := 0
		ast.Inspect(fi.Decl.Body, func(n ast.Node) bool {
			if e, ok := n.(ast.Expr); ok && fieldCmp(e, field) {
				nCmp++
			}
			return true
		})
		cf := &core.ConstFlow{G: g, Assume: func(e ast.Expr, env core.CFEnv) (constant.Value, bool) {
			if fieldCmp(e, field) {
				return constant.MakeBool(false), true
			}
			return nil, false
		}}
		res := cf.Run(g.Entry, core.CFEnv{})
		r.Cells += res.States
		for i, a := range apps {
			key := sprintf("%s|append#%d|requires-equal-%s", fi.Name(), i+1, field)
			switch {
			case nCmp == 0:
				r.Fail(rule, key, c.P.Pos(a.pos), "no equality test between the "+field+" of an element of one operand and of the other")
			case res.ReachedNode(a.node):
				r.Fail(rule, key, c.P.Pos(a.pos), "an element is appended on a path where the "+field+" fields differ: the result is not the intersection")
			case side(a.elem) == nil:
				r.Fail(rule, key, c.P.Pos(a.pos), "the appended value "+exprStr(a.elem)+" is not an element of one operand")
			default:
				r.OK(rule, key, c.P.Pos(a.pos), "unreachable when the "+field+" fields differ")
			}
		}
	}
}

// ---- who-may-write the four codec lists (shared with C10.R5)

// c15CodecListWrites checks every write to MediaEngine.{video,audio,negotiatedVideo,negotiatedAudio}Codecs.
// kindGate additionally requires the kind-gating of pushCodecs/RegisterCodec.
func c15CodecListWrites(c *Ctx, rule string, kindGate bool) {
	r := c.R
	add := c.mustFunc(rule, "", "MediaEngine.addCodec")
	kA := c.mustConst(rule, "", "RTPCodecTypeAudio")
	kV := c.mustConst(rule, "", "RTPCodecTypeVideo")
	kU := c.mustConst(rule, "", "RTPCodecTypeUnknown")
	if add == nil || kA == nil || kV == nil || kU == nil {
		return
	}
	fields := map[*types.Var]*types.Const{}
	for name, k := range map[string]*types.Const{"videoCodecs": kV, "audioCodecs": kA, "negotiatedVideoCodecs": kV, "negotiatedAudioCodecs": kA} {
		if f := c.mustField(rule, "", "MediaEngine", name); f != nil {
			fields[f] = k
		}
	}
	if len(fields) != 4 {
		return
	}
	fbField := c.P.Field("", "RTPCodecCapability", "RTCPFeedback")
	for _, fi := range c.P.AllFuncs() {
		if fi.Decl.Body == nil || fi.Pkg != c.P.Pkg("") {
			continue
		}
		info := fi.Pkg.TypesInfo
		var writes []struct {
			f    *types.Var
			node ast.Node
			ok   bool
			why  string
		}
		ast.Inspect(fi.Decl.Body, func(n ast.Node) bool {
			switch s := n.(type) {
			case *ast.AssignStmt:
				for i, l := range s.Lhs {
					f := core.FieldOf(info, l)
					if _, is := fields[f]; is {
						// m.F, err = m.addCodec(m.F, X)
						okW, why := false, "the list is assigned "+exprStr(s.Rhs[min(i, len(s.Rhs)-1)])+" instead of the result of addCodec on the same list (payload types would no longer be unique)"
						if len(s.Rhs) == 1 {
							if call, ok := ast.Unparen(s.Rhs[0]).(*ast.CallExpr); ok && core.IsCallTo(info, call, add.Obj) && i == 0 && len(call.Args) == 2 {
								if core.FieldOf(info, call.Args[0]) == f {
									okW, why = true, ""
								} else {
									why = "addCodec is applied to a different list (" + exprStr(call.Args[0]) + ") than the one assigned"
								}
							}
						}
						writes = append(writes, struct {
							f    *types.Var
							node ast.Node
							ok   bool
							why  string
						}{f, s, okW, why})
						continue
					}
					// element store m.F[i] = v / m.F[i].x = v
					if ix := c15IndexOfField(info, l, fields); ix != nil {
						f := core.FieldOf(info, ix.X)
						okW, why := c15ElemStoreKeepsPT(info, fi, s, i, ix, f, fbField)
						writes = append(writes, struct {
							f    *types.Var
							node ast.Node
							ok   bool
							why  string
						}{f, s, okW, why})
					}
				}
			case *ast.KeyValueExpr:
				if id, ok := s.Key.(*ast.Ident); ok {
					if f, _ := info.Uses[id].(*types.Var); f != nil {
						if _, is := fields[f]; is {
							// copy(): F: append([]T{}, m.F...) of the same field
							okW, why := false, "a codec list is initialised from "+exprStr(s.Value)
							lv := core.NewProv(c.P, fi).Leaves(s.Value)
							if len(lv) == 1 {
								for _, lf := range lv {
									if lf.Kind == "field" && lf.Var == f {
										okW, why = true, ""
									}
								}
							}
							if len(lv) == 0 {
								okW, why = true, ""
							}
							writes = append(writes, struct {
								f    *types.Var
								node ast.Node
								ok   bool
								why  string
							}{f, s, okW, why})
						}
					}
				}
			case *ast.UnaryExpr:
				if s.Op == token.AND {
					if f := core.FieldOf(info, s.X); f != nil {
						if _, is := fields[f]; is {
							writes = append(writes, struct {
								f    *types.Var
								node ast.Node
								ok   bool
								why  string
							}{f, s, false, "the address of a codec list is taken"})
						}
					}
				}
			}
			return true
		})
		count := map[string]int{}
		for _, w := range writes {
			base := sprintf("write:%s|in:%s", w.f.Name(), fi.Name())
			count[base]++
			key := base
			if count[base] > 1 {
				key = sprintf("%s#%d", base, count[base])
			}
			r.Check(w.ok, rule, key, c.P.Pos(w.node.Pos()), "through addCodec on the same list / payload-type preserving", w.why)
		}
		if !kindGate || len(writes) == 0 {
			continue
		}
		// kind gating: in functions with a kind parameter, a list of kind K is written only when the parameter equals K
		sig := fi.Obj.Type().(*types.Signature)
		var kindParam *types.Var
		for i := 0; i < sig.Params().Len(); i++ {
			if types.Identical(sig.Params().At(i).Type(), kA.Type()) {
				kindParam = sig.Params().At(i)
			}
		}
		if kindParam == nil {
			continue
		}
		g := c.P.GraphOf(fi)
		for _, kv := range []*types.Const{kU, kA, kV, nil} {
			val, name := constant.MakeInt64(77), "OTHER(77)"
			if kv != nil {
				val, name = kv.Val(), kv.Name()
			}
			cf := &core.ConstFlow{G: g}
			res := cf.Run(g.Entry, core.CFEnv{}.With(kindParam, val))
			r.Cells += res.States
			bad := ""
			nReached := 0
			for _, w := range writes {
				as, ok := w.node.(*ast.AssignStmt)
				if !ok {
					continue
				}
				n := g.NodeOf(as)
				if n < 0 || !res.ReachedNode(n) {
					continue
				}
				nReached++
				if kv == nil || fields[w.f] != kv {
					bad = sprintf("with kind %s the %s list is written", name, w.f.Name())
				}
			}
			if kv != nil && kv != kU && nReached == 0 {
				bad = sprintf("with kind %s no list is written", name)
			}
			r.Check(bad == "", rule, sprintf("kind-gate|%s|kind=%s", fi.Name(), name), c.P.Pos(fi.Decl.Pos()), sprintf("%d write(s) reached, all of the kind's own list", nReached), bad)
		}
	}
}

func c15IndexOfField(info *types.Info, l ast.Expr, fields map[*types.Var]*types.Const) *ast.IndexExpr {
	for {
		l = ast.Unparen(l)
		switch x := l.(type) {
		case *ast.IndexExpr:
			if f := core.FieldOf(info, x.X); f != nil {
				if _, is := fields[f]; is {
					return x
				}
			}
			l = x.X
		case *ast.SelectorExpr:
			l = x.X
		default:
			return nil
		}
	}
}

// c15ElemStoreKeepsPT: m.F[i] = v where v is the range value of the same list with only RTCPFeedback modified.
func c15ElemStoreKeepsPT(info *types.Info, fi *core.FuncInfo, s *ast.AssignStmt, i int, ix *ast.IndexExpr, f, fbField *types.Var) (bool, string) {
	if ast.Unparen(s.Lhs[i]) != ast.Expr(ix) {
		// store into a field of an element
		if fv := core.FieldOf(info, s.Lhs[i]); fv != nil && fv == fbField {
			return true, ""
		}
		return false, "a field of a registered/negotiated codec other than RTCPFeedback is overwritten in place (" + exprStr(s.Lhs[i]) + ")"
	}
	if len(s.Rhs) != len(s.Lhs) {
		return false, "element store from a multi-value expression"
	}
	v := core.VarOf(info, s.Rhs[i])
	if v == nil {
		return false, "an element of a codec list is replaced by " + exprStr(s.Rhs[i]) + " (payload types would no longer be unique)"
	}
	okRange, okFields := false, true
	ast.Inspect(fi.Decl.Body, func(n ast.Node) bool {
		switch x := n.(type) {
		case *ast.RangeStmt:
			if x.Value != nil && core.VarOf(info, x.Value) == v && core.FieldOf(info, x.X) == f && x.Key != nil && core.VarOf(info, x.Key) == core.VarOf(info, ix.Index) {
				okRange = true
			}
		case *ast.AssignStmt:
			for _, l := range x.Lhs {
				if core.VarOf(info, l) == v {
					okFields = false
				}
				if c15RootVar(info, l) == v && core.VarOf(info, l) != v && core.FieldOf(info, l) != fbField {
					okFields = false
				}
			}
		}
		return true
	})
	if !okRange {
		return false, "an element of a codec list is replaced by a value that is not the element at the same index of the same list"
	}
	if !okFields {
		return false, "the replaced element differs from the original in a field other than RTCPFeedback"
	}
	return true, ""
}

// ---- R4: lookup tables

func c15R4(c *Ctx, rule string) {
	r := c.R
	byKind := c.mustFunc(rule, "", "MediaEngine.getCodecsByKind")
	byPT := c.mustFunc(rule, "", "MediaEngine.getCodecByPayload")
	find := c.mustFunc(rule, "", "findCodecByPayload")
	kA := c.mustConst(rule, "", "RTPCodecTypeAudio")
	kV := c.mustConst(rule, "", "RTPCodecTypeVideo")
	if byKind == nil || byPT == nil || find == nil || kA == nil || kV == nil {
		return
	}
	for _, f := range []string{"videoCodecs", "audioCodecs", "negotiatedVideoCodecs", "negotiatedAudioCodecs", "negotiatedVideo", "negotiatedAudio"} {
		if c.mustField(rule, "", "MediaEngine", f) == nil {
			return
		}
	}
	kinds, ok := enumDomain(c, rule, "", "RTPCodecType", 77)
	if !ok {
		return
	}
	tf := []absint.Val{absint.BoolVal(false), absint.BoolVal(true)}
	inline := func(fn *types.Func) bool {
		return fn.Pkg() != nil && fn.Pkg().Path() == core.ModPath && fn != find.Obj
	}

	// getCodecsByKind
	{
		pos := c.P.Pos(byKind.Decl.Pos())
		dims := []absint.Dim{{Key: "$p0", Domain: kinds}, {Key: "$recv.negotiatedVideo", Domain: tf}, {Key: "$recv.negotiatedAudio", Domain: tf}}
		t := absint.Tabulate(absint.Config{P: c.P, Dims: dims, Inline: inline}, byKind)
		if !tableProblems(c, rule, byKind.Name()+"|table", pos, t) {
			r.Cells += len(t.Rows)
			for _, row := range t.Rows {
				kind := row.Get("$p0")
				nv, na := row.Get("$recv.negotiatedVideo") == "true", row.Get("$recv.negotiatedAudio") == "true"
				want := "nil"
				switch {
				case kind == kV.Name() && nv:
					want = "ref($recv.negotiatedVideoCodecs)"
				case kind == kV.Name():
					want = "ref($recv.videoCodecs)"
				case kind == kA.Name() && na:
					want = "ref($recv.negotiatedAudioCodecs)"
				case kind == kA.Name():
					want = "ref($recv.audioCodecs)"
				}
				bad := ""
				if len(row.Outcomes) == 0 {
					bad = "no outcome"
				}
				for _, o := range row.Outcomes {
					if o.Panic != "" || len(o.Results) != 1 {
						bad = "indefinite outcome " + o.String()
						continue
					}
					if got := o.Results[0].String(); got != want {
						bad = sprintf("returns %s, expected %s (a negotiated kind must be answered from the negotiated, remote-derived list only; a kind not yet negotiated from the registered list)", got, want)
					}
				}
				r.Check(bad == "", rule, byKind.Name()+"|"+absint.Describe(dims, row.Valuation), pos, "returns "+want, bad)
			}
		}
	}

	// getCodecByPayload
	{
		pos := c.P.Pos(byPT.Decl.Pos())
		dims := []absint.Dim{{Key: "$recv.negotiatedVideo", Domain: tf}, {Key: "$recv.negotiatedAudio", Domain: tf}}
		listKind := map[string]string{"$recv.negotiatedVideoCodecs": kV.Name(), "$recv.videoCodecs": kV.Name(), "$recv.negotiatedAudioCodecs": kA.Name(), "$recv.audioCodecs": kA.Name()}
		t := absint.Tabulate(absint.Config{P: c.P, Dims: dims, Inline: inline,
			OnCall: func(in *absint.Interp, st *absint.State, call *ast.CallExpr, fn *types.Func, recv absint.Val, args []absint.Val) (absint.Val, bool) {
				if fn == find.Obj {
					p := "?"
					if ref, ok := args[0].(absint.Ref); ok {
						p = ref.Path
					}
					st.Emit("find(" + p + ")")
					return absint.Top{}, true
				}
				return nil, false
			}}, byPT)
		if !tableProblems(c, rule, byPT.Name()+"|table", pos, t) {
			r.Cells += len(t.Rows)
			for _, row := range t.Rows {
				nv, na := row.Get("$recv.negotiatedVideo") == "true", row.Get("$recv.negotiatedAudio") == "true"
				bad := ""
				sawNV, sawNA, sawV, sawA := false, false, false, false
				if len(row.Outcomes) == 0 {
					bad = "no outcome"
				}
				for _, o := range row.Outcomes {
					if o.Panic != "" || len(o.Results) != 3 {
						bad = "indefinite outcome " + o.String()
						continue
					}
					registeredSeen := false
					last := ""
					for _, ev := range o.Trace {
						if !strings.HasPrefix(ev, "find(") {
							continue
						}
						l := strings.TrimSuffix(strings.TrimPrefix(ev, "find("), ")")
						last = l
						switch l {
						case "$recv.negotiatedVideoCodecs":
							sawNV = true
							if registeredSeen {
								bad = "a negotiated list is consulted after a registered list: " + strings.Join(o.Trace, "; ")
							}
							if !nv {
								bad = "the negotiated video list is consulted although video is not negotiated"
							}
						case "$recv.negotiatedAudioCodecs":
							sawNA = true
							if registeredSeen {
								bad = "a negotiated list is consulted after a registered list: " + strings.Join(o.Trace, "; ")
							}
							if !na {
								bad = "the negotiated audio list is consulted although audio is not negotiated"
							}
						case "$recv.videoCodecs":
							sawV, registeredSeen = true, true
							if nv {
								bad = "the registered video codecs are consulted although video is negotiated (an incoming payload type would resolve to a codec the remote did not offer)"
							}
						case "$recv.audioCodecs":
							sawA, registeredSeen = true, true
							if na {
								bad = "the registered audio codecs are consulted although audio is negotiated (an incoming payload type would resolve to a codec the remote did not offer)"
							}
						default:
							bad = "lookup in an unexpected list " + l
						}
					}
					// a successful outcome returns the kind of the list consulted last
					if _, isNil := o.Results[2].(absint.Nil); isNil {
						if want := listKind[last]; want == "" || o.Results[1].String() != want {
							bad = sprintf("a codec found in %s is reported as kind %s", last, o.Results[1].String())
						}
					} else if _, isErr := o.Results[2].(absint.NonNil); !isErr {
						bad = "error result undecided: " + o.String()
					}
				}
				if bad == "" {
					switch {
					case nv && !sawNV:
						bad = "video is negotiated but the negotiated video list is never consulted"
					case na && !sawNA:
						bad = "audio is negotiated but the negotiated audio list is never consulted"
					case !nv && !sawV:
						bad = "video is not negotiated but the registered video codecs are never consulted"
					case !na && !sawA:
						bad = "audio is not negotiated but the registered audio codecs are never consulted"
					}
				}
				r.Check(bad == "", rule, byPT.Name()+"|"+absint.Describe(dims, row.Valuation), pos, sprintf("%d outcome(s): negotiated lists first, registered only for kinds not negotiated", len(row.Outcomes)), bad)
			}
		}
	}

	// findCodecByPayload: a codec is returned only under equality of its payload type with the argument
	{
		g := c.P.GraphOf(find)
		pos := c.P.Pos(find.Decl.Pos())
		sig := find.Obj.Type().(*types.Signature)
		ptField := c.mustField(rule, "", "RTPCodecParameters", "PayloadType")
		if ptField == nil || sig.Params().Len() != 2 {
			return
		}
		pv := core.NewProv(c.P, find)
		isEq := func(e ast.Expr) bool {
			be, ok := ast.Unparen(e).(*ast.BinaryExpr)
			if !ok || be.Op != token.EQL {
				return false
			}
			for _, pr := range [][2]ast.Expr{{be.X, be.Y}, {be.Y, be.X}} {
				if core.FieldOf(g.Info, pr[0]) == ptField && core.VarOf(g.Info, pr[1]) == sig.Params().At(1) {
					lv := c15StripAddr(pv.Leaves(pr[0]))
					if len(lv) == 1 && lv["param:0"].Kind == "param" {
						return true
					}
				}
			}
			return false
		}
		cf := &core.ConstFlow{G: g, Assume: func(e ast.Expr, env core.CFEnv) (constant.Value, bool) {
			if isEq(e) {
				return constant.MakeBool(false), true
			}
			return nil, false
		}}
		res := cf.Run(g.Entry, core.CFEnv{})
		bad := ""
		n := 0
		for _, rn := range g.Returns() {
			ret := g.Nodes[rn].Ast.(*ast.ReturnStmt)
			if len(ret.Results) != 1 || core.IsNilIdent(g.Info, ret.Results[0]) {
				continue
			}
			n++
			if res.ReachedNode(rn) {
				bad = "a codec is returned on a path where its payload type differs from the requested one"
			}
			lv := c15StripAddr(pv.Leaves(ret.Results[0])) // the address is taken by the return itself
			if len(lv) != 1 || lv["param:0"].Kind != "param" {
				bad = "the returned codec is not an element of the searched list: " + core.LeafKeys(lv)
			}
		}
		if n == 0 {
			bad = "never returns a codec"
		}
		r.Check(bad == "", rule, find.Name()+"|returns-only-equal-payload-type", pos, "non-nil results only under PayloadType equality, element of the searched list", bad)
	}
}

// ---- R5: codecParametersFuzzySearch

func c15R5(c *Ctx, rule string) {
	r := c.R
	fi := c.mustFunc(rule, "", "codecParametersFuzzySearch")
	parse := c.mustFunc(rule, "internal/fmtp", "Parse")
	cre := c.mustFunc(rule, "internal/fmtp", "ClockRateEqual")
	che := c.mustFunc(rule, "internal/fmtp", "ChannelsEqual")
	kN, kP, kE := c.mustConst(rule, "", "codecMatchNone"), c.mustConst(rule, "", "codecMatchPartial"), c.mustConst(rule, "", "codecMatchExact")
	mimeF := c.mustField(rule, "", "RTPCodecCapability", "MimeType")
	clockF := c.mustField(rule, "", "RTPCodecCapability", "ClockRate")
	chanF := c.mustField(rule, "", "RTPCodecCapability", "Channels")
	fmtpF := c.mustField(rule, "", "RTPCodecCapability", "SDPFmtpLine")
	if fi == nil || parse == nil || cre == nil || che == nil || kN == nil || kP == nil || kE == nil || mimeF == nil || clockF == nil || chanF == nil || fmtpF == nil {
		return
	}
	fmtpIface := c.P.Named("internal/fmtp", "FMTP")
	if fmtpIface == nil {
		r.Fail(rule, "anchor:internal/fmtp/FMTP", "-", "interface no longer resolves")
		return
	}
	g := c.P.GraphOf(fi)
	info := g.Info
	pv := core.NewProv(c.P, fi)
	pos := c.P.Pos(fi.Decl.Pos())
	sig := fi.Obj.Type().(*types.Signature)
	if sig.Params().Len() != 2 || sig.Results().Len() != 2 {
		r.Undecided(rule, fi.Name()+"|shape", pos, "unexpected signature")
		return
	}
	needle, hay := sig.Params().At(0), sig.Params().At(1)
	z := &c15Fz{c: c, fi: fi, g: g, info: info, pv: pv, side: map[*types.Var]string{needle: "needle", hay: "hay"},
		parse: parse.Obj, cre: cre.Obj, che: che.Obj, fields: []*types.Var{mimeF, clockF, chanF, fmtpF}}
	matchTest := func(e ast.Expr) *types.Var { return z.test(e, "match", 0) }
	partialTest := func(e ast.Expr, which string) *types.Var { return z.test(e, which, 0) }
	assumeFalse := func(pred func(ast.Expr) bool) *core.CFResult {
		cf := &core.ConstFlow{G: g, Assume: func(e ast.Expr, env core.CFEnv) (constant.Value, bool) {
			if pred(e) {
				return constant.MakeBool(false), true
			}
			return nil, false
		}}
		res := cf.Run(g.Entry, core.CFEnv{})
		r.Cells += res.States
		return res
	}
	noMatch := assumeFalse(func(e ast.Expr) bool { return matchTest(e) != nil })
	noPartial := map[string]*core.CFResult{}
	for _, w := range []string{"mime", "clock", "channels"} {
		w := w
		noPartial[w] = assumeFalse(func(e ast.Expr) bool { return partialTest(e, w) != nil })
	}
	enclosingRangeOver := func(n ast.Node, elem *types.Var) *ast.RangeStmt {
		var out *ast.RangeStmt
		for _, x := range g.PathTo(n) {
			if rs, ok := x.(*ast.RangeStmt); ok && rs.Value != nil && core.VarOf(info, rs.Value) == elem && core.VarOf(info, rs.X) == hay {
				out = rs
			}
		}
		return out
	}
	var exactLoops []*ast.RangeStmt
	type retInfo struct {
		node int
		ret  *ast.ReturnStmt
		kind string
	}
	var rets []retInfo
	for _, rn := range g.Returns() {
		ret := g.Nodes[rn].Ast.(*ast.ReturnStmt)
		if len(ret.Results) != 2 {
			r.Undecided(rule, fi.Name()+"|return", c.P.Pos(ret.Pos()), "return without two explicit results")
			continue
		}
		tv := info.Types[ret.Results[1]]
		kind := ""
		if tv.Value != nil {
			for _, k := range []*types.Const{kN, kP, kE} {
				if constant.Compare(tv.Value, token.EQL, k.Val()) {
					kind = k.Name()
				}
			}
		}
		if kind == "" {
			r.Undecided(rule, fi.Name()+"|return", c.P.Pos(ret.Pos()), "the match type returned is not one of the three constants: "+exprStr(ret.Results[1]))
			continue
		}
		rets = append(rets, retInfo{rn, ret, kind})
	}
	sort.Slice(rets, func(i, j int) bool { return rets[i].ret.Pos() < rets[j].ret.Pos() })
	cnt := map[string]int{}
	for _, ri := range rets {
		cnt[ri.kind]++
		key := sprintf("%s|return:%s#%d", fi.Name(), ri.kind, cnt[ri.kind])
		p := c.P.Pos(ri.ret.Pos())
		elem := core.VarOf(info, ri.ret.Results[0])
		switch ri.kind {
		case kE.Name():
			rs := enclosingRangeOver(ri.ret, elem)
			switch {
			case elem == nil || rs == nil:
				r.Fail(rule, key, p, "Exact is returned with "+exprStr(ri.ret.Results[0])+", which is not the haystack element being examined")
			case noMatch.ReachedNode(ri.node):
				r.Fail(rule, key, p, "Exact is returned on a path where fmtp.Parse(needle).Match(fmtp.Parse(element)) does not hold for the returned element")
			default:
				// the match test that guards it must concern the returned element
				okElem := false
				ast.Inspect(rs.Body, func(n ast.Node) bool {
					if e, ok := n.(ast.Expr); ok && matchTest(e) == elem {
						okElem = true
					}
					return true
				})
				r.Check(okElem, rule, key, p, "only under Match of needle and the returned element", "the Match test does not concern the returned element")
				exactLoops = append(exactLoops, rs)
			}
		case kP.Name():
			rs := enclosingRangeOver(ri.ret, elem)
			bad := ""
			if elem == nil || rs == nil {
				bad = "Partial is returned with " + exprStr(ri.ret.Results[0]) + ", which is not the haystack element being examined"
			}
			for _, w := range []string{"mime", "clock", "channels"} {
				if bad != "" {
					break
				}
				found := false
				ast.Inspect(rs.Body, func(n ast.Node) bool {
					if e, ok := n.(ast.Expr); ok && partialTest(e, w) == elem {
						found = true
					}
					return true
				})
				if !found {
					bad = "no " + w + " comparison between the needle and the returned element"
				} else if noPartial[w].ReachedNode(ri.node) {
					bad = "Partial is returned on a path where the " + w + " comparison fails"
				}
			}
			r.Check(bad == "", rule, key, p, "only under EqualFold(mime), ClockRateEqual and ChannelsEqual with the returned element", bad)
		default:
			lv := pv.Leaves(ri.ret.Results[0])
			r.Check(len(lv) == 0, rule, key, p, "None is returned with the zero codec", "None is returned together with a codec derived from "+core.LeafKeys(lv))
		}
	}
	if cnt[kE.Name()] == 0 || cnt[kP.Name()] == 0 {
		r.Fail(rule, fi.Name()+"|returns", pos, sprintf("expected at least one Exact and one Partial return, found %d/%d", cnt[kE.Name()], cnt[kP.Name()]))
		return
	}
	// order: every Partial return lies behind the completed exact scan(s)
	cnt2 := 0
	for _, ri := range rets {
		if ri.kind != kP.Name() {
			continue
		}
		cnt2++
		key := sprintf("%s|exact-scan-completes-before|return:%s#%d", fi.Name(), ri.kind, cnt2)
		doneEdges := map[core.EdgeRef]bool{}
		for _, rs := range exactLoops {
			if head, _, _, ok := g.RangeLoop(rs); ok {
				doneEdges[core.EdgeRef{From: head, Idx: 1}] = true
			}
		}
		okOrder := len(doneEdges) > 0 && g.DominatedByEdges(ri.node, doneEdges)
		r.Check(okOrder, rule, key, c.P.Pos(ri.ret.Pos()), "dominated by the exit of the exact scan", "a Partial result can be returned before every haystack element has been tried for an exact match: exact matches are no longer preferred")
	}
}

// c15StripAddr drops the "address taken" marker leaves (used where the only address-of is the returned pointer itself).
func c15StripAddr(lv map[string]core.Leaf) map[string]core.Leaf {
	for k, lf := range lv {
		if lf.Kind == "unknown" && strings.HasPrefix(lf.Name, "address of ") {
			delete(lv, k)
		}
	}
	return lv
}

// c15ParseHelperParam: fn is a module function all of whose returns are parse(p.F0, p.F1, p.F2, p.F3) for one
// parameter p (never reassigned); returns p's index, else -1.
func c15ParseHelperParam(c *Ctx, fn, parse *types.Func, fields []*types.Var) int {
	fi := c.P.DeclOf(fn)
	if fi == nil || fi.Decl.Body == nil {
		return -1
	}
	info := fi.Pkg.TypesInfo
	sig := fi.Obj.Type().(*types.Signature)
	if sig.Results().Len() != 1 {
		return -1
	}
	idx, nRet := -1, 0
	bad := false
	ast.Inspect(fi.Decl.Body, func(n ast.Node) bool {
		switch s := n.(type) {
		case *ast.FuncLit:
			bad = true
			return false
		case *ast.AssignStmt:
			for _, l := range s.Lhs {
				if v := c15RootVar(info, l); v != nil {
					for i := 0; i < sig.Params().Len(); i++ {
						if sig.Params().At(i) == v {
							bad = true // a parameter is modified
						}
					}
				}
			}
		case *ast.ReturnStmt:
			nRet++
			if len(s.Results) != 1 {
				bad = true
				return true
			}
			call, ok := ast.Unparen(s.Results[0]).(*ast.CallExpr)
			if !ok || !core.IsCallTo(info, call, parse) || len(call.Args) != len(fields) {
				bad = true
				return true
			}
			for k, a := range call.Args {
				if core.FieldOf(info, a) != fields[k] {
					bad = true
					continue
				}
				root := c15RootVar(info, a)
				j := -1
				for i := 0; i < sig.Params().Len(); i++ {
					if sig.Params().At(i) == root {
						j = i
					}
				}
				if j < 0 || (idx >= 0 && idx != j) {
					bad = true
				}
				idx = j
			}
		}
		return true
	})
	if bad || nRet == 0 {
		return -1
	}
	return idx
}

// c15Fz recognises, inside one function, the tests that relate the needle to a haystack element:
// "match" (fmtp.Parse(x).Match(fmtp.Parse(y))), "mime" (EqualFold of the mime types), "clock", "channels".
// side says which parameters stand for the needle ("needle"), the haystack ("hay": its range elements are
// candidates) or one haystack element ("hayelem"). A same-module boolean helper applied to (needle, element)
// counts as test K when, inside the helper, assuming K false makes every return false (followed to depth 2).
type c15Fz struct {
	c      *Ctx
	fi     *core.FuncInfo
	g      *core.Graph
	info   *types.Info
	pv     *core.Prov
	side   map[*types.Var]string
	parse  *types.Func
	cre    *types.Func
	che    *types.Func
	fields []*types.Var // MimeType, ClockRate, Channels, SDPFmtpLine
	memo   map[ast.Expr]map[string]*types.Var
}

// sideOf: "needle", or "hay" with the variable holding the haystack element, or "".
func (z *c15Fz) sideOf(e ast.Expr) (string, *types.Var) {
	lv := z.pv.Leaves(e)
	if len(lv) != 1 {
		return "", nil
	}
	for _, lf := range lv {
		if lf.Kind != "param" {
			return "", nil
		}
		switch z.side[lf.Var] {
		case "needle":
			return "needle", nil
		case "hay":
			return "hay", c15RootVar(z.info, e)
		case "hayelem":
			return "hay", lf.Var
		}
	}
	return "", nil
}

// parsedSide: e is (a variable defined only as) fmtp.Parse(x.MimeType, x.ClockRate, x.Channels, x.SDPFmtpLine), or a helper doing that for one parameter.
func (z *c15Fz) parsedSide(e ast.Expr, depth int) (string, *types.Var) {
	info := z.info
	e = ast.Unparen(e)
	if call, ok := e.(*ast.CallExpr); ok && core.IsCallTo(info, call, z.parse) && len(call.Args) == 4 {
		s0, v0 := "", (*types.Var)(nil)
		for i, a := range call.Args {
			if core.FieldOf(info, a) != z.fields[i] {
				return "", nil
			}
			s, v := z.sideOf(a)
			if s == "" || (i > 0 && (s != s0 || v != v0)) {
				return "", nil
			}
			s0, v0 = s, v
		}
		return s0, v0
	}
	if v := core.VarOf(info, e); v != nil && depth < 3 {
		defs := z.pv.DefExprs(v)
		if len(defs) != 1 || defs[0] == nil {
			return "", nil
		}
		return z.parsedSide(defs[0], depth+1)
	}
	if call, ok := e.(*ast.CallExpr); ok && depth < 3 {
		if j := c15ParseHelperParam(z.c, core.Callee(info, call), z.parse, z.fields); j >= 0 && j < len(call.Args) {
			if core.VarOf(info, call.Args[j]) != nil {
				return z.sideOf(call.Args[j])
			}
		}
	}
	return "", nil
}

func c15Pair(s1 string, v1 *types.Var, s2 string, v2 *types.Var) *types.Var {
	switch {
	case s1 == "needle" && s2 == "hay":
		return v2
	case s1 == "hay" && s2 == "needle":
		return v1
	}
	return nil
}

// test returns the haystack-element variable that e tests against the needle with test `kind` (nil: e is not such a test).
func (z *c15Fz) test(e ast.Expr, kind string, depth int) *types.Var {
	if z.memo == nil {
		z.memo = map[ast.Expr]map[string]*types.Var{}
	}
	if m, ok := z.memo[e]; ok {
		if v, ok := m[kind]; ok {
			return v
		}
	} else {
		z.memo[e] = map[string]*types.Var{}
	}
	v := z.test1(e, kind, depth)
	z.memo[e][kind] = v
	return v
}

func (z *c15Fz) test1(e ast.Expr, kind string, depth int) *types.Var {
	info := z.info
	call, ok := ast.Unparen(e).(*ast.CallExpr)
	if !ok {
		return nil
	}
	fn := core.Callee(info, call)
	if fn == nil {
		return nil
	}
	switch kind {
	case "match":
		if sel, ok := ast.Unparen(call.Fun).(*ast.SelectorExpr); ok && sel.Sel.Name == "Match" && len(call.Args) == 1 &&
			fn.Pkg() != nil && fn.Pkg().Path() == core.ModPath+"/internal/fmtp" {
			s1, v1 := z.parsedSide(sel.X, 0)
			s2, v2 := z.parsedSide(call.Args[0], 0)
			return c15Pair(s1, v1, s2, v2)
		}
	case "mime", "clock", "channels":
		var a, b ast.Expr
		var f *types.Var
		switch {
		case kind == "mime" && fn.Pkg() != nil && fn.Pkg().Path() == "strings" && fn.Name() == "EqualFold" && len(call.Args) == 2:
			a, b, f = call.Args[0], call.Args[1], z.fields[0]
		case kind == "clock" && fn == z.cre && len(call.Args) == 3:
			a, b, f = call.Args[1], call.Args[2], z.fields[1]
		case kind == "channels" && fn == z.che && len(call.Args) == 3:
			a, b, f = call.Args[1], call.Args[2], z.fields[2]
		}
		if a != nil {
			if core.FieldOf(info, a) != f || core.FieldOf(info, b) != f {
				return nil
			}
			s1, v1 := z.sideOf(a)
			s2, v2 := z.sideOf(b)
			return c15Pair(s1, v1, s2, v2)
		}
	}
	// a boolean helper of the module applied to the needle and one haystack element
	hfi := z.c.P.DeclOf(fn)
	if hfi == nil || hfi.Decl.Body == nil || depth >= 2 || hfi == z.fi {
		return nil
	}
	hsig := hfi.Obj.Type().(*types.Signature)
	if hsig.Results().Len() != 1 || !isBoolT(hsig.Results().At(0).Type()) || hsig.Recv() != nil || hsig.Variadic() || len(call.Args) != hsig.Params().Len() {
		return nil
	}
	child := &c15Fz{c: z.c, fi: hfi, g: z.c.P.GraphOf(hfi), info: hfi.Pkg.TypesInfo, pv: core.NewProv(z.c.P, hfi), side: map[*types.Var]string{},
		parse: z.parse, cre: z.cre, che: z.che, fields: z.fields}
	var elem *types.Var
	nNeedle := 0
	for i, a := range call.Args {
		if core.VarOf(info, a) == nil {
			if tv := info.Types[a]; tv.Value != nil {
				continue
			}
			return nil
		}
		s, v := z.sideOf(a)
		switch s {
		case "needle":
			child.side[hsig.Params().At(i)] = "needle"
			nNeedle++
		case "hay":
			if v == nil || core.VarOf(info, a) != v || (elem != nil && elem != v) {
				return nil // the haystack itself, or two different elements
			}
			elem = v
			child.side[hsig.Params().At(i)] = "hayelem"
		default:
			return nil
		}
	}
	if elem == nil || nNeedle == 0 {
		return nil
	}
	// inside the helper: assuming the test false, every return must be false
	found := false
	ast.Inspect(hfi.Decl.Body, func(n ast.Node) bool {
		if x, ok := n.(ast.Expr); ok && child.test(x, kind, depth+1) != nil {
			found = true
		}
		return true
	})
	if !found {
		return nil
	}
	cf := &core.ConstFlow{G: child.g, Assume: func(x ast.Expr, env core.CFEnv) (constant.Value, bool) {
		if child.test(x, kind, depth+1) != nil {
			return constant.MakeBool(false), true
		}
		return nil, false
	}}
	res := cf.Run(child.g.Entry, core.CFEnv{})
	z.c.R.Cells += res.States
	nRet := 0
	for _, rn := range child.g.Returns() {
		ret := child.g.Nodes[rn].Ast.(*ast.ReturnStmt)
		for _, env := range res.Reached[rn] {
			nRet++
			if len(ret.Results) != 1 {
				return nil
			}
			v, ok := cf.Eval(ret.Results[0], env)
			if !ok || v.Kind() != constant.Bool || constant.BoolVal(v) {
				return nil
			}
		}
	}
	if nRet == 0 {
		return nil
	}
	return elem
}

func isBoolT(t types.Type) bool {
	b, ok := t.Underlying().(*types.Basic)
	return ok && b.Info()&types.IsBoolean != 0
}
