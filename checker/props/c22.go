package props

import (
	"go/ast"
	"go/types"
	"strings"

	"verif/checker/absint"
	"verif/checker/core"
)

func init() {
	register(&Prop{
		ID:        "C22",
		Engine:    "e1tab+e2cfg",
		Technique: "finite-domain abstract interpretation: exhaustive table of updateConnectionState over (closed, ICE state, DTLS state, stored state) compared with the W3C RTCPeerConnectionState function; who-may-write sweep for the stored state",
		LevelText: "Exhaustive decision table extracted from the source for every (closed flag, ICE connection state, DTLS transport state, previously stored state) and compared cell by cell with the W3C §4.3.3 aggregate; the notification is shown to fire iff the computed state differs from the stored one; the ICE transport->connection state mapping is tabulated as well.",
		LevelNote: "Trusted: the W3C function as transcribed in the checker (precedence closed>failed>disconnected>new>connecting>connected), absint soundness on the supported fragment. Cells involving Unknown/undeclared enum values have no W3C oracle and are listed, not judged. Two concurrent updates interleaving between compare and store are not covered.",
		DesignRef: "DESIGN.md §5 C22",
		Run:       runC22,
	})
}

// w3cConnectionState is the W3C RTCPeerConnectionState aggregate for one ICE and one DTLS transport.
// States are given by their W3C names; "" means the spec gives no answer.
func w3cConnectionState(closed bool, ice, dtls string) string {
	in := func(s string, set ...string) bool {
		for _, x := range set {
			if s == x {
				return true
			}
		}
		return false
	}
	switch {
	case closed:
		return "closed"
	case ice == "failed" || dtls == "failed":
		return "failed"
	case ice == "disconnected":
		return "disconnected"
	case in(ice, "new", "closed") && in(dtls, "new", "closed"):
		return "new"
	case in(ice, "new", "checking") || in(dtls, "new", "connecting"):
		return "connecting"
	case in(ice, "connected", "completed", "closed") && in(dtls, "connected", "closed"):
		return "connected"
	}
	return ""
}

func w3cName(constName, prefix string) string {
	return strings.ToLower(strings.TrimPrefix(constName, prefix))
}

func runC22(c *Ctx) {
	r := c.R
	r.Exhaustive = true
	r.Rule("C22.R1", "updateConnectionState, tabulated over (closed, ICE state, DTLS state): the state handed to onConnectionStateChange equals the W3C RTCPeerConnectionState aggregate in every cell over the W3C states", 70)
	r.Rule("C22.R2", "the notification happens iff the computed state differs from the stored state (tabulated over the stored state too); the stored state is written only by onConnectionStateChange and the constructor; onConnectionStateChange is called only from updateConnectionState", 73)
	r.Rule("C22.R4", "freshness: at every call of updateConnectionState the DTLS argument is pc.dtlsTransport.State() read in the call itself, or a local sampled from it with no other call between the sample and the update; likewise an ICE argument sampled through ICEConnectionState()", 6)
	r.Rule("C22.R5", "no lost update: after every pc.dtlsTransport.Start / Stop in a PeerConnection method every path to the function exit passes updateConnectionState (the error path of Start, which leaves DTLS failed, included)", 2)
	r.Rule("C22.R3", "the ICETransportState -> ICEConnectionState mapping in createICETransport is the identity on names and feeds both onICEConnectionStateChange and updateConnectionState", 7)
	r.NotCovered = append(r.NotCovered, "interleaving of two concurrent updateConnectionState calls between compare and store", "cells with Unknown / undeclared enum values (no W3C oracle)")
	r.Trusted = append(r.Trusted, "W3C webrtc §4.3.3 aggregate as transcribed in props/c22.go", "absint soundness on the supported fragment")

	upd := c.mustFunc("C22.R1", "", "PeerConnection.updateConnectionState")
	onChange := c.mustFunc("C22.R1", "", "PeerConnection.onConnectionStateChange")
	if upd == nil || onChange == nil {
		return
	}
	ice, ok1 := enumDomain(c, "C22.R1", "", "ICEConnectionState", 77)
	dtls, ok2 := enumDomain(c, "C22.R1", "", "DTLSTransportState", 77)
	pcs, ok3 := enumDomain(c, "C22.R1", "", "PeerConnectionState", 77)
	if !ok1 || !ok2 || !ok3 {
		return
	}
	dims := []absint.Dim{
		{Key: "$recv.isClosed.Load()", Domain: []absint.Val{absint.BoolVal(false), absint.BoolVal(true)}},
		{Key: "$p0", Domain: ice},
		{Key: "$p1", Domain: dtls},
		{Key: "$recv.connectionState.Load()", Domain: pcs},
	}
	t := absint.Tabulate(absint.Config{P: c.P, Dims: dims, Inline: c22PureHelper, Pure: c22PureHelper,
		OnCall: func(in *absint.Interp, st *absint.State, call *ast.CallExpr, fn *types.Func, recv absint.Val, args []absint.Val) (absint.Val, bool) {
			if fn == onChange.Obj && len(args) == 1 {
				st.Emit("notify(" + args[0].String() + ")")
				return absint.Tuple{}, true
			}
			return nil, false
		}}, upd)
	pos := c.P.Pos(upd.Decl.Pos())
	if tableProblems(c, "C22.R1", "updateConnectionState|table", pos, t) {
		return
	}
	r.Cells += len(t.Rows)
	// group rows by (closed, ice, dtls)
	type cell struct {
		computed map[string]bool
		bad      []string
	}
	cells := map[string]*cell{}
	var order []string
	for _, row := range t.Rows {
		closed, i, d, stored := row.Get("$recv.isClosed.Load()"), row.Get("$p0"), row.Get("$p1"), row.Get("$recv.connectionState.Load()")
		k := closed + "|" + i + "|" + d
		if cells[k] == nil {
			cells[k] = &cell{computed: map[string]bool{}}
			order = append(order, k)
		}
		cl := cells[k]
		if len(row.Outcomes) != 1 || row.Outcomes[0].Panic != "" {
			cl.bad = append(cl.bad, "stored="+stored+": no single definite outcome: "+outcomesStr(row.Outcomes))
			continue
		}
		tr := row.Outcomes[0].Trace
		switch len(tr) {
		case 0:
			// no notification: the computed state equals stored
			cl.computed[stored] = true
		case 1:
			v := strings.TrimSuffix(strings.TrimPrefix(tr[0], "notify("), ")")
			cl.computed[v] = true
			if v == stored {
				cl.bad = append(cl.bad, "stored="+stored+": handler notified although the state did not change")
			}
		default:
			cl.bad = append(cl.bad, "stored="+stored+": more than one notification")
		}
	}
	for _, k := range order {
		cl := cells[k]
		p := strings.Split(k, "|")
		closed, i, d := p[0] == "true", p[1], p[2]
		key := sprintf("updateConnectionState|cell|closed=%v,%s,%s", closed, i, d)
		// R2 per cell
		if len(cl.bad) > 0 {
			r.Fail("C22.R2", key, pos, strings.Join(cl.bad, "; "))
		} else if len(cl.computed) != 1 {
			r.Fail("C22.R2", key, pos, sprintf("computed state depends on the stored state: %v", sortedKeys(cl.computed)))
		} else {
			r.OK("C22.R2", key, pos, "notification iff computed != stored")
		}
		// R1
		if len(cl.computed) != 1 {
			continue
		}
		got := sortedKeys(cl.computed)[0]
		iw, dw := w3cName(i, "ICEConnectionState"), w3cName(d, "DTLSTransportState")
		isW3C := func(s string, set string) bool { return strings.Contains(" "+set+" ", " "+s+" ") }
		if !isW3C(iw, "new checking connected completed disconnected failed closed") || !isW3C(dw, "new connecting connected closed failed") {
			r.Info("C22.R1", key, pos, "no W3C oracle for Unknown/undeclared values; computes "+got)
			continue
		}
		want := w3cConnectionState(closed, iw, dw)
		if want == "" {
			r.Info("C22.R1", key, pos, "W3C gives no state for this combination; computes "+got)
			continue
		}
		gw := w3cName(got, "PeerConnectionState")
		r.Check(gw == want, "C22.R1", key, pos, "computes "+gw, sprintf("computes %s, W3C aggregate is %s", gw, want))
	}

	// stored state: who may write
	csField := c.mustField("C22.R2", "", "PeerConnection", "connectionState")
	ctor := c.P.Func("", "API.NewPeerConnection")
	if csField != nil {
		for _, fi := range c.P.AllFuncs() {
			if fi.Decl.Body == nil {
				continue
			}
			info := fi.Pkg.TypesInfo
			ast.Inspect(fi.Decl.Body, func(n ast.Node) bool {
				call, ok := n.(*ast.CallExpr)
				if !ok {
					return true
				}
				sel, ok := ast.Unparen(call.Fun).(*ast.SelectorExpr)
				if !ok || core.FieldOf(info, sel.X) != csField {
					return true
				}
				switch sel.Sel.Name {
				case "Store", "Swap", "CompareAndSwap":
					key := "connectionState." + sel.Sel.Name + "|in:" + fi.Name()
					okSite := fi == onChange || fi == ctor
					r.Check(okSite, "C22.R2", key, c.P.Pos(call.Pos()), "stored state written in its owner", "stored connection state written outside onConnectionStateChange/constructor: the changed-test can be bypassed")
				}
				return true
			})
		}
		// who may notify: the handler-invoking function is called only from updateConnectionState (behind the changed-test)
		for _, fi := range c.P.AllFuncs() {
			if fi.Decl.Body == nil {
				continue
			}
			info := fi.Pkg.TypesInfo
			ast.Inspect(fi.Decl.Body, func(n ast.Node) bool {
				if call, ok := n.(*ast.CallExpr); ok && core.IsCallTo(info, call, onChange.Obj) {
					r.Check(fi == upd, "C22.R2", "call:onConnectionStateChange|in:"+fi.Name(), c.P.Pos(call.Pos()),
						"notification goes through updateConnectionState's changed-test", "onConnectionStateChange is called directly, bypassing the 'only when the state actually changes' test in updateConnectionState")
				}
				// taking the method value would allow indirect calls
				if se, ok := n.(*ast.SelectorExpr); ok && info.Uses[se.Sel] == types.Object(onChange.Obj) {
					if sel := info.Selections[se]; sel != nil && sel.Kind() == types.MethodVal {
						return true
					}
				}
				return true
			})
		}
		// onConnectionStateChange stores its argument
		g := c.P.GraphOf(onChange)
		stores := g.FindNodes(func(n ast.Node) bool {
			call, ok := n.(*ast.CallExpr)
			if !ok {
				return false
			}
			sel, ok := ast.Unparen(call.Fun).(*ast.SelectorExpr)
			return ok && sel.Sel.Name == "Store" && core.FieldOf(g.Info, sel.X) == csField && len(call.Args) == 1 &&
				core.VarOf(g.Info, call.Args[0]) == onChange.Obj.Type().(*types.Signature).Params().At(0)
		})
		okStore := len(stores) == 1 && g.Dominated(g.Exit, core.NodeSet(stores))
		r.Check(okStore, "C22.R2", "onConnectionStateChange|stores-argument", c.P.Pos(onChange.Decl.Pos()), "stores its argument on every path", "does not store the new state on every path")
	}

	c22R3(c, upd)
	c22R45(c) // c22b.go
}

func c22R3(c *Ctx, upd *core.FuncInfo) {
	r := c.R
	create := c.mustFunc("C22.R3", "", "PeerConnection.createICETransport")
	onICE := c.mustFunc("C22.R3", "", "PeerConnection.onICEConnectionStateChange")
	if create == nil || onICE == nil {
		return
	}
	its, ok := enumDomain(c, "C22.R3", "", "ICETransportState", 77)
	if !ok {
		return
	}
	// the literal whose parameter is an ICETransportState
	var lit *ast.FuncLit
	info := create.Pkg.TypesInfo
	itsType := c.P.Named("", "ICETransportState")
	ast.Inspect(create.Decl.Body, func(n ast.Node) bool {
		if fl, ok := n.(*ast.FuncLit); ok {
			if sig, ok := info.TypeOf(fl).(*types.Signature); ok && sig.Params().Len() == 1 && types.Identical(sig.Params().At(0).Type(), itsType) {
				lit = fl
			}
		}
		return true
	})
	pos := c.P.Pos(create.Decl.Pos())
	if lit == nil {
		r.Undecided("C22.R3", "createICETransport|handler-literal", pos, "state-change handler literal not found")
		return
	}
	t := absint.TabulateLit(absint.Config{P: c.P, Dims: []absint.Dim{{Key: "$p0", Domain: its}}, Inline: c22PureHelper, Pure: c22PureHelper,
		OnCall: func(in *absint.Interp, st *absint.State, call *ast.CallExpr, fn *types.Func, recv absint.Val, args []absint.Val) (absint.Val, bool) {
			switch fn {
			case onICE.Obj:
				st.Emit("ice(" + args[0].String() + ")")
				return absint.Tuple{}, true
			case upd.Obj:
				st.Emit("update(" + args[0].String() + ")")
				return absint.Tuple{}, true
			}
			return nil, false
		}}, lit)
	if tableProblems(c, "C22.R3", "createICETransport|handler-table", pos, t) {
		return
	}
	r.Cells += len(t.Rows)
	for _, row := range t.Rows {
		s := row.Get("$p0")
		key := "createICETransport|map|" + s
		name := strings.TrimPrefix(s, "ICETransportState")
		if name == s || name == "Unknown" {
			r.Info("C22.R3", key, pos, "undeclared/Unknown transport state: "+outcomesStr(row.Outcomes))
			continue
		}
		want := "ICEConnectionState" + name
		ok := len(row.Outcomes) == 1 && len(row.Outcomes[0].Trace) == 2 &&
			row.Outcomes[0].Trace[0] == "ice("+want+")" && row.Outcomes[0].Trace[1] == "update("+want+")"
		r.Check(ok, "C22.R3", key, pos, "maps to "+want+" and updates the aggregate with it", "expected ice("+want+") then update("+want+"), got "+outcomesStr(row.Outcomes))
	}
}

// c22PureHelper: same-module helpers whose parameters and results are all scalars (bool / integer / string kinds,
// i.e. the state enums) are interpreted in place, so that extracting the aggregate or the state mapping into a pure
// function does not turn the table into unknowns.
func c22PureHelper(fn *types.Func) bool {
	if fn.Pkg() == nil || !strings.HasPrefix(fn.Pkg().Path(), core.ModPath) {
		return false
	}
	sig, ok := fn.Type().(*types.Signature)
	if !ok {
		return false
	}
	scalar := func(t types.Type) bool {
		b, ok := t.Underlying().(*types.Basic)
		return ok && b.Info()&(types.IsBoolean|types.IsInteger|types.IsString) != 0
	}
	n := 0
	for i := 0; i < sig.Params().Len(); i++ {
		if !scalar(sig.Params().At(i).Type()) {
			return false
		}
		n++
	}
	for i := 0; i < sig.Results().Len(); i++ {
		if !scalar(sig.Results().At(i).Type()) {
			return false
		}
	}
	return n > 0 && sig.Results().Len() > 0
}
