package props

import (
	"go/ast"
	"go/constant"
	"go/types"
	"strings"

	"verif/checker/absint"
	"verif/checker/core"
)

func init() {
	register(&Prop{
		ID:        "C27",
		Engine:    "e1tab+e3lock",
		Technique: "interval-partition abstract interpretation of the three match functions against RFC 7983/5761; lock-region (atomicity) rule for endpoint registration + pending flush; FIFO shape rule for the pending queue",
		LevelText: "The three matchers are tabulated over the exact interval partition of (len, byte0, byte1) induced by the constants they compare against, so the table is their meaning for every datagram; exclusivity and the RFC 7983 ranges are checked per cell. Registration of an endpoint and the flush of queued datagrams must be one critical section of the mux lock, which rules out every interleaving in which a later datagram overtakes the queue.",
		LevelNote: "Trusted: RFC 7983 first-byte ranges / RFC 5761 second-byte range as transcribed; the partition argument requires that len/byte values are only compared with constants (checked; otherwise UNDECIDED). Map-iteration order for overlapping custom matchers is not covered.",
		DesignRef: "DESIGN.md §5 C27",
		Run:       runC27,
	})
}

func runC27(c *Ctx) {
	r := c.R
	r.Exhaustive = true
	r.Rule("C27.R1", "MatchDTLS/MatchSRTP/MatchSRTCP tabulated over the interval partition of (len, b0, b1): DTLS iff len>=1 and 20<=b0<=63; SRTP or SRTCP iff len>=1 and 128<=b0<=191; SRTCP iff additionally len>=4 and 192<=b1<=223 (for len 2..3 either, but exactly one); never two at once; never a panic", 300)
	r.Rule("C27.R2", "the DTLS transport creates its endpoints with exactly MatchDTLS, MatchSRTP and MatchSRTCP", 3)
	r.Rule("C27.R3", "NewEndpoint inserts the endpoint into the endpoint table and flushes the pending datagrams to it inside one critical section of the mux lock (no release in between, flush not deferred to another goroutine)", 1)
	r.Rule("C27.R4", "pending datagrams are appended at the tail under the mux lock, flushed by a forward range, and the queue is replaced only by the flush; dispatch selects an endpoint and queues under the same lock acquisition", 4)
	r.NotCovered = append(r.NotCovered, "map-iteration order when two custom matchers overlap", "delivery inside packetio.Buffer")
	r.Trusted = append(r.Trusted, "RFC 7983 §7 ranges, RFC 5761 §4 RTCP packet-type range", "absint soundness; interval-partition argument")

	byteT := types.Typ[types.Uint8]
	intT := types.Typ[types.Int]
	ivs := []intervalDim{
		{Key: "len($p0)", Min: 0, Max: 70000, Type: intT, Seeds: []int64{0, 1, 2, 4}},
		{Key: "$p0[0]", Min: 0, Max: 255, Type: byteT, Seeds: []int64{20, 63, 64, 128, 191, 192}},
		{Key: "$p0[1]", Min: 0, Max: 255, Type: byteT, Seeds: []int64{192, 223, 224}},
	}
	type res struct {
		match, nomatch, panics bool
	}
	results := map[string]map[string]res{} // fn -> valuation -> result
	var valKeys []string
	valOf := map[string][3]int64{}
	names := []string{"MatchDTLS", "MatchSRTP", "MatchSRTCP"}
	for _, name := range names {
		fi := c.mustFunc("C27.R1", "internal/mux", name)
		if fi == nil {
			return
		}
		pos := c.P.Pos(fi.Decl.Pos())
		base := absint.Config{P: c.P, Inline: func(fn *types.Func) bool {
			return fn.Pkg() != nil && fn.Pkg().Path() == core.ModPath+"/internal/mux"
		}}
		t, reps, escapes := tabulateIntervals(c.P, base, fi, ivs, nil)
		if tableProblems(c, "C27.R1", name+"|table", pos, t) {
			return
		}
		if len(escapes) > 0 {
			r.Undecided("C27.R1", name+"|partition", pos, "a length/byte value is used other than in a comparison with a constant, the interval partition is not exhaustive: "+strings.Join(escapes, "; "))
			return
		}
		r.Extra["representatives_"+name] = reps
		r.Cells += len(t.Rows)
		results[name] = map[string]res{}
		for _, row := range t.Rows {
			l, b0, b1 := intOf(row.Valuation["len($p0)"]), intOf(row.Valuation["$p0[0]"]), intOf(row.Valuation["$p0[1]"])
			// valuations where an indexed byte does not exist are normalised: byte dims are irrelevant below that length
			k := sprintf("len=%d,b0=%d,b1=%d", l, b0, b1)
			var rs res
			for _, o := range row.Outcomes {
				switch {
				case o.Panic != "":
					rs.panics = true
				case len(o.Results) == 1 && absint.IsTrue(o.Results[0]):
					rs.match = true
				case len(o.Results) == 1 && absint.IsFalse(o.Results[0]):
					rs.nomatch = true
				default:
					rs.panics = true // undecided outcome treated as failure below
				}
			}
			results[name][k] = rs
			if _, seen := valOf[k]; !seen {
				valOf[k] = [3]int64{l, b0, b1}
				valKeys = append(valKeys, k)
			}
		}
	}
	pos := c.P.Pos(c.P.Func("internal/mux", "MatchDTLS").Decl.Pos())
	for _, k := range valKeys {
		v := valOf[k]
		l, b0, b1 := v[0], v[1], v[2]
		key := "match|" + k
		var got []string
		bad := ""
		for _, name := range names {
			rs, ok := results[name][k]
			if !ok {
				bad = "cell missing for " + name + " (representative sets differ)"
				break
			}
			if rs.panics {
				bad = name + " panics or is undecided for this datagram shape"
				break
			}
			if rs.match && rs.nomatch {
				bad = name + " is not a function of (len, b0, b1)"
				break
			}
			if rs.match {
				got = append(got, name)
			}
		}
		if bad == "" {
			if len(got) > 1 {
				bad = "datagram matched by more than one class: " + strings.Join(got, ",")
			}
			wantDTLS := l >= 1 && b0 >= 20 && b0 <= 63
			wantRTx := l >= 1 && b0 >= 128 && b0 <= 191
			g := ""
			if len(got) == 1 {
				g = got[0]
			}
			switch {
			case bad != "":
			case wantDTLS && g != "MatchDTLS":
				bad = "RFC 7983: first byte in [20..63] is DTLS, got '" + g + "'"
			case !wantDTLS && g == "MatchDTLS":
				bad = "classified as DTLS although first byte is outside [20..63] (or empty datagram)"
			case wantRTx && g != "MatchSRTP" && g != "MatchSRTCP":
				bad = "RFC 7983: first byte in [128..191] is RTP/RTCP, got '" + g + "'"
			case !wantRTx && (g == "MatchSRTP" || g == "MatchSRTCP"):
				bad = "classified as SRTP/SRTCP although first byte is outside [128..191]"
			case wantRTx && l >= 4 && b1 >= 192 && b1 <= 223 && g != "MatchSRTCP":
				bad = "second byte in [192..223] must be SRTCP, got " + g
			case wantRTx && l >= 4 && (b1 < 192 || b1 > 223) && g != "MatchSRTP":
				bad = "second byte outside [192..223] must be SRTP, got " + g
			case wantRTx && l < 2 && g != "MatchSRTP":
				bad = "a datagram without a second byte cannot be SRTCP"
			}
		}
		r.Check(bad == "", "C27.R1", key, pos, "classified per RFC 7983", bad)
	}

	c27R2(c)
	c27R34(c)
}

func intOf(v absint.Val) int64 {
	if k, ok := v.(absint.Const); ok {
		n, _ := constant.Int64Val(k.V)
		return n
	}
	return -1
}

func c27R2(c *Ctx) {
	r := c.R
	want := map[string]bool{"MatchDTLS": false, "MatchSRTP": false, "MatchSRTCP": false}
	newEP := c.mustFunc("C27.R2", "", "ICETransport.newEndpoint")
	if newEP == nil {
		return
	}
	for _, fi := range c.P.AllFuncs() {
		if fi.Decl.Body == nil || fi.Pkg != c.P.Pkg("") {
			continue
		}
		info := fi.Pkg.TypesInfo
		ast.Inspect(fi.Decl.Body, func(n ast.Node) bool {
			call, ok := n.(*ast.CallExpr)
			if !ok || !core.IsCallTo(info, call, newEP.Obj) || len(call.Args) != 1 {
				return true
			}
			arg := ast.Unparen(call.Args[0])
			name := ""
			if se, ok := arg.(*ast.SelectorExpr); ok {
				if fn, ok := info.Uses[se.Sel].(*types.Func); ok && fn.Pkg() != nil && fn.Pkg().Path() == core.ModPath+"/internal/mux" {
					name = fn.Name()
				}
			}
			key := "newEndpoint|in:" + fi.Name() + "|" + exprStr(arg)
			if _, ok := want[name]; ok {
				want[name] = true
				r.OK("C27.R2", key, c.P.Pos(call.Pos()), "endpoint created with "+name)
			} else {
				r.Fail("C27.R2", key, c.P.Pos(call.Pos()), "transport endpoint created with a matcher other than MatchDTLS/MatchSRTP/MatchSRTCP")
			}
			return true
		})
	}
	for name, seen := range want {
		if !seen {
			r.Fail("C27.R2", "newEndpoint|missing:"+name, "-", "no endpoint is created with "+name)
		}
	}
}

func c27R34(c *Ctx) {
	r := c.R
	newEP := c.mustFunc("C27.R3", "internal/mux", "Mux.NewEndpoint")
	dispatch := c.mustFunc("C27.R4", "internal/mux", "Mux.dispatch")
	endpoints := c.mustField("C27.R3", "internal/mux", "Mux", "endpoints")
	pending := c.mustField("C27.R3", "internal/mux", "Mux", "pendingPackets")
	if newEP == nil || dispatch == nil || endpoints == nil || pending == nil {
		return
	}
	pkg := c.P.Pkg("internal/mux")
	info := pkg.TypesInfo

	// flush functions: range over m.pendingPackets and reassign it
	flushFns := map[*types.Func]*core.FuncInfo{}
	for _, fi := range c.P.AllFuncs() {
		if fi.Pkg != pkg || fi.Decl.Body == nil {
			continue
		}
		ranges, assigns := false, false
		ast.Inspect(fi.Decl.Body, func(n ast.Node) bool {
			switch s := n.(type) {
			case *ast.RangeStmt:
				if core.FieldOf(info, s.X) == pending {
					ranges = true
				}
			case *ast.AssignStmt:
				for _, l := range s.Lhs {
					if core.FieldOf(info, l) == pending {
						assigns = true
					}
				}
			}
			return true
		})
		if ranges && assigns {
			flushFns[fi.Obj] = fi
			r.Saw("internal/mux." + fi.Name())
		}
	}

	// ---- R3
	g := c.P.GraphOf(newEP)
	li := core.Locks(g)
	pos := c.P.Pos(newEP.Decl.Pos())
	inserts := g.FindNodes(func(n ast.Node) bool {
		as, ok := n.(*ast.AssignStmt)
		if !ok {
			return false
		}
		for _, l := range as.Lhs {
			if ix, ok := ast.Unparen(l).(*ast.IndexExpr); ok && core.FieldOf(info, ix.X) == endpoints {
				return true
			}
		}
		return false
	})
	isFlush := func(n ast.Node) bool {
		call, ok := n.(*ast.CallExpr)
		if !ok {
			return false
		}
		fn := core.Callee(info, call)
		return fn != nil && flushFns[fn] != nil
	}
	var flushNodes, asyncFlush []int
	for _, id := range g.FindNodes(isFlush) {
		switch g.Nodes[id].Ast.(type) {
		case *ast.GoStmt, *ast.DeferStmt:
			asyncFlush = append(asyncFlush, id)
		default:
			flushNodes = append(flushNodes, id)
		}
	}
	// inline flush: NewEndpoint itself ranges over pending
	if flushFns[newEP.Obj] != nil {
		flushNodes = append(flushNodes, g.FindNodes(func(n ast.Node) bool {
			as, ok := n.(*ast.AssignStmt)
			if !ok {
				return false
			}
			for _, l := range as.Lhs {
				if core.FieldOf(info, l) == pending {
					return true
				}
			}
			return false
		})...)
	}
	key := "Mux.NewEndpoint|register+flush-atomic"
	switch {
	case len(inserts) != 1:
		r.Undecided("C27.R3", key, pos, sprintf("expected one insertion into m.endpoints, found %d", len(inserts)))
	case len(flushNodes) == 0 && len(asyncFlush) > 0:
		r.Fail("C27.R3", key, c.P.Pos(g.PosOf(asyncFlush[0])), "the pending-queue flush runs in a separate goroutine/deferred call after the endpoint became visible: a datagram dispatched in between is delivered before the queued ones")
	case len(flushNodes) == 0:
		r.Fail("C27.R3", key, pos, "NewEndpoint never flushes the pending queue to the new endpoint")
	default:
		lockInst := ""
		for inst, cl := range li.ClassOf {
			if cl == "Mux.lock" {
				lockInst = inst
			}
		}
		ok, why := false, "mux lock not used in NewEndpoint"
		if lockInst != "" {
			ok, why = li.SameRegion(inserts[0], flushNodes[0], lockInst)
		}
		// callee must not re-acquire the lock itself when called with it held (self-deadlock) - checked by requiring the flush callee to be lock-free
		if ok {
			for _, fn := range flushFns {
				if fn.Obj == newEP.Obj {
					continue
				}
				fli := core.Locks(c.P.GraphOf(fn))
				for _, o := range fli.Ops {
					if o.Class == "Mux.lock" {
						callers := g.FindNodes(func(n ast.Node) bool { return core.IsCallTo(info, n, fn.Obj) })
						if len(callers) > 0 {
							ok, why = false, "flush callee "+fn.Name()+" acquires the mux lock although NewEndpoint calls it with the lock held"
						}
					}
				}
			}
		}
		r.Check(ok, "C27.R3", key, c.P.Pos(g.PosOf(inserts[0])), "insertion and flush share one critical section of "+lockInst, why)
	}

	// ---- R4
	// (a) every write of pendingPackets outside flush functions is a tail append under the lock
	for _, fi := range c.P.AllFuncs() {
		if fi.Pkg != pkg || fi.Decl.Body == nil {
			continue
		}
		fg := c.P.GraphOf(fi)
		fli := core.Locks(fg)
		for _, n := range fg.Nodes {
			if n.Ast == nil {
				continue
			}
			as, ok := n.Ast.(*ast.AssignStmt)
			if !ok {
				continue
			}
			for i, l := range as.Lhs {
				if core.FieldOf(info, l) != pending {
					continue
				}
				key := "pendingPackets-write|in:" + fi.Name()
				p := c.P.Pos(as.Pos())
				held := false
				for inst := range fli.In[n.ID] {
					if fli.ClassOf[inst] == "Mux.lock" {
						held = true
					}
				}
				// called only with the lock held? (flush helper invoked from NewEndpoint's region)
				// a helper that never takes the lock itself is fine when every call site holds it
				if !held && fi != newEP {
					held = calledOnlyUnderLock(c, fi, "Mux.lock")
				}
				if !held {
					r.Fail("C27.R4", key, p, "pending queue written without the mux lock")
					continue
				}
				if flushFns[fi.Obj] != nil {
					r.OK("C27.R4", key, p, "flush replaces the queue under the lock")
					continue
				}
				okAppend := false
				if len(as.Rhs) == len(as.Lhs) {
					if call, ok := ast.Unparen(as.Rhs[i]).(*ast.CallExpr); ok {
						if id, ok := call.Fun.(*ast.Ident); ok && id.Name == "append" && len(call.Args) >= 2 && core.FieldOf(info, call.Args[0]) == pending {
							okAppend = true
						}
					}
				}
				r.Check(okAppend, "C27.R4", key, p, "tail append under the lock", "pending queue modified other than by a tail append (arrival order not preserved)")
				if okAppend {
					// what is queued must not alias the function's []byte parameter: readLoop hands dispatch a slice of its one
					// reusable read buffer, so a queued alias is overwritten by the next datagram
					call := ast.Unparen(as.Rhs[i]).(*ast.CallExpr)
					g := c.P.GraphOf(fi)
					params := map[*types.Var]bool{}
					if sig, ok := fi.Obj.Type().(*types.Signature); ok {
						for k := 0; k < sig.Params().Len(); k++ {
							if sl, ok := sig.Params().At(k).Type().Underlying().(*types.Slice); ok && types.Identical(sl.Elem(), types.Typ[types.Byte]) {
								params[sig.Params().At(k)] = true
							}
						}
					}
					var alias func(e ast.Expr, depth int) bool
					alias = func(e ast.Expr, depth int) bool {
						switch v := ast.Unparen(e).(type) {
						case *ast.Ident:
							vv := core.VarOf(info, v)
							if params[vv] {
								return true
							}
							if vv != nil && depth < 3 {
								if rhs, _ := g.UniqueDef(vv); rhs != nil {
									return alias(rhs, depth+1)
								}
							}
						case *ast.SliceExpr:
							return alias(v.X, depth)
						}
						return false
					}
					aliased := false
					for _, a := range call.Args[1:] {
						if alias(a, 0) {
							aliased = true
						}
					}
					r.Check(!aliased, "C27.R4", "pendingPackets-append|in:"+fi.Name()+"|queues-a-private-copy", p, "the queued datagram is a copy, not the caller's buffer",
						"the pending queue keeps the caller's buffer itself (no copy): readLoop re-uses one read buffer, so every queued datagram is overwritten by the next one read and is delivered with the wrong bytes / to the wrong endpoint")
				}
			}
		}
	}
	// (b) the flush iterates forward with a plain range and keeps non-matching packets in order
	for _, fn := range flushFns {
		ok := false
		ast.Inspect(fn.Decl.Body, func(n ast.Node) bool {
			if rs, isR := n.(*ast.RangeStmt); isR && core.FieldOf(info, rs.X) == pending {
				ok = true
			}
			return true
		})
		r.Check(ok, "C27.R4", "flush-forward-range|"+fn.Name(), c.P.Pos(fn.Decl.Pos()), "forward range over the queue", "flush does not iterate the queue with a forward range")
	}
	// (c) dispatch: endpoint selection and queueing happen in one lock region
	dg := c.P.GraphOf(dispatch)
	dli := core.Locks(dg)
	sel := dg.FindNodes(func(n ast.Node) bool {
		rs, ok := n.(ast.Expr)
		return ok && core.FieldOf(info, rs) == endpoints
	})
	// functions of the package that write the pending queue (the append may live in a helper called under the lock)
	pendingWriters := map[*types.Func]bool{}
	for _, fi := range c.P.AllFuncs() {
		if fi.Pkg != pkg || fi.Decl.Body == nil || fi == dispatch {
			continue
		}
		ast.Inspect(fi.Decl.Body, func(n ast.Node) bool {
			if as, ok := n.(*ast.AssignStmt); ok {
				for _, l := range as.Lhs {
					if core.FieldOf(info, l) == pending {
						pendingWriters[fi.Obj] = true
					}
				}
			}
			return true
		})
	}
	app := dg.FindNodes(func(n ast.Node) bool {
		if call, ok := n.(*ast.CallExpr); ok {
			if fn := core.Callee(info, call); fn != nil && pendingWriters[fn] {
				return true
			}
		}
		as, ok := n.(*ast.AssignStmt)
		if !ok {
			return false
		}
		for _, l := range as.Lhs {
			if core.FieldOf(info, l) == pending {
				return true
			}
		}
		return false
	})
	if len(sel) == 0 || len(app) == 0 {
		r.Undecided("C27.R4", "dispatch|select+queue-atomic", c.P.Pos(dispatch.Decl.Pos()), "could not find the endpoint lookup / queue append in dispatch")
	} else {
		lockInst := ""
		for inst, cl := range dli.ClassOf {
			if cl == "Mux.lock" {
				lockInst = inst
			}
		}
		ok, why := dli.SameRegion(sel[0], app[0], lockInst)
		r.Check(ok, "C27.R4", "dispatch|select+queue-atomic", c.P.Pos(dispatch.Decl.Pos()), "no endpoint can be registered between the failed lookup and the queueing", why)
	}
}

// calledOnlyUnderLock reports whether every call site of fi in its package holds a lock of the class (and none is a go statement).
func calledOnlyUnderLock(c *Ctx, fi *core.FuncInfo, class string) bool {
	n := 0
	for _, caller := range c.P.AllFuncs() {
		if caller.Pkg != fi.Pkg || caller.Decl.Body == nil {
			continue
		}
		g := c.P.GraphOf(caller)
		var li *core.LockInfo
		for _, id := range g.FindNodes(func(x ast.Node) bool { return core.IsCallTo(g.Info, x, fi.Obj) }) {
			n++
			switch g.Nodes[id].Ast.(type) {
			case *ast.GoStmt, *ast.DeferStmt:
				return false
			}
			if li == nil {
				li = core.Locks(g)
			}
			held := false
			for inst := range li.In[id] {
				if li.ClassOf[inst] == class {
					held = true
				}
			}
			if !held {
				return false
			}
		}
		// calls inside function literals are not in g: treat as not under lock
		lit := false
		ast.Inspect(caller.Decl.Body, func(x ast.Node) bool {
			if fl, ok := x.(*ast.FuncLit); ok {
				ast.Inspect(fl.Body, func(y ast.Node) bool {
					if core.IsCallTo(caller.Pkg.TypesInfo, y, fi.Obj) {
						lit = true
					}
					return true
				})
			}
			return true
		})
		if lit {
			return false
		}
	}
	return n > 0
}
