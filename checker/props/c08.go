package props

import (
	"go/ast"
	"go/constant"
	"go/token"
	"go/types"
	"sort"
	"strings"

	"golang.org/x/tools/go/cfg"

	"verif/checker/absint"
	"verif/checker/core"
)

func init() {
	register(&Prop{
		ID:        "C08",
		Engine:    "e1tab+e2cfg",
		Technique: "finite-domain abstract interpretation with a region root: the per-m-section body of SetRemoteDescription's loop is tabulated over (offered direction) x (how the local transceiver is found: by mid / by type+direction / none) x (its direction), with setDirection/Stop/newRTPTransceiver as effects on an abstract transceiver; the resulting direction of the transceiver that owns the section's mid is compared with RFC 3264 §6.1; satisfyTypeAndDirection and findByMid are tabulated separately; provenance and who-may-write rules tie the table to the direction attribute written by addTransceiverSDP",
		LevelText: "Exhaustive finite table extracted from the source: for every offered direction and every way a local transceiver can be matched (5 x (4 by-mid + accepted by-type + absent)), the direction the matched or created transceiver ends with is computed by abstract interpretation of the loop body (effects of Stop, setDirection and newRTPTransceiver inlined) and must be a legal RFC 3264 §6.1 response. Further rules show that this transceiver's Direction() is the only direction attribute of the answer's m-section and that nothing else in the negotiation path writes a transceiver's direction.",
		LevelNote: "Trusted: RFC 3264 §6.1 as transcribed in props/c08.go; absint soundness on the supported fragment; callbacks through function values are not followed by the may-reach relation (operations queue, user handlers run asynchronously). Does not decide direction changes made by the application (AddTrack/RemoveTrack/ReplaceTrack) between SetRemoteDescription and CreateAnswer, nor Plan-B answers.",
		DesignRef: "DESIGN.md §5 C08",
		Run:       runC08,
	})
}

// c08Legal is RFC 3264 §6.1: the directions an answer may carry for an offered direction (names without the enum prefix).
var c08Legal = map[string]map[string]bool{
	"Sendonly": {"Recvonly": true, "Inactive": true},
	"Recvonly": {"Sendonly": true, "Inactive": true},
	"Inactive": {"Inactive": true},
	"Sendrecv": {"Sendrecv": true, "Sendonly": true, "Recvonly": true, "Inactive": true},
}

const c08DirPrefix = "RTPTransceiverDirection"

func c08Short(name string) string { return strings.TrimPrefix(name, c08DirPrefix) }

func runC08(c *Ctx) {
	r := c.R
	r.Exhaustive = true
	r.Rule("C08.R1", "loop body of SetRemoteDescription, tabulated over (offered direction, local transceiver found by mid with each direction / none): the direction of the transceiver that ends up owning the section's mid is a legal RFC 3264 §6.1 response (sendonly->recvonly|inactive, recvonly->sendonly|inactive, inactive->inactive)", 20)
	r.Rule("C08.R2", "the direction attribute of an answer m-section is Direction() of that section's transceiver and nothing else: addTransceiverSDP writes exactly one non-constant property attribute, transceivers[0].Direction().String(), on every successful path; every other property attribute is a constant that is not a direction; generateMatchedSDP's unified-plan section holds the transceiver found by the section's mid", 8)
	r.Rule("C08.R3", "satisfyTypeAndDirection, tabulated over (offered direction, directions and mids of two candidate transceivers): it returns nil or one of the candidates, and every (offered, candidate direction) pair it accepts is mapped by R1's table into the legal set", 12)
	r.Rule("C08.R4", "frame: the direction cell is written only by setDirection and read only by Direction(); setDirection is called only from the constructor, Stop, setSendingTrack (application calls), the tabulated loop body and the plan-B placeholder; findByMid returns nil or the element whose Mid() equals the argument; no call after the loop in SetRemoteDescription can reach setDirection", 14)
	r.Rule("C08.R6", "setSendingTrack (the only application-side writer of a negotiated transceiver's direction between SetRemoteDescription and CreateAnswer), tabulated over (track nil?, current direction): with track == nil the new direction's {send,recv} capabilities are a subset of the old one's; with a track it gains at most send (legal(O) of RFC 3264 §6.1 is downward closed, so a legal answer stays legal)", 8)
	r.Rule("C08.R7", "isSendAllowed (AddTrack's reuse guard), tabulated over (current direction, recorded remote direction): never true when the recorded remote direction is sendonly or inactive", 12)
	r.Rule("C08.R5", "every transceiver that takes over a remote m-section in SetRemoteDescription has that section's direction recorded (setCurrentRemoteDirection) before it is given the mid: the record is what AddTrack consults before turning a receive-only answer into a sending one", 1)
	r.NotCovered = append(r.NotCovered,
		"direction changes made by the application (AddTrack, RemoveTrack, ReplaceTrack, Stop) between SetRemoteDescription and CreateAnswer",
		"Plan-B answers (several transceivers per section)",
		"sections skipped by the loop (unknown kind / no direction attribute): C07's subject",
		"error exits of SetRemoteDescription after the signaling state was committed (C03's subject)",
		"calls through function values (operations queue, user callbacks) are not followed when deciding which callees may write a direction")
	r.Trusted = append(r.Trusted, "RFC 3264 §6.1 legal-response sets as transcribed in props/c08.go", "absint soundness on the supported fragment")

	setRemote := c.mustFunc("C08.R1", "", "PeerConnection.SetRemoteDescription")
	getDir := c.mustFunc("C08.R1", "", "getPeerDirection")
	findByMid := c.mustFunc("C08.R1", "", "findByMid")
	satisfy := c.mustFunc("C08.R3", "", "satisfyTypeAndDirection")
	setDirection := c.mustFunc("C08.R4", "", "RTPTransceiver.setDirection")
	direction := c.mustFunc("C08.R4", "", "RTPTransceiver.Direction")
	midFn := c.mustFunc("C08.R1", "", "RTPTransceiver.Mid")
	setMid := c.mustFunc("C08.R1", "", "RTPTransceiver.SetMid")
	addTr := c.mustFunc("C08.R2", "", "addTransceiverSDP")
	genMatched := c.mustFunc("C08.R2", "", "PeerConnection.generateMatchedSDP")
	dirString := c.mustFunc("C08.R2", "", "RTPTransceiverDirection.String")
	dirField := c.mustField("C08.R4", "", "RTPTransceiver", "direction")
	dirT := c.P.Named("", "RTPTransceiverDirection")
	if setRemote == nil || getDir == nil || findByMid == nil || satisfy == nil || setDirection == nil || direction == nil || midFn == nil || setMid == nil ||
		addTr == nil || genMatched == nil || dirString == nil || dirField == nil || dirT == nil {
		return
	}
	dirs := c.P.ConstsOfType("", "RTPTransceiverDirection")
	if len(dirs) < 5 {
		r.Fail("C08.R1", "anchor:RTPTransceiverDirection", "-", sprintf("expected the five declared directions, found %d (fails closed)", len(dirs)))
		return
	}
	var remoteDom, localDom []absint.Val
	for _, k := range dirs {
		remoteDom = append(remoteDom, absint.ConstOf(k))
		localDom = append(localDom, absint.ConstOf(k))
	}
	remoteDom = append(remoteDom, absint.IntVal(77, dirT))

	sc := c.P.BuildStaticCalls()
	mayWrite := sc.MayReach(setDirection.Obj)

	// ---- R4 frame (also yields the facts R1 relies on)
	c08Frame(c, setRemote, getDir, setDirection, direction, dirField, findByMid, genMatched)

	// ---- R3 table first: which (offered, candidate direction) pairs satisfyTypeAndDirection accepts
	acc, okAcc := c08Satisfy(c, satisfy, remoteDom, localDom)

	// ---- R1 region table
	table, okR1 := c08Region(c, setRemote, getDir, findByMid, satisfy, setDirection, direction, midFn, setMid, remoteDom, localDom, mayWrite)
	if okR1 {
		pos := c.P.Pos(setRemote.Decl.Pos())
		var keys []string
		for k := range table {
			keys = append(keys, k)
		}
		sort.Strings(keys)
		for _, k := range keys {
			cell := table[k]
			remote, source, local := cell.remote, cell.source, cell.local
			rs := c08Short(remote)
			legal, hasOracle := c08Legal[rs]
			localDesc := "absent"
			if source != "none" {
				localDesc = source + ":" + c08Short(local)
			}
			key := sprintf("SetRemoteDescription|cell|offered=%s,local=%s", rs, localDesc)
			rule := "C08.R1"
			switch {
			case source == "bytype":
				rule = "C08.R3"
				key = sprintf("satisfyTypeAndDirection+SetRemoteDescription|cell|offered=%s,candidate=%s", rs, c08Short(local))
				if !okAcc {
					continue
				}
				if !acc[remote+"|"+local] {
					continue // satisfyTypeAndDirection never returns such a candidate: the cell does not exist
				}
			case source == "none" && local != localDom[0].String():
				continue // the local direction is irrelevant when no transceiver exists: one cell
			}
			if !hasOracle || (source != "none" && c08Legal[c08Short(local)] == nil) {
				r.Info(rule, key, pos, "no RFC 3264 oracle for Unknown/undeclared directions; "+cell.describe())
				continue
			}
			switch {
			case cell.undecided != "":
				r.Undecided(rule, key, pos, cell.undecided)
			case len(cell.finals) == 0:
				r.Undecided(rule, key, pos, "no path of the loop body gives this section a transceiver: "+cell.describe())
			default:
				var bad []string
				for f := range cell.finals {
					if !legal[c08Short(f)] {
						bad = append(bad, c08Short(f))
					}
				}
				sort.Strings(bad)
				r.Check(len(bad) == 0, rule, key, pos, "answers "+strings.ToLower(strings.Join(c08ShortAll(cell.finals), "|")),
					sprintf("offer %s is answered %s: RFC 3264 §6.1 allows only %s  [%s]", strings.ToLower(rs), strings.ToLower(strings.Join(bad, "|")), strings.ToLower(strings.Join(c08LegalList(rs), "|")), cell.describe()))
			}
		}
	}

	// ---- R2 emission
	c08Emission(c, addTr, genMatched, findByMid, satisfy, direction, dirString)
	c13DebugDump(c)
	c08R5(c, "C08.R5")
	c08R6(c) // c08c.go
	c08R7(c)
}

func c08ShortAll(m map[string]bool) []string {
	var s []string
	for k := range m {
		s = append(s, c08Short(k))
	}
	sort.Strings(s)
	return s
}

func c08LegalList(remote string) []string {
	var s []string
	for k := range c08Legal[remote] {
		s = append(s, k)
	}
	sort.Strings(s)
	return s
}

type c08Cell struct {
	remote, source, local string
	finals                map[string]bool // final directions of the section's transceiver over all paths that assign one
	skipped, errors       int
	undecided             string
	samples               []string
}

func (c *c08Cell) describe() string {
	return sprintf("%d owning path(s), %d skip(s), %d error exit(s); e.g. %s", len(c.samples), c.skipped, c.errors, strings.Join(c.samples[:min(len(c.samples), 2)], " || "))
}

// c08Loop is the per-m-section loop of SetRemoteDescription (the region R1 tabulates).
type c08Loop struct {
	rs                *ast.RangeStmt
	start, next, done int
	nodes             map[int]bool // graph nodes of the loop body
}

var c08LoopCache = map[*core.FuncInfo]*c08Loop{}

// c08FindLoop locates the innermost range statement of SetRemoteDescription whose body reads the offered direction.
func c08FindLoop(c *Ctx, setRemote, getDir *core.FuncInfo) *c08Loop {
	if l, ok := c08LoopCache[setRemote]; ok {
		return l
	}
	c08LoopCache[setRemote] = nil
	r := c.R
	g := c.P.GraphOf(setRemote)
	info := g.Info
	pos := c.P.Pos(setRemote.Decl.Pos())
	var loops []*ast.RangeStmt
	var stack []*ast.RangeStmt
	var visit func(n ast.Node) bool
	visit = func(n ast.Node) bool {
		switch x := n.(type) {
		case *ast.FuncLit:
			return false
		case *ast.RangeStmt:
			stack = append(stack, x)
			ast.Inspect(x.Body, visit)
			stack = stack[:len(stack)-1]
			return false
		case *ast.CallExpr:
			if core.IsCallTo(info, x, getDir.Obj) && len(stack) > 0 {
				loops = append(loops, stack[len(stack)-1])
			}
		}
		return true
	}
	ast.Inspect(setRemote.Decl.Body, visit)
	if len(loops) != 1 {
		r.Undecided("C08.R1", "SetRemoteDescription|direction-loop", pos, sprintf("expected exactly one loop over the offered m-sections that reads getPeerDirection, found %d", len(loops)))
		return nil
	}
	l := &c08Loop{rs: loops[0], start: -1, next: -1, done: -1}
	for _, n := range g.Nodes {
		if n.Kind != core.NHead || n.Block == nil || n.Block.Stmt != ast.Stmt(l.rs) {
			continue
		}
		switch n.Block.Kind {
		case cfg.KindRangeBody:
			l.start = n.ID
		case cfg.KindRangeLoop:
			l.next = n.ID
		case cfg.KindRangeDone:
			l.done = n.ID
		}
	}
	if l.start < 0 || l.next < 0 {
		r.Undecided("C08.R1", "SetRemoteDescription|direction-loop", c.P.Pos(l.rs.Pos()), "cannot locate the loop body in the control-flow graph")
		return nil
	}
	l.nodes = g.Reach([]int{l.start}, func(k int) bool { return k == l.next || k == l.done }, nil)
	delete(l.nodes, l.next)
	delete(l.nodes, l.done)
	c08LoopCache[setRemote] = l
	return l
}

// c08ObjKey names the abstract object a method is called on.
func c08ObjKey(v absint.Val) string {
	switch x := v.(type) {
	case absint.Ref:
		return x.Path
	case absint.NonNil:
		return "new"
	}
	return "?"
}

// c08Region tabulates the body of the per-m-section loop of SetRemoteDescription.
func c08Region(c *Ctx, setRemote, getDir, findByMid, satisfy, setDirection, direction, midFn, setMid *core.FuncInfo,
	remoteDom, localDom []absint.Val, mayWrite map[*types.Func]bool) (map[string]*c08Cell, bool) {
	r := c.R
	g := c.P.GraphOf(setRemote)
	info := g.Info
	pos := c.P.Pos(setRemote.Decl.Pos())
	loop := c08FindLoop(c, setRemote, getDir)
	if loop == nil {
		return nil, false
	}
	rs, start, next, done := loop.rs, loop.start, loop.next, loop.done
	_ = info
	_ = pos
	stops := map[int]string{next: "next-section"}
	if done >= 0 {
		stops[done] = "loop-done"
	}
	dims := []absint.Dim{
		{Key: "offered", Domain: remoteDom},
		{Key: "source", Domain: []absint.Val{absint.StrVal("bymid"), absint.StrVal("bytype"), absint.StrVal("none")}},
		{Key: "$t.Direction()", Domain: localDom},
	}
	found := func(st *absint.State, which string) absint.Val {
		src, _ := st.Dim("source")
		if src.String() == `"`+which+`"` {
			return absint.Tuple{absint.Ref{Path: "$t", NonNilRef: true}, absint.Top{}}
		}
		return absint.Tuple{absint.Nil{}, absint.Top{}}
	}
	cfgT := absint.Config{P: c.P, Dims: dims, MaxPaths: 400000, MaxDepth: 8,
		// callees that can reach setDirection are interpreted, and so are helpers over plain values (a direction computed by an
		// extracted function); all other module callees cannot write a direction (static call relation, R4)
		Inline: func(fn *types.Func) bool { return mayWrite[fn] || c13ValueHelper(fn) },
		Pure:   func(fn *types.Func) bool { return !mayWrite[fn] },
		OnCall: func(in *absint.Interp, st *absint.State, call *ast.CallExpr, fn *types.Func, recv absint.Val, args []absint.Val) (absint.Val, bool) {
			switch fn {
			case getDir.Obj:
				v, _ := st.Dim("offered")
				return v, true
			case findByMid.Obj:
				return found(st, "bymid"), true
			case satisfy.Obj:
				return found(st, "bytype"), true
			case setDirection.Obj:
				if len(args) == 1 {
					k := c08ObjKey(recv)
					st.SetPath(k+".Direction()", args[0])
					st.Emit("dir " + k + "=" + args[0].String())
					return absint.Tuple{}, true
				}
			case direction.Obj:
				if v, ok := st.Path(c08ObjKey(recv) + ".Direction()"); ok {
					return v, true
				}
				return absint.Top{}, true
			case midFn.Obj, setMid.Obj:
				st.Emit("owner " + c08ObjKey(recv))
				return absint.Top{}, true
			}
			return nil, false
		},
	}
	t := absint.TabulateRegion(cfgT, g, setRemote.Obj.Type().(*types.Signature), setRemote.Obj, absint.Region{Start: start, Stops: stops, Prelude: c13RegionPrelude(g, setRemote.Decl, start, stops, nil)})
	if tableProblems(c, "C08.R1", "SetRemoteDescription|loop-body-table", c.P.Pos(rs.Pos()), t) {
		return nil, false
	}
	r.Cells += len(t.Rows)
	out := map[string]*c08Cell{}
	for _, row := range t.Rows {
		cell := &c08Cell{remote: row.Get("offered"), source: strings.Trim(row.Get("source"), `"`), local: row.Get("$t.Direction()"), finals: map[string]bool{}}
		out[cell.remote+"|"+cell.source+"|"+cell.local] = cell
		for _, o := range row.Outcomes {
			if o.Panic != "" {
				cell.undecided = "a path of the loop body panics: " + o.String()
				continue
			}
			owner := ""
			lastDir := map[string]string{}
			exited := false
			for _, ev := range o.Trace {
				switch {
				case strings.HasPrefix(ev, "owner "):
					owner = strings.TrimPrefix(ev, "owner ")
				case strings.HasPrefix(ev, "dir "):
					kv := strings.SplitN(strings.TrimPrefix(ev, "dir "), "=", 2)
					lastDir[kv[0]] = kv[1]
				case strings.HasPrefix(ev, absint.RegionExitPrefix):
					exited = true
				}
			}
			if !exited {
				// left through a return statement: must be an error exit
				if len(o.Results) == 1 {
					if _, isNil := o.Results[0].(absint.Nil); !isNil {
						cell.errors++
						continue
					}
				}
				cell.undecided = "the loop body returns without an error: " + o.String()
				continue
			}
			if owner == "" {
				cell.skipped++
				continue
			}
			final, ok := lastDir[owner]
			if !ok && owner == "$t" {
				final, ok = cell.local, true
			}
			if !ok || owner == "?" {
				cell.undecided = "cannot determine the direction of the transceiver that takes the section's mid: " + o.String()
				continue
			}
			cell.finals[final] = true
			cell.samples = append(cell.samples, sprintf("%s ends %s after [%s]", owner, c08Short(final), strings.Join(o.Trace, "; ")))
		}
	}
	return out, true
}

// c08Satisfy tabulates satisfyTypeAndDirection over two candidates; returns the accepted (offered|candidate direction) pairs.
func c08Satisfy(c *Ctx, satisfy *core.FuncInfo, remoteDom, localDom []absint.Val) (map[string]bool, bool) {
	r := c.R
	pos := c.P.Pos(satisfy.Decl.Pos())
	sig := satisfy.Obj.Type().(*types.Signature)
	// parameter positions by type: the offered direction and the candidate list
	pDir, pList := -1, -1
	for i := 0; i < sig.Params().Len(); i++ {
		switch t := sig.Params().At(i).Type().(type) {
		case *types.Named:
			if t.Obj().Name() == c08DirPrefix {
				pDir = i
			}
		case *types.Slice:
			pList = i
		}
	}
	if pDir < 0 || pList < 0 {
		r.Undecided("C08.R3", "satisfyTypeAndDirection|signature", pos, "cannot identify the offered-direction and candidate-list parameters")
		return nil, false
	}
	dk, lk := sprintf("$p%d", pDir), sprintf("$p%d", pList)
	mids := []absint.Val{absint.StrVal(""), absint.StrVal("m")}
	dims := []absint.Dim{
		{Key: dk, Domain: remoteDom},
		{Key: "len(" + lk + ")", Domain: []absint.Val{absint.IntVal(2, types.Typ[types.Int])}},
		{Key: lk + "[0].Direction()", Domain: localDom},
		{Key: lk + "[1].Direction()", Domain: localDom},
		{Key: lk + "[0].Mid()", Domain: mids},
		{Key: lk + "[1].Mid()", Domain: mids},
	}
	// helpers over plain values (e.g. the preference table extracted into its own function) are interpreted
	t := absint.Tabulate(absint.Config{P: c.P, Dims: dims, MaxPaths: 1000000, Inline: c13ValueHelper}, satisfy)
	if tableProblems(c, "C08.R3", "satisfyTypeAndDirection|table", pos, t) {
		return nil, false
	}
	r.Cells += len(t.Rows)
	acc := map[string]bool{}
	perRemote := map[string]map[string]bool{}
	bad := map[string]string{}
	var order []string
	for _, row := range t.Rows {
		remote := row.Get(dk)
		if perRemote[remote] == nil {
			perRemote[remote] = map[string]bool{}
			order = append(order, remote)
		}
		for _, o := range row.Outcomes {
			if o.Panic != "" || len(o.Results) != 2 {
				bad[remote] = "indefinite outcome " + o.String()
				continue
			}
			switch v := o.Results[0].(type) {
			case absint.Nil:
			case absint.Ref:
				idx := -1
				for k := 0; k < 2; k++ {
					if v.Path == sprintf("%s[%d]", lk, k) {
						idx = k
					}
				}
				if idx < 0 {
					bad[remote] = "returns a transceiver that is not one of the candidates: " + o.String()
					continue
				}
				d := row.Get(sprintf("%s[%d].Direction()", lk, idx))
				acc[remote+"|"+d] = true
				perRemote[remote][d] = true
			default:
				bad[remote] = "returned transceiver not decided: " + o.String()
			}
		}
	}
	for _, remote := range order {
		key := "satisfyTypeAndDirection|offered=" + c08Short(remote)
		if b := bad[remote]; b != "" {
			r.Undecided("C08.R3", key, pos, b)
			continue
		}
		r.OK("C08.R3", key, pos, "returns nil or a candidate whose direction is one of ["+strings.ToLower(strings.Join(c08ShortAll(perRemote[remote]), " "))+"]")
	}
	r.Extra["satisfy_accepts"] = sortedKeys(acc)
	return acc, len(bad) == 0
}

// c08Frame: who may write / read the direction cell; findByMid's contract; nothing after the loop reaches setDirection.
func c08Frame(c *Ctx, setRemote, getDir, setDirection, direction *core.FuncInfo, dirField *types.Var, findByMid, genMatched *core.FuncInfo) {
	r := c.R
	const rule = "C08.R4"
	// (a) every use of the field
	for _, fi := range c.P.AllFuncs() {
		if fi.Decl.Body == nil {
			continue
		}
		info := fi.Pkg.TypesInfo
		ast.Inspect(fi.Decl.Body, func(n ast.Node) bool {
			se, ok := n.(*ast.SelectorExpr)
			if !ok || core.FieldOf(info, se) != dirField {
				return true
			}
			okSite := fi == setDirection || fi == direction
			r.Check(okSite, rule, "use:RTPTransceiver.direction|in:"+fi.Name(), c.P.Pos(se.Pos()), "the direction cell is touched only by its accessor pair",
				"the direction cell is accessed outside setDirection/Direction(): the table's effect model (setDirection sets what Direction() returns) no longer covers every write")
			return true
		})
	}
	// (b) setDirection stores its parameter, unconditionally
	{
		g := c.P.GraphOf(setDirection)
		p0 := setDirection.Obj.Type().(*types.Signature).Params().At(0)
		stores := g.FindNodes(func(n ast.Node) bool {
			call, ok := n.(*ast.CallExpr)
			if !ok || len(call.Args) != 1 {
				return false
			}
			sel, ok := ast.Unparen(call.Fun).(*ast.SelectorExpr)
			return ok && sel.Sel.Name == "Store" && core.FieldOf(g.Info, sel.X) == dirField && core.VarOf(g.Info, call.Args[0]) == p0
		})
		r.Check(len(stores) >= 1 && g.Dominated(g.Exit, core.NodeSet(stores)), rule, "setDirection|stores-argument", c.P.Pos(setDirection.Decl.Pos()),
			"stores its argument into the direction cell on every path", "setDirection does not store its argument into the direction cell on every path")
	}
	// (c) Direction() returns the loaded cell (or the zero value when nothing was stored)
	{
		info := direction.Pkg.TypesInfo
		loads := 0
		var loaded *types.Var
		ast.Inspect(direction.Decl.Body, func(n ast.Node) bool {
			as, ok := n.(*ast.AssignStmt)
			if !ok || len(as.Rhs) != 1 {
				return true
			}
			ta, ok := ast.Unparen(as.Rhs[0]).(*ast.TypeAssertExpr)
			if !ok {
				return true
			}
			if call, ok := ast.Unparen(ta.X).(*ast.CallExpr); ok {
				if sel, ok := ast.Unparen(call.Fun).(*ast.SelectorExpr); ok && sel.Sel.Name == "Load" && core.FieldOf(info, sel.X) == dirField {
					loads++
					loaded = core.VarOf(info, as.Lhs[0])
				}
			}
			return true
		})
		okRet := loads == 1 && loaded != nil
		nRet := 0
		ast.Inspect(direction.Decl.Body, func(n ast.Node) bool {
			ret, ok := n.(*ast.ReturnStmt)
			if !ok {
				return true
			}
			nRet++
			if len(ret.Results) != 1 {
				okRet = false
				return true
			}
			if core.VarOf(info, ret.Results[0]) == loaded {
				return true
			}
			if tv := info.Types[ret.Results[0]]; tv.Value != nil && constant.Sign(tv.Value) == 0 {
				return true
			}
			okRet = false
			return true
		})
		r.Check(okRet && nRet >= 1, rule, "Direction|returns-cell", c.P.Pos(direction.Decl.Pos()), "returns the value loaded from the direction cell (zero when unset)",
			"Direction() no longer returns exactly the value stored by setDirection")
	}
	// (d) who may call setDirection
	sc := c.P.BuildStaticCalls()
	loop := c08FindLoop(c, setRemote, getDir)
	gRemote := c.P.GraphOf(setRemote)
	// call sites of fn inside SetRemoteDescription that are not in the tabulated loop body
	outsideLoop := func(fn *types.Func) int {
		n := 0
		for _, nd := range gRemote.Nodes {
			if nd.Ast == nil || (loop != nil && loop.nodes[nd.ID]) {
				continue
			}
			ast.Inspect(nd.Ast, func(x ast.Node) bool {
				if core.IsCallTo(gRemote.Info, x, fn) {
					n++
				}
				return true
			})
		}
		return n
	}
	appWriters := map[string]string{
		"(*RTPTransceiver).Stop":            "stop => inactive; interpreted by R1 where the loop body calls it, otherwise an application/close call",
		"(*RTPTransceiver).setSendingTrack": "application call (AddTrack/RemoveTrack/ReplaceTrack): outside the property's quantifier",
	}
	type writer struct {
		fi    *core.FuncInfo
		n     int
		first token.Pos
		fresh bool
	}
	var writers []writer
	for _, fi := range c.P.AllFuncs() {
		if fi.Decl.Body == nil {
			continue
		}
		info := fi.Pkg.TypesInfo
		w := writer{fi: fi, fresh: true}
		ast.Inspect(fi.Decl.Body, func(x ast.Node) bool {
			if call, ok := x.(*ast.CallExpr); ok && core.IsCallTo(info, call, setDirection.Obj) {
				if w.n == 0 {
					w.first = call.Pos()
				}
				w.n++
				// receiver: a variable whose only reaching definition is &RTPTransceiver{...}?
				isFresh := false
				if sel, ok := ast.Unparen(call.Fun).(*ast.SelectorExpr); ok {
					isFresh = c08FreshAlloc(c.P.GraphOf(fi), call, core.VarOf(info, sel.X))
				}
				if !isFresh {
					w.fresh = false
				}
			}
			return true
		})
		if w.n > 0 {
			writers = append(writers, w)
		}
	}
	var writersOfExisting []*types.Func // callers of setDirection on a transceiver they did not allocate, other than the loop body and its helpers
	isWriter := map[*types.Func]bool{}
	for _, w := range writers {
		isWriter[w.fi.Obj] = true
	}
	// helpers of the loop body: writers all of whose callers are SetRemoteDescription's loop body or other such helpers
	helper := map[*types.Func]bool{}
	for changed := true; changed; {
		changed = false
		for _, w := range writers {
			f := w.fi.Obj
			if helper[f] || w.fresh || appWriters[w.fi.Name()] != "" || w.fi == setRemote || len(sc.ValueRefs[f]) > 0 || len(sc.Callers[f]) == 0 {
				continue
			}
			ok := true
			for caller := range sc.Callers[f] {
				switch {
				case caller == setRemote.Obj:
					if outsideLoop(f) > 0 {
						ok = false
					}
				case helper[caller]:
				default:
					ok = false
				}
			}
			if ok {
				helper[f] = true
				changed = true
			}
		}
	}
	for _, w := range writers {
		key := "call:setDirection|in:" + w.fi.Name()
		pos := c.P.Pos(w.first)
		switch {
		case w.fresh:
			r.OK(rule, key, pos, sprintf("%d call(s) on a transceiver allocated in place (constructor / placeholder): no existing direction changes", w.n))
		case appWriters[w.fi.Name()] != "":
			writersOfExisting = append(writersOfExisting, w.fi.Obj)
			r.OK(rule, key, pos, sprintf("%d call(s): %s", w.n, appWriters[w.fi.Name()]))
		case w.fi == setRemote:
			out := outsideLoop(setDirection.Obj)
			r.Check(out == 0 && loop != nil, rule, key, pos, sprintf("%d call(s), all inside the tabulated loop body", w.n),
				sprintf("%d call(s) of setDirection in SetRemoteDescription lie outside the tabulated per-section loop", out))
		case helper[w.fi.Obj]:
			r.OK(rule, key, pos, sprintf("%d call(s) in a helper called only from the tabulated loop body (interpreted by R1)", w.n))
		default:
			writersOfExisting = append(writersOfExisting, w.fi.Obj)
			r.Fail(rule, key, pos, "a new writer of an existing transceiver's direction: neither the tabulated loop body nor an application call; the R1 table does not cover it")
		}
	}
	if refs := sc.ValueRefs[setDirection.Obj]; len(refs) > 0 {
		for f := range refs {
			r.Undecided(rule, "value:setDirection|in:"+core.FuncName(f), "-", "setDirection is used as a function value: its callers can no longer be enumerated")
		}
	}
	// (e) findByMid's contract
	{
		pos := c.P.Pos(findByMid.Decl.Pos())
		ab := []absint.Val{absint.StrVal("a"), absint.StrVal("b")}
		t := absint.Tabulate(absint.Config{P: c.P, Dims: []absint.Dim{{Key: "$p0", Domain: ab}, {Key: "elem($p1).Mid()", Domain: ab}}}, findByMid)
		if !tableProblems(c, rule, "findByMid|table", pos, t) {
			r.Cells += len(t.Rows)
			for _, row := range t.Rows {
				same := row.Get("$p0") == row.Get("elem($p1).Mid()")
				key := sprintf("findByMid|mid-equal=%v", same)
				bad := ""
				mayFind := false
				for _, o := range row.Outcomes {
					if o.Panic != "" || len(o.Results) != 2 {
						bad = "indefinite outcome " + o.String()
						continue
					}
					switch v := o.Results[0].(type) {
					case absint.Nil:
					case absint.Ref:
						if v.Path != "elem($p1)" {
							bad = "returns something that is not an element of the list: " + o.String()
						} else if !same {
							bad = "returns an element whose Mid() differs from the requested mid"
						} else {
							mayFind = true
						}
					default:
						bad = "result not decided: " + o.String()
					}
				}
				if same && !mayFind && bad == "" {
					bad = "never returns the element whose Mid() equals the requested mid"
				}
				r.Check(bad == "", rule, key+sprintf("|%s,%s", row.Get("$p0"), row.Get("elem($p1).Mid()")), pos, "nil or the matching element", bad)
			}
		}
	}
	// (f) nothing outside the loop can reach a write of an existing transceiver's direction, except by closing the connection
	// (close() stops every transceiver; no answer is created afterwards) - checked on the static call relation
	avoid := map[*types.Func]bool{}
	if cl := c.mustFunc(rule, "", "PeerConnection.close"); cl != nil {
		avoid[cl.Obj] = true
	}
	targets := writersOfExisting
	mayWrite := sc.MayReachAvoiding(avoid, targets...)
	if loop == nil {
		r.Undecided(rule, "SetRemoteDescription|outside-loop", c.P.Pos(setRemote.Decl.Pos()), "per-section loop not found")
		return
	}
	nOutside := 0
	for _, n := range gRemote.Nodes {
		if n.Ast == nil || loop.nodes[n.ID] {
			continue
		}
		ast.Inspect(n.Ast, func(x ast.Node) bool {
			call, ok := x.(*ast.CallExpr)
			if !ok {
				return true
			}
			if fn := core.Callee(gRemote.Info, call); fn != nil && mayWrite[fn] {
				nOutside++
				r.Fail(rule, "SetRemoteDescription|outside-loop|call:"+core.FuncName(fn), c.P.Pos(call.Pos()),
					"a call outside the tabulated loop body can reach a write of an existing transceiver's direction (other than by closing the connection): the direction computed by R1's table may be changed afterwards")
			}
			return true
		})
	}
	if nOutside == 0 {
		r.OK(rule, "SetRemoteDescription|outside-loop", c.P.Pos(setRemote.Decl.Pos()), "no call outside the per-section loop reaches a write of an existing transceiver's direction except through close() (static call relation)")
	}
}

// c08FreshAlloc: at the given call, the receiver variable's only reaching definition is the address of a composite literal.
func c08FreshAlloc(g *core.Graph, call *ast.CallExpr, v *types.Var) bool {
	if v == nil || g == nil {
		return false
	}
	nodes := g.FindNodes(func(x ast.Node) bool { return x == ast.Node(call) })
	if len(nodes) != 1 {
		return false
	}
	def := c08SingleDef(g, nodes[0], v)
	u, ok := def.(*ast.UnaryExpr)
	if !ok || u.Op != token.AND {
		return false
	}
	_, isLit := ast.Unparen(u.X).(*ast.CompositeLit)
	return isLit
}

// c08Emission: R2.
func c08Emission(c *Ctx, addTr, genMatched, findByMid, satisfy, direction, dirString *core.FuncInfo) {
	r := c.R
	const rule = "C08.R2"
	g := c.P.GraphOf(addTr)
	info := g.Info
	sig := addTr.Obj.Type().(*types.Signature)
	// the wire strings of the four directions, from RTPTransceiverDirection.String's own table
	dirStrings := map[string]bool{}
	{
		var dom []absint.Val
		for _, k := range c.P.ConstsOfType("", c08DirPrefix) {
			if constant.Sign(k.Val()) != 0 {
				dom = append(dom, absint.ConstOf(k))
			}
		}
		ts := absint.Tabulate(absint.Config{P: c.P, Dims: []absint.Dim{{Key: "$recv", Domain: dom}}}, dirString)
		if tableProblems(c, rule, "RTPTransceiverDirection.String|table", c.P.Pos(dirString.Decl.Pos()), ts) {
			return
		}
		for _, row := range ts.Rows {
			if len(row.Outcomes) == 1 && len(row.Outcomes[0].Results) == 1 {
				if k, ok := row.Outcomes[0].Results[0].(absint.Const); ok && k.V.Kind() == constant.String {
					dirStrings[constant.StringVal(k.V)] = true
				}
			}
		}
	}
	if len(dirStrings) != 4 {
		r.Fail(rule, "anchor:direction-strings", "-", sprintf("expected four direction wire strings, found %d (fails closed)", len(dirStrings)))
		return
	}
	// functions that may write attributes of this media description: addTransceiverSDP and the module callees that receive it
	scope := []*core.FuncInfo{addTr}
	seen := map[*core.FuncInfo]bool{addTr: true}
	for i := 0; i < len(scope); i++ {
		fi := scope[i]
		ast.Inspect(fi.Decl.Body, func(n ast.Node) bool {
			call, ok := n.(*ast.CallExpr)
			if !ok {
				return true
			}
			fn := core.Callee(fi.Pkg.TypesInfo, call)
			d := c.P.DeclOf(fn)
			if d == nil || seen[d] || d.Decl.Body == nil {
				return true
			}
			ps := fn.Type().(*types.Signature).Params()
			for k := 0; k < ps.Len(); k++ {
				if strings.HasSuffix(ps.At(k).Type().String(), "sdp/v3.MediaDescription") {
					seen[d] = true
					scope = append(scope, d)
				}
			}
			return true
		})
	}
	nDirAttr := 0
	var dirNode = -1
	for _, fi := range scope {
		finfo := fi.Pkg.TypesInfo
		fg := c.P.GraphOf(fi)
		for _, n := range fg.Nodes {
			if n.Ast == nil {
				continue
			}
			for _, call := range core.CallsIn(n.Ast) {
				fn := core.Callee(finfo, call)
				if fn == nil || fn.Name() != "WithPropertyAttribute" || len(call.Args) != 1 {
					continue
				}
				arg := ast.Unparen(call.Args[0])
				pos := c.P.Pos(call.Pos())
				if tv := finfo.Types[arg]; tv.Value != nil && tv.Value.Kind() == constant.String {
					v := constant.StringVal(tv.Value)
					r.Check(!dirStrings[v], rule, sprintf("%s|property:%q", fi.Name(), v), pos, "constant property attribute, not a direction",
						"a constant direction attribute is written into a media section: the answer's direction no longer comes from the transceiver")
					continue
				}
				// "<const prefix>" + ... cannot be a direction
				if be, ok := arg.(*ast.BinaryExpr); ok && be.Op == token.ADD {
					left := ast.Expr(be)
					for {
						b, ok := ast.Unparen(left).(*ast.BinaryExpr)
						if !ok || b.Op != token.ADD {
							break
						}
						left = b.X
					}
					if tv := finfo.Types[left]; tv.Value != nil && tv.Value.Kind() == constant.String {
						p := constant.StringVal(tv.Value)
						clash := p == ""
						for d := range dirStrings {
							if strings.HasPrefix(d, p) {
								clash = true
							}
						}
						r.Check(!clash, rule, sprintf("%s|property-prefix:%q", fi.Name(), p), pos, "prefixed property attribute, cannot be a direction", "a computed property attribute may spell a direction")
						continue
					}
				}
				// X.Direction().String()
				okShape := false
				var recvVar *types.Var
				if sc, ok := arg.(*ast.CallExpr); ok && core.IsCallTo(finfo, sc, dirString.Obj) {
					if se, ok := ast.Unparen(sc.Fun).(*ast.SelectorExpr); ok {
						if dc, ok := ast.Unparen(se.X).(*ast.CallExpr); ok && core.IsCallTo(finfo, dc, direction.Obj) {
							if ds, ok := ast.Unparen(dc.Fun).(*ast.SelectorExpr); ok {
								recvVar = core.VarOf(finfo, ds.X)
								okShape = recvVar != nil
							}
						}
					}
				}
				if !okShape || fi != addTr {
					r.Undecided(rule, fi.Name()+"|property:computed", pos, "a computed property attribute of unknown origin is written into the media section: "+exprStr(arg))
					continue
				}
				nDirAttr++
				dirNode = n.ID
				// provenance: recvVar := transceivers[0]; transceivers := <mediaSection param>.transceivers
				okProv := false
				detail := ""
				defs := reachingDefs(g, n.ID, recvVar)
				if len(defs) == 1 {
					for d := range defs {
						detail = d
						// find the defining statement to inspect its structure
						okProv = c08IsFirstOfSectionTransceivers(g, n.ID, recvVar, sig)
					}
				}
				r.Check(okProv, rule, "addTransceiverSDP|direction-attribute-source", pos, "Direction() of mediaSection.transceivers[0]",
					"the direction attribute is not Direction() of the section's first transceiver ("+detail+")")
			}
		}
	}
	pos := c.P.Pos(addTr.Decl.Pos())
	if nDirAttr != 1 {
		r.Fail(rule, "addTransceiverSDP|one-direction-attribute", pos, sprintf("expected exactly one direction attribute write, found %d", nDirAttr))
	} else {
		// on every path to a successful return (first result true)
		ok := true
		nSucc := 0
		for _, rn := range g.Returns() {
			ret := g.Nodes[rn].Ast.(*ast.ReturnStmt)
			if len(ret.Results) != 2 {
				ok = false
				continue
			}
			tv := info.Types[ret.Results[0]]
			if tv.Value != nil && tv.Value.Kind() == constant.Bool && !constant.BoolVal(tv.Value) {
				continue // section rejected / error
			}
			nSucc++
			if !g.Dominated(rn, map[int]bool{dirNode: true}) {
				ok = false
			}
		}
		r.Check(ok && nSucc >= 1, rule, "addTransceiverSDP|one-direction-attribute", pos, sprintf("written once, on every path to the %d successful return(s)", nSucc),
			"a successful return of addTransceiverSDP is reachable without the direction attribute")
	}
	// direct writes of MediaDescription.Attributes in the scope
	for _, fi := range scope {
		finfo := fi.Pkg.TypesInfo
		ast.Inspect(fi.Decl.Body, func(n ast.Node) bool {
			as, ok := n.(*ast.AssignStmt)
			if !ok {
				return true
			}
			for _, l := range as.Lhs {
				if f := core.FieldOf(finfo, l); f != nil && f.Name() == "Attributes" && f.Pkg() != nil && strings.HasSuffix(f.Pkg().Path(), "sdp/v3") {
					r.Undecided(rule, fi.Name()+"|attributes-assigned", c.P.Pos(l.Pos()), "the attribute list is assigned directly: attributes written this way are not analysed")
				}
			}
			return true
		})
	}

	// thorough: every other place of the module that writes a direction string as a property attribute (listed, not judged)
	if c.Thorough {
		for _, fi := range c.P.AllFuncs() {
			if fi.Decl.Body == nil || seen[fi] {
				continue
			}
			finfo := fi.Pkg.TypesInfo
			ast.Inspect(fi.Decl.Body, func(n ast.Node) bool {
				call, ok := n.(*ast.CallExpr)
				if !ok || len(call.Args) != 1 {
					return true
				}
				fn := core.Callee(finfo, call)
				if fn == nil || fn.Name() != "WithPropertyAttribute" {
					return true
				}
				arg := ast.Unparen(call.Args[0])
				isDir := false
				if tv := finfo.Types[arg]; tv.Value != nil && tv.Value.Kind() == constant.String {
					isDir = dirStrings[constant.StringVal(tv.Value)]
				} else if sc, ok := arg.(*ast.CallExpr); ok && core.IsCallTo(finfo, sc, dirString.Obj) {
					isDir = true
				}
				if isDir {
					r.Info(rule, "other-direction-attribute|in:"+fi.Name(), c.P.Pos(call.Pos()), "a direction attribute written outside addTransceiverSDP (application/data section or non-transceiver section): "+exprStr(arg))
				}
				return true
			})
		}
	}

	// generateMatchedSDP: which transceivers each mediaSection literal holds
	c08SectionLiterals(c, genMatched, findByMid, satisfy)
}

// c08IsFirstOfSectionTransceivers: at node n, v's only definition is X[0] where X's only definition is <param of type mediaSection>.transceivers.
func c08IsFirstOfSectionTransceivers(g *core.Graph, n int, v *types.Var, sig *types.Signature) bool {
	def := c08SingleDef(g, n, v)
	ix, ok := def.(*ast.IndexExpr)
	if !ok {
		return false
	}
	if tv := g.Info.Types[ix.Index]; tv.Value == nil || constant.Sign(tv.Value) != 0 {
		return false
	}
	base := ast.Unparen(ix.X)
	isParamField := func(e ast.Expr) bool {
		f := core.FieldOf(g.Info, e)
		if f == nil || f.Name() != "transceivers" {
			return false
		}
		se := ast.Unparen(e).(*ast.SelectorExpr)
		pv := core.VarOf(g.Info, se.X)
		for k := 0; k < sig.Params().Len(); k++ {
			if sig.Params().At(k) == pv {
				return true
			}
		}
		return false
	}
	if isParamField(base) {
		return true
	}
	bv := core.VarOf(g.Info, base)
	if bv == nil {
		return false
	}
	d2 := c08SingleDef(g, n, bv)
	return d2 != nil && isParamField(d2)
}

// c08SingleDef returns the RHS expression of the single definition of v that reaches node n (nil if not unique).
func c08SingleDef(g *core.Graph, at int, v *types.Var) ast.Expr {
	var found []ast.Expr
	seen := map[int]bool{}
	var walk func(n int)
	walk = func(n int) {
		for _, p := range g.Nodes[n].Preds {
			if seen[p] {
				continue
			}
			seen[p] = true
			var rhs ast.Expr
			hit := false
			if a := g.Nodes[p].Ast; a != nil {
				core.InspectShallow(a, func(x ast.Node) bool {
					if as, ok := x.(*ast.AssignStmt); ok {
						for i, l := range as.Lhs {
							if core.VarOf(g.Info, l) == v {
								hit = true
								if len(as.Rhs) == len(as.Lhs) {
									rhs = as.Rhs[i]
								}
							}
						}
					}
					return true
				})
			}
			if hit {
				found = append(found, rhs)
				continue
			}
			walk(p)
		}
	}
	walk(at)
	if len(found) != 1 || found[0] == nil {
		return nil
	}
	return ast.Unparen(found[0])
}

// c08SectionLiterals classifies every mediaSection literal of generateMatchedSDP by where its transceivers come from.
func c08SectionLiterals(c *Ctx, genMatched, findByMid, satisfy *core.FuncInfo) {
	r := c.R
	const rule = "C08.R2"
	g := c.P.GraphOf(genMatched)
	info := g.Info
	msT := c.P.Named("", "mediaSection")
	if msT == nil {
		r.Fail(rule, "anchor:mediaSection", "-", "anchored type no longer resolves (fails closed)")
		return
	}
	nByMid := 0
	for _, n := range g.Nodes {
		if n.Ast == nil {
			continue
		}
		core.InspectShallow(n.Ast, func(x ast.Node) bool {
			cl, ok := x.(*ast.CompositeLit)
			if !ok || !types.Identical(info.TypeOf(cl), msT) {
				return true
			}
			var trExpr ast.Expr
			isData := false
			for _, el := range cl.Elts {
				if kv, ok := el.(*ast.KeyValueExpr); ok {
					switch exprStr(kv.Key) {
					case "transceivers":
						trExpr = kv.Value
					case "data":
						isData = true
					}
				}
			}
			pos := c.P.Pos(cl.Pos())
			if trExpr == nil {
				if isData {
					return true // application section: no direction negotiated
				}
				r.Undecided(rule, "generateMatchedSDP|section-literal|no-transceivers", pos, "media section without transceivers and not a data section")
				return true
			}
			// resolve to the element variable(s)
			origin := c08TransceiverOrigin(g, n.ID, trExpr, findByMid, satisfy)
			key := "generateMatchedSDP|section-transceivers|" + origin
			switch origin {
			case "found-by-mid":
				nByMid++
				r.OK(rule, key, pos, "the section's transceiver is findByMid(<section mid>): the one R1's table speaks about")
			case "plan-b:satisfyTypeAndDirection":
				r.Info(rule, key, pos, "plan-B section filled by type and direction (not judged)")
			case "unmatched-local":
				r.OK(rule, key, pos, "offer-only: local transceivers not matched by the remote description (includeUnmatched)")
			default:
				r.Undecided(rule, key, pos, "cannot tell where this section's transceivers come from: "+exprStr(trExpr))
			}
			return true
		})
	}
	if nByMid == 0 {
		r.Fail(rule, "generateMatchedSDP|section-transceivers|found-by-mid", c.P.Pos(genMatched.Decl.Pos()), "no media section of the answer is built from the transceiver found by the section's mid")
	}
}

func c08TransceiverOrigin(g *core.Graph, at int, e ast.Expr, findByMid, satisfy *core.FuncInfo) string {
	info := g.Info
	e = ast.Unparen(e)
	// origin of one element variable at a node
	elemOrigin := func(ev *types.Var, node int) string {
		if ev == nil {
			return "unknown"
		}
		// range variable?
		isRange := false
		ast.Inspect(g.Body, func(x ast.Node) bool {
			if rs, ok := x.(*ast.RangeStmt); ok && rs.Value != nil {
				if id, ok := rs.Value.(*ast.Ident); ok && info.Defs[id] == types.Object(ev) {
					isRange = true
				}
			}
			return true
		})
		if isRange {
			return "range-variable"
		}
		var parts []string
		for d := range reachingDefs(g, node, ev) {
			switch {
			case d == "call:"+core.FuncName(findByMid.Obj):
				parts = append(parts, "findByMid")
			case d == "call:"+core.FuncName(satisfy.Obj):
				parts = append(parts, "satisfyTypeAndDirection")
			case strings.HasPrefix(d, "expr:&"):
				parts = append(parts, "fresh")
			default:
				parts = append(parts, "other")
			}
		}
		sort.Strings(parts)
		return strings.Join(parts, "+")
	}
	litElems := func(x ast.Expr) ([]ast.Expr, bool) {
		cl, ok := ast.Unparen(x).(*ast.CompositeLit)
		if !ok {
			return nil, false
		}
		return cl.Elts, true
	}
	classify := func(o string) string {
		switch o {
		case "findByMid":
			return "found-by-mid"
		case "range-variable":
			return "unmatched-local"
		}
		return "unknown"
	}
	if elems, ok := litElems(e); ok {
		if len(elems) != 1 {
			return "unknown"
		}
		return classify(elemOrigin(core.VarOf(info, elems[0]), at))
	}
	v := core.VarOf(info, e)
	if v == nil {
		return "unknown"
	}
	// a slice variable: a single literal definition, or a list accumulated by append
	if def := c08SingleDef(g, at, v); def != nil {
		if elems, ok := litElems(def); ok && len(elems) == 1 {
			defNodes := g.FindNodes(func(x ast.Node) bool { return x == ast.Node(def) })
			if len(defNodes) == 1 {
				return classify(elemOrigin(core.VarOf(info, elems[0]), defNodes[0]))
			}
		}
		return "unknown"
	}
	origins := map[string]bool{}
	nAppend := 0
	for _, n := range g.Nodes {
		if n.Ast == nil {
			continue
		}
		core.InspectShallow(n.Ast, func(x ast.Node) bool {
			as, ok := x.(*ast.AssignStmt)
			if !ok || len(as.Lhs) != 1 || len(as.Rhs) != 1 || core.VarOf(info, as.Lhs[0]) != v {
				return true
			}
			rhs := ast.Unparen(as.Rhs[0])
			if call, ok := rhs.(*ast.CallExpr); ok {
				if id, ok := ast.Unparen(call.Fun).(*ast.Ident); ok {
					if b, ok := info.Uses[id].(*types.Builtin); ok && b.Name() == "append" && len(call.Args) >= 2 && core.VarOf(info, call.Args[0]) == v && call.Ellipsis == token.NoPos {
						nAppend++
						for _, a := range call.Args[1:] {
							for _, part := range strings.Split(elemOrigin(core.VarOf(info, a), n.ID), "+") {
								origins[part] = true
							}
						}
						return true
					}
				}
			}
			if elems, ok := litElems(rhs); ok && len(elems) == 0 {
				return true // starts empty
			}
			origins["other"] = true
			return true
		})
	}
	if nAppend > 0 && !origins["other"] && !origins["unknown"] && origins["satisfyTypeAndDirection"] && !origins["findByMid"] {
		return "plan-b:satisfyTypeAndDirection"
	}
	return "unknown"
}
