package props

import (
	"go/ast"
	"go/constant"
	"go/token"
	"go/types"
	"sort"
	"strings"
	"time"

	"verif/checker/core"
)

func init() {
	register(&Prop{
		ID:        "C05",
		Engine:    "e3lock+e2cfg",
		Technique: "lockset analysis with caller-held locks (GuardedBy) for the queue state; dominance by CFG edge facts inside one critical section for the single-worker hand-off (spawn sites, restart in the deferred exit block); path counting for run-exactly-once; who-may-call / who-may-write sweeps for the list discipline, the closed flag and the busy channel",
		LevelText: "Structural clauses of the operations queue, each decided on every path of the anchored functions: (R1) ops/busyCh/isClosed are only touched under o.mu (caller-held locks verified at every call site); (R2) a worker goroutine is spawned only where busyCh==nil was tested in the same critical section (and busyCh is made non-nil there) or, in start's deferred exit block, after close(busyCh) and only if the queue is non-empty and not closed; busyCh is cleared/closed nowhere else, so 'busyCh != nil' is an invariant for 'a worker exists' under the lock; (R3) pop removes the head under the lock before returning it, the list is only appended at the tail and read at the head, and every popped operation is run exactly once before the next pop, outside the lock; (R4) tryEnqueue appends only a non-nil op on a non-closed queue in the same critical section as the worker test, isClosed only ever becomes true, GracefulClose sets it and samples busyCh atomically and waits outside the lock; (R5) Done enqueues its waiter through tryEnqueue and waits, outside the lock, iff the enqueue was accepted.",
		LevelNote: "The interleavings themselves are not explored: that the hand-off cannot lose or duplicate an item is argued from R1-R4 (all state under one lock; spawn/exit sites preserve the invariant). Panicking operations and liveness (that Done/GracefulClose return) are not decided. DESIGN's R6 is withdrawn: the '|| isClosed' exit is required by GracefulClose's wait on the sampled busyCh.",
		DesignRef: "DESIGN.md §5 C05",
		Run:       runC05,
	})
}

type c05Ctx struct {
	c                         *Ctx
	mu, busyCh, ops, isClosed *types.Var
	tryEnqueue, pop, start    *core.FuncInfo
	done, graceful            *core.FuncInfo
	bodies                    []*core.Body
	gd                        *core.Guard
	info                      *types.Info
	exit                      *c05Exit
}

func runC05(c *Ctx) {
	r := c.R
	c05T0 := time.Now()
	defer func() { r.Extra["analysis_seconds_excluding_load"] = time.Since(c05T0).Seconds() }()
	r.Rule("C05.R1", "GuardedBy: every access to operations.ops / busyCh / isClosed happens with the same object's mu held (acquired in the function or provably held by every caller of the unexported helper); function literals inherit no lock", 10)
	r.Rule("C05.R2", "single worker: start is only ever invoked as 'go x.start()'; (a) outside start, the spawn is dominated by the test busyCh == nil and paired with 'busyCh = make(...)' in the same critical section; (b) in start's deferred exit block the restart comes after close(busyCh), under the lock, dominated by BOTH ops.Len() != 0 and !isClosed, paired with a fresh busyCh; busyCh = nil and close(busyCh) occur only in that exit block, on every path exactly one of {clear, restart}", 6)
	r.Rule("C05.R3", "exactly once, in order: pop takes the head (Front) and removes it under the lock before returning a value derived from it; the list is only mutated by PushBack and Remove; what is pushed has the type pop asserts; in start every popped non-nil operation is called exactly once before the next pop, outside the lock", 10)
	r.Rule("C05.R4", "closed queue: PushBack is dominated by !isClosed (and op != nil) in the same critical section as the worker test; isClosed is only ever set to true, under the lock; GracefulClose sets it and samples busyCh in one critical section and waits on the sampled channel outside the lock", 4)
	r.Rule("C05.R6", "PeerConnection.close(graceful): every return of a graceful caller is preceded by pc.ops.GracefulClose() (directly or through a closure/helper every graceful path of which calls it), except on a branch establishing !graceful or that another graceful closer is already at work", 1)
	r.Rule("C05.R5", "Done: the waiter is enqueued through tryEnqueue under the lock, calls wg.Done exactly once, wg.Add(1) precedes it; wg.Wait runs outside the lock and exactly when the enqueue was accepted", 3)
	r.NotCovered = append(r.NotCovered,
		"the interleavings themselves (the hand-off argument from R1-R4 is not explored by a scheduler)",
		"operations that panic",
		"liveness: that Done / GracefulClose return (an item accepted after the worker's last pop and before GracefulClose is dropped by design: DESIGN R6 withdrawn)")
	r.Trusted = append(r.Trusted, "sync.Mutex / container/list semantics", "edge facts: a&&b true / a||b false establish both operands, other compound outcomes establish nothing")

	x := &c05Ctx{c: c}
	x.mu = c.mustField("C05.R1", "", "operations", "mu")
	x.busyCh = c.mustField("C05.R1", "", "operations", "busyCh")
	x.ops = c.mustField("C05.R1", "", "operations", "ops")
	x.isClosed = c.mustField("C05.R1", "", "operations", "isClosed")
	x.tryEnqueue = c.mustFunc("C05.R4", "", "operations.tryEnqueue")
	x.pop = c.mustFunc("C05.R3", "", "operations.pop")
	x.start = c.mustFunc("C05.R2", "", "operations.start")
	x.done = c.mustFunc("C05.R5", "", "operations.Done")
	x.graceful = c.mustFunc("C05.R4", "", "operations.GracefulClose")
	if x.mu == nil || x.busyCh == nil || x.ops == nil || x.isClosed == nil || x.tryEnqueue == nil || x.pop == nil || x.start == nil || x.done == nil || x.graceful == nil {
		return
	}
	x.info = c.P.Pkg("").TypesInfo
	x.bodies = c.P.AllBodies(nil)
	x.gd = core.NewGuard(c.P, x.bodies)

	x.r1(c.P, x.gd, "")
	x.r2()
	x.r3()
	x.r4()
	x.r5()
	c05R6(c, "C05.R6") // c05b.go

	if c.Thorough {
		c05Config386(c, func(c2 *Ctx) { runC05(c2) })
	}
}

// ---- R1 ------------------------------------------------------------------

func (x *c05Ctx) r1(p *core.Program, gd *core.Guard, suffix string) {
	r := x.c.R
	fields := map[*types.Var]bool{x.ops: true, x.busyCh: true, x.isClosed: true}
	type agg struct {
		pos    string
		n      int
		bad    []string
		how    map[string]bool
		writes int
	}
	res := map[string]*agg{}
	var keys []string
	for _, gr := range gd.Check(core.GuardSpec{Fields: fields, MuField: x.mu}) {
		key := "guarded|operations." + gr.Access.Field.Name() + "|in:" + gr.Body.Label + suffix
		a := res[key]
		if a == nil {
			a = &agg{pos: p.Pos(gr.Access.Sel.Pos()), how: map[string]bool{}}
			res[key] = a
			keys = append(keys, key)
		}
		a.n++
		a.how[gr.Status] = true
		if gr.Access.Write {
			a.writes++
		}
		if !gr.OK() {
			a.bad = append(a.bad, p.Pos(gr.Access.Sel.Pos())+": "+gr.Access.How+" of "+exprStr(gr.Access.Sel)+": "+gr.Why)
		}
		x.c.R.Cells++
	}
	sort.Strings(keys)
	for _, k := range keys {
		a := res[k]
		r.Check(len(a.bad) == 0, "C05.R1", k, a.pos,
			sprintf("%d access(es), %d write(s), lock: %s", a.n, a.writes, joinSorted(a.how)),
			strings.Join(a.bad, "; "))
	}
	// composite-literal initialisation (constructor) is listed, not judged
	for _, b := range gd.Bodies {
		if b.Lit != nil {
			continue
		}
		info := b.Owner.Pkg.TypesInfo
		ast.Inspect(b.Owner.Decl.Body, func(n ast.Node) bool {
			kv, ok := n.(*ast.KeyValueExpr)
			if !ok {
				return true
			}
			if id, ok := kv.Key.(*ast.Ident); ok {
				if v, ok := info.Uses[id].(*types.Var); ok && fields[v] {
					r.Info("C05.R1", "init|operations."+v.Name()+"|in:"+b.Label+suffix, p.Pos(kv.Pos()), "initialised in a composite literal (object not yet published)")
				}
			}
			return true
		})
	}
}

// ---- shared predicates -----------------------------------------------------

func (x *c05Ctx) isF(e ast.Expr, f *types.Var) bool {
	return e != nil && core.FieldOf(x.info, e) == f
}

// listCall recognises X.ops.<Method>(...) with the method resolved in container/list.
func (x *c05Ctx) listCall(n ast.Node) (name string, call *ast.CallExpr, ok bool) {
	call, isCall := n.(*ast.CallExpr)
	if !isCall {
		return "", nil, false
	}
	sel, isSel := ast.Unparen(call.Fun).(*ast.SelectorExpr)
	if !isSel || !x.isF(sel.X, x.ops) {
		return "", nil, false
	}
	fn := core.Callee(x.info, call)
	if fn == nil || fn.Pkg() == nil || fn.Pkg().Path() != "container/list" {
		return "?" + sel.Sel.Name, call, true
	}
	return fn.Name(), call, true
}

func (x *c05Ctx) lenFact(f core.Fact, want int) bool {
	if f.R == nil {
		return false
	}
	name, _, ok := x.listCall(ast.Unparen(f.L))
	if !ok || name != "Len" {
		return false
	}
	k, isK := core.IntConst(x.info, f.R)
	return isK && core.CmpConstImplies(f.Op, k) == want
}

func (x *c05Ctx) boolFieldFact(f core.Fact, fld *types.Var, want bool) bool {
	truth, ok := f.IsBool()
	return ok && truth == want && x.isF(f.L, fld)
}

func (x *c05Ctx) busyNilFact(f core.Fact) bool {
	return f.R != nil && f.Op == token.EQL && x.isF(f.L, x.busyCh) && core.IsNilIdent(x.info, f.R)
}

// c05DomFact: target is dominated by an edge establishing pred, and the test
// is evaluated in the same critical section of inst as target.
func c05DomFact(g *core.Graph, li *core.LockInfo, inst string, target int, pred func(core.Fact) bool) (bool, string) {
	edges := g.EdgesWhere(pred)
	if len(edges) == 0 {
		return false, "no such test in this function"
	}
	if !g.DominatedByEdges(target, edges) {
		return false, "a path reaches it without passing the test"
	}
	for er := range edges {
		to := g.Nodes[er.From].Succs[er.Idx].To
		if !g.Reach([]int{to}, nil, nil)[target] {
			continue
		}
		if ok, why := li.SameRegion(er.From, target, inst); !ok {
			return false, "test and action are not in one critical section (" + why + ")"
		}
	}
	return true, ""
}

func c05SameRegionEither(g *core.Graph, li *core.LockInfo, a, b int, inst string) (bool, string) {
	ok, why := li.SameRegion(a, b, inst)
	if ok {
		return true, ""
	}
	if ok2, why2 := li.SameRegion(b, a, inst); ok2 {
		return true, ""
	} else if !g.Reach([]int{a}, nil, nil)[b] {
		why = why2
	}
	return false, why
}

// domLift is c05DomFact with helper extraction looked through: when the test
// is not in the body itself and the body is an unexported method running under
// the caller's lock, every call site must be dominated by the test inside the
// caller's critical section (recursively, depth-bounded). base is the
// expression of the operations object at node.
func (x *c05Ctx) domLift(b *core.Body, node int, base ast.Expr, pred func(core.Fact) bool, depth int) (bool, string) {
	li, inst, held, why := x.instFor(b, node, base)
	if !held {
		return false, "lock not held: " + why
	}
	ok, w := c05DomFact(b.G, li, inst, node, pred)
	if ok || depth <= 0 || b.Lit != nil || b.Owner.Obj.Exported() {
		return ok, w
	}
	// only lift when the body acquires nothing itself (it runs entirely inside the caller's critical section)
	for _, o := range li.Ops {
		if o.Inst == inst {
			return false, w
		}
	}
	if len(b.G.EdgesWhere(pred)) > 0 {
		return false, w // the test exists here but does not dominate: do not look further
	}
	root := core.CanonExpr(base)
	recv := b.Owner.Decl.Recv
	if recv == nil || len(recv.List) == 0 || len(recv.List[0].Names) == 0 || recv.List[0].Names[0].Name != root {
		return false, w
	}
	sites := core.CallSitesOf(x.bodies, b.Owner.Obj)
	if len(sites) == 0 {
		return false, w
	}
	for _, s := range sites {
		sel, isSel := ast.Unparen(s.Call.Fun).(*ast.SelectorExpr)
		if s.Kind != "call" || !isSel {
			return false, w + " (and " + b.Label + " is used as '" + s.Kind + "' in " + s.Body.Label + ")"
		}
		if o, w2 := x.domLift(s.Body, s.Node, sel.X, pred, depth-1); !o {
			return false, "not in " + b.Label + " (" + w + ") and in caller " + s.Body.Label + ": " + w2
		}
	}
	return true, ""
}

// instFor returns the lock instance guarding the object of expression base and makes a caller-held lock visible in li.
func (x *c05Ctx) instFor(b *core.Body, node int, base ast.Expr) (*core.LockInfo, string, bool, string) {
	li := x.gd.LocksOf(b)
	canon := core.CanonExpr(base)
	if canon == "" {
		return li, "", false, "object expression is not a plain selector chain"
	}
	inst := canon + "." + x.mu.Name()
	st, why := x.gd.HeldFor(b, node, base, x.mu, true, 3)
	switch st {
	case "held":
		return li, inst, true, ""
	case "entry":
		li.AssumeEntryLock(inst, "operations.mu", "W")
		return li, inst, true, ""
	}
	return li, inst, false, why
}

func (x *c05Ctx) busyStores(b *core.Body) (makes, nils, others []int) {
	for _, a := range b.G.FieldAccesses(map[*types.Var]bool{x.busyCh: true}) {
		if !a.Write {
			continue
		}
		as, ok := b.G.Nodes[a.Node].Ast.(*ast.AssignStmt)
		kind := "other"
		if ok && a.How == "assign" && len(as.Lhs) == len(as.Rhs) {
			for i, l := range as.Lhs {
				if ast.Unparen(l) != ast.Expr(a.Sel) {
					continue
				}
				rhs := ast.Unparen(as.Rhs[i])
				if core.IsNilIdent(x.info, rhs) {
					kind = "nil"
				} else if call, ok := rhs.(*ast.CallExpr); ok {
					if id, ok := ast.Unparen(call.Fun).(*ast.Ident); ok {
						if bi, ok := x.info.Uses[id].(*types.Builtin); ok && bi.Name() == "make" {
							kind = "make"
						}
					}
				}
			}
		}
		switch kind {
		case "make":
			makes = append(makes, a.Node)
		case "nil":
			nils = append(nils, a.Node)
		default:
			others = append(others, a.Node)
		}
	}
	return
}

func (x *c05Ctx) closeBusyNodes(b *core.Body) []int {
	return b.G.FindNodes(func(n ast.Node) bool {
		call, ok := n.(*ast.CallExpr)
		if !ok || len(call.Args) != 1 {
			return false
		}
		id, ok := ast.Unparen(call.Fun).(*ast.Ident)
		if !ok {
			return false
		}
		bi, ok := x.info.Uses[id].(*types.Builtin)
		return ok && bi.Name() == "close" && x.isF(call.Args[0], x.busyCh)
	})
}

// ---- the exit region of start -----------------------------------------------
//
// "What start runs when it returns" is a semantic notion: the function literal
// deferred in start, or a method deferred in start on start's own receiver
// (`defer o.finishRun()`), plus the same-package methods those call on the same
// receiver (two levels), provided every reference to such a method lies inside
// the region itself (a method that is also called from elsewhere can run while
// a worker is alive and is therefore not part of the exit protocol).

type c05Exit struct {
	depth     map[*core.Body]int             // 0 = deferred in start
	deferNode map[*core.Body]int             // roots: the DeferStmt node in start's graph
	callers   map[*core.Body][]core.CallSite // helpers: their call sites (all inside the region)
	startBody *core.Body
}

func (x *c05Ctx) recvName(b *core.Body) string {
	d := b.Owner.Decl
	if d.Recv == nil || len(d.Recv.List) == 0 || len(d.Recv.List[0].Names) == 0 {
		return ""
	}
	return d.Recv.List[0].Names[0].Name
}

func (x *c05Ctx) exitRegion() *c05Exit {
	if x.exit != nil {
		return x.exit
	}
	ex := &c05Exit{depth: map[*core.Body]int{}, deferNode: map[*core.Body]int{}, callers: map[*core.Body][]core.CallSite{}}
	x.exit = ex
	sb := x.bodyOf(x.start)
	ex.startBody = sb
	if sb == nil || sb.G == nil {
		return ex
	}
	recv := x.recvName(sb)
	declBody := func(fn *types.Func) *core.Body {
		fi := x.c.P.DeclOf(fn)
		if fi == nil || fi == x.start || fi.Pkg != x.start.Pkg {
			return nil
		}
		return x.bodyOf(fi)
	}
	// roots
	live := sb.G.Live()
	for _, n := range sb.G.Nodes {
		ds, ok := n.Ast.(*ast.DeferStmt)
		if !ok || !live[n.ID] {
			continue
		}
		if fl, ok := ast.Unparen(ds.Call.Fun).(*ast.FuncLit); ok {
			for _, b := range x.bodies {
				if b.Lit == fl {
					ex.depth[b] = 0
					ex.deferNode[b] = n.ID
				}
			}
			continue
		}
		fn := core.Callee(x.info, ds.Call)
		sel, isSel := ast.Unparen(ds.Call.Fun).(*ast.SelectorExpr)
		if fn == nil || !isSel || recv == "" || core.CanonExpr(sel.X) != recv {
			continue
		}
		if b := declBody(fn); b != nil {
			ex.depth[b] = 0
			ex.deferNode[b] = n.ID
		}
	}
	// helpers, two levels: same-package methods called (plain call) on the same receiver
	for lvl := 0; lvl < 2; lvl++ {
		for b, d := range ex.depth {
			if d != lvl || b.G == nil {
				continue
			}
			rn := x.recvName(b) // for the literal: start's receiver, captured
			bl := b.G.Live()
			for _, n := range b.G.Nodes {
				if n.Ast == nil || !bl[n.ID] {
					continue
				}
				switch n.Ast.(type) {
				case *ast.GoStmt, *ast.DeferStmt:
					continue
				}
				for _, call := range core.CallsIn(n.Ast) {
					fn := core.Callee(x.info, call)
					sel, isSel := ast.Unparen(call.Fun).(*ast.SelectorExpr)
					if fn == nil || !isSel || rn == "" || core.CanonExpr(sel.X) != rn {
						continue
					}
					hb := declBody(fn)
					if hb == nil {
						continue
					}
					if _, seen := ex.depth[hb]; !seen {
						ex.depth[hb] = lvl + 1
					}
				}
			}
		}
	}
	// every reference to a declared member of the region must come from the region (or be the defer in start)
	for changed := true; changed; {
		changed = false
		for b := range ex.depth {
			if b.Lit != nil {
				continue
			}
			var in []core.CallSite
			okAll := true
			for _, s := range core.CallSitesOf(x.bodies, b.Owner.Obj) {
				switch {
				case s.Body == sb && s.Kind == "defer" && ex.depth[b] == 0 && ex.deferNode[b] == s.Node:
				case s.Kind == "call" && s.Body != b:
					if _, inside := ex.depth[s.Body]; inside {
						in = append(in, s)
					} else {
						okAll = false
					}
				default:
					okAll = false
				}
			}
			if !okAll {
				delete(ex.depth, b)
				delete(ex.deferNode, b)
				changed = true
				continue
			}
			ex.callers[b] = in
		}
	}
	// a helper whose callers all dropped out is no longer reachable from a root
	for changed := true; changed; {
		changed = false
		for b, d := range ex.depth {
			if d == 0 {
				continue
			}
			n := 0
			for _, s := range ex.callers[b] {
				if _, inside := ex.depth[s.Body]; inside {
					n++
				}
			}
			if n == 0 {
				delete(ex.depth, b)
				changed = true
			}
		}
	}
	return ex
}

func (x *c05Ctx) isExitBlock(b *core.Body) bool {
	_, ok := x.exitRegion().depth[b]
	return ok
}

// c05Pos is a node of an exit-region body, with the expression denoting the operations object there.
type c05Pos struct {
	b    *core.Body
	n    int
	base ast.Expr
}

// liftTo maps a position in an exit-region body to the positions that stand for it in the nearest
// enclosing bodies satisfying stop (the body itself if it does): a helper is replaced by its call sites.
func (x *c05Ctx) liftTo(p c05Pos, stop func(*core.Body) bool, depth int) []c05Pos {
	ex := x.exitRegion()
	if stop(p.b) || ex.depth[p.b] == 0 || depth <= 0 {
		return []c05Pos{p}
	}
	var out []c05Pos
	for _, s := range ex.callers[p.b] {
		if _, inside := ex.depth[s.Body]; !inside {
			continue
		}
		sel, _ := ast.Unparen(s.Call.Fun).(*ast.SelectorExpr)
		if sel == nil {
			continue
		}
		out = append(out, x.liftTo(c05Pos{s.Body, s.Node, sel.X}, stop, depth-1)...)
	}
	if len(out) == 0 {
		return []c05Pos{p}
	}
	return out
}

// afterClose: position p runs after close(busyCh) on every path and in the same critical section.
func (x *c05Ctx) afterClose(p c05Pos) (bool, string) {
	hasClose := func(b *core.Body) bool { return len(x.closeBusyNodes(b)) > 0 }
	for _, q := range x.liftTo(p, hasClose, 3) {
		cl := x.closeBusyNodes(q.b)
		if len(cl) != 1 || !q.b.G.Dominated(q.n, core.NodeSet(cl)) {
			return false, "not preceded by close(busyCh) on every path (in " + q.b.Label + ")"
		}
		li, inst, held, why := x.instFor(q.b, q.n, q.base)
		if !held {
			return false, "lock not held in " + q.b.Label + ": " + why
		}
		if ok, w := li.SameRegion(cl[0], q.n, inst); !ok {
			return false, "close(busyCh) and this step are not in one critical section: " + w
		}
	}
	// a helper must keep the caller's lock from its entry to the step (instFor's entry lock covers exactly that)
	if p.b.Lit == nil && !hasClose(p.b) {
		if _, _, held, why := x.instFor(p.b, p.n, p.base); !held {
			return false, "lock not held: " + why
		}
	}
	return true, ""
}

// stepNodes returns, for every exit-region body, the nodes that perform (or call a helper that may perform) a step.
func (x *c05Ctx) stepNodes(own func(b *core.Body) []int) map[*core.Body]map[int]bool {
	ex := x.exitRegion()
	out := map[*core.Body]map[int]bool{}
	add := func(b *core.Body, n int) bool {
		if out[b] == nil {
			out[b] = map[int]bool{}
		}
		if out[b][n] {
			return false
		}
		out[b][n] = true
		return true
	}
	for b := range ex.depth {
		if b.G == nil {
			continue
		}
		for _, n := range own(b) {
			add(b, n)
		}
	}
	for changed := true; changed; {
		changed = false
		for b := range ex.depth {
			if len(out[b]) == 0 {
				continue
			}
			for _, s := range ex.callers[b] {
				if _, inside := ex.depth[s.Body]; inside && add(s.Body, s.Node) {
					changed = true
				}
			}
		}
	}
	return out
}

// alwaysStores: every path through body b (an exit-region helper) assigns busyCh (nil or fresh).
func (x *c05Ctx) alwaysStores(b *core.Body, depth int) bool {
	if b.G == nil || depth <= 0 {
		return false
	}
	st := x.storeLike(b, depth)
	return len(st) > 0 && !b.G.ReachFromEntry(func(n int) bool { return st[n] }, nil)[b.G.Exit]
}

// storeLike: nodes of b that assign busyCh, or call an exit-region helper that always does.
func (x *c05Ctx) storeLike(b *core.Body, depth int) map[int]bool {
	ex := x.exitRegion()
	makes, nils, _ := x.busyStores(b)
	st := core.NodeSet(append(append([]int{}, makes...), nils...))
	for hb := range ex.depth {
		if hb == b || hb.Lit != nil {
			continue
		}
		for _, s := range ex.callers[hb] {
			if s.Body == b && x.alwaysStores(hb, depth-1) {
				st[s.Node] = true
			}
		}
	}
	return st
}

// heldW reports whether the queue lock of the operations object is write-held at node n of b
// (locally acquired, or held by every caller of the helper).
func (x *c05Ctx) heldW(b *core.Body, n int) bool {
	li := x.gd.LocksOf(b)
	for inst, c := range li.ClassOf {
		if c == "operations.mu" && li.HeldInst(n, inst) == "W" {
			return true
		}
	}
	if b.Lit == nil {
		if rn := x.recvName(b); rn != "" {
			_, _, held, _ := x.instFor(b, n, b.Owner.Decl.Recv.List[0].Names[0])
			return held
		}
	}
	return false
}

// ---- R2 ------------------------------------------------------------------

func (x *c05Ctx) r2() {
	r, P := x.c.R, x.c.P
	ex := x.exitRegion()
	const exitWhat = "the code start runs when it returns (the deferred literal / deferred method on start's receiver and the methods it calls)"
	sites := core.CallSitesOf(x.bodies, x.start.Obj)
	if len(sites) == 0 {
		r.Fail("C05.R2", "spawn|none", P.Pos(x.start.Decl.Pos()), "no site starts the worker")
	}
	spawnIn := map[*core.Body][]int{}
	for _, s := range sites {
		if s.Kind == "go" {
			spawnIn[s.Body] = append(spawnIn[s.Body], s.Node)
		}
	}
	for _, s := range sites {
		key := "spawn|in:" + s.Body.Label
		pos := P.Pos(s.Body.G.PosOf(s.Node))
		if s.Kind != "go" {
			r.Fail("C05.R2", "spawn|"+s.Kind+"|in:"+s.Body.Label, pos, "operations.start is referenced as '"+s.Kind+"', not as a 'go' statement: it would run on the caller's goroutine / escape the single-worker protocol")
			continue
		}
		sel, ok := ast.Unparen(s.Call.Fun).(*ast.SelectorExpr)
		if !ok {
			r.Undecided("C05.R2", key, pos, "spawn has no receiver expression")
			continue
		}
		g := s.Body.G
		li, inst, held, why := x.instFor(s.Body, s.Node, sel.X)
		if !held {
			r.Fail("C05.R2", key, pos, "worker spawned without holding the queue lock: "+why)
			continue
		}
		makes, _, _ := x.busyStores(s.Body)
		pairOK, pairWhy := false, "no 'busyCh = make(...)' in this function"
		for _, a := range makes {
			if ok, w := c05SameRegionEither(g, li, a, s.Node, inst); !ok {
				pairWhy = "busyCh = make(...) is not in the spawn's critical section: " + w
				continue
			}
			dom := g.Dominated(s.Node, core.NodeSet([]int{a}))
			post := !g.Reach([]int{s.Node}, func(n int) bool { return n == a }, nil)[g.Exit]
			if dom || post {
				pairOK = true
			} else {
				pairWhy = "a path spawns the worker without installing a fresh busyCh"
			}
		}
		var bad []string
		if !pairOK {
			bad = append(bad, pairWhy)
		}
		if x.isExitBlock(s.Body) {
			// (b) restart
			if ok, w := x.domLift(s.Body, s.Node, sel.X, func(f core.Fact) bool { return x.lenFact(f, +1) }, 2); !ok {
				bad = append(bad, "restart not dominated by ops.Len() != 0: "+w)
			}
			if ok, w := x.domLift(s.Body, s.Node, sel.X, func(f core.Fact) bool { return x.boolFieldFact(f, x.isClosed, false) }, 2); !ok {
				bad = append(bad, "restart not dominated by !isClosed (a worker re-spawned after GracefulClose is one nobody waits for): "+w)
			}
			if ok, w := x.afterClose(c05Pos{s.Body, s.Node, sel.X}); !ok {
				bad = append(bad, "restart: "+w)
			}
			// the exit code is deferred before anything else in start
			pg := ex.startBody.G
			pl := pg.Live()
			for _, root := range x.liftTo(c05Pos{s.Body, s.Node, sel.X}, func(b *core.Body) bool { return ex.depth[b] == 0 }, 3) {
				dn, isRoot := ex.deferNode[root.b]
				if !isRoot {
					bad = append(bad, "the restart is not reached from a function deferred in start")
					continue
				}
				for _, n := range pg.Nodes {
					if n.ID == dn || n.Ast == nil || !pl[n.ID] {
						continue
					}
					if _, isDefer := n.Ast.(*ast.DeferStmt); isDefer {
						continue
					}
					if len(core.CallsIn(n.Ast)) > 0 && !pg.Dominated(n.ID, core.NodeSet([]int{dn})) {
						bad = append(bad, "start performs a call before the exit code is deferred ("+P.Pos(pg.PosOf(n.ID))+")")
						break
					}
				}
			}
			r.Check(len(bad) == 0, "C05.R2", key, pos, "restart after close(busyCh), under "+inst+", dominated by ops.Len()!=0 and !isClosed, with a fresh busyCh", strings.Join(bad, "; "))
		} else {
			// (a) first spawn
			if ok, w := x.domLift(s.Body, s.Node, sel.X, x.busyNilFact, 2); !ok {
				bad = append(bad, "spawn not dominated by busyCh == nil: "+w+" (two workers could run)")
			}
			r.Check(len(bad) == 0, "C05.R2", key, pos, "spawn under "+inst+", dominated by busyCh == nil, with busyCh made non-nil in the same critical section", strings.Join(bad, "; "))
		}
	}

	// restart-ish and clear-ish nodes per exit-region body (a call to a helper that restarts / clears counts)
	spawnish := x.stepNodes(func(b *core.Body) []int { return spawnIn[b] })
	clearish := x.stepNodes(func(b *core.Body) []int { _, nils, _ := x.busyStores(b); return nils })

	// who may write / close busyCh
	var closers []*core.Body
	for _, b := range x.bodies {
		if b.G == nil {
			continue
		}
		makes, nils, others := x.busyStores(b)
		cl := x.closeBusyNodes(b)
		if len(makes)+len(nils)+len(others)+len(cl) == 0 {
			continue
		}
		g := b.G
		li := x.gd.LocksOf(b)
		for _, n := range others {
			r.Undecided("C05.R2", "busyCh-store|other|in:"+b.Label, P.Pos(g.PosOf(n)), "busyCh is assigned something that is neither nil nor make(...)")
		}
		if len(makes) > 0 {
			ok, why := true, ""
			for _, a := range makes {
				paired := false
				for _, sp := range spawnIn[b] {
					for inst, cl := range li.ClassOf {
						if cl != "operations.mu" {
							continue
						}
						if o, _ := c05SameRegionEither(g, li, a, sp, inst); o {
							paired = true
						}
					}
				}
				if !paired {
					ok, why = false, "busyCh is made non-nil at "+P.Pos(g.PosOf(a))+" without a worker being spawned in the same critical section (later enqueues would never start one)"
				}
			}
			r.Check(ok, "C05.R2", "busyCh-store|make|in:"+b.Label, P.Pos(g.PosOf(makes[0])), "paired with a spawn in the same critical section", why)
		}
		if len(nils) > 0 {
			var bad []string
			if !x.isExitBlock(b) {
				bad = append(bad, "busyCh is cleared outside "+exitWhat+": a second worker can be spawned while one is running")
			} else {
				recvExpr := ast.Expr(nil)
				for _, n := range nils {
					if !x.heldW(b, n) {
						bad = append(bad, "busyCh cleared without the lock")
					}
					// the object expression of the store
					for _, a := range g.FieldAccesses(map[*types.Var]bool{x.busyCh: true}) {
						if a.Node == n && a.Write {
							recvExpr = a.Base
						}
					}
					if ok, w := x.afterClose(c05Pos{b, n, recvExpr}); !ok {
						bad = append(bad, "busyCh cleared on a path that did not close it in the same critical section (GracefulClose would wait forever): "+w)
					}
				}
			}
			r.Check(len(bad) == 0, "C05.R2", "busyCh-store|nil|in:"+b.Label, P.Pos(g.PosOf(nils[0])), "cleared only by the exiting worker, after close, under the lock", strings.Join(bad, "; "))
		}
		if len(cl) > 0 {
			var bad []string
			if !x.isExitBlock(b) {
				bad = append(bad, "busyCh is closed outside "+exitWhat)
			} else {
				closers = append(closers, b)
				if len(cl) != 1 {
					bad = append(bad, sprintf("%d close(busyCh) sites in the exit code (double close panics)", len(cl)))
				} else {
					if !g.Dominated(g.Exit, core.NodeSet(cl)) {
						bad = append(bad, "a path leaves the exit code without closing busyCh (GracefulClose would wait forever)")
					}
					if !x.heldW(b, cl[0]) {
						bad = append(bad, "close(busyCh) without the lock")
					}
					// after the close every path replaces busyCh (nil or fresh) before leaving
					stores := x.storeLike(b, 3)
					if g.Reach([]int{cl[0]}, func(n int) bool { return stores[n] }, nil)[g.Exit] {
						bad = append(bad, "a path leaves busyCh pointing at the closed channel (the next enqueue would not start a worker)")
					}
					// a closing helper is called exactly once on every path of each caller, up to the deferred root
					for cur, seen := []*core.Body{b}, map[*core.Body]bool{b: true}; len(cur) > 0; {
						var next []*core.Body
						for _, hb := range cur {
							if ex.depth[hb] == 0 {
								continue
							}
							per := map[*core.Body][]int{}
							for _, s := range ex.callers[hb] {
								per[s.Body] = append(per[s.Body], s.Node)
							}
							for cb, nodes := range per {
								if len(nodes) != 1 || !cb.G.Dominated(cb.G.Exit, core.NodeSet(nodes)) {
									bad = append(bad, "the closing helper "+hb.Label+" is not called exactly once on every path of "+cb.Label)
								}
								if !seen[cb] {
									seen[cb] = true
									next = append(next, cb)
								}
							}
						}
						cur = next
					}
				}
			}
			r.Check(len(bad) == 0, "C05.R2", "busyCh-close|in:"+b.Label, P.Pos(g.PosOf(cl[0])), "closed exactly once per worker, under the lock, and always replaced afterwards", strings.Join(bad, "; "))
		}
	}
	// never both: on no path of any exit-region body is busyCh cleared and the worker restarted
	var both []string
	for b := range ex.depth {
		for n := range clearish[b] {
			for sp := range spawnish[b] {
				if n == sp {
					continue // one call into a helper that does either: judged inside the helper
				}
				if b.G.Reach([]int{n}, nil, nil)[sp] || b.G.Reach([]int{sp}, nil, nil)[n] {
					both = append(both, "in "+b.Label+" a path both clears busyCh ("+P.Pos(b.G.PosOf(n))+") and restarts the worker ("+P.Pos(b.G.PosOf(sp))+")")
				}
			}
		}
	}
	sort.Strings(both)
	switch {
	case len(closers) == 0:
		r.Fail("C05.R2", "busyCh-close|missing", P.Pos(x.start.Decl.Pos()), exitWhat+" does not close busyCh")
	case len(closers) > 1:
		r.Fail("C05.R2", "busyCh-close|several", P.Pos(x.start.Decl.Pos()), sprintf("busyCh is closed in %d different functions of the exit code (double close panics)", len(closers)))
	}
	if len(both) > 0 {
		// reported on the clearing construct, which always exists when this fires
		r.Fail("C05.R2", "busyCh-store|nil+restart", P.Pos(x.start.Decl.Pos()), strings.Join(both, "; "))
	}
}

// ---- R3 ------------------------------------------------------------------

func (x *c05Ctx) r3() {
	r, P := x.c.R, x.c.P
	// (1) list discipline, module-wide
	var pushArgTypes []types.Type
	nPush, nFront := 0, 0
	type opKey struct{ name, label string }
	seenOps := map[opKey]string{}
	var opKeys []opKey
	for _, b := range x.bodies {
		if b.G == nil {
			continue
		}
		for _, id := range b.G.FindNodes(func(n ast.Node) bool { _, _, ok := x.listCall(n); return ok }) {
			core.InspectShallow(b.G.Nodes[id].Ast, func(n ast.Node) bool {
				name, call, ok := x.listCall(n)
				if !ok {
					return true
				}
				k := opKey{name, b.Label}
				if _, dup := seenOps[k]; !dup {
					seenOps[k] = P.Pos(call.Pos())
					opKeys = append(opKeys, k)
				}
				if name == "PushBack" && len(call.Args) == 1 {
					nPush++
					pushArgTypes = append(pushArgTypes, x.info.TypeOf(call.Args[0]))
				}
				if name == "Front" {
					nFront++
				}
				return true
			})
		}
	}
	for _, k := range opKeys {
		key := "queue-op|" + k.name + "|in:" + k.label
		switch k.name {
		case "PushBack":
			r.Check(k.label == x.tryEnqueue.Name(), "C05.R3", key, seenOps[k], "items are appended at the tail, in tryEnqueue only", "items are appended outside tryEnqueue (closed / nil / worker checks bypassed)")
		case "Front":
			r.Check(k.label == x.pop.Name(), "C05.R3", key, seenOps[k], "items are taken from the head, in pop only", "the head of the queue is read outside pop")
		case "Remove":
			r.Check(k.label == x.pop.Name(), "C05.R3", key, seenOps[k], "items are removed in pop only", "items are removed outside pop (an accepted operation would never run)")
		case "Len":
			r.OK("C05.R3", key, seenOps[k], "read-only")
		default:
			r.Fail("C05.R3", key, seenOps[k], "the queue is manipulated with list."+k.name+": FIFO order (PushBack at the tail, Front+Remove at the head) is no longer evident")
		}
	}
	if nPush == 0 || nFront == 0 {
		r.Fail("C05.R3", "queue-op|missing", P.Pos(x.pop.Decl.Pos()), sprintf("expected PushBack and Front on operations.ops, found %d / %d", nPush, nFront))
	}

	// (2) pop
	x.r3pop(pushArgTypes)
	x.r3start()
}

func (x *c05Ctx) bodyOf(fi *core.FuncInfo) *core.Body {
	for _, b := range x.bodies {
		if b.Lit == nil && b.Owner == fi {
			return b
		}
	}
	return nil
}

func (x *c05Ctx) r3pop(pushArgTypes []types.Type) {
	r, P := x.c.R, x.c.P
	b := x.bodyOf(x.pop)
	g := b.G
	pos := P.Pos(x.pop.Decl.Pos())
	recv := x.pop.Decl.Recv.List[0].Names
	if len(recv) == 0 {
		r.Undecided("C05.R3", "pop|remove-before-return", pos, "pop has no named receiver")
		return
	}
	li, inst, held, why := x.instFor(b, g.Entry, recv[0])
	_ = held
	_ = why
	// front definition
	var eVar *types.Var
	var frontNodes []int
	for _, id := range g.FindNodes(func(n ast.Node) bool { name, _, ok := x.listCall(n); return ok && name == "Front" }) {
		as, ok := g.Nodes[id].Ast.(*ast.AssignStmt)
		if !ok || len(as.Lhs) != 1 {
			r.Undecided("C05.R3", "pop|remove-before-return", P.Pos(g.PosOf(id)), "Front() result is not assigned to a single variable")
			return
		}
		v := core.VarOf(x.info, as.Lhs[0])
		if eVar != nil && v != eVar {
			r.Undecided("C05.R3", "pop|remove-before-return", P.Pos(g.PosOf(id)), "several Front() results")
			return
		}
		eVar = v
		frontNodes = append(frontNodes, id)
	}
	if eVar == nil || len(frontNodes) != 1 {
		r.Undecided("C05.R3", "pop|remove-before-return", pos, "expected exactly one 'e := ops.Front()' in pop")
		return
	}
	removes := g.FindNodes(func(n ast.Node) bool {
		name, call, ok := x.listCall(n)
		return ok && name == "Remove" && len(call.Args) == 1 && core.VarOf(x.info, call.Args[0]) == eVar
	})
	mentions := func(e ast.Expr, v *types.Var) bool {
		found := false
		ast.Inspect(e, func(n ast.Node) bool {
			if id, ok := n.(*ast.Ident); ok && x.info.Uses[id] == types.Object(v) {
				found = true
			}
			return true
		})
		return found
	}
	derives := func(e ast.Expr) bool {
		if mentions(e, eVar) {
			return true
		}
		v := core.VarOf(x.info, e)
		if v == nil {
			return false
		}
		ok := false
		for _, n := range g.Nodes {
			if as, isAs := n.Ast.(*ast.AssignStmt); isAs {
				for _, l := range as.Lhs {
					if core.VarOf(x.info, l) == v {
						for _, rhs := range as.Rhs {
							if mentions(rhs, eVar) {
								ok = true
							}
						}
					}
				}
			}
		}
		return ok
	}
	// the asserted type and its ok variable
	var assertT types.Type
	var okVar *types.Var
	for _, n := range g.Nodes {
		as, isAs := n.Ast.(*ast.AssignStmt)
		if !isAs || len(as.Rhs) != 1 {
			continue
		}
		ta, isTA := ast.Unparen(as.Rhs[0]).(*ast.TypeAssertExpr)
		if !isTA || ta.Type == nil || !mentions(ta.X, eVar) {
			continue
		}
		assertT = x.info.TypeOf(ta.Type)
		if len(as.Lhs) == 2 {
			okVar = core.VarOf(x.info, as.Lhs[1])
		}
	}
	var bad []string
	nonNilRets, nilRets := 0, 0
	for _, rn := range g.Returns() {
		ret := g.Nodes[rn].Ast.(*ast.ReturnStmt)
		if len(ret.Results) != 1 {
			bad = append(bad, "return with "+sprintf("%d", len(ret.Results))+" results")
			continue
		}
		if core.IsNilIdent(x.info, ret.Results[0]) {
			nilRets++
			emptyOK, _ := c05DomFact(g, li, inst, rn, func(f core.Fact) bool { return x.lenFact(f, -1) })
			assertFail := false
			if okVar != nil {
				edges := g.EdgesWhere(func(f core.Fact) bool {
					t, isB := f.IsBool()
					return isB && !t && core.VarOf(x.info, f.L) == okVar
				})
				// reachable only when the assertion failed or the queue was empty
				empties := g.EdgesWhere(func(f core.Fact) bool { return x.lenFact(f, -1) })
				all := map[core.EdgeRef]bool{}
				for e := range edges {
					all[e] = true
				}
				for e := range empties {
					all[e] = true
				}
				assertFail = len(edges) > 0 && g.DominatedByEdges(rn, all)
			}
			if !emptyOK && !assertFail {
				bad = append(bad, "pop returns nil at "+P.Pos(ret.Pos())+" although the queue may be non-empty (the worker would stop with items queued)")
			}
			continue
		}
		nonNilRets++
		if len(removes) == 0 || !g.Dominated(rn, core.NodeSet(removes)) {
			bad = append(bad, "an operation is returned at "+P.Pos(ret.Pos())+" without having been removed from the queue (it would run again)")
		}
		if !derives(ret.Results[0]) {
			bad = append(bad, "the value returned at "+P.Pos(ret.Pos())+" is not derived from the head element")
		}
	}
	if nonNilRets == 0 {
		bad = append(bad, "pop never returns an operation")
	}
	for _, rm := range removes {
		if ok, w := li.SameRegion(frontNodes[0], rm, inst); !ok {
			bad = append(bad, "Front() and Remove() are not in one critical section: "+w)
		}
	}
	r.Check(len(bad) == 0, "C05.R3", "pop|remove-before-return", pos, sprintf("head taken and removed under %s before every non-nil return (%d), nil only when empty (%d)", inst, nonNilRets, nilRets), strings.Join(bad, "; "))

	// type agreement between PushBack and the assertion
	if assertT != nil {
		okT := true
		for _, t := range pushArgTypes {
			if !types.Identical(t, assertT) {
				okT = false
			}
		}
		r.Check(okT, "C05.R3", "pop|asserted-type-is-pushed-type", pos, "every PushBack argument has static type "+types.TypeString(assertT, nil)+": the assertion in pop cannot fail", "an enqueued value's static type differs from the type pop asserts: the item would be removed and silently dropped")
	} else {
		r.Info("C05.R3", "pop|asserted-type-is-pushed-type", pos, "pop does not type-assert with the comma-ok form")
	}
}

func (x *c05Ctx) r3start() {
	r, P := x.c.R, x.c.P
	b := x.bodyOf(x.start)
	g := b.G
	pos := P.Pos(x.start.Decl.Pos())
	key := "start|each-popped-op-run-exactly-once"
	var fnVar *types.Var
	var popNodes []int
	for _, id := range g.FindNodes(func(n ast.Node) bool { return core.IsCallTo(x.info, n, x.pop.Obj) }) {
		var lhs ast.Expr
		switch s := g.Nodes[id].Ast.(type) {
		case *ast.AssignStmt:
			if len(s.Lhs) == 1 && len(s.Rhs) == 1 && core.IsCallTo(x.info, ast.Unparen(s.Rhs[0]), x.pop.Obj) {
				lhs = s.Lhs[0]
			}
		case *ast.ValueSpec:
			if len(s.Names) == 1 && len(s.Values) == 1 && core.IsCallTo(x.info, ast.Unparen(s.Values[0]), x.pop.Obj) {
				lhs = s.Names[0]
			}
		}
		v := core.VarOf(x.info, lhs)
		if lhs == nil || v == nil || (fnVar != nil && v != fnVar) {
			r.Undecided("C05.R3", key, P.Pos(g.PosOf(id)), "pop() result is not assigned to one local variable")
			return
		}
		fnVar = v
		popNodes = append(popNodes, id)
	}
	if fnVar == nil {
		r.Fail("C05.R3", key, pos, "start never calls pop")
		return
	}
	popSet := core.NodeSet(popNodes)
	// every use of fnVar is either the pop assignment, a nil test, or a plain call statement
	isRun := func(n int) bool {
		es, ok := g.Nodes[n].Ast.(*ast.ExprStmt)
		if !ok {
			return false
		}
		call, ok := ast.Unparen(es.X).(*ast.CallExpr)
		return ok && core.VarOf(x.info, call.Fun) == fnVar && len(call.Args) == 0
	}
	var bad []string
	for _, n := range g.Nodes {
		if n.Ast == nil || popSet[n.ID] || isRun(n.ID) {
			continue
		}
		core.InspectShallow(n.Ast, func(y ast.Node) bool {
			if fl, ok := y.(*ast.FuncLit); ok {
				// captured by a literal?
				ast.Inspect(fl, func(z ast.Node) bool {
					if id, ok := z.(*ast.Ident); ok && x.info.Uses[id] == types.Object(fnVar) {
						bad = append(bad, "the popped operation is captured by a function literal at "+P.Pos(id.Pos()))
					}
					return true
				})
				return false
			}
			id, ok := y.(*ast.Ident)
			if !ok || x.info.Uses[id] != types.Object(fnVar) {
				return true
			}
			// allowed: comparison with nil
			if be, ok := n.Ast.(*ast.BinaryExpr); ok && (be.Op == token.EQL || be.Op == token.NEQ) &&
				((core.VarOf(x.info, be.X) == fnVar && core.IsNilIdent(x.info, be.Y)) || (core.VarOf(x.info, be.Y) == fnVar && core.IsNilIdent(x.info, be.X))) {
				return true
			}
			bad = append(bad, "the popped operation is used other than by calling it at "+P.Pos(id.Pos()))
			return true
		})
	}
	flagOf := func(from int, e core.Edge) int {
		for _, f := range g.EdgeFacts(e) {
			if f.R == nil {
				continue
			}
			for _, ff := range []core.Fact{f, f.Flip()} {
				if core.VarOf(x.info, ff.L) == fnVar && core.IsNilIdent(x.info, ff.R) {
					if ff.Op == token.NEQ {
						return 1
					}
					if ff.Op == token.EQL {
						return 2
					}
				}
			}
		}
		return 0
	}
	nObs := 0
	for _, p := range popNodes {
		for _, o := range g.CountBetween(p, popSet, isRun, flagOf) {
			nObs++
			end := "the next pop"
			if o.End == g.Exit {
				end = "the end of start"
			} else if o.End == g.Panic {
				continue
			}
			switch {
			case o.Count == 1 && o.Flag == 1, o.Count == 0 && o.Flag == 2:
			case o.Count == 0:
				bad = append(bad, "a path from pop at "+P.Pos(g.PosOf(p))+" reaches "+end+" without running the popped operation (and without having seen it nil): an accepted item is dropped")
			case o.Count >= 2:
				bad = append(bad, "a path from pop at "+P.Pos(g.PosOf(p))+" runs the popped operation more than once before "+end)
			default:
				bad = append(bad, "a path from pop at "+P.Pos(g.PosOf(p))+" calls the operation without a dominating nil test / after seeing it nil")
			}
		}
	}
	x.c.R.Cells += nObs
	r.Check(len(bad) == 0, "C05.R3", key, pos, sprintf("%d pop site(s), %d path classes: run exactly once when non-nil, loop ends only on nil", len(popNodes), nObs), strings.Join(bad, "; "))

	// run outside the lock
	li := x.gd.LocksOf(b)
	okOut, nRun := true, 0
	for _, n := range g.Nodes {
		if isRun(n.ID) {
			nRun++
			for inst, cl := range li.ClassOf {
				if cl == "operations.mu" && li.MayHold(n.ID, inst) {
					okOut = false
				}
			}
		}
	}
	sites := core.CallSitesOf(x.bodies, x.pop.Obj)
	for _, s := range sites {
		if s.Body != b {
			okOut = false
			bad = append(bad, "pop is also used in "+s.Body.Label)
		}
	}
	r.Check(okOut && nRun > 0, "C05.R3", "start|operation-runs-outside-lock", pos, "operations are invoked with no queue lock held (they may enqueue); pop is used by the worker only", "an operation is invoked while o.mu may be held, or pop is used outside the worker: "+strings.Join(bad, "; "))
}

// ---- R4 ------------------------------------------------------------------

func (x *c05Ctx) r4() {
	r, P := x.c.R, x.c.P
	// PushBack sites
	for _, b := range x.bodies {
		if b.G == nil {
			continue
		}
		g := b.G
		for _, id := range g.FindNodes(func(n ast.Node) bool { name, _, ok := x.listCall(n); return ok && name == "PushBack" }) {
			var call *ast.CallExpr
			core.InspectShallow(g.Nodes[id].Ast, func(n ast.Node) bool {
				if name, c, ok := x.listCall(n); ok && name == "PushBack" {
					call = c
				}
				return true
			})
			key := "enqueue|in:" + b.Label
			pos := P.Pos(call.Pos())
			sel := ast.Unparen(call.Fun).(*ast.SelectorExpr)
			base := ast.Unparen(sel.X).(*ast.SelectorExpr).X
			li, inst, held, why := x.instFor(b, id, base)
			if !held {
				r.Fail("C05.R4", key, pos, "item appended without the queue lock: "+why)
				continue
			}
			var bad []string
			if ok, w := x.domLift(b, id, base, func(f core.Fact) bool { return x.boolFieldFact(f, x.isClosed, false) }, 2); !ok {
				bad = append(bad, "PushBack not dominated by !isClosed in its critical section ("+w+"): work queued after GracefulClose would run")
			}
			if len(call.Args) == 1 {
				if v := core.VarOf(x.info, call.Args[0]); v != nil {
					if ok, w := c05DomFact(g, li, inst, id, func(f core.Fact) bool {
						return f.R != nil && f.Op == token.NEQ && core.VarOf(x.info, f.L) == v && core.IsNilIdent(x.info, f.R)
					}); !ok {
						bad = append(bad, "PushBack of a possibly nil operation ("+w+"): a nil item ends the worker loop with items still queued")
					}
				} else {
					bad = append(bad, "PushBack argument is not a variable; nil-ness cannot be decided")
				}
			}
			// the worker test happens in the same critical section
			tests := g.EdgesWhere(func(f core.Fact) bool {
				return f.R != nil && (f.Op == token.EQL || f.Op == token.NEQ) && x.isF(f.L, x.busyCh) && core.IsNilIdent(x.info, f.R)
			})
			okT := false
			for er := range tests {
				if o, _ := c05SameRegionEither(g, li, id, er.From, inst); o {
					okT = true
				}
			}
			if !okT {
				bad = append(bad, "no busyCh test in the critical section of the PushBack: an item can be queued with no worker to run it")
			}
			r.Check(len(bad) == 0, "C05.R4", key, pos, "appended under "+inst+" only if !isClosed and op != nil, worker test in the same critical section", strings.Join(bad, "; "))
		}
	}
	// isClosed writes
	nW := 0
	for _, b := range x.bodies {
		if b.G == nil {
			continue
		}
		g := b.G
		var ws []core.FieldAccess
		for _, a := range g.FieldAccesses(map[*types.Var]bool{x.isClosed: true}) {
			if a.Write {
				ws = append(ws, a)
			}
		}
		if len(ws) == 0 {
			continue
		}
		nW++
		var bad []string
		for _, a := range ws {
			as, ok := g.Nodes[a.Node].Ast.(*ast.AssignStmt)
			isTrue := false
			if ok && a.How == "assign" && len(as.Lhs) == len(as.Rhs) && as.Tok == token.ASSIGN {
				for i, l := range as.Lhs {
					if ast.Unparen(l) == ast.Expr(a.Sel) {
						if tv, ok := x.info.Types[as.Rhs[i]]; ok && tv.Value != nil && tv.Value.Kind() == constant.Bool && constant.BoolVal(tv.Value) {
							isTrue = true
						}
					}
				}
			}
			if !isTrue {
				bad = append(bad, "isClosed is assigned something other than the constant true at "+P.Pos(a.Sel.Pos())+" (a closed queue could accept work again)")
			}
		}
		r.Check(len(bad) == 0, "C05.R4", "isClosed-write|in:"+b.Label, P.Pos(ws[0].Sel.Pos()), "isClosed only ever becomes true", strings.Join(bad, "; "))
	}
	if nW == 0 {
		r.Fail("C05.R4", "isClosed-write|missing", P.Pos(x.graceful.Decl.Pos()), "nothing ever closes the queue")
	}
	// GracefulClose
	b := x.bodyOf(x.graceful)
	g := b.G
	pos := P.Pos(x.graceful.Decl.Pos())
	recv := x.graceful.Decl.Recv.List[0].Names
	if len(recv) == 0 {
		r.Undecided("C05.R4", "GracefulClose|close+sample-atomic", pos, "no named receiver")
		return
	}
	li := x.gd.LocksOf(b)
	inst := recv[0].Name + "." + x.mu.Name()
	var closeW, busyR []int
	for _, a := range g.FieldAccesses(map[*types.Var]bool{x.isClosed: true, x.busyCh: true}) {
		if a.Field == x.isClosed && a.Write {
			closeW = append(closeW, a.Node)
		}
		if a.Field == x.busyCh && !a.Write {
			busyR = append(busyR, a.Node)
		}
	}
	if len(closeW) != 1 || len(busyR) == 0 {
		r.Fail("C05.R4", "GracefulClose|close+sample-atomic", pos, sprintf("expected one write of isClosed and a read of busyCh in GracefulClose, found %d / %d", len(closeW), len(busyR)))
	} else {
		ok, why := true, ""
		for _, br := range busyR {
			if o, w := c05SameRegionEither(g, li, closeW[0], br, inst); !o {
				ok, why = false, w
			}
		}
		r.Check(ok, "C05.R4", "GracefulClose|close+sample-atomic", P.Pos(g.PosOf(closeW[0])), "isClosed is set and busyCh sampled in one critical section of "+inst, "isClosed = true and the busyCh sample are not atomic ("+why+"): a worker started in between is not waited for")
	}
	// waits
	waits := g.FindNodes(func(n ast.Node) bool {
		u, ok := n.(*ast.UnaryExpr)
		return ok && u.Op == token.ARROW
	})
	var bad []string
	if len(waits) == 0 {
		bad = append(bad, "GracefulClose does not wait for the worker")
	}
	for _, w := range waits {
		if li.MayHold(w, inst) {
			bad = append(bad, "the wait at "+P.Pos(g.PosOf(w))+" may run with "+inst+" held (the worker's exit block needs it: deadlock)")
		}
		var ch ast.Expr
		core.InspectShallow(g.Nodes[w].Ast, func(n ast.Node) bool {
			if u, ok := n.(*ast.UnaryExpr); ok && u.Op == token.ARROW {
				ch = u.X
			}
			return true
		})
		v := core.VarOf(x.info, ch)
		if v == nil {
			bad = append(bad, "the wait is not on a sampled local channel (reading o.busyCh outside the lock)")
			continue
		}
		rhs, dn := g.UniqueDef(v)
		if rhs == nil || !x.isF(rhs, x.busyCh) {
			bad = append(bad, "the awaited channel is not the busyCh sampled under the lock")
			continue
		}
		if len(closeW) == 1 {
			if o, w2 := c05SameRegionEither(g, li, closeW[0], dn, inst); !o {
				bad = append(bad, "the awaited channel was sampled outside the closing critical section: "+w2)
			}
		}
	}
	r.Check(len(bad) == 0, "C05.R4", "GracefulClose|wait-outside-lock", pos, sprintf("%d wait(s) on the sampled busyCh with no lock held", len(waits)), strings.Join(bad, "; "))
	// every return leaves the queue closed: each path to the exit passes the write isClosed = true or a branch that
	// establishes isClosed (an idle queue - no worker to wait for - must be closed as well, or work queued later runs).
	if len(closeW) == 1 {
		var implies func(e ast.Expr, truth bool) bool
		implies = func(e ast.Expr, truth bool) bool {
			switch v := ast.Unparen(e).(type) {
			case *ast.UnaryExpr:
				if v.Op == token.NOT {
					return implies(v.X, !truth)
				}
			case *ast.BinaryExpr:
				if v.Op == token.LAND && truth || v.Op == token.LOR && !truth {
					return implies(v.X, truth) || implies(v.Y, truth)
				}
			default:
				return truth && x.isF(e, x.isClosed)
			}
			return false
		}
		reach := g.ReachFromEntry(func(n int) bool { return n == closeW[0] }, func(from, idx int, e core.Edge) bool {
			return e.Cond != nil && e.Tag == nil && e.Branch != 0 && implies(e.Cond, e.Branch == 1)
		})
		r.Check(!reach[g.Exit], "C05.R4", "GracefulClose|closed-on-every-return", pos, "every return of GracefulClose is reached with isClosed set (by the write or by a branch that tested it)",
			"GracefulClose can return without the queue being closed (a path to a return passes neither isClosed = true nor a test that establishes it): work queued afterwards is accepted and runs")
	}
}

// ---- R5 ------------------------------------------------------------------

func (x *c05Ctx) r5() {
	r, P := x.c.R, x.c.P
	b := x.bodyOf(x.done)
	g := b.G
	pos := P.Pos(x.done.Decl.Pos())
	recv := x.done.Decl.Recv.List[0].Names
	if len(recv) == 0 {
		r.Undecided("C05.R5", "Done|waiter-through-tryEnqueue", pos, "no named receiver")
		return
	}
	inst := recv[0].Name + "." + x.mu.Name()
	li := x.gd.LocksOf(b)
	enq := g.FindNodes(func(n ast.Node) bool { return core.IsCallTo(x.info, n, x.tryEnqueue.Obj) })
	if len(enq) != 1 {
		r.Fail("C05.R5", "Done|waiter-through-tryEnqueue", pos, sprintf("expected exactly one tryEnqueue call in Done, found %d", len(enq)))
		return
	}
	var call *ast.CallExpr
	core.InspectShallow(g.Nodes[enq[0]].Ast, func(n ast.Node) bool {
		if core.IsCallTo(x.info, n, x.tryEnqueue.Obj) {
			call = n.(*ast.CallExpr)
		}
		return true
	})
	isWG := func(n ast.Node, name string) (*types.Var, *ast.CallExpr) {
		c, ok := n.(*ast.CallExpr)
		if !ok {
			return nil, nil
		}
		fn := core.Callee(x.info, c)
		if fn == nil || fn.Pkg() == nil || fn.Pkg().Path() != "sync" || fn.Name() != name {
			return nil, nil
		}
		sel, ok := ast.Unparen(c.Fun).(*ast.SelectorExpr)
		if !ok {
			return nil, nil
		}
		if named, ok := x.info.TypeOf(sel.X).(*types.Named); !ok || named.Obj().Name() != "WaitGroup" {
			if p, ok := x.info.TypeOf(sel.X).(*types.Pointer); !ok || p.Elem().(*types.Named).Obj().Name() != "WaitGroup" {
				return nil, nil
			}
		}
		return core.VarOf(x.info, sel.X), c
	}
	// waiter literal
	var bad []string
	var wg *types.Var
	lit, _ := ast.Unparen(call.Args[0]).(*ast.FuncLit)
	if lit == nil {
		bad = append(bad, "the waiter passed to tryEnqueue is not a function literal")
	} else {
		lg := P.GraphOfLit(lit)
		doneNodes := lg.FindNodes(func(n ast.Node) bool { v, _ := isWG(n, "Done"); return v != nil })
		for _, dn := range doneNodes {
			core.InspectShallow(lg.Nodes[dn].Ast, func(n ast.Node) bool {
				if v, _ := isWG(n, "Done"); v != nil {
					wg = v
				}
				return true
			})
		}
		dset := core.NodeSet(doneNodes)
		for _, o := range lg.CountBetween(lg.Entry, nil, func(n int) bool { return dset[n] }, nil) {
			if o.End == lg.Exit && o.Count != 1 {
				bad = append(bad, sprintf("the waiter calls wg.Done %d time(s) on some path (must be exactly once)", o.Count))
			}
		}
		if len(doneNodes) == 0 {
			bad = append(bad, "the waiter never calls wg.Done")
		}
	}
	if li.HeldInst(enq[0], inst) != "W" {
		bad = append(bad, "tryEnqueue is called without "+inst)
	}
	// wg.Add(1) dominates the enqueue
	adds := g.FindNodes(func(n ast.Node) bool {
		v, c := isWG(n, "Add")
		if v == nil || v != wg || len(c.Args) != 1 {
			return false
		}
		k, ok := core.IntConst(x.info, c.Args[0])
		return ok && k == 1
	})
	if wg != nil && (len(adds) != 1 || !g.Dominated(enq[0], core.NodeSet(adds))) {
		bad = append(bad, "wg.Add(1) does not precede the enqueue exactly once")
	}
	r.Check(len(bad) == 0, "C05.R5", "Done|waiter-through-tryEnqueue", P.Pos(call.Pos()), "waiter (one wg.Done) enqueued at the tail through tryEnqueue under "+inst+", after wg.Add(1)", strings.Join(bad, "; "))
	if wg == nil {
		return
	}

	// result variable
	var resVar *types.Var
	if as, ok := g.Nodes[enq[0]].Ast.(*ast.AssignStmt); ok && len(as.Lhs) == 1 {
		resVar = core.VarOf(x.info, as.Lhs[0])
	}
	waits := g.FindNodes(func(n ast.Node) bool { v, _ := isWG(n, "Wait"); return v != nil && v == wg })
	bad = nil
	if len(waits) == 0 {
		bad = append(bad, "Done never waits")
	}
	if resVar == nil {
		bad = append(bad, "tryEnqueue's result is not kept in a variable")
	} else if rhs, _ := g.UniqueDef(resVar); rhs == nil {
		bad = append(bad, "the enqueue result variable is reassigned")
	}
	outside := true
	for _, w := range waits {
		if li.MayHold(w, inst) {
			outside = false
		}
	}
	r.Check(outside && len(waits) > 0, "C05.R5", "Done|wait-outside-lock", pos, "wg.Wait holds no queue lock", "wg.Wait may run with "+inst+" held: the worker can never pop the waiter (deadlock)")
	if resVar != nil && len(waits) > 0 {
		accepted := g.EdgesWhere(func(f core.Fact) bool {
			t, ok := f.IsBool()
			return ok && t && core.VarOf(x.info, f.L) == resVar
		})
		refused := g.EdgesWhere(func(f core.Fact) bool {
			t, ok := f.IsBool()
			return ok && !t && core.VarOf(x.info, f.L) == resVar
		})
		wset := core.NodeSet(waits)
		for _, w := range waits {
			if len(accepted) == 0 || !g.DominatedByEdges(w, accepted) {
				bad = append(bad, "wg.Wait is reachable when the enqueue was refused (the waiter will never run: Done blocks forever)")
			}
		}
		// accepted => waits before returning
		reach := g.ReachFromEntry(func(n int) bool { return wset[n] }, func(from, idx int, e core.Edge) bool { return refused[core.EdgeRef{From: from, Idx: idx}] })
		if reach[g.Exit] {
			bad = append(bad, "Done can return without waiting although the waiter was accepted (it returns before the queued work has run)")
		}
	}
	r.Check(len(bad) == 0, "C05.R5", "Done|wait-iff-accepted", pos, "wg.Wait is executed exactly when tryEnqueue accepted the waiter", strings.Join(bad, "; "))
}

// c05Config386 re-runs a property body on the GOARCH=386 configuration (which
// also type-checks files behind 32-bit build constraints) into a scratch
// report and folds the outcome into one obligation per rule of the real
// report. A failing construct that already fails in the main configuration is
// not reported twice (it keeps its own key there, so known findings still apply).
func c05Config386(c *Ctx, run func(*Ctx)) {
	p386, err := c.Load386()
	if err != nil {
		c.R.Fail(c.R.Prop+".R1", "config:linux/386", "-", "cannot load the 386 configuration: "+err.Error())
		return
	}
	tmp := core.NewReport(c.R.Prop, c.R.Tier, c.R.Seed, c.R.VerifDir)
	run(&Ctx{P: p386, R: tmp, Thorough: false, Load386: c.Load386})
	mainFail := map[string]bool{}
	for _, o := range c.R.Obs {
		if o.Status == core.StFail || o.Status == core.StUndecided {
			mainFail[o.Rule+"|"+o.Key] = true
		}
	}
	type acc struct {
		n   int
		bad []string
	}
	per := map[string]*acc{}
	var rules []string
	for _, o := range tmp.Obs {
		if o.Status == core.StInfo {
			continue
		}
		a := per[o.Rule]
		if a == nil {
			a = &acc{}
			per[o.Rule] = a
			rules = append(rules, o.Rule)
		}
		a.n++
		if (o.Status == core.StFail || o.Status == core.StUndecided) && !mainFail[o.Rule+"|"+o.Key] {
			a.bad = append(a.bad, o.Key+" @ "+o.Pos+": "+o.Detail)
		}
	}
	sort.Strings(rules)
	for _, ri := range tmp.Rules {
		a := per[ri.ID]
		n := 0
		if a != nil {
			n = a.n
		}
		if n < ri.Min {
			if a == nil {
				a = &acc{}
				per[ri.ID] = a
				rules = append(rules, ri.ID)
			}
			a.bad = append(a.bad, sprintf("only %d constructs matched under GOARCH=386 (minimum %d)", n, ri.Min))
		}
	}
	for _, id := range rules {
		a := per[id]
		c.R.Check(len(a.bad) == 0, id, "config:linux/386", "-", sprintf("%d obligations re-evaluated under GOARCH=386 with the same verdicts", a.n), strings.Join(a.bad, "; "))
	}
	c.R.Cells += tmp.Cells
}

// c05ForC21 re-evaluates the worker-lifecycle rules (C05.R2 single worker / restart only while not closed, C05.R4
// closed queue) and reports them under C21.R5: "once GracefulClose returns no goroutine started by the connection is
// still running" needs exactly these — GracefulClose waits only on the busyCh it sampled, so a worker re-spawned, or
// an operation accepted, after the queue was closed is a goroutine nobody waits for.
func c05ForC21(c *Ctx, rule string) {
	sub := core.NewReport("C05", c.R.Tier, c.R.Seed, c.R.VerifDir)
	c2 := &Ctx{P: c.P, R: sub, Thorough: false, Load386: c.Load386}
	x := &c05Ctx{c: c2}
	x.mu = c2.mustField("C05.R1", "", "operations", "mu")
	x.busyCh = c2.mustField("C05.R1", "", "operations", "busyCh")
	x.ops = c2.mustField("C05.R1", "", "operations", "ops")
	x.isClosed = c2.mustField("C05.R1", "", "operations", "isClosed")
	x.tryEnqueue = c2.mustFunc("C05.R4", "", "operations.tryEnqueue")
	x.pop = c2.mustFunc("C05.R3", "", "operations.pop")
	x.start = c2.mustFunc("C05.R2", "", "operations.start")
	x.done = c2.mustFunc("C05.R5", "", "operations.Done")
	x.graceful = c2.mustFunc("C05.R4", "", "operations.GracefulClose")
	if x.mu != nil && x.busyCh != nil && x.ops != nil && x.isClosed != nil && x.tryEnqueue != nil && x.pop != nil && x.start != nil && x.done != nil && x.graceful != nil {
		x.info = c2.P.Pkg("").TypesInfo
		x.bodies = c2.P.AllBodies(nil)
		x.gd = core.NewGuard(c2.P, x.bodies)
		x.r2()
		x.r4()
	}
	for _, o := range sub.Obs {
		if o.Rule != "C05.R2" && o.Rule != "C05.R4" && o.Status == core.StOK {
			continue
		}
		key := o.Rule + "|" + o.Key
		switch o.Status {
		case core.StOK:
			c.R.OK(rule, key, o.Pos, o.Detail)
		case core.StFail:
			c.R.Fail(rule, key, o.Pos, o.Detail)
		case core.StUndecided:
			c.R.Undecided(rule, key, o.Pos, o.Detail)
		case core.StInfo:
			c.R.Info(rule, key, o.Pos, o.Detail)
		}
	}
	c.R.Cells += sub.Cells
}
