package props

import (
	"go/ast"
	"go/token"
	"go/types"
	"sort"

	"verif/checker/core"
)

func init() {
	register(&Prop{
		ID:        "C09",
		Engine:    "e2cfg+e3lock+e6flow",
		Technique: "who-may-write sweeps for RTPTransceiver.mid and PeerConnection.greaterMid with dominance by the guarding test (set-once, only-increase) and the lockset at every write; ordering rule on the tail appends of the two generators (remote-ordered sections, then unmatched transceivers, then the data section); mid provenance shared with C06.R1",
		LevelText: "Structural clauses of mid/position stability: (R1) a transceiver's mid is stored in exactly one place, SetMid, and only behind a test that the current mid is empty; (R2) the fresh-mid counter is only ever increased (++, or assignment guarded by `new > counter`) and only with pc.mu held exclusively; (R3) both generators only append sections at the tail, in the order remote m-sections, unmatched local transceivers, data section, and populateSDP emits them by a forward range; (R4) every section id / new transceiver mid derives from the remote mid, the transceiver's own mid or the fresh allocator.",
		LevelNote: "Trusted: go/types, go/cfg, the intraprocedural lockset analysis. Position stability when the remote peer reorders its m-sections is not covered; the check-then-store in SetMid is not atomic against a concurrent SetMid (single signalling thread assumed).",
		DesignRef: "DESIGN.md §5 C09",
		Run:       runC09,
	})
}

func runC09(c *Ctx) {
	r := c.R
	// Instance minima count the semantic facts a rule must establish (one per kind of section source, per
	// attribute, per table cell, per guarded write …), not the incidental number of sites: a refactor that merges
	// two sites (one error return instead of two, one literal shared by two arms, a block moved into a helper)
	// must not trip them, while losing an anchor still does.
	r.Rule("C09.R1", "RTPTransceiver.mid is stored only in SetMid, the store is dominated by a test that the current mid (t.Mid()) is empty, and the stored value is SetMid's parameter; no composite literal initialises it", 2)
	r.Rule("C09.R2", "PeerConnection.greaterMid is only ever increased: every write is `++`, `+= positive constant`, or `= x` dominated by a true test `x > pc.greaterMid`; every write holds pc.mu exclusively; the constructor initialises it to a negative constant", 3)
	r.Rule("C09.R3", "section order: generateMatchedSDP and generateUnmatchedSDP only tail-append section literals to the list handed to populateSDP; no remote-loop append is reachable after an unmatched-transceiver or data append, no transceiver append after the data append; populateSDP emits the list by a forward range", 8)
	r.Rule("C09.R4", "fresh-mid provenance (shared with C06.R1): section ids derive from the remote mid, the section's transceiver or a guarded Plan-B constant; SetMid arguments from the remote mid or the allocator incremented before every use", 8)
	r.Rule("C09.R7", "same rule as C07.R4: the rejected (port 0) section addTransceiverSDP emits for a transceiver it cannot serve still carries the mid parameter as a=mid, so the transceiver's section keeps its mid in the answer", 3)
	r.Rule("C09.R8", "findByMid and satisfyTypeAndDirection hand back the remaining transceiver list in its original order (the list parameter, or append(l[:i], l[i+1:]...)), and never write an element of it: the unmatched sections generateMatchedSDP appends keep their relative positions across offers", 2)
	r.Rule("C09.R5", "fresh-mid allocation sees every existing mid: each iteration of CreateOffer's scans over the current remote description's sections and over the transceivers either compares the element's mid with greaterMid (raise) / allocates with ++, or skips only because the element has no mid or a non-numeric one", 2)
	r.Rule("C09.R6", "a data-section mid computed from len(sections) is evaluated at the data section's own append, after every other section was appended (keeps the recorded len-based-mid finding from colliding inside one description)", 1)
	r.NotCovered = append(r.NotCovered,
		"position stability when the remote peer reorders or removes its m-sections",
		"atomicity of SetMid's check-then-store against a concurrent SetMid",
		"that the order of pc.rtpTransceivers itself is stable (append-only) across negotiations")
	r.Trusted = append(r.Trusted, "atomic.Value Store/Load semantics", "intraprocedural must-lockset (core.Locks)")
	c06Tick(c, "loaded")

	c09Rules(c)
	c06Agree386(c, "C09.R1", c09Rules)
	c06Dump(c)
	c09R5(c, "C09.R5")
	c09R6(c, "C09.R6")
	c09R8(c, "C09.R8") // c09b.go
}

// c09Rules runs every rule of the property on the program held by c.
func c09Rules(c *Ctx) {
	env := c06Anchors(c, "C09.R1")
	if !env.ok {
		return
	}
	c09R1(env)
	c09R2(env)
	c09R3(env)
	c06MidProvenance(env, "C09.R4")
	c07R4(env, "C09.R7")
}

// ---------------------------------------------------------------------------
// R1

func c09R1(env *c06Env) {
	c, r := env.c, env.c.R
	const rule = "C09.R1"
	midField := c.mustField(rule, "", "RTPTransceiver", "mid")
	if midField == nil {
		return
	}
	nStores := 0
	for _, fi := range c.P.AllFuncs() {
		if fi.Decl.Body == nil {
			continue
		}
		info := fi.Pkg.TypesInfo
		ast.Inspect(fi.Decl.Body, func(x ast.Node) bool {
			switch s := x.(type) {
			case *ast.CallExpr:
				sel, ok := ast.Unparen(s.Fun).(*ast.SelectorExpr)
				if !ok || core.FieldOf(info, sel.X) != midField {
					return true
				}
				switch sel.Sel.Name {
				case "Store", "Swap", "CompareAndSwap":
					nStores++
					key := "RTPTransceiver.mid." + sel.Sel.Name + "|in:" + fi.Name()
					if fi != env.setMid {
						r.Fail(rule, key, c.P.Pos(s.Pos()), "a transceiver's mid is stored outside SetMid: the set-once guard is bypassed and a negotiated mid can change")
					} else {
						c09SetMidGuard(env, key, s)
					}
				}
			case *ast.AssignStmt:
				for _, l := range s.Lhs {
					if core.FieldOf(info, l) == midField {
						r.Fail(rule, "RTPTransceiver.mid|assigned|in:"+fi.Name(), c.P.Pos(l.Pos()), "the mid cell is overwritten by assignment")
					}
				}
			case *ast.UnaryExpr:
				if s.Op == token.AND && core.FieldOf(info, s.X) == midField {
					r.Fail(rule, "RTPTransceiver.mid|address-taken|in:"+fi.Name(), c.P.Pos(s.Pos()), "the address of the mid cell is taken")
				}
			case *ast.KeyValueExpr:
				if id, ok := s.Key.(*ast.Ident); ok && info.Uses[id] == types.Object(midField) {
					r.Fail(rule, "RTPTransceiver.mid|literal-init|in:"+fi.Name(), c.P.Pos(s.Pos()), "a transceiver is created with a preset mid cell")
				}
			}
			return true
		})
	}
	if nStores == 0 {
		r.Fail(rule, "RTPTransceiver.mid.Store|in:(*RTPTransceiver).SetMid", c.P.Pos(env.setMid.Decl.Pos()), "SetMid never stores the mid")
	}
	r.OK(rule, "RTPTransceiver.mid|writers-swept", "-", sprintf("%d store(s) found in the module", nStores))
}

// c09SetMidGuard checks the store inside SetMid.
func c09SetMidGuard(env *c06Env, key string, store *ast.CallExpr) {
	c, r := env.c, env.c.R
	const rule = "C09.R1"
	g := c.P.GraphOf(env.setMid)
	info := g.Info
	pos := c.P.Pos(store.Pos())
	sig := g.Sig()
	recv := sig.Recv()
	var node = -1
	for _, n := range g.FindNodes(func(x ast.Node) bool { return x == ast.Node(store) }) {
		node = n
	}
	if node < 0 {
		r.Undecided(rule, key, pos, "the store is inside a function literal or unreachable")
		return
	}
	// the cell belongs to the receiver and the value is the parameter
	sel := ast.Unparen(store.Fun).(*ast.SelectorExpr)
	root, _, okp := c06FieldPath(info, sel.X)
	valOK := len(store.Args) >= 1 && sig.Params().Len() == 1 && core.VarOf(info, store.Args[len(store.Args)-1]) == sig.Params().At(0) && c06AssignedAnywhere(g, sig.Params().At(0)) == 0
	if !okp || root != recv || !valOK {
		r.Fail(rule, key, pos, "SetMid does not store its parameter into the receiver's mid cell")
		return
	}
	// "current mid is empty" facts: E == "" where E is t.Mid() on the receiver or a local defined only by it; len(E) == 0
	isCurMid := func(at int, e ast.Expr) bool {
		e = ast.Unparen(e)
		if call, ok := e.(*ast.CallExpr); ok {
			return core.IsCallTo(info, call, env.midFn.Obj) && core.VarOf(info, c06Recv(info, call)) == recv
		}
		v := core.VarOf(info, e)
		if v == nil {
			return false
		}
		defs := c06Defs(g, at, v)
		if len(defs) == 0 {
			return false
		}
		for _, d := range defs {
			call, ok := ast.Unparen(d.Rhs).(*ast.CallExpr)
			if d.Kind != "assign" || !ok || !core.IsCallTo(info, call, env.midFn.Obj) || core.VarOf(info, c06Recv(info, call)) != recv {
				return false
			}
		}
		return true
	}
	emptyEdges := c06EdgesWhere(g, func(from int, f c06Fact) bool {
		be, ok := ast.Unparen(f.Expr).(*ast.BinaryExpr)
		if !ok {
			return false
		}
		x, y := be.X, be.Y
		if _, isC := info.Types[x]; isC && info.Types[x].Value != nil {
			x, y = y, x
		}
		// E == "" / E != ""
		if s, isStr := c06ConstString(info, y); isStr && s == "" && isCurMid(from, x) {
			return (be.Op == token.EQL && f.Truth) || (be.Op == token.NEQ && !f.Truth)
		}
		// len(E) == 0 / len(E) != 0 / len(E) > 0
		if k, isInt := c06ConstInt(info, y); isInt && k == 0 {
			if lc, isCall := ast.Unparen(x).(*ast.CallExpr); isCall && c06IsBuiltin(info, lc, "len") && len(lc.Args) == 1 && isCurMid(from, lc.Args[0]) {
				switch be.Op {
				case token.EQL:
					return f.Truth
				case token.NEQ, token.GTR:
					return !f.Truth
				}
			}
		}
		return false
	})
	r.Check(len(emptyEdges) > 0 && g.DominatedByEdges(node, emptyEdges), rule, key, pos, "the store is reached only after the current mid tested empty",
		"SetMid can overwrite a mid that is already set: a transceiver's mid changes after it was negotiated")
}

// ---------------------------------------------------------------------------
// R2

func c09R2(env *c06Env) {
	c, r := env.c, env.c.R
	const rule = "C09.R2"
	gm := c.mustField(rule, "", "PeerConnection", "greaterMid")
	if gm == nil {
		return
	}
	nWrites := 0
	for _, fi := range c.P.AllFuncs() {
		if fi.Decl.Body == nil {
			continue
		}
		info := fi.Pkg.TypesInfo
		touches := false
		ast.Inspect(fi.Decl.Body, func(x ast.Node) bool {
			switch s := x.(type) {
			case *ast.SelectorExpr:
				if core.FieldOf(info, s) == gm {
					touches = true
				}
			case *ast.KeyValueExpr:
				if id, ok := s.Key.(*ast.Ident); ok && info.Uses[id] == types.Object(gm) {
					nWrites++
					k, isC := c06ConstInt(info, s.Value)
					r.Check(isC && k < 0, rule, "PeerConnection.greaterMid|init|in:"+fi.Name(), c.P.Pos(s.Pos()), sprintf("initialised to %d", k), "the counter is not initialised to a negative constant (the first allocated mid would not be \"0\" / could collide)")
				}
			}
			return true
		})
		if !touches {
			continue
		}
		g := c.P.GraphOf(fi)
		li := core.Locks(g)
		// a helper that never takes pc.mu itself and whose every call site (module-wide, direct and synchronous,
		// on the receiver whose mu is held) holds pc.mu exclusively runs under the lock
		underCallers := c09CalledUnderMu(c, fi, 0)
		held := func(n int) bool {
			for inst, mode := range li.In[n] {
				if li.ClassOf[inst] == "PeerConnection.mu" && mode == "W" {
					return true
				}
			}
			return underCallers
		}
		// writes inside function literals are not in g
		ast.Inspect(fi.Decl.Body, func(x ast.Node) bool {
			fl, ok := x.(*ast.FuncLit)
			if !ok {
				return true
			}
			ast.Inspect(fl.Body, func(y ast.Node) bool {
				switch s := y.(type) {
				case *ast.AssignStmt:
					for _, l := range s.Lhs {
						if core.FieldOf(info, l) == gm {
							r.Undecided(rule, "PeerConnection.greaterMid|write-in-literal|in:"+fi.Name(), c.P.Pos(l.Pos()), "the counter is written inside a function literal")
						}
					}
				case *ast.IncDecStmt:
					if core.FieldOf(info, s.X) == gm {
						r.Undecided(rule, "PeerConnection.greaterMid|write-in-literal|in:"+fi.Name(), c.P.Pos(s.Pos()), "the counter is written inside a function literal")
					}
				}
				return true
			})
			return false
		})
		seq := map[string]int{}
		for _, n := range g.Nodes {
			if n.Ast == nil {
				continue
			}
			core.InspectShallow(n.Ast, func(x ast.Node) bool {
				switch s := x.(type) {
				case *ast.IncDecStmt:
					if core.FieldOf(info, s.X) != gm {
						return true
					}
					nWrites++
					key := "PeerConnection.greaterMid|" + s.Tok.String() + "|in:" + fi.Name()
					switch {
					case s.Tok != token.INC:
						r.Fail(rule, key, c.P.Pos(s.Pos()), "the fresh-mid counter is decremented: a mid used in an earlier description is allocated again")
					case !held(n.ID):
						r.Fail(rule, key, c.P.Pos(s.Pos()), "the counter is incremented without pc.mu held exclusively")
					default:
						r.OK(rule, key, c.P.Pos(s.Pos()), "increment under pc.mu")
					}
				case *ast.UnaryExpr:
					if s.Op == token.AND && core.FieldOf(info, s.X) == gm {
						r.Fail(rule, "PeerConnection.greaterMid|address-taken|in:"+fi.Name(), c.P.Pos(s.Pos()), "the address of the counter is taken")
					}
				case *ast.AssignStmt:
					for i, l := range s.Lhs {
						if core.FieldOf(info, l) != gm {
							continue
						}
						nWrites++
						base := "PeerConnection.greaterMid|" + s.Tok.String() + "|in:" + fi.Name()
						pos := c.P.Pos(s.Pos())
						if !held(n.ID) {
							r.Fail(rule, base, pos, "the counter is written without pc.mu held exclusively")
							continue
						}
						switch s.Tok {
						case token.ADD_ASSIGN:
							k, isC := c06ConstInt(info, s.Rhs[0])
							r.Check(isC && k > 0, rule, base, pos, "adds a positive constant", "the counter is changed by a non-constant or non-positive amount")
						case token.ASSIGN:
							if len(s.Rhs) != len(s.Lhs) {
								r.Undecided(rule, base, pos, "tuple assignment to the counter")
								continue
							}
							rhs := s.Rhs[i]
							src := c06Canon(g, n.ID, rhs)
							if rv := core.VarOf(info, rhs); rv != nil {
								// name the value by the call that defines it (one level deeper than the default rendering)
								if defs := c06Defs(g, n.ID, rv); len(defs) == 1 && defs[0].Rhs != nil && (defs[0].Kind == "assign" || defs[0].Kind == "tuple") {
									src = c06Canon(g, defs[0].Node, defs[0].Rhs)
									if defs[0].Kind == "tuple" {
										src += sprintf("#%d", defs[0].Index)
									}
								}
							}
							seq[src]++
							key := base + "|value:" + src
							if seq[src] > 1 {
								key += sprintf("#%d", seq[src])
							}
							v := core.VarOf(info, rhs)
							if v == nil {
								r.Fail(rule, key, pos, "the counter is assigned a value that is not a variable compared against it: it may decrease")
								continue
							}
							// dominated by a true `v > pc.greaterMid` (or `pc.greaterMid < v`) with v not redefined in between
							greater := c06EdgesWhere(g, func(from int, f c06Fact) bool {
								be, ok := ast.Unparen(f.Expr).(*ast.BinaryExpr)
								if !ok {
									return false
								}
								var big, small ast.Expr
								switch {
								case be.Op == token.GTR && f.Truth, be.Op == token.LEQ && !f.Truth:
									big, small = be.X, be.Y
								case be.Op == token.LSS && f.Truth, be.Op == token.GEQ && !f.Truth:
									big, small = be.Y, be.X
								default:
									return false
								}
								if core.VarOf(info, big) != v || core.FieldOf(info, small) != gm {
									return false
								}
								// same definitions of v at the test and at the assignment
								return c09SameDefs(c06Defs(g, from, v), c06Defs(g, n.ID, v))
							})
							r.Check(len(greater) > 0 && g.DominatedByEdges(n.ID, greater), rule, key, pos, "assigned only after the new value tested greater than the counter",
								"the counter is assigned without a dominating `value > pc.greaterMid` test: it can decrease, and a mid that appeared in an earlier description is allocated again")
						default:
							r.Fail(rule, base, pos, "the counter is modified by "+s.Tok.String())
						}
					}
				}
				return true
			})
		}
	}
	if nWrites < 4 {
		r.Fail(rule, "PeerConnection.greaterMid|writers-swept", "-", sprintf("only %d writes of the counter found (expected the initialisation, two guarded raises and the increment)", nWrites))
	}
}

func c09SameDefs(a, b []c06Def) bool {
	if len(a) != len(b) {
		return false
	}
	for i := range a {
		if a[i].Node != b[i].Node || a[i].Kind != b[i].Kind {
			return false
		}
	}
	return true
}

// ---------------------------------------------------------------------------
// R3

func c09R3(env *c06Env) {
	c, r := env.c, env.c.R
	const rule = "C09.R3"
	for _, fi := range []*core.FuncInfo{env.genMatched, env.genUnmatched} {
		g, sections, appends, bad, ok := c06SectionList(env, rule, fi)
		if !ok {
			continue
		}
		_ = sections
		info := g.Info
		fpos := c.P.Pos(fi.Decl.Pos())
		r.Check(len(bad) == 0, rule, fi.Name()+"|section-list|tail-appends-only", fpos, sprintf("%d tail appends of section literals, no insertion or reordering", len(appends)),
			sprintf("the section list is written other than by `list = append(list, mediaSection{…})` (%d site(s)): existing sections can move", len(bad)))

		// classify the appends
		loops := c06RangeLoops(g)
		class := map[int]string{}
		var remoteLoop *c06Loop
		for n, s := range appends {
			cl := ""
			for _, l := range loops {
				if !l.Body[n] {
					continue
				}
				if fv := core.FieldOf(info, l.Range.X); fv != nil && fv.Name() == "MediaDescriptions" && fv.Pkg() != nil && fv.Pkg().Path() == c06SDPPkg {
					cl = "remote"
					remoteLoop = l
				}
			}
			if cl == "" {
				if s.isData() {
					cl = "data"
				} else {
					cl = "transceiver"
				}
			}
			class[n] = cl
		}
		var ids []int
		for n := range appends {
			ids = append(ids, n)
		}
		sort.Ints(ids)
		seen := map[string]int{}
		for _, n := range ids {
			s := appends[n]
			src := "(none)"
			if sr, has := s.idSrc(env); has {
				src = sr.Desc
			}
			key := fi.Name() + "|append:" + class[n] + "|mediaSection{" + s.fieldNames() + "}|id<-" + src
			seen[key]++
			if seen[key] > 1 {
				key += sprintf("#%d", seen[key])
			}
			pos := c.P.Pos(s.pos())
			var succ []int
			for _, e := range g.Nodes[n].Succs {
				succ = append(succ, e.To)
			}
			after := g.Reach(succ, nil, nil)
			bad := ""
			for _, m := range ids {
				if !after[m] {
					continue
				}
				switch {
				case class[n] != "remote" && class[m] == "remote":
					bad = "a section for a remote m-section can be appended after a " + class[n] + " section: sections answering the remote description no longer come first, in remote order"
				case class[n] == "data" && class[m] == "transceiver":
					bad = "a transceiver section can be appended after the data section: the data section does not stay last / new transceivers are not appended after existing sections"
				case class[n] == "data" && class[m] == "data" && m != n && !c09Exclusive(g, n, m):
					bad = "two data sections can be appended"
				}
			}
			if class[n] != "remote" && remoteLoop != nil && after[remoteLoop.Head] {
				bad = "the loop over the remote m-sections runs after a " + class[n] + " section was appended (unmatched sections inserted first)"
			}
			r.Check(bad == "", rule, key, pos, "appended in the order remote sections, unmatched transceivers, data", bad)
		}
	}

	// populateSDP: forward range over the parameter (a plain `range` cannot reorder)
	p := c06PopulateShape(env, rule)
	if p != nil {
		r.OK(rule, "populateSDP|section-loop|forward-range", c.P.Pos(p.loop.Range.Pos()), "sections are emitted by `for … range mediaSections` in list order")
		// and WithMedia only appends (trusted); sections are not emitted from anywhere else (C07.R3)
	}
}

// c09Exclusive: m is only reachable from n through... (two data appends on exclusive arms never both execute).
func c09Exclusive(g *core.Graph, n, m int) bool {
	var succ []int
	for _, e := range g.Nodes[n].Succs {
		succ = append(succ, e.To)
	}
	return !g.Reach(succ, nil, nil)[m]
}

// c09CalledUnderMu reports whether fi is an unexported PeerConnection method that performs no lock operation on
// PeerConnection.mu itself and whose every use in the module is a direct, synchronous call `x.f(…)` at a node where
// `x.mu` is held in write mode (or inside a caller that itself qualifies, depth <= 2). No use at all => false.
func c09CalledUnderMu(c *Ctx, fi *core.FuncInfo, depth int) bool {
	if depth > 2 || fi.Obj.Exported() {
		return false
	}
	sig := fi.Obj.Type().(*types.Signature)
	if sig.Recv() == nil || !c06IsNamed(sig.Recv().Type(), c.P.Named("", "PeerConnection")) {
		return false
	}
	g := c.P.GraphOf(fi)
	if g == nil {
		return false
	}
	for _, op := range core.Locks(g).Ops {
		if op.Class == "PeerConnection.mu" {
			return false // manages the lock itself: judged by its own lockset
		}
	}
	// lock operations hidden in function literals of the helper
	bad := false
	ast.Inspect(fi.Decl.Body, func(x ast.Node) bool {
		if se, ok := x.(*ast.SelectorExpr); ok {
			if fv := core.FieldOf(fi.Pkg.TypesInfo, se); fv != nil && fv == c.P.Field("", "PeerConnection", "mu") {
				bad = true
			}
		}
		return true
	})
	if bad {
		return false
	}
	uses := 0
	for _, caller := range c.P.AllFuncs() {
		if caller.Decl.Body == nil || caller.Pkg != fi.Pkg {
			continue
		}
		info := caller.Pkg.TypesInfo
		n := 0
		ast.Inspect(caller.Decl.Body, func(x ast.Node) bool {
			if id, ok := x.(*ast.Ident); ok && info.Uses[id] == types.Object(fi.Obj) {
				n++
			}
			return true
		})
		if n == 0 {
			continue
		}
		uses += n
		cg := c.P.GraphOf(caller)
		cli := core.Locks(cg)
		callerUnder := -1 // lazily: does the caller itself run under the lock?
		judged := 0
		for _, nd := range cg.Nodes {
			if nd.Ast == nil {
				continue
			}
			_, isGo := nd.Ast.(*ast.GoStmt)
			_, isDefer := nd.Ast.(*ast.DeferStmt)
			for _, call := range core.CallsIn(nd.Ast) {
				if core.Callee(info, call) != fi.Obj.Origin() {
					continue
				}
				judged++
				if isGo || isDefer {
					return false
				}
				rv := c06Recv(info, call)
				inst := core.CanonExpr(rv)
				ok := inst != "" && cli.In[nd.ID][inst+".mu"] == "W" && cli.ClassOf[inst+".mu"] == "PeerConnection.mu"
				if !ok {
					// the caller may itself be a helper that always runs under its receiver's lock, calling on that receiver
					if callerUnder < 0 {
						callerUnder = 0
						if c09CalledUnderMu(c, caller, depth+1) {
							callerUnder = 1
						}
					}
					csig := cg.Sig()
					ok = callerUnder == 1 && csig != nil && csig.Recv() != nil && core.VarOf(info, rv) == csig.Recv()
				}
				if !ok {
					return false
				}
			}
		}
		if judged != n {
			return false // a use that is not a plain call in the caller's own body (method value, function literal)
		}
	}
	return uses > 0
}
