package props

import (
	"go/ast"
	"go/token"
	"go/types"
	"sort"

	"verif/checker/core"
)

// c30R5: nil discipline for the transceiver's optional halves on the remote-input path.
//
// (*RTPTransceiver).Receiver() and .Sender() legitimately return nil (a send-only transceiver has no
// receiver, a receive-only one no sender); methods of *RTPReceiver / *RTPSender dereference their
// receiver. In the functions that run on behalf of a remote description (SetRemoteDescription and the
// receiver start-up it queues) a remote offer decides which transceiver is visited, so every use of such
// a value as a method receiver, or as an argument handed to a callback, must be dominated by a test that
// establishes it is not nil. (Added after seed C30-m2: the `receiver == nil ||` clause of
// runIfNewReceiver's skip condition was dropped, a remote sendrecv offer onto a local send-only
// transceiver then crashed in configureRTPReceivers.)
func c30R5(c *Ctx, rule string) {
	r := c.R
	recvAcc := c.mustFunc(rule, "", "RTPTransceiver.Receiver")
	sendAcc := c.mustFunc(rule, "", "RTPTransceiver.Sender")
	if recvAcc == nil || sendAcc == nil {
		return
	}
	scope := []string{"PeerConnection.SetRemoteDescription", "PeerConnection.startRTPReceivers", "PeerConnection.configureRTPReceivers",
		"PeerConnection.startRTPSenders", "PeerConnection.startRTP", "runIfNewReceiver", "PeerConnection.handleUndeclaredSSRC", "PeerConnection.handleIncomingSSRC",
		"PeerConnection.handleNonMediaBandwidthProbe", "PeerConnection.startReceiver", "PeerConnection.configureReceiver"}
	n := 0
	for _, name := range scope {
		fi := c.P.Func("", name)
		if fi == nil || fi.Decl.Body == nil {
			r.Info(rule, "scope|"+name, "-", "function not present (scope entry skipped)")
			continue
		}
		r.Saw(fi.Name())
		var bodies []*core.Graph
		bodies = append(bodies, c.P.GraphOf(fi))
		ast.Inspect(fi.Decl.Body, func(x ast.Node) bool {
			if fl, ok := x.(*ast.FuncLit); ok {
				if g := c.P.GraphOfLit(fl); g != nil {
					bodies = append(bodies, g)
				}
			}
			return true
		})
		for bi, g := range bodies {
			info := g.Info
			// locals all of whose definitions are Receiver()/Sender() results
			vars := map[*types.Var]string{}
			bad := map[*types.Var]bool{}
			for _, nd := range g.Nodes {
				as, ok := nd.Ast.(*ast.AssignStmt)
				if !ok {
					continue
				}
				for i, l := range as.Lhs {
					v := core.VarOf(info, l)
					if v == nil {
						continue
					}
					if _, isPtr := v.Type().Underlying().(*types.Pointer); !isPtr {
						continue
					}
					src := ""
					if len(as.Rhs) == len(as.Lhs) {
						if call, ok := ast.Unparen(as.Rhs[i]).(*ast.CallExpr); ok {
							switch core.Callee(info, call) {
							case recvAcc.Obj:
								src = "Receiver()"
							case sendAcc.Obj:
								src = "Sender()"
							}
						}
					}
					if src == "" {
						bad[v] = true
					} else {
						vars[v] = src
					}
				}
			}
			var vs []*types.Var
			for v := range vars {
				if !bad[v] {
					vs = append(vs, v)
				}
			}
			sort.Slice(vs, func(i, j int) bool { return vs[i].Pos() < vs[j].Pos() })
			for _, v := range vs {
				nonNil := c06EdgesWhere(g, func(from int, f c06Fact) bool {
					be, ok := ast.Unparen(f.Expr).(*ast.BinaryExpr)
					if !ok || (be.Op != token.EQL && be.Op != token.NEQ) {
						return false
					}
					isV := (core.VarOf(info, be.X) == v && core.IsNilIdent(info, be.Y)) || (core.VarOf(info, be.Y) == v && core.IsNilIdent(info, be.X))
					return isV && ((be.Op == token.NEQ) == f.Truth)
				})
				uses := 0
				why := ""
				var wpos token.Pos
				for _, nd := range g.Nodes {
					if nd.Ast == nil {
						continue
					}
					core.InspectShallow(nd.Ast, func(x ast.Node) bool {
						call, ok := x.(*ast.CallExpr)
						if !ok {
							return true
						}
						deref := ""
						if sel, ok := ast.Unparen(call.Fun).(*ast.SelectorExpr); ok && core.VarOf(info, sel.X) == v {
							deref = "method " + sel.Sel.Name + " is called on it"
						}
						if core.Callee(info, call) == nil { // function value
							for _, a := range call.Args {
								if core.VarOf(info, a) == v {
									deref = "it is handed to a callback"
								}
							}
						}
						if deref == "" {
							return true
						}
						uses++
						if (len(nonNil) == 0 || !g.DominatedByEdges(nd.ID, nonNil)) && !c30ShortCircuitNonNil(info, nd.Ast, call, v) {
							why, wpos = deref, call.Pos()
						}
						return true
					})
				}
				if uses == 0 {
					continue
				}
				n++
				key := sprintf("%s#%d|%s:=%s", fi.Name(), bi, v.Name(), vars[v])
				p := c.P.Pos(v.Pos())
				if why != "" {
					p = c.P.Pos(wpos)
				}
				r.Check(why == "", rule, key, p, sprintf("%d dereferencing use(s), each dominated by a non-nil test", uses),
					"`"+v.Name()+"` is the result of "+vars[v]+", which is nil for a transceiver without that half, and "+why+" on a path where no test established "+v.Name()+" != nil: a remote description that selects such a transceiver crashes the process")
			}
		}
	}
	r.Cells += n
	if n == 0 {
		r.Undecided(rule, "nil-discipline|none", "-", "no dereferencing use of a Receiver()/Sender() result found in the scoped functions (scope lost?)")
	}
}

// c30ShortCircuitNonNil: the call lies in the right operand of `v != nil && …` / `v == nil || …` (go/cfg keeps a
// short-circuit condition in one node, so the left operand's outcome is not an edge fact).
func c30ShortCircuitNonNil(info *types.Info, root ast.Node, call *ast.CallExpr, v *types.Var) bool {
	contains := func(n ast.Node) bool {
		found := false
		ast.Inspect(n, func(x ast.Node) bool {
			if x == ast.Node(call) {
				found = true
			}
			return !found
		})
		return found
	}
	// facts established when evaluation reaches e's right side
	var establishes func(e ast.Expr, truth bool) bool
	establishes = func(e ast.Expr, truth bool) bool {
		e = ast.Unparen(e)
		switch x := e.(type) {
		case *ast.UnaryExpr:
			if x.Op == token.NOT {
				return establishes(x.X, !truth)
			}
		case *ast.BinaryExpr:
			switch x.Op {
			case token.LAND:
				if truth {
					return establishes(x.X, true) || establishes(x.Y, true)
				}
			case token.LOR:
				if !truth {
					return establishes(x.X, false) || establishes(x.Y, false)
				}
			case token.EQL, token.NEQ:
				isV := (core.VarOf(info, x.X) == v && core.IsNilIdent(info, x.Y)) || (core.VarOf(info, x.Y) == v && core.IsNilIdent(info, x.X))
				return isV && ((x.Op == token.NEQ) == truth)
			}
		}
		return false
	}
	ok := false
	ast.Inspect(root, func(x ast.Node) bool {
		be, isB := x.(*ast.BinaryExpr)
		if !isB || (be.Op != token.LAND && be.Op != token.LOR) {
			return true
		}
		if contains(be.Y) {
			// reaching Y means X was true (&&) / false (||)
			if establishes(be.X, be.Op == token.LAND) {
				ok = true
			}
		}
		return true
	})
	return ok
}
