package props

import (
	"go/ast"
	"go/constant"
	"go/token"
	"go/types"
	"sort"
	"strings"
	"time"

	"verif/checker/absint"
	"verif/checker/core"
)

func init() {
	register(&Prop{
		ID:        "C19",
		Engine:    "e1tab+e5sync+e2cfg",
		Technique: "finite-domain abstract interpretation of DataChannel.open (ordered x maxRetransmits? x maxPacketLifeTime? -> datachannel.Config) and of SCTPTransport.acceptDataChannels (ChannelType -> DataChannelParameters), inverse-table agreement and RFC 8832 oracle per cell, provenance of the pass-through fields read off the abstract struct literals; path counting over readLoop (one onMessage per successful read, private copy, same flag)",
		LevelText: "Mapping clause only. (R1) open's decision table over (ordered, maxRetransmits set?, maxPacketLifeTime set?) and acceptDataChannels' table over every datachannel.ChannelType constant are extracted from the source and shown to be mutual inverses and equal to RFC 8832 section 5.1; the reliability parameter, label, protocol and negotiated flag are shown (as symbolic references in the abstract struct literals) to be passed through unchanged on both sides, through newDataChannel into the fields the public getters return. (R2) In readLoop every successful ReadDataChannel is followed by exactly one onMessage before the next read, with a fresh copy of buffer[:n] and the read's isString; failed reads deliver nothing; onMessage calls the handler at most once with its argument; Send/SendText pass their payload with isString false/true.",
		LevelNote: "Exactly-once / in-order / intact delivery between two peers is SCTP's (outside the module) and is not decided. Trusted: RFC 8832 section 5.1 channel-type table as transcribed; pion/datachannel Dial/Accept/Read/Write semantics; absint soundness on the supported fragment.",
		DesignRef: "DESIGN.md §5 C19",
		Run:       runC19,
	})
}

// rfc8832 is the channel-type table of RFC 8832 section 5.1: value -> (ordered, kind).
var c19RFC8832 = map[int64]struct {
	ordered bool
	kind    string // "", "rexmit", "timed"
}{
	0x00: {true, ""}, 0x80: {false, ""},
	0x01: {true, "rexmit"}, 0x81: {false, "rexmit"},
	0x02: {true, "timed"}, 0x82: {false, "timed"},
}

type c19Row struct {
	ordered string // "true"/"false"/other
	kind    string // "", "rexmit", "timed", "both", "?"
}

func runC19(c *Ctx) {
	r := c.R
	c19T0 := time.Now()
	defer func() { r.Extra["analysis_seconds_excluding_load"] = time.Since(c19T0).Seconds() }()
	r.Rule("C19.R1", "open maps (ordered, maxRetransmits?, maxPacketLifeTime?) to a ChannelType and acceptDataChannels maps every ChannelType back; the two tables are mutual inverses and equal RFC 8832 section 5.1; reliability parameter, label, protocol, negotiated are passed through unchanged on both sides, by newDataChannel and by the getters", 31)
	r.Rule("C19.R4", "every locally opened channel owns its stream: generateAndSetDataChannelID finds a free id and reserves it in one write-locked critical section of the transport lock (two channels on one stream id collapse into one on the remote peer)", 1)
	r.Rule("C19.R5", "the accept loop starts a remote channel's read loop (handleOpen) only after an unconditional receive from the done channel of onDataChannel, which is closed after the OnDataChannel handler returned (messages the creator sent right after its OnOpen are not read before OnMessage can be registered)", 2)
	r.Rule("C19.R2", "readLoop delivers exactly one onMessage per successful read (none for a failed one) with a private copy of buffer[:n] and the read's isString; onMessage invokes the handler at most once with its argument; Send / SendText write their payload with isString false / true", 4)
	r.Rule("C19.R3", "in-band parameters are stored per channel: every pointer placed in the DataChannelParameters of an accepted channel (ID, MaxRetransmits, MaxPacketLifeTime) points to a variable declared inside the accept loop body, and the pointer variables themselves are declared there", 5)
	r.NotCovered = append(r.NotCovered,
		"exactly-once, in-order, intact delivery between two peers (SCTP, outside the module, runtime)",
		"CreateDataChannel's translation of DataChannelInit into DataChannelParameters",
		"several channels in parallel, delay and reordering")
	r.Trusted = append(r.Trusted, "RFC 8832 section 5.1 channel types as transcribed in props/c19.go", "pion/datachannel Dial/Accept/ReadDataChannel/WriteDataChannel semantics", "absint soundness on the supported fragment")

	P := c.P
	open := c.mustFunc("C19.R1", "", "DataChannel.open")
	accept := c.mustFunc("C19.R1", "", "SCTPTransport.acceptDataChannels")
	newDC := c.mustFunc("C19.R1", "", "API.newDataChannel")
	readLoop := c.mustFunc("C19.R2", "", "DataChannel.readLoop")
	onMessage := c.mustFunc("C19.R2", "", "DataChannel.onMessage")
	if open == nil || accept == nil || newDC == nil || readLoop == nil || onMessage == nil {
		return
	}
	// the external datachannel package
	var dcPkg *types.Package
	for _, imp := range P.Pkg("").Types.Imports() {
		if imp.Path() == "github.com/pion/datachannel" {
			dcPkg = imp
		}
	}
	if dcPkg == nil {
		r.Fail("C19.R1", "anchor:github.com/pion/datachannel", "-", "the root package no longer imports pion/datachannel (fails closed)")
		return
	}
	ctObj, _ := dcPkg.Scope().Lookup("ChannelType").(*types.TypeName)
	cfgObj, _ := dcPkg.Scope().Lookup("Config").(*types.TypeName)
	if ctObj == nil || cfgObj == nil {
		r.Fail("C19.R1", "anchor:datachannel.ChannelType", "-", "datachannel.ChannelType / Config no longer resolve (fails closed)")
		return
	}
	var ctConsts []*types.Const
	for _, nm := range dcPkg.Scope().Names() {
		if k, ok := dcPkg.Scope().Lookup(nm).(*types.Const); ok && types.Identical(k.Type(), ctObj.Type()) {
			ctConsts = append(ctConsts, k)
		}
	}
	sort.Slice(ctConsts, func(i, j int) bool {
		a, _ := constant.Int64Val(ctConsts[i].Val())
		b, _ := constant.Int64Val(ctConsts[j].Val())
		return a < b
	})
	if len(ctConsts) < 6 {
		r.Fail("C19.R1", "anchor:datachannel.ChannelType|constants", "-", sprintf("expected the six RFC 8832 channel types, found %d constants", len(ctConsts)))
		return
	}
	paramsT := P.Named("", "DataChannelParameters")
	dcT := P.Named("", "DataChannel")
	if paramsT == nil || dcT == nil {
		r.Fail("C19.R1", "anchor:/DataChannelParameters", "-", "type no longer resolves (fails closed)")
		return
	}

	label := func(prefix string, fields map[string]absint.Val, names ...string) string {
		var parts []string
		for _, n := range names {
			v, ok := fields[n]
			s := "<unset>"
			if ok {
				s = v.String()
			}
			parts = append(parts, n+"="+s)
		}
		return prefix + "|" + strings.Join(parts, "|")
	}
	parse := func(ev string) map[string]string {
		m := map[string]string{}
		for _, p := range strings.Split(ev, "|")[1:] {
			if i := strings.Index(p, "="); i > 0 {
				m[p[:i]] = p[i+1:]
			}
		}
		return m
	}
	distinct := func(outs []absint.Outcome, prefix string, needAfter string) []string {
		set := map[string]bool{}
		for _, o := range outs {
			for i, ev := range o.Trace {
				if !strings.HasPrefix(ev, prefix+"|") {
					continue
				}
				if needAfter != "" {
					found := false
					for _, later := range o.Trace[i+1:] {
						if strings.HasPrefix(later, needAfter) {
							found = true
						}
					}
					if !found {
						continue
					}
				}
				set[ev] = true
			}
		}
		return sortedKeys(set)
	}

	// ---- open: (ordered, rexmit?, timed?) -> Config
	tf := []absint.Val{absint.BoolVal(false), absint.BoolVal(true)}
	ptr := func(path string) []absint.Val {
		return []absint.Val{absint.Nil{}, absint.Ref{Path: path, NonNilRef: true}}
	}
	openDims := []absint.Dim{
		{Key: "$recv.ordered", Domain: tf},
		{Key: "$recv.maxRetransmits", Domain: ptr("$recv.maxRetransmits")},
		{Key: "$recv.maxPacketLifeTime", Domain: ptr("$recv.maxPacketLifeTime")},
	}
	isExt := func(fn *types.Func, name string) bool {
		return fn.Pkg() != nil && fn.Pkg().Path() == dcPkg.Path() && fn.Name() == name
	}
	// mapping helpers: same-package functions with results whose signature mentions datachannel.ChannelType or
	// datachannel.Config (by value or pointer) are interpreted, so that moving either table into a helper
	// (reliabilityFromChannelConfig, channelTypeFor, ...) does not hide it from the tabulation.
	mentionsDC := func(t types.Type) bool {
		for {
			if p, ok := t.(*types.Pointer); ok {
				t = p.Elem()
				continue
			}
			break
		}
		return types.Identical(t, ctObj.Type()) || types.Identical(t, cfgObj.Type())
	}
	mappingHelper := func(fn *types.Func) bool {
		if fn.Pkg() == nil || fn.Pkg() != P.Pkg("").Types {
			return false
		}
		sig, _ := fn.Type().(*types.Signature)
		if sig == nil || sig.Results().Len() == 0 {
			return false
		}
		for i := 0; i < sig.Params().Len(); i++ {
			if mentionsDC(sig.Params().At(i).Type()) {
				return true
			}
		}
		for i := 0; i < sig.Results().Len(); i++ {
			if mentionsDC(sig.Results().At(i).Type()) {
				return true
			}
		}
		return false
	}
	tOpen := absint.Tabulate(absint.Config{P: P, Dims: openDims, Inline: mappingHelper,
		WatchLit: func(t types.Type, f map[string]absint.Val) string {
			if types.Identical(t, cfgObj.Type()) {
				return label("cfg", f, "ChannelType", "ReliabilityParameter", "Label", "Protocol", "Negotiated")
			}
			return ""
		},
		WatchCall: func(fn *types.Func, call *ast.CallExpr) string {
			if isExt(fn, "Dial") {
				return "Dial"
			}
			return ""
		}}, open)
	posOpen := P.Pos(open.Decl.Pos())
	if tableProblems(c, "C19.R1", "open|table", posOpen, tOpen) {
		return
	}
	r.Cells += len(tOpen.Rows)
	openTable := map[c19Row]string{} // -> ChannelType constant name
	openOK := true
	for _, row := range tOpen.Rows {
		ord := row.Get("$recv.ordered")
		_, rexNil := row.Valuation["$recv.maxRetransmits"].(absint.Nil)
		_, timNil := row.Valuation["$recv.maxPacketLifeTime"].(absint.Nil)
		kind := ""
		switch {
		case !rexNil && !timNil:
			kind = "both"
		case !rexNil:
			kind = "rexmit"
		case !timNil:
			kind = "timed"
		}
		key := sprintf("open|row|ordered=%s,kind=%s", ord, map[string]string{"": "reliable", "rexmit": "rexmit", "timed": "timed", "both": "both"}[kind])
		cfgs := distinct(row.Outcomes, "cfg", "Dial")
		if len(cfgs) != 1 {
			r.Fail("C19.R1", key, posOpen, sprintf("expected exactly one datachannel.Config handed to Dial for this valuation, found %d: %v", len(cfgs), cfgs))
			openOK = false
			continue
		}
		f := parse(cfgs[0])
		if kind == "both" {
			r.Info("C19.R1", key, posOpen, "both limits set (rejected by CreateDataChannel): maps to "+f["ChannelType"])
			continue
		}
		openTable[c19Row{ord, kind}] = f["ChannelType"]
		var bad []string
		// oracle
		var want string
		for _, k := range ctConsts {
			v, _ := constant.Int64Val(k.Val())
			if o, ok := c19RFC8832[v]; ok && sprintf("%v", o.ordered) == ord && o.kind == kind {
				want = k.Name()
			}
		}
		if f["ChannelType"] != want {
			bad = append(bad, "channel type "+f["ChannelType"]+", RFC 8832 says "+want)
		}
		wantRel := map[string]string{"": "0", "rexmit": "ref($recv.maxRetransmits)", "timed": "ref($recv.maxPacketLifeTime)"}[kind]
		if f["ReliabilityParameter"] != wantRel {
			bad = append(bad, "reliability parameter is "+f["ReliabilityParameter"]+", expected "+wantRel)
		}
		for fld, src := range map[string]string{"Label": "ref($recv.label)", "Protocol": "ref($recv.protocol)", "Negotiated": "ref($recv.negotiated)"} {
			if f[fld] != src {
				bad = append(bad, fld+" is "+f[fld]+", expected the channel's own "+src)
			}
		}
		r.Check(len(bad) == 0, "C19.R1", key, posOpen, "-> "+f["ChannelType"]+", reliability "+f["ReliabilityParameter"]+", label/protocol/negotiated passed through", strings.Join(bad, "; "))
	}

	// ---- accept: ChannelType -> DataChannelParameters
	var ctDom []absint.Val
	for _, k := range ctConsts {
		ctDom = append(ctDom, absint.ConstOf(k))
	}
	ctDom = append(ctDom, absint.IntVal(0x55, ctObj.Type()))
	// region root: the body of the accept loop (the for statement that contains the call to datachannel.Accept)
	var loopBody *ast.BlockStmt
	ast.Inspect(accept.Decl.Body, func(n ast.Node) bool {
		fs, ok := n.(*ast.ForStmt)
		if !ok {
			return true
		}
		has := false
		ast.Inspect(fs.Body, func(m ast.Node) bool {
			if call, ok := m.(*ast.CallExpr); ok {
				if fn := core.Callee(accept.Pkg.TypesInfo, call); fn != nil && isExt(fn, "Accept") {
					has = true
				}
			}
			return true
		})
		if has {
			loopBody = fs.Body // innermost wins: keep descending
		}
		return true
	})
	posAcc := P.Pos(accept.Decl.Pos())
	if loopBody == nil {
		r.Undecided("C19.R1", "accept|table", posAcc, "the loop calling datachannel.Accept was not found")
		return
	}
	tAcc := absint.TabulateGraph(absint.Config{P: P, Dims: []absint.Dim{{Key: "$dc.Config.ChannelType", Domain: ctDom}}, MaxPaths: 400000, Inline: mappingHelper,
		OnCall: func(in *absint.Interp, st *absint.State, call *ast.CallExpr, fn *types.Func, recv absint.Val, args []absint.Val) (absint.Val, bool) {
			if isExt(fn, "Accept") {
				return absint.Tuple{absint.Ref{Path: "$dc", NonNilRef: true}, absint.Nil{}}, true
			}
			return nil, false
		},
		WatchLit: func(t types.Type, f map[string]absint.Val) string {
			if types.Identical(t, paramsT) {
				return label("params", f, "Ordered", "MaxRetransmits", "MaxPacketLifeTime", "Label", "Protocol", "Negotiated", "ID")
			}
			return ""
		},
		WatchCall: func(fn *types.Func, call *ast.CallExpr) string {
			if fn == newDC.Obj {
				return "newDataChannel"
			}
			return ""
		}}, P.GraphOfBlock(accept, loopBody), accept.Obj.Type().(*types.Signature), accept.Obj)
	if tableProblems(c, "C19.R1", "accept|table", posAcc, tAcc) {
		return
	}
	r.Cells += len(tAcc.Rows)
	accTable := map[string]c19Row{}
	for _, row := range tAcc.Rows {
		ct := row.Get("$dc.Config.ChannelType")
		key := "accept|row|" + ct
		ps := distinct(row.Outcomes, "params", "newDataChannel")
		if len(ps) != 1 {
			r.Fail("C19.R1", key, posAcc, sprintf("expected exactly one DataChannelParameters literal handed to newDataChannel for this channel type, found %d: %v", len(ps), ps))
			continue
		}
		f := parse(ps[0])
		kind := "?"
		const rel = "ref($dc.Config.ReliabilityParameter)"
		switch {
		case f["MaxRetransmits"] == "nil" && f["MaxPacketLifeTime"] == "nil":
			kind = ""
		case f["MaxRetransmits"] == rel && f["MaxPacketLifeTime"] == "nil":
			kind = "rexmit"
		case f["MaxRetransmits"] == "nil" && f["MaxPacketLifeTime"] == rel:
			kind = "timed"
		}
		k, _ := row.Valuation["$dc.Config.ChannelType"].(absint.Const)
		v, _ := constant.Int64Val(k.V)
		o, inRFC := c19RFC8832[v]
		if !inRFC {
			r.Info("C19.R1", key, posAcc, "not an RFC 8832 channel type: treated as ordered="+f["Ordered"]+", "+f["MaxRetransmits"]+"/"+f["MaxPacketLifeTime"])
			continue
		}
		accTable[ct] = c19Row{f["Ordered"], kind}
		var bad []string
		if kind == "?" {
			bad = append(bad, "limits are MaxRetransmits="+f["MaxRetransmits"]+" MaxPacketLifeTime="+f["MaxPacketLifeTime"]+": the reliability parameter is not passed through to exactly one of them")
		}
		if f["Ordered"] != sprintf("%v", o.ordered) || (kind != "?" && kind != o.kind) {
			bad = append(bad, sprintf("mapped to ordered=%s kind=%q, RFC 8832 says ordered=%v kind=%q", f["Ordered"], kind, o.ordered, o.kind))
		}
		for fld, src := range map[string]string{"Label": "ref($dc.Config.Label)", "Protocol": "ref($dc.Config.Protocol)", "Negotiated": "ref($dc.Config.Negotiated)"} {
			if f[fld] != src {
				bad = append(bad, fld+" is "+f[fld]+", expected the announced "+src)
			}
		}
		if !strings.HasPrefix(f["ID"], "nonnil(") && !strings.HasPrefix(f["ID"], "ref(") {
			bad = append(bad, "the channel is created without its stream id ("+f["ID"]+")")
		}
		r.Check(len(bad) == 0, "C19.R1", key, posAcc, sprintf("-> ordered=%s %s, label/protocol/negotiated passed through", f["Ordered"], map[string]string{"": "reliable", "rexmit": "maxRetransmits=announced parameter", "timed": "maxPacketLifeTime=announced parameter", "?": "?"}[kind]), strings.Join(bad, "; "))
	}

	// ---- inverse agreement
	if openOK {
		var rows []c19Row
		for k := range openTable {
			rows = append(rows, k)
		}
		sort.Slice(rows, func(i, j int) bool { return rows[i].ordered+rows[i].kind < rows[j].ordered+rows[j].kind })
		for _, in := range rows {
			ct := openTable[in]
			back, ok := accTable[ct]
			r.Check(ok && back == in, "C19.R1", sprintf("inverse|open->accept|ordered=%s,kind=%s", in.ordered, map[string]string{"": "reliable", "rexmit": "rexmit", "timed": "timed"}[in.kind]), posOpen,
				"announced as "+ct+", recreated with the same ordered flag and limit kind",
				sprintf("a channel opened with ordered=%s kind=%q is announced as %s, which the accepting side turns into ordered=%s kind=%q", in.ordered, in.kind, ct, back.ordered, back.kind))
		}
		var cts []string
		for ct := range accTable {
			cts = append(cts, ct)
		}
		sort.Strings(cts)
		for _, ct := range cts {
			out := accTable[ct]
			fwd, ok := openTable[out]
			r.Check(ok && fwd == ct, "C19.R1", "inverse|accept->open|"+ct, posAcc, "re-announcing the recreated channel yields the same type",
				sprintf("%s is recreated as ordered=%s kind=%q, which open would announce as %q", ct, out.ordered, out.kind, fwd))
		}
	}

	// ---- newDataChannel copies the parameters; getters return the fields
	tNew := absint.Tabulate(absint.Config{P: P,
		WatchLit: func(t types.Type, f map[string]absint.Val) string {
			if types.Identical(t, dcT) {
				return label("dc", f, "label", "protocol", "negotiated", "ordered", "maxRetransmits", "maxPacketLifeTime", "id")
			}
			return ""
		}}, newDC)
	posNew := P.Pos(newDC.Decl.Pos())
	if !tableProblems(c, "C19.R1", "newDataChannel|table", posNew, tNew) {
		var lits []string
		for _, row := range tNew.Rows {
			lits = append(lits, distinct(row.Outcomes, "dc", "")...)
		}
		want := "dc|label=ref($p0.Label)|protocol=ref($p0.Protocol)|negotiated=ref($p0.Negotiated)|ordered=ref($p0.Ordered)|maxRetransmits=ref($p0.MaxRetransmits)|maxPacketLifeTime=ref($p0.MaxPacketLifeTime)|id=ref($p0.ID)"
		r.Check(len(lits) == 1 && lits[0] == want, "C19.R1", "newDataChannel|copies-parameters", posNew, "every parameter is copied into the field of the same name", sprintf("expected %s, got %v", want, lits))
	}
	for _, gt := range [][2]string{{"Label", "label"}, {"Protocol", "protocol"}, {"Negotiated", "negotiated"}, {"Ordered", "ordered"}, {"MaxRetransmits", "maxRetransmits"}, {"MaxPacketLifeTime", "maxPacketLifeTime"}} {
		fi := c.mustFunc("C19.R1", "", "DataChannel."+gt[0])
		if fi == nil {
			continue
		}
		t := absint.Tabulate(absint.Config{P: P}, fi)
		pos := P.Pos(fi.Decl.Pos())
		if tableProblems(c, "C19.R1", "getter|"+gt[0], pos, t) {
			continue
		}
		okG := len(t.Rows) == 1 && len(t.Rows[0].Outcomes) == 1 && len(t.Rows[0].Outcomes[0].Results) == 1 && t.Rows[0].Outcomes[0].Results[0].String() == "ref($recv."+gt[1]+")"
		r.Check(okG, "C19.R1", "getter|"+gt[0], pos, "returns d."+gt[1], "does not return d."+gt[1]+": "+outcomesStr(t.Rows[0].Outcomes))
	}

	c19R2(c, readLoop, onMessage, dcPkg)
	c19R3(c, "C19.R3", "")
	c19R4(c) // c19b.go
	c19R5(c) // c39b.go

	if c.Thorough {
		c05Config386(c, func(c2 *Ctx) { runC19(c2) })
	}
}

func c19R2(c *Ctx, readLoop, onMessage *core.FuncInfo, dcPkg *types.Package) {
	r, P := c.R, c.P
	info := readLoop.Pkg.TypesInfo
	g := P.GraphOf(readLoop)
	pos := P.Pos(readLoop.Decl.Pos())
	key := "readLoop|one-onMessage-per-successful-read"
	isExt := func(n ast.Node, name string) *ast.CallExpr {
		call, ok := n.(*ast.CallExpr)
		if !ok {
			return nil
		}
		fn := core.Callee(info, call)
		if fn == nil || fn.Pkg() == nil || fn.Pkg().Path() != dcPkg.Path() || fn.Name() != name {
			return nil
		}
		return call
	}
	reads := g.FindNodes(func(n ast.Node) bool { return isExt(n, "ReadDataChannel") != nil })
	if len(reads) != 1 {
		r.Undecided("C19.R2", key, pos, sprintf("expected exactly one ReadDataChannel call in readLoop, found %d", len(reads)))
		return
	}
	rd := reads[0]
	as, ok := g.Nodes[rd].Ast.(*ast.AssignStmt)
	if !ok || len(as.Lhs) != 3 || len(as.Rhs) != 1 {
		r.Undecided("C19.R2", key, P.Pos(g.PosOf(rd)), "the read's three results are not assigned to variables")
		return
	}
	nVar, strVar, errVar := core.VarOf(info, as.Lhs[0]), core.VarOf(info, as.Lhs[1]), core.VarOf(info, as.Lhs[2])
	rcall := isExt(ast.Unparen(as.Rhs[0]), "ReadDataChannel")
	var bufVar *types.Var
	if rcall != nil && len(rcall.Args) == 1 {
		bufVar = core.VarOf(info, rcall.Args[0])
	}
	if nVar == nil || strVar == nil || errVar == nil || bufVar == nil {
		r.Undecided("C19.R2", key, P.Pos(g.PosOf(rd)), "cannot identify n / isString / err / buffer of the read")
		return
	}
	msgNodes := g.FindNodes(func(n ast.Node) bool { return core.IsCallTo(info, n, onMessage.Obj) })
	mset := core.NodeSet(msgNodes)
	flagOf := func(from int, e core.Edge) int {
		for _, f := range g.EdgeFacts(e) {
			if f.R == nil {
				continue
			}
			for _, ff := range []core.Fact{f, f.Flip()} {
				if core.VarOf(info, ff.L) == errVar && core.IsNilIdent(info, ff.R) {
					if ff.Op == token.EQL {
						return 1
					}
					if ff.Op == token.NEQ {
						return 2
					}
				}
			}
		}
		return 0
	}
	var bad []string
	obs := g.CountBetween(rd, core.NodeSet([]int{rd}), func(n int) bool { return mset[n] }, flagOf)
	r.Cells += len(obs)
	for _, o := range obs {
		where := "the next read"
		if o.End == g.Exit {
			where = "the end of readLoop"
		} else if o.End == g.Panic {
			continue
		}
		switch {
		case o.Flag == 0:
			bad = append(bad, "a path from the read to "+where+" never tests the read's error")
		case o.Flag == 1 && o.Count == 0:
			bad = append(bad, "a successfully read message is dropped: a path reaches "+where+" without calling onMessage")
		case o.Flag == 1 && o.Count >= 2:
			bad = append(bad, "a successfully read message is delivered more than once before "+where)
		case o.Flag == 2 && o.Count > 0:
			bad = append(bad, "onMessage is called for a failed read")
		case o.Flag == 1 && o.End == g.Exit:
			bad = append(bad, "readLoop ends after a successful read")
		}
	}
	if len(msgNodes) == 0 {
		bad = append(bad, "readLoop never calls onMessage")
	}
	// the message: private copy of buffer[:n], same flag
	for _, m := range msgNodes {
		var call *ast.CallExpr
		core.InspectShallow(g.Nodes[m].Ast, func(n ast.Node) bool {
			if core.IsCallTo(info, n, onMessage.Obj) {
				call = n.(*ast.CallExpr)
			}
			return true
		})
		lit, _ := ast.Unparen(call.Args[0]).(*ast.CompositeLit)
		if lit == nil {
			// the literal may have been hoisted into a local that is defined once
			if v := core.VarOf(info, call.Args[0]); v != nil {
				if rhs, dn := g.UniqueDef(v); rhs != nil && g.Dominated(m, core.NodeSet([]int{dn})) {
					lit, _ = ast.Unparen(rhs).(*ast.CompositeLit)
				}
			}
		}
		if lit == nil {
			bad = append(bad, "onMessage's argument is not a DataChannelMessage literal")
			continue
		}
		var data, isStr ast.Expr
		for i, el := range lit.Elts {
			if kv, ok := el.(*ast.KeyValueExpr); ok {
				switch kv.Key.(*ast.Ident).Name {
				case "Data":
					data = kv.Value
				case "IsString":
					isStr = kv.Value
				}
			} else if i == 0 {
				isStr = el // positional: IsString, Data
			} else if i == 1 {
				data = el
			}
		}
		if isStr == nil || core.VarOf(info, isStr) != strVar {
			bad = append(bad, "IsString of the delivered message is "+exprStr(isStr)+", not the flag returned by the read")
		}
		if why := c19IsCopyOfPrefix(info, data, bufVar, nVar); why != "" {
			bad = append(bad, "Data of the delivered message: "+why)
		}
		// buffer / n / isString unchanged between the read and the delivery
		fromRead := g.Reach(c18SuccsOf(g, rd), func(n int) bool { return n == rd || n == m }, nil)
		for id := range fromRead {
			n := g.Nodes[id]
			if n.Ast == nil || id == rd || id == m {
				continue
			}
			writes := false
			core.InspectShallow(n.Ast, func(y ast.Node) bool {
				if s, ok := y.(*ast.AssignStmt); ok {
					for _, l := range s.Lhs {
						if v := core.VarOf(info, l); v == bufVar || v == nVar || v == strVar {
							writes = true
						}
					}
				}
				return true
			})
			if writes && g.Reach([]int{id}, func(k int) bool { return k == rd }, nil)[m] {
				bad = append(bad, "buffer / n / isString is modified at "+P.Pos(g.PosOf(id))+" between the read and the delivery")
			}
		}
	}
	r.Check(len(bad) == 0, "C19.R2", key, pos, sprintf("%d path classes: success -> exactly one onMessage with append(<empty>, buffer[:n]...) and the read's isString; failure -> none", len(obs)), strings.Join(bad, "; "))

	// onMessage: handler called at most once with the parameter
	{
		og := P.GraphOf(onMessage)
		oinfo := onMessage.Pkg.TypesInfo
		param := onMessage.Obj.Type().(*types.Signature).Params().At(0)
		hField := c.mustField("C19.R2", "", "DataChannel", "onMessageHandler")
		var bad []string
		isDyn := func(n int) bool {
			es, ok := og.Nodes[n].Ast.(*ast.ExprStmt)
			if !ok {
				return false
			}
			call, ok := ast.Unparen(es.X).(*ast.CallExpr)
			if !ok || core.Callee(oinfo, call) != nil {
				return false
			}
			if _, isConv := oinfo.Types[call.Fun]; isConv && oinfo.Types[call.Fun].IsType() {
				return false
			}
			v := core.VarOf(oinfo, call.Fun)
			if v == nil {
				return core.FieldOf(oinfo, call.Fun) == hField
			}
			rhs, _ := og.UniqueDef(v)
			return rhs != nil && core.FieldOf(oinfo, rhs) == hField
		}
		nCalls := 0
		for _, n := range og.Nodes {
			if n.Ast != nil && isDyn(n.ID) {
				nCalls++
				call := ast.Unparen(n.Ast.(*ast.ExprStmt).X).(*ast.CallExpr)
				if len(call.Args) != 1 || core.VarOf(oinfo, call.Args[0]) != param {
					bad = append(bad, "the handler is not called with onMessage's argument")
				}
			}
		}
		max := 0
		for _, o := range og.CountBetween(og.Entry, nil, isDyn, nil) {
			if o.Count > max {
				max = o.Count
			}
		}
		if nCalls == 0 || max != 1 {
			bad = append(bad, sprintf("the message handler is invoked %d time(s) on some path (expected at most once, and once on the delivering path)", max))
		}
		r.Check(len(bad) == 0 && hField != nil, "C19.R2", "onMessage|handler-once-with-argument", P.Pos(onMessage.Decl.Pos()), "handler(msg) at most once per call", strings.Join(bad, "; "))
	}

	// Send / SendText flags
	for _, sp := range []struct {
		name string
		flag bool
	}{{"DataChannel.Send", false}, {"DataChannel.SendText", true}} {
		fi := c.mustFunc("C19.R2", "", sp.name)
		if fi == nil {
			continue
		}
		sg := P.GraphOf(fi)
		sinfo := fi.Pkg.TypesInfo
		param := fi.Obj.Type().(*types.Signature).Params().At(0)
		var bad []string
		n := 0
		for _, id := range sg.FindNodes(func(x ast.Node) bool {
			call, ok := x.(*ast.CallExpr)
			if !ok {
				return false
			}
			fn := core.Callee(sinfo, call)
			return fn != nil && fn.Pkg() != nil && fn.Pkg().Path() == dcPkg.Path() && fn.Name() == "WriteDataChannel"
		}) {
			core.InspectShallow(sg.Nodes[id].Ast, func(x ast.Node) bool {
				call, ok := x.(*ast.CallExpr)
				if !ok {
					return true
				}
				fn := core.Callee(sinfo, call)
				if fn == nil || fn.Name() != "WriteDataChannel" || len(call.Args) != 2 {
					return true
				}
				n++
				payload := ast.Unparen(call.Args[0])
				if conv, ok := payload.(*ast.CallExpr); ok && len(conv.Args) == 1 {
					if tv, ok := sinfo.Types[conv.Fun]; ok && tv.IsType() {
						payload = ast.Unparen(conv.Args[0])
					}
				}
				if core.VarOf(sinfo, payload) != param {
					bad = append(bad, "the payload written is "+exprStr(call.Args[0])+", not the caller's argument")
				}
				tv, ok := sinfo.Types[call.Args[1]]
				if !ok || tv.Value == nil || tv.Value.Kind() != constant.Bool || constant.BoolVal(tv.Value) != sp.flag {
					bad = append(bad, sprintf("isString is %s, expected %v", exprStr(call.Args[1]), sp.flag))
				}
				return true
			})
		}
		if n != 1 {
			bad = append(bad, sprintf("%d WriteDataChannel calls", n))
		}
		r.Check(len(bad) == 0, "C19.R2", "send-flag|"+fi.Name(), P.Pos(fi.Decl.Pos()), sprintf("writes the caller's payload with isString=%v", sp.flag), strings.Join(bad, "; "))
	}
}

// c19IsCopyOfPrefix decides whether e is a fresh copy of buf[:n]: append(<empty fresh slice>, buf[:n]...),
// bytes.Clone(buf[:n]) or slices.Clone(buf[:n]). It returns "" or the reason.
func c19IsCopyOfPrefix(info *types.Info, e ast.Expr, buf, n *types.Var) string {
	if e == nil {
		return "missing"
	}
	call, ok := ast.Unparen(e).(*ast.CallExpr)
	if !ok {
		return exprStr(e) + " is not a copy (the handler would alias the read buffer, which the next read overwrites)"
	}
	isPrefix := func(x ast.Expr) bool {
		se, ok := ast.Unparen(x).(*ast.SliceExpr)
		if !ok || core.VarOf(info, se.X) != buf || se.High == nil || core.VarOf(info, se.High) != n || se.Max != nil {
			return false
		}
		if se.Low != nil {
			if k, ok := core.IntConst(info, se.Low); !ok || k != 0 {
				return false
			}
		}
		return true
	}
	if id, ok := ast.Unparen(call.Fun).(*ast.Ident); ok {
		if b, ok := info.Uses[id].(*types.Builtin); ok && b.Name() == "append" && len(call.Args) == 2 && call.Ellipsis != token.NoPos {
			if !isPrefix(call.Args[1]) {
				return "appends " + exprStr(call.Args[1]) + ", not buffer[:n]"
			}
			// destination: empty composite literal, nil conversion, or make(T, 0[, cap])
			switch d := ast.Unparen(call.Args[0]).(type) {
			case *ast.CompositeLit:
				if len(d.Elts) == 0 {
					return ""
				}
			case *ast.CallExpr:
				if tv, ok := info.Types[d.Fun]; ok && tv.IsType() && len(d.Args) == 1 && core.IsNilIdent(info, d.Args[0]) {
					return ""
				}
				if mid, ok := ast.Unparen(d.Fun).(*ast.Ident); ok {
					if mb, ok := info.Uses[mid].(*types.Builtin); ok && mb.Name() == "make" && len(d.Args) >= 2 {
						if k, ok := core.IntConst(info, d.Args[1]); ok && k == 0 {
							return ""
						}
					}
				}
			}
			return "appends to " + exprStr(call.Args[0]) + ", which is not a fresh empty slice"
		}
	}
	if fn := core.Callee(info, call); fn != nil && fn.Pkg() != nil && fn.Name() == "Clone" && (fn.Pkg().Path() == "bytes" || fn.Pkg().Path() == "slices") && len(call.Args) == 1 {
		if isPrefix(call.Args[0]) {
			return ""
		}
		return "clones " + exprStr(call.Args[0]) + ", not buffer[:n]"
	}
	return exprStr(e) + " is not a recognised copy of buffer[:n]"
}
