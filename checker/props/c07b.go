package props

import (
	"go/ast"
	"go/token"
	"go/types"
	"sort"
	"strings"

	"verif/checker/core"
)

// c07R3ErrChecked (part of C07.R3): in populateSDP's section loop the next section is started only after the section
// builder's error has been tested nil. C07.R3 counts one builder call per iteration, and a builder emits its m-section
// only on its nil-error returns; an iteration that goes on to the next section with a possibly non-nil builder error
// (`if errors.Is(err, X) { continue }`) therefore drops the offered section instead of rejecting it in place.
func c07R3ErrChecked(env *c06Env) {
	c, r := env.c, env.c.R
	const rule = "C07.R3"
	p := c06PopulateShape(env, rule)
	if p == nil {
		return
	}
	g, l := p.g, p.loop
	back := map[int]bool{}
	for _, b := range l.backNodes() {
		back[b] = true
	}
	for _, n := range append(append([]int{}, p.addTrN...), p.addDataN...) {
		if !l.Body[n] {
			continue
		}
		var call *ast.CallExpr
		core.InspectShallow(g.Nodes[n].Ast, func(x ast.Node) bool {
			if cl, ok := x.(*ast.CallExpr); ok && (core.IsCallTo(g.Info, cl, env.addTr.Obj) || core.IsCallTo(g.Info, cl, env.addData.Obj)) {
				call = cl
			}
			return true
		})
		fn := core.Callee(g.Info, call)
		key := "populateSDP|call:" + core.FuncName(fn) + "|error-nil-before-next-section"
		pos := c.P.Pos(call.Pos())
		// the variable that receives the builder's error
		var errVar *types.Var
		if as, ok := g.Nodes[n].Ast.(*ast.AssignStmt); ok && len(as.Rhs) == 1 && ast.Unparen(as.Rhs[0]) == ast.Expr(call) {
			sig := fn.Type().(*types.Signature)
			for i := 0; i < sig.Results().Len() && i < len(as.Lhs); i++ {
				if types.Identical(sig.Results().At(i).Type(), types.Universe.Lookup("error").Type()) {
					errVar = core.VarOf(g.Info, as.Lhs[i])
				}
			}
		}
		if errVar == nil {
			r.Undecided(rule, key, pos, "the builder's error result is not assigned to a variable in the statement that calls it")
			continue
		}
		var nilOn func(e ast.Expr, truth bool) bool // taking the branch `truth` of e establishes errVar == nil
		nilOn = func(e ast.Expr, truth bool) bool {
			switch v := ast.Unparen(e).(type) {
			case *ast.UnaryExpr:
				if v.Op == token.NOT {
					return nilOn(v.X, !truth)
				}
			case *ast.BinaryExpr:
				switch {
				case v.Op == token.LAND && truth, v.Op == token.LOR && !truth:
					return nilOn(v.X, truth) || nilOn(v.Y, truth)
				case v.Op == token.EQL || v.Op == token.NEQ:
					var other ast.Expr
					if core.VarOf(g.Info, v.X) == errVar {
						other = v.Y
					} else if core.VarOf(g.Info, v.Y) == errVar {
						other = v.X
					}
					if other != nil && core.IsNilIdent(g.Info, other) {
						return truth == (v.Op == token.EQL)
					}
				}
			}
			return false
		}
		// nodes reachable from the call, inside the body, while err may still be non-nil (a re-assignment of err ends the obligation too)
		reach := g.Reach([]int{n}, func(x int) bool {
			if x == n {
				return false
			}
			if !l.Body[x] {
				return true
			}
			for _, t := range core.AssignTargets(g.Nodes[x].Ast) {
				if core.VarOf(g.Info, t) == errVar {
					return true
				}
			}
			return false
		}, func(from, idx int, e core.Edge) bool {
			return e.Cond != nil && e.Tag == nil && e.Branch != 0 && nilOn(e.Cond, e.Branch == 1)
		})
		var bad []string
		for b := range back {
			if !reach[b] {
				continue
			}
			// b is reached with err unchecked; it is a violation when b really goes on to the next iteration from such a state
			stop := false
			for _, t := range core.AssignTargets(g.Nodes[b].Ast) {
				if core.VarOf(g.Info, t) == errVar && b != n {
					stop = true
				}
			}
			if !stop {
				bad = append(bad, c.P.Pos(g.PosOf(b)))
			}
		}
		sort.Strings(bad)
		r.Cells++
		r.Check(len(bad) == 0, rule, key, pos, "the next section starts only after the builder's error was tested nil",
			"the loop goes on to the next section (from "+strings.Join(bad, ", ")+") while the builder's error may be non-nil: a builder that failed has emitted no m-section, so the offered section is dropped instead of rejected in place")
	}
}

// c07R5: "each answer section has the same media type as its offer section". The answer's media name is the kind of the
// transceiver bound to the offered mid (C07.R4 / C12.R4), so the association step must only hand out transceivers of
// the offered kind: in satisfyTypeAndDirection every return of a non-nil transceiver is dominated by a branch that
// establishes `<that transceiver>.kind == <remote kind parameter>`.
func c07R5(c *Ctx) {
	r := c.R
	const rule = "C07.R5"
	fi := c.mustFunc(rule, "", "satisfyTypeAndDirection")
	kindF := c.mustField(rule, "", "RTPTransceiver", "kind")
	if fi == nil || kindF == nil {
		return
	}
	g := c.P.GraphOf(fi)
	info := g.Info
	sig := fi.Obj.Type().(*types.Signature)
	var remoteKind *types.Var
	for i := 0; i < sig.Params().Len(); i++ {
		if types.Identical(sig.Params().At(i).Type(), kindF.Type()) {
			remoteKind = sig.Params().At(i)
		}
	}
	if remoteKind == nil {
		r.Undecided(rule, "satisfyTypeAndDirection|kind-parameter", c.P.Pos(fi.Decl.Pos()), "no parameter of the transceiver kind's type")
		return
	}
	n := 0
	for _, rn := range g.Returns() {
		ret := g.Nodes[rn].Ast.(*ast.ReturnStmt)
		if len(ret.Results) == 0 || core.IsNilIdent(info, ret.Results[0]) {
			continue
		}
		tv := core.VarOf(info, ret.Results[0])
		n++
		key := sprintf("satisfyTypeAndDirection|return#%d|same-kind-as-offered-section", n)
		if tv == nil {
			r.Undecided(rule, key, c.P.Pos(ret.Pos()), "the returned transceiver is not a plain variable")
			continue
		}
		var establishes func(e ast.Expr, truth bool) bool
		establishes = func(e ast.Expr, truth bool) bool {
			switch v := ast.Unparen(e).(type) {
			case *ast.UnaryExpr:
				if v.Op == token.NOT {
					return establishes(v.X, !truth)
				}
			case *ast.BinaryExpr:
				if v.Op == token.LAND && truth || v.Op == token.LOR && !truth {
					return establishes(v.X, truth) || establishes(v.Y, truth)
				}
				if (v.Op == token.EQL || v.Op == token.NEQ) && truth == (v.Op == token.EQL) {
					isKind := func(x ast.Expr) bool {
						sel, ok := ast.Unparen(x).(*ast.SelectorExpr)
						return ok && core.FieldOf(info, sel) == kindF && core.VarOf(info, sel.X) == tv
					}
					isRemote := func(x ast.Expr) bool { return core.VarOf(info, x) == remoteKind }
					return isKind(v.X) && isRemote(v.Y) || isKind(v.Y) && isRemote(v.X)
				}
			}
			return false
		}
		edges := map[core.EdgeRef]bool{}
		for _, nd := range g.Nodes {
			for k, e := range nd.Succs {
				if e.Cond != nil && e.Tag == nil && e.Branch != 0 && establishes(e.Cond, e.Branch == 1) {
					edges[core.EdgeRef{From: nd.ID, Idx: k}] = true
				}
			}
		}
		// the kind test must concern the value returned: no re-assignment of the variable between the test and the return
		ok := len(edges) > 0 && g.DominatedByEdges(rn, edges)
		if ok {
			var tos []int
			for ed := range edges {
				tos = append(tos, g.Nodes[ed.From].Succs[ed.Idx].To)
			}
			for x := range g.Reach(tos, func(y int) bool { return y == rn }, nil) {
				for _, t := range core.AssignTargets(g.Nodes[x].Ast) {
					if core.VarOf(info, t) == tv && x != rn {
						ok = false
					}
				}
			}
		}
		r.Cells++
		r.Check(ok, rule, key, c.P.Pos(ret.Pos()), "the transceiver handed out has the offered section's kind",
			"satisfyTypeAndDirection can hand out a transceiver without having tested that its kind equals the offered section's: SetRemoteDescription gives it the section's mid and the answer renders m=<transceiver kind> for an offered section of another media type")
	}
	if n == 0 {
		r.Undecided(rule, "satisfyTypeAndDirection|returns", c.P.Pos(fi.Decl.Pos()), "no return of a transceiver found")
	}
}
