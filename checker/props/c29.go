package props

import (
	"go/ast"
	"go/token"
	"go/types"
	"sort"
	"strings"
	"time"

	"verif/checker/core"
)

func init() {
	register(&Prop{
		ID:        "C29",
		Engine:    "e6flow+e2cfg+e3lock",
		Technique: "provenance of the caller's packet in WriteRTP (alias closure over the parameter, every use classified), write-set and provenance of the rewritten header fields in writeRTP, exactly-once-per-iteration path rule for the fan-out loop, guarded-by rule for the bindings slice, dominance rule for the pool reset",
		LevelText: "Structural clauses of the fan-out: (1) in WriteRTP the caller's *rtp.Packet is used only as the source of one struct copy into a pool/fresh packet, and only that copy reaches writeRTP; (2) writeRTP writes through the copy only the scalar header fields SSRC, PayloadType (from the ssrc/payloadType of the binding being visited) and the PaddingSize mirror, never an element of a shared slice, and hands the packet to nothing but the binding's own writer; (3) on every path through the loop over s.bindings exactly one writeStream.WriteRTP happens per binding and nothing leaves the loop early; (4) every access to bindings holds the track's mutex (writes exclusively), so an Unbind is never concurrent with a fan-out and a removed binding is not visited afterwards; (5) a pooled packet is zeroed before it is put back and released only after its last use.",
		LevelNote: "Trusted: go/types resolution, go/cfg construction, sync.RWMutex semantics. What the downstream TrackLocalWriter does with the header pointer and payload slice it receives is not decided (they alias the caller's slices by design).",
		DesignRef: "DESIGN.md §5 C29",
		Run:       runC29,
	})
}

type c29Anchors struct {
	writeRTPPub, writeRTP, bind, unbind, alloc, reset *core.FuncInfo
	bindings, mu                                      *types.Var
	fSSRC, fPT, fStream                               *types.Var // trackBinding fields
	pool                                              *types.Var
	info                                              *types.Info
}

func c29Resolve(c *Ctx, rule string) *c29Anchors {
	a := &c29Anchors{}
	a.writeRTPPub = c.mustFunc(rule, "", "TrackLocalStaticRTP.WriteRTP")
	a.writeRTP = c.mustFunc(rule, "", "TrackLocalStaticRTP.writeRTP")
	a.bind = c.mustFunc(rule, "", "TrackLocalStaticRTP.Bind")
	a.unbind = c.mustFunc(rule, "", "TrackLocalStaticRTP.Unbind")
	a.alloc = c.mustFunc(rule, "", "getPacketAllocationFromPool")
	a.reset = c.mustFunc(rule, "", "resetPacketPoolAllocation")
	a.bindings = c.mustField(rule, "", "TrackLocalStaticRTP", "bindings")
	a.mu = c.mustField(rule, "", "TrackLocalStaticRTP", "mu")
	a.fSSRC = c.mustField(rule, "", "trackBinding", "ssrc")
	a.fPT = c.mustField(rule, "", "trackBinding", "payloadType")
	a.fStream = c.mustField(rule, "", "trackBinding", "writeStream")
	if pk := c.P.Pkg(""); pk != nil {
		a.pool, _ = pk.Types.Scope().Lookup("rtpPacketPool").(*types.Var)
		a.info = pk.TypesInfo
	}
	if a.pool == nil {
		c.R.Fail(rule, "anchor:/rtpPacketPool", "-", "anchored variable no longer resolves (fails closed)")
	}
	if a.writeRTPPub == nil || a.writeRTP == nil || a.bind == nil || a.unbind == nil || a.alloc == nil || a.reset == nil ||
		a.bindings == nil || a.mu == nil || a.fSSRC == nil || a.fPT == nil || a.fStream == nil || a.pool == nil {
		return nil
	}
	return a
}

func runC29(c *Ctx) {
	r := c.R
	g7Start = time.Now()
	r.Rule("C29.R1", "in WriteRTP the caller's packet (the parameter and its local aliases) is used only as the source of exactly one struct copy into a pool/fresh packet (plus nil tests); it reaches no call argument, method receiver, store or return; every caller of writeRTP hands it a pool/fresh packet, never a parameter", 6)
	r.Rule("C29.R2", "writeRTP writes through its packet only the scalar header fields SSRC and PayloadType, taken from ssrc/payloadType of the binding being visited, and the PaddingSize mirror; no element write through a slice of the packet; the packet is handed only to writeStream.WriteRTP of that same binding, after the rewrites", 7)
	r.Rule("C29.R3", "the loop over s.bindings lies on every path of writeRTP, performs exactly one writeStream.WriteRTP on every path through its body and is never left early (no break/return/panic/goto out of the body; an error of one writer does not stop the fan-out)", 3)
	r.Rule("C29.R4", "every access to TrackLocalStaticRTP.bindings outside the constructor holds that track's mu (writes hold it exclusively); the fan-out call runs under the lock", 6)
	r.Rule("C29.R6", "Unbind removes exactly the binding whose id equals the unbound context's ID(): swap-remove moves the last binding into the matching slot before truncating, or shift-remove cuts at the matching index", 1)
	r.Rule("C29.R5", "a packet is put back into rtpPacketPool only after being overwritten with the zero rtp.Packet, and a function that takes a packet from the pool releases it by defer or after its last use", 3)
	r.NotCovered = append(r.NotCovered, "what the downstream TrackLocalWriter does with the header pointer and payload slice", "TrackLocalStaticSample's packetizer path beyond its calls to WriteRTP")
	r.Trusted = append(r.Trusted, "go/types object resolution; go/cfg", "sync.RWMutex: RLock excludes Lock")

	a := c29Resolve(c, "C29.R1")
	if a == nil {
		return
	}
	c29R1(c, a)
	c29R2R3(c, a, "C29.R2", "C29.R3")
	c29R4(c, a)
	c29R5(c, a)
	g7DebugDump(c)
	c29Unbind(c, "C29.R6")
}

// c29Parents maps every node below root to its parent.
func c29Parents(root ast.Node) map[ast.Node]ast.Node {
	par := map[ast.Node]ast.Node{}
	var stack []ast.Node
	ast.Inspect(root, func(n ast.Node) bool {
		if n == nil {
			stack = stack[:len(stack)-1]
			return false
		}
		if len(stack) > 0 {
			par[n] = stack[len(stack)-1]
		}
		stack = append(stack, n)
		return true
	})
	return par
}

// c29Aliases closes {v} under plain local copies x := v / x = v / var x = v.
func c29Aliases(info *types.Info, body ast.Node, v *types.Var) map[*types.Var]bool {
	set := map[*types.Var]bool{v: true}
	for changed := true; changed; {
		changed = false
		ast.Inspect(body, func(n ast.Node) bool {
			add := func(lhs ast.Expr, rhs ast.Expr) {
				src := core.VarOf(info, c23Strip(info, rhs))
				dst := core.VarOf(info, lhs)
				if src != nil && dst != nil && set[src] && !set[dst] {
					set[dst] = true
					changed = true
				}
			}
			switch s := n.(type) {
			case *ast.AssignStmt:
				if len(s.Lhs) == len(s.Rhs) {
					for i := range s.Lhs {
						add(s.Lhs[i], s.Rhs[i])
					}
				}
			case *ast.ValueSpec:
				if len(s.Names) == len(s.Values) {
					for i := range s.Names {
						add(s.Names[i], s.Values[i])
					}
				}
			}
			return true
		})
	}
	return set
}

func c29IsFreshPacket(info *types.Info, a *c29Anchors, e ast.Expr) (bool, string) {
	e = ast.Unparen(e)
	switch x := e.(type) {
	case *ast.CallExpr:
		if core.Callee(info, x) == a.alloc.Obj {
			return true, "pool allocation"
		}
		if id, ok := x.Fun.(*ast.Ident); ok {
			if b, ok := info.Uses[id].(*types.Builtin); ok && b.Name() == "new" {
				return true, "new"
			}
		}
	case *ast.UnaryExpr:
		if x.Op == token.AND {
			if _, ok := ast.Unparen(x.X).(*ast.CompositeLit); ok {
				return true, "address of a composite literal"
			}
		}
	case *ast.TypeAssertExpr:
		// rtpPacketPool.Get().(*rtp.Packet)
		if call, ok := ast.Unparen(x.X).(*ast.CallExpr); ok {
			if se, ok := ast.Unparen(call.Fun).(*ast.SelectorExpr); ok && core.VarOf(info, se.X) == a.pool && se.Sel.Name == "Get" {
				return true, "pool Get"
			}
		}
	}
	return false, exprStr(e)
}

func c29R1(c *Ctx, a *c29Anchors) {
	r := c.R
	const R = "C29.R1"
	fi := a.writeRTPPub
	info := fi.Pkg.TypesInfo
	g := c.P.GraphOf(fi)
	pos := c.P.Pos(fi.Decl.Pos())
	sig := fi.Obj.Type().(*types.Signature)
	if sig.Params().Len() != 1 {
		r.Undecided(R, "WriteRTP|signature", pos, "WriteRTP no longer takes exactly one parameter")
		return
	}
	p := sig.Params().At(0)
	aliases := c29Aliases(info, fi.Decl.Body, p)
	par := c29Parents(fi.Decl.Body)

	type use struct {
		kind, detail string
		pos          token.Pos
		bad          bool
		undecided    bool
	}
	var uses []use
	var copyDst []*types.Var
	var copyNode []ast.Node
	ast.Inspect(fi.Decl.Body, func(n ast.Node) bool {
		id, ok := n.(*ast.Ident)
		if !ok {
			return true
		}
		v, _ := info.Uses[id].(*types.Var)
		if v == nil || !aliases[v] {
			return true
		}
		// climb through parentheses
		var cur ast.Node = id
		up := par[cur]
		for {
			if pe, ok := up.(*ast.ParenExpr); ok {
				cur, up = pe, par[pe]
				continue
			}
			break
		}
		switch pn := up.(type) {
		case *ast.StarExpr:
			// *p : a whole-struct read; fine when it is the source of a copy
			var top ast.Node = pn
			tp := par[top]
			for {
				if pe, ok := tp.(*ast.ParenExpr); ok {
					top, tp = pe, par[pe]
					continue
				}
				break
			}
			switch s := tp.(type) {
			case *ast.AssignStmt:
				for i, rhs := range s.Rhs {
					if rhs == top && len(s.Lhs) == len(s.Rhs) {
						uses = append(uses, use{kind: "struct-copy", detail: "into " + exprStr(s.Lhs[i]), pos: id.Pos()})
						dst := ast.Unparen(s.Lhs[i])
						if st, ok := dst.(*ast.StarExpr); ok {
							dst = st.X
						}
						copyDst = append(copyDst, core.VarOf(info, dst))
						copyNode = append(copyNode, s)
						return true
					}
				}
				for _, lhs := range s.Lhs {
					if lhs == top {
						uses = append(uses, use{kind: "overwrite", detail: "*" + id.Name + " is assigned: the caller's packet is overwritten", pos: id.Pos(), bad: true})
						return true
					}
				}
			case *ast.ValueSpec:
				for i, rhs := range s.Values {
					if rhs == top && len(s.Names) == len(s.Values) {
						uses = append(uses, use{kind: "struct-copy", detail: "into " + s.Names[i].Name, pos: id.Pos()})
						copyDst = append(copyDst, core.VarOf(info, s.Names[i]))
						copyNode = append(copyNode, s)
						return true
					}
				}
			}
			uses = append(uses, use{kind: "deref", detail: "dereferenced outside a plain struct copy", pos: id.Pos(), undecided: true})
		case *ast.BinaryExpr:
			other := pn.X
			if other == cur {
				other = pn.Y
			}
			if (pn.Op == token.EQL || pn.Op == token.NEQ) && core.IsNilIdent(info, other) {
				uses = append(uses, use{kind: "nil-test", pos: id.Pos()})
			} else {
				uses = append(uses, use{kind: "compare", detail: "compared with " + exprStr(other), pos: id.Pos(), undecided: true})
			}
		case *ast.CallExpr:
			if pn.Fun == cur {
				uses = append(uses, use{kind: "called", pos: id.Pos(), undecided: true})
			} else {
				uses = append(uses, use{kind: "call-argument", detail: "argument of " + calleeName(info, pn), pos: id.Pos(), bad: true})
			}
		case *ast.ReturnStmt:
			uses = append(uses, use{kind: "returned", pos: id.Pos(), bad: true})
		case *ast.SelectorExpr:
			if sel := info.Selections[pn]; sel != nil && sel.Kind() == types.MethodVal {
				uses = append(uses, use{kind: "method-receiver", detail: "receiver of " + pn.Sel.Name, pos: id.Pos(), bad: true})
				return true
			}
			// field chain: find its top
			var top ast.Node = pn
			for {
				switch q := par[top].(type) {
				case *ast.SelectorExpr:
					if q.X == top {
						top = q
						continue
					}
				case *ast.IndexExpr:
					if q.X == top {
						top = q
						continue
					}
				case *ast.SliceExpr:
					if q.X == top {
						top = q
						continue
					}
				case *ast.ParenExpr:
					top = q
					continue
				}
				break
			}
			written := false
			switch s := par[top].(type) {
			case *ast.AssignStmt:
				for _, l := range s.Lhs {
					if l == top {
						written = true
					}
				}
			case *ast.IncDecStmt:
				written = true
			case *ast.UnaryExpr:
				if s.Op == token.AND {
					written = true
				}
			}
			if te, ok := top.(ast.Expr); ok && !written {
				if b, isBasic := info.TypeOf(te).Underlying().(*types.Basic); isBasic && b.Kind() != types.UnsafePointer {
					uses = append(uses, use{kind: "scalar-read", detail: exprStr(te), pos: id.Pos()})
					return true
				}
			}
			if written {
				uses = append(uses, use{kind: "field-write", detail: "write or address-of through the caller's packet: " + exprStr(top.(ast.Expr)), pos: id.Pos(), bad: true})
			} else {
				uses = append(uses, use{kind: "field-read", detail: "non-scalar member read: " + exprStr(top.(ast.Expr)), pos: id.Pos(), undecided: true})
			}
		case *ast.AssignStmt:
			isRHS := false
			for i, rhs := range pn.Rhs {
				if rhs == cur {
					isRHS = true
					if len(pn.Lhs) == len(pn.Rhs) {
						if dv := core.VarOf(info, pn.Lhs[i]); dv != nil && aliases[dv] {
							return true // alias definition
						}
						uses = append(uses, use{kind: "stored", detail: "stored into " + exprStr(pn.Lhs[i]), pos: id.Pos(), bad: true})
					}
				}
			}
			if !isRHS {
				// p = something: the alias is rebound; later uses no longer denote the caller's packet
				uses = append(uses, use{kind: "rebound", detail: "parameter/alias is reassigned", pos: id.Pos(), undecided: true})
			}
		case *ast.ValueSpec:
			return true // alias definition (var x = p)
		case *ast.KeyValueExpr, *ast.CompositeLit:
			uses = append(uses, use{kind: "stored", detail: "stored in a composite literal", pos: id.Pos(), bad: true})
		case *ast.UnaryExpr:
			uses = append(uses, use{kind: "address-taken", pos: id.Pos(), bad: true})
		case *ast.SendStmt:
			uses = append(uses, use{kind: "sent", detail: "sent on a channel", pos: id.Pos(), bad: true})
		default:
			uses = append(uses, use{kind: "other", detail: sprintf("used in %T", up), pos: id.Pos(), undecided: true})
		}
		return true
	})
	seen := map[string]bool{}
	ncopy := 0
	r.Cells += len(uses)
	for _, u := range uses {
		if u.kind == "struct-copy" {
			ncopy++
		}
		key := "WriteRTP|caller-packet-use|" + u.kind
		if u.kind == "call-argument" || u.kind == "method-receiver" {
			key += "|" + strings.TrimPrefix(strings.TrimPrefix(u.detail, "argument of "), "receiver of ")
		}
		if seen[key] {
			continue
		}
		seen[key] = true
		switch {
		case u.bad:
			r.Fail(R, key, c.P.Pos(u.pos), "the caller's packet escapes the copy: "+u.kind+" "+u.detail)
		case u.undecided:
			r.Undecided(R, key, c.P.Pos(u.pos), "cannot classify this use of the caller's packet: "+u.kind+" "+u.detail)
		default:
			r.OK(R, key, c.P.Pos(u.pos), u.detail)
		}
	}
	r.Check(ncopy == 1, R, "WriteRTP|caller-packet|copied-exactly-once", pos, "one struct copy", sprintf("%d struct copies of the caller's packet (expected exactly one)", ncopy))
	// the copy's destination is a pool/fresh packet
	var dst *types.Var
	if ncopy == 1 && copyDst[0] != nil {
		dst = copyDst[0]
		node := c23NodeOf(g, copyNode[0])
		ok, why := false, "copy node not found in the CFG"
		if node >= 0 {
			if d, single := c23SingleDef(g, node, dst); single && d.RHS != nil {
				ok, why = c29IsFreshPacket(info, a, d.RHS)
				if !ok {
					why = "destination is defined by " + why
				}
			} else {
				why = "destination has no single reaching definition"
			}
		}
		r.Check(ok, R, "WriteRTP|copy-destination-is-fresh", c.P.Pos(copyNode[0].Pos()), "copy goes into a "+why, "the struct copy does not go into a pool/fresh packet: "+why)
	} else if ncopy == 1 {
		r.Undecided(R, "WriteRTP|copy-destination-is-fresh", pos, "copy destination is not a local variable")
	}
	// the fan-out gets the copy
	calls := 0
	for _, call := range core.CallsIn(fi.Decl.Body) {
		if core.Callee(info, call) != a.writeRTP.Obj || len(call.Args) != 1 {
			continue
		}
		calls++
		av := core.VarOf(info, call.Args[0])
		r.Check(av != nil && av == dst && !aliases[av], R, "WriteRTP|fanout-gets-the-copy", c.P.Pos(call.Pos()), "writeRTP receives the copy", "writeRTP is not called with the copy of the caller's packet")
	}
	if calls == 0 {
		r.Fail(R, "WriteRTP|fanout-gets-the-copy", pos, "WriteRTP no longer calls writeRTP")
	}
	// every caller of writeRTP passes a pool/fresh packet
	for _, caller := range c.P.AllFuncs() {
		if caller.Decl.Body == nil || caller.Pkg != fi.Pkg {
			continue
		}
		cinfo := caller.Pkg.TypesInfo
		ast.Inspect(caller.Decl.Body, func(n ast.Node) bool {
			call, ok := n.(*ast.CallExpr)
			if !ok || core.Callee(cinfo, call) != a.writeRTP.Obj || len(call.Args) != 1 {
				return true
			}
			key := "writeRTP-caller|" + caller.Name() + "|passes-pool-packet"
			cg := c.P.GraphOf(caller)
			node := c23NodeOf(cg, call)
			av := core.VarOf(cinfo, call.Args[0])
			if node < 0 || av == nil {
				r.Undecided(R, key, c.P.Pos(call.Pos()), "argument is not a local variable of a declared function")
				return true
			}
			d, single := c23SingleDef(cg, node, av)
			if !single || d.RHS == nil {
				r.Fail(R, key, c.P.Pos(call.Pos()), "the packet handed to writeRTP is a parameter or has several definitions: writeRTP rewrites it in place")
				return true
			}
			ok2, what := c29IsFreshPacket(cinfo, a, d.RHS)
			r.Check(ok2, R, key, c.P.Pos(call.Pos()), "passes a "+what, "the packet handed to writeRTP is defined by "+what+", not taken from the pool: writeRTP rewrites it in place")
			return true
		})
	}
}

// c29RootedAt reports whether e is a selector/index/slice/star chain rooted at one of vars,
// and whether the chain goes through an index or slice expression.
func c29RootedAt(info *types.Info, e ast.Expr, vars map[*types.Var]bool) (rooted, throughElem bool) {
	for {
		e = ast.Unparen(e)
		switch x := e.(type) {
		case *ast.Ident:
			v := core.VarOf(info, x)
			return v != nil && vars[v], throughElem
		case *ast.SelectorExpr:
			if sel := info.Selections[x]; sel == nil {
				return false, false
			}
			e = x.X
		case *ast.IndexExpr:
			throughElem = true
			e = x.X
		case *ast.SliceExpr:
			throughElem = true
			e = x.X
		case *ast.StarExpr:
			e = x.X
		case *ast.UnaryExpr:
			if x.Op != token.AND {
				return false, false
			}
			e = x.X
		default:
			return false, false
		}
	}
}

// c29R2R3 checks the rewrite and the fan-out loop of writeRTP (also used by C23 for the sender side).
func c29R2R3(c *Ctx, a *c29Anchors, R2, R3 string) {
	r := c.R
	fi := a.writeRTP
	info := fi.Pkg.TypesInfo
	g := c.P.GraphOf(fi)
	pos := c.P.Pos(fi.Decl.Pos())
	sig := fi.Obj.Type().(*types.Signature)
	if sig.Params().Len() != 1 {
		r.Undecided(R2, "writeRTP|signature", pos, "writeRTP no longer takes exactly one parameter")
		return
	}
	packet := sig.Params().At(0)
	pvars := c29Aliases(info, fi.Decl.Body, packet)

	// a closure capturing the packet would hide writes from the CFG-based rules below
	ast.Inspect(fi.Decl.Body, func(n ast.Node) bool {
		fl, ok := n.(*ast.FuncLit)
		if !ok {
			return true
		}
		captured := false
		ast.Inspect(fl.Body, func(m ast.Node) bool {
			if id, ok := m.(*ast.Ident); ok {
				if v, _ := info.Uses[id].(*types.Var); v != nil && pvars[v] {
					captured = true
				}
			}
			return true
		})
		if captured {
			r.Undecided(R2, "writeRTP|packet-captured-by-closure", c.P.Pos(fl.Pos()), "the packet is captured by a function literal inside writeRTP; writes through it are not tracked")
		}
		return false
	})

	// ---- the loop over s.bindings
	var loops []*ast.RangeStmt
	ast.Inspect(fi.Decl.Body, func(n ast.Node) bool {
		if rs, ok := n.(*ast.RangeStmt); ok && core.FieldOf(info, rs.X) == a.bindings {
			loops = append(loops, rs)
		}
		return true
	})
	if len(loops) != 1 {
		r.Undecided(R3, "writeRTP|fanout-loop", pos, sprintf("expected exactly one range loop over s.bindings, found %d", len(loops)))
		return
	}
	loop := loops[0]
	head, body, done := -1, -1, -1
	for _, n := range g.Nodes {
		if len(n.Succs) == 2 && n.Succs[0].Range == loop {
			head, body, done = n.ID, n.Succs[0].To, n.Succs[1].To
		}
	}
	if head < 0 {
		r.Undecided(R3, "writeRTP|fanout-loop", pos, "loop head not found in the CFG")
		return
	}
	var bvar *types.Var // the binding being visited (value variable), or nil when indexing
	if loop.Value != nil {
		bvar = core.VarOf(info, loop.Value)
	}
	var ivar *types.Var
	if loop.Key != nil {
		ivar = core.VarOf(info, loop.Key)
	}
	inBody := g.Reach([]int{body}, func(n int) bool { return n == head }, nil)

	// ---- scan writeRTP and the same-package helpers the packet is passed to
	top := &c29Frame{fi: fi, info: info, g: g, pvars: pvars, isBinding: func(base ast.Expr) bool {
		base = ast.Unparen(base)
		if bvar != nil && core.VarOf(info, base) == bvar {
			return true
		}
		if ix, ok := base.(*ast.IndexExpr); ok && ivar != nil && core.FieldOf(info, ix.X) == a.bindings && core.VarOf(info, ix.Index) == ivar {
			return true
		}
		return false
	}}
	events := c29Scan(c, a, top, 0)
	var sendNodes []int
	sendOK := true
	rewrites := map[string][]int{} // field name -> nodes of writeRTP after which the field is rewritten
	seenKey := map[string]bool{}
	for _, ev := range events {
		switch ev.kind {
		case "send":
			sendNodes = append(sendNodes, ev.node)
			ok := ev.srcOK && inBody[ev.node] && ev.once
			sendOK = sendOK && ok
			why := "the packet is written to a stream that is not writeStream of the binding being visited in the loop"
			if ev.srcOK && !ev.once {
				why = "the helper " + ev.via + " does not perform the write exactly once on every path"
			}
			r.Check(ok, R2, "writeRTP|fanout|stream-of-the-visited-binding", c.P.Pos(ev.pos), "writer of the binding being visited", why)
			r.Check(ev.argsOK, R2, "writeRTP|fanout|sends-header-and-payload-of-the-packet", c.P.Pos(ev.pos), "header and payload of the rewritten packet", "the fan-out call does not pass the header and payload of the rewritten packet")
		case "rewrite":
			if ev.always {
				rewrites[ev.field] = append(rewrites[ev.field], ev.node)
			}
			want := a.fSSRC
			if ev.field == "PayloadType" {
				want = a.fPT
			}
			r.Check(ev.srcOK && inBody[ev.node], R2, "writeRTP|rewrite|"+ev.field+"<-binding."+want.Name(), c.P.Pos(ev.pos), "taken from the binding being visited"+ev.viaNote(),
				sprintf("header field %s is not set from %s of the binding being visited (inside the loop)%s", ev.field, want.Name(), ev.viaNote()))
		case "padding":
			r.Check(ev.srcOK, R2, "writeRTP|write|Header.PaddingSize-mirror", c.P.Pos(ev.pos), "mirrors the packet's own PaddingSize"+ev.viaNote(), "Header.PaddingSize is set from something other than the packet's own PaddingSize"+ev.viaNote())
		case "bad":
			if !seenKey[ev.key] {
				seenKey[ev.key] = true
				r.Fail(R2, ev.key, c.P.Pos(ev.pos), ev.detail+ev.viaNote())
			}
		case "undecided":
			if !seenKey[ev.key] {
				seenKey[ev.key] = true
				r.Undecided(R2, ev.key, c.P.Pos(ev.pos), ev.detail+ev.viaNote())
			}
		}
	}
	if len(sendNodes) == 0 {
		r.Fail(R2, "writeRTP|fanout|stream-of-the-visited-binding", pos, "no call through trackBinding.writeStream found in writeRTP (or in a helper the packet and the binding are passed to)")
	}
	for _, f := range []string{"SSRC", "PayloadType"} {
		key := "writeRTP|rewrite-precedes-send|" + f
		if len(rewrites[f]) == 0 {
			r.Fail(R2, key, pos, "header field "+f+" is never rewritten from the binding on every path")
			continue
		}
		// every path from the start of an iteration to a send passes a rewrite
		avoid := core.NodeSet(rewrites[f])
		reach := g.Reach([]int{body}, func(n int) bool { return avoid[n] || n == head }, nil)
		ok := len(sendNodes) > 0
		for _, sn := range sendNodes {
			if reach[sn] && !avoid[sn] {
				ok = false
			}
			if avoid[sn] {
				// rewrite and send inside one helper call: the helper-internal order was checked by the scan
				// (a rewrite is only propagated as unconditional when it dominates the helper's send)
				continue
			}
		}
		r.Check(ok, R2, key, c.P.Pos(g.PosOf(rewrites[f][0])), "set on every path from the iteration start to the send", "a path through the loop body reaches the send without rewriting "+f)
	}

	// ---- R3: exactly once per iteration, no early exit, loop on every path
	sendSet := core.NodeSet(sendNodes)
	{
		reach := g.Reach([]int{body}, func(n int) bool { return sendSet[n] }, nil)
		atLeast := !reach[head] && len(sendNodes) > 0
		atMost := true
		for _, s := range sendNodes {
			var succ []int
			for _, e := range g.Nodes[s].Succs {
				succ = append(succ, e.To)
			}
			after := g.Reach(succ, func(n int) bool { return n == head }, nil)
			for _, s2 := range sendNodes {
				if after[s2] {
					atMost = false
				}
			}
		}
		why := ""
		if !atLeast {
			why = "a path through the loop body returns to the loop head without calling writeStream.WriteRTP (a binding is skipped)"
		} else if !atMost {
			why = "a path through the loop body calls writeStream.WriteRTP more than once for one binding"
		}
		r.Check(sendOK && atLeast && atMost, R3, "writeRTP|fanout|exactly-once-per-binding", c.P.Pos(loop.Pos()), "one send on every path through the body", why)
	}
	{
		reach := g.Reach([]int{body}, func(n int) bool { return n == head }, nil)
		early := ""
		switch {
		case reach[done]:
			early = "break/goto"
		case reach[g.Exit]:
			early = "return"
		case reach[g.Panic]:
			early = "panic"
		}
		r.Check(early == "", R3, "writeRTP|fanout|no-early-exit", c.P.Pos(loop.Pos()), "the body always returns to the loop head", "the loop body can leave the loop by "+early+": later bindings do not receive the packet")
	}
	r.Check(g.Dominated(g.Exit, map[int]bool{head: true}), R3, "writeRTP|fanout|loop-on-every-path", c.P.Pos(loop.Pos()), "every path of writeRTP runs the loop", "writeRTP can return without running the fan-out loop")
}

// c29HeaderFields resolves SSRC / PayloadType / PaddingSize of the rtp.Header embedded in the packet type.
func c29HeaderFields(info *types.Info, packet *types.Var) map[string]*types.Var {
	out := map[string]*types.Var{}
	st := c38StructOf(packet.Type())
	if st == nil {
		return out
	}
	for i := 0; i < st.NumFields(); i++ {
		if st.Field(i).Name() == "Header" {
			if hs, ok := st.Field(i).Type().Underlying().(*types.Struct); ok {
				for j := 0; j < hs.NumFields(); j++ {
					switch hs.Field(j).Name() {
					case "SSRC", "PayloadType", "PaddingSize":
						out[hs.Field(j).Name()] = hs.Field(j)
					}
				}
			}
		}
	}
	return out
}

// c29FieldPath renders the field names along a selector chain (no local names).
func c29FieldPath(info *types.Info, e ast.Expr) string {
	var parts []string
	for {
		e = ast.Unparen(e)
		switch x := e.(type) {
		case *ast.SelectorExpr:
			parts = append([]string{x.Sel.Name}, parts...)
			e = x.X
		case *ast.IndexExpr:
			parts = append([]string{"[]"}, parts...)
			e = x.X
		case *ast.SliceExpr:
			parts = append([]string{"[:]"}, parts...)
			e = x.X
		case *ast.StarExpr:
			e = x.X
		default:
			return strings.Join(parts, ".")
		}
	}
}

func c29R4(c *Ctx, a *c29Anchors) {
	r := c.R
	const R = "C29.R4"
	class := "TrackLocalStaticRTP." + a.mu.Name()
	type acc struct {
		write bool
		ok    bool
		why   string
		pos   token.Pos
	}
	for _, fi := range c.P.AllFuncs() {
		if fi.Decl.Body == nil {
			continue
		}
		info := fi.Pkg.TypesInfo
		// accesses inside function literals are not on this function's CFG
		inLit := false
		ast.Inspect(fi.Decl.Body, func(n ast.Node) bool {
			if fl, ok := n.(*ast.FuncLit); ok {
				ast.Inspect(fl.Body, func(m ast.Node) bool {
					if se, ok := m.(*ast.SelectorExpr); ok && core.FieldOf(info, se) == a.bindings {
						inLit = true
					}
					return true
				})
				return false
			}
			return true
		})
		if inLit {
			r.Undecided(R, "bindings-access|"+fi.Name()+"|in-function-literal", c.P.Pos(fi.Decl.Pos()), "bindings is accessed inside a function literal; the lockset at that point is not tracked")
		}
		g := c.P.GraphOf(fi)
		var li *core.LockInfo
		var accs []acc
		for _, n := range g.Nodes {
			if n.Ast == nil {
				continue
			}
			core.InspectShallow(n.Ast, func(x ast.Node) bool {
				se, ok := x.(*ast.SelectorExpr)
				if !ok || core.FieldOf(info, se) != a.bindings {
					return true
				}
				if li == nil {
					li = core.Locks(g)
				}
				// write: the selector lies on the left of an assignment in this node
				write := false
				core.InspectShallow(n.Ast, func(y ast.Node) bool {
					switch s := y.(type) {
					case *ast.AssignStmt:
						for _, l := range s.Lhs {
							if l.Pos() <= se.Pos() && se.End() <= l.End() {
								write = true
							}
						}
					case *ast.IncDecStmt:
						if s.X.Pos() <= se.Pos() && se.End() <= s.X.End() {
							write = true
						}
					}
					return true
				})
				base := core.CanonExpr(se.X)
				inst := base + "." + a.mu.Name()
				mode, held := li.In[n.ID][inst]
				if held && li.ClassOf[inst] != class {
					held = false
				}
				ac := acc{write: write, pos: se.Pos()}
				switch {
				case base == "":
					ac.why = "receiver expression too complex to match with a mutex instance"
				case !held:
					ac.why = "accessed without holding " + inst
				case write && mode != "W":
					ac.why = "written while holding " + inst + " only in read mode"
				default:
					ac.ok = true
				}
				accs = append(accs, ac)
				return true
			})
		}
		if len(accs) == 0 {
			continue
		}
		r.Cells += len(accs)
		r.Saw(fi.Name())
		// a helper that never locks itself but is only called with the lock held
		allUnlocked := true
		for _, ac := range accs {
			if ac.ok {
				allUnlocked = false
			}
		}
		helperOK := false
		if allUnlocked && !fi.Obj.Exported() && len(li.Ops) == 0 {
			helperOK = calledOnlyUnderLock(c, fi, class)
		}
		for _, kind := range []bool{false, true} {
			var bad []string
			n := 0
			var p token.Pos
			for _, ac := range accs {
				if ac.write != kind {
					continue
				}
				n++
				if p == 0 {
					p = ac.pos
				}
				if !ac.ok && !helperOK {
					bad = append(bad, ac.why)
					p = ac.pos
				}
			}
			if n == 0 {
				continue
			}
			k := "read"
			if kind {
				k = "write"
			}
			sort.Strings(bad)
			r.Check(len(bad) == 0, R, "bindings-access|"+fi.Name()+"|"+k, c.P.Pos(p), sprintf("%d %s access(es) under the track mutex", n, k), strings.Join(bad, "; "))
		}
	}
	// the fan-out call itself runs under the lock
	g := c.P.GraphOf(a.writeRTP)
	li := core.Locks(g)
	info := a.writeRTP.Pkg.TypesInfo
	sends := g.FindNodes(func(n ast.Node) bool {
		call, ok := n.(*ast.CallExpr)
		if !ok {
			return false
		}
		se, ok := ast.Unparen(call.Fun).(*ast.SelectorExpr)
		return ok && core.FieldOf(info, se.X) == a.fStream
	})
	okAll := len(sends) > 0
	if len(sends) == 0 {
		// the send may live in a same-package helper that is only ever called with the lock held
		for _, hf := range c.P.AllFuncs() {
			if hf.Decl.Body == nil || hf.Pkg != a.writeRTP.Pkg || hf == a.writeRTP {
				continue
			}
			has := false
			ast.Inspect(hf.Decl.Body, func(n ast.Node) bool {
				if call, ok := n.(*ast.CallExpr); ok {
					if se, ok := ast.Unparen(call.Fun).(*ast.SelectorExpr); ok && core.FieldOf(info, se.X) == a.fStream {
						has = true
					}
				}
				return true
			})
			if has {
				okAll = !hf.Obj.Exported() && calledOnlyUnderLock(c, hf, class)
				if !okAll {
					break
				}
			}
		}
	}
	for _, s := range sends {
		held := false
		for inst := range li.In[s] {
			if li.ClassOf[inst] == class {
				held = true
			}
		}
		if !held && !calledOnlyUnderLock(c, a.writeRTP, class) {
			okAll = false
		}
	}
	r.Check(okAll, R, "writeRTP|fanout-under-lock", c.P.Pos(a.writeRTP.Decl.Pos()), "the send runs with the track mutex held", "writeStream.WriteRTP is called without the track mutex: an Unbind can complete while the removed binding is still being written to")
}

func c29R5(c *Ctx, a *c29Anchors) {
	r := c.R
	const R = "C29.R5"
	nput := 0
	for _, fi := range c.P.AllFuncs() {
		if fi.Decl.Body == nil || fi.Pkg != a.reset.Pkg {
			continue
		}
		info := fi.Pkg.TypesInfo
		g := c.P.GraphOf(fi)
		// ---- Put sites
		for _, id := range g.FindNodes(func(n ast.Node) bool {
			call, ok := n.(*ast.CallExpr)
			if !ok {
				return false
			}
			se, ok := ast.Unparen(call.Fun).(*ast.SelectorExpr)
			return ok && core.VarOf(info, se.X) == a.pool && se.Sel.Name == "Put"
		}) {
			nput++
			var call *ast.CallExpr
			core.InspectShallow(g.Nodes[id].Ast, func(n ast.Node) bool {
				if cl, ok := n.(*ast.CallExpr); ok {
					if se, ok := ast.Unparen(cl.Fun).(*ast.SelectorExpr); ok && core.VarOf(info, se.X) == a.pool && se.Sel.Name == "Put" {
						call = cl
					}
				}
				return true
			})
			key := "pool-put|in:" + fi.Name() + "|zeroed-before-put"
			if len(call.Args) != 1 || core.VarOf(info, call.Args[0]) == nil {
				r.Undecided(R, key, c.P.Pos(call.Pos()), "Put argument is not a local variable")
				continue
			}
			x := core.VarOf(info, call.Args[0])
			zero := g.FindNodes(func(n ast.Node) bool {
				as, ok := n.(*ast.AssignStmt)
				if !ok || len(as.Lhs) != 1 || len(as.Rhs) != 1 {
					return false
				}
				st, ok := ast.Unparen(as.Lhs[0]).(*ast.StarExpr)
				if !ok || core.VarOf(info, st.X) != x {
					return false
				}
				cl, ok := ast.Unparen(as.Rhs[0]).(*ast.CompositeLit)
				return ok && len(cl.Elts) == 0
			})
			ok := len(zero) > 0 && g.Dominated(id, core.NodeSet(zero))
			if ok {
				// nothing writes through x between the reset and the Put
				var succ []int
				for _, z := range zero {
					for _, e := range g.Nodes[z].Succs {
						succ = append(succ, e.To)
					}
				}
				between := g.Reach(succ, func(n int) bool { return n == id }, nil)
				for n := range between {
					if n == id || g.Nodes[n].Ast == nil {
						continue
					}
					for _, l := range core.AssignTargets(g.Nodes[n].Ast) {
						if rooted, _ := c29RootedAt(info, l, map[*types.Var]bool{x: true}); rooted && core.VarOf(info, l) == nil {
							ok = false
						}
					}
				}
			}
			r.Check(ok, R, key, c.P.Pos(call.Pos()), "overwritten with the zero packet on every path to Put", "a packet can be put back into the pool without being zeroed: it keeps the previous caller's payload/extension slices")
		}
		// ---- allocation sites: release after last use
		if fi == a.alloc {
			continue
		}
		for _, id := range g.FindNodes(func(n ast.Node) bool { return core.IsCallTo(info, n, a.alloc.Obj) }) {
			var q *types.Var
			if as, ok := g.Nodes[id].Ast.(*ast.AssignStmt); ok && len(as.Lhs) == 1 {
				q = core.VarOf(info, as.Lhs[0])
			}
			key := "pool-release|in:" + fi.Name() + "|after-last-use"
			if q == nil {
				r.Undecided(R, key, c.P.Pos(g.PosOf(id)), "pool packet is not bound to a local variable")
				continue
			}
			rel := g.FindNodes(func(n ast.Node) bool {
				call, ok := n.(*ast.CallExpr)
				return ok && core.Callee(info, call) == a.reset.Obj && len(call.Args) == 1 && core.VarOf(info, call.Args[0]) == q
			})
			if len(rel) == 0 {
				r.Info(R, key, c.P.Pos(g.PosOf(id)), "the packet is never handed back to the pool here (garbage collected)")
				continue
			}
			bad := ""
			for _, rn := range rel {
				if _, isDefer := g.Nodes[rn].Ast.(*ast.DeferStmt); isDefer {
					continue
				}
				if _, isGo := g.Nodes[rn].Ast.(*ast.GoStmt); isGo {
					bad = "released from a goroutine while the function may still use the packet"
					continue
				}
				var succ []int
				for _, e := range g.Nodes[rn].Succs {
					succ = append(succ, e.To)
				}
				after := g.Reach(succ, nil, nil)
				for n := range after {
					if g.Nodes[n].Ast == nil {
						continue
					}
					used := false
					core.InspectShallow(g.Nodes[n].Ast, func(x ast.Node) bool {
						if idn, ok := x.(*ast.Ident); ok && info.Uses[idn] == types.Object(q) {
							used = true
						}
						return true
					})
					if used && n != rn {
						bad = "the packet is used after it was put back into the pool (another WriteRTP may already own it)"
					}
				}
			}
			r.Check(bad == "", R, key, c.P.Pos(g.PosOf(rel[0])), "released by defer / after the last use", bad)
		}
	}
	if nput == 0 {
		r.Fail(R, "pool-put|none", "-", "no rtpPacketPool.Put call found: the rule lost its anchor")
	}
}

// c29Frame is one function in which the pooled packet is visible: writeRTP itself or a same-package
// helper that receives the packet pointer (and possibly the binding being visited) as arguments.
type c29Frame struct {
	fi        *core.FuncInfo
	info      *types.Info
	g         *core.Graph
	pvars     map[*types.Var]bool      // variables that hold the packet pointer
	isBinding func(base ast.Expr) bool // base denotes the binding being visited
	via       string                   // helper chain, "" for writeRTP
}

// c29Event is something a frame does with the packet, reported at a node of the *outermost* frame.
type c29Event struct {
	kind   string // send, rewrite, padding, bad, undecided
	field  string // SSRC / PayloadType for rewrites
	key    string
	detail string
	pos    token.Pos
	node   int  // node in the frame that reports the event (after propagation: the call node in the caller)
	srcOK  bool // rewrite/padding: value has the right provenance; send: stream of the visited binding
	argsOK bool // send: header and payload of the packet
	always bool // rewrite: happens on every path (before the helper's send, if the helper sends)
	once   bool // send: exactly once on every path of the helper (true for a direct send)
	via    string
}

func (e c29Event) viaNote() string {
	if e.via == "" {
		return ""
	}
	return " (in helper " + e.via + ")"
}

// c29BindingField: e is field f of the binding being visited in this frame.
func (fr *c29Frame) bindingField(e ast.Expr, f *types.Var) bool {
	se, ok := c23Strip(fr.info, e).(*ast.SelectorExpr)
	if !ok || core.FieldOf(fr.info, se) != f {
		return false
	}
	base := ast.Unparen(se.X)
	if st, ok := base.(*ast.StarExpr); ok {
		base = ast.Unparen(st.X)
	}
	return fr.isBinding(base)
}

// c29Scan classifies every write through the packet, every send and every hand-off in frame fr, following
// same-package helpers that receive the packet pointer with their parameters bound to the call's arguments.
func c29Scan(c *Ctx, a *c29Anchors, fr *c29Frame, depth int) []c29Event {
	var out []c29Event
	info, g := fr.info, fr.g
	add := func(e c29Event) { e.via = fr.via; out = append(out, e) }
	var packetVar *types.Var
	for v := range fr.pvars {
		packetVar = v
	}
	if packetVar == nil {
		return nil
	}
	rtpHeader := c29HeaderFields(info, packetVar)

	// a closure capturing the packet would hide writes from the CFG-based rules
	ast.Inspect(fr.fi.Decl.Body, func(n ast.Node) bool {
		fl, ok := n.(*ast.FuncLit)
		if !ok {
			return true
		}
		captured := false
		ast.Inspect(fl.Body, func(m ast.Node) bool {
			if id, ok := m.(*ast.Ident); ok {
				if v, _ := info.Uses[id].(*types.Var); v != nil && fr.pvars[v] {
					captured = true
				}
			}
			return true
		})
		if captured && depth > 0 {
			add(c29Event{kind: "undecided", key: "writeRTP|packet-captured-by-closure", pos: fl.Pos(), detail: "the packet is captured by a function literal; writes through it are not tracked"})
		}
		return false
	})

	for _, n := range g.Nodes {
		if n.Ast == nil {
			continue
		}
		nid := n.ID
		core.InspectShallow(n.Ast, func(x ast.Node) bool {
			switch s := x.(type) {
			case *ast.AssignStmt, *ast.IncDecStmt:
				var lhss, rhss []ast.Expr
				if as, ok := s.(*ast.AssignStmt); ok {
					lhss = as.Lhs
					if len(as.Lhs) == len(as.Rhs) {
						rhss = as.Rhs
					}
					// the packet pointer itself stored somewhere that outlives the call
					for i, rhs := range as.Rhs {
						if v := core.VarOf(info, c23Strip(info, rhs)); v != nil && fr.pvars[v] && i < len(as.Lhs) {
							if lv := core.VarOf(info, as.Lhs[i]); lv == nil || (lv.Pkg() != nil && lv.Parent() == lv.Pkg().Scope()) {
								add(c29Event{kind: "bad", key: "writeRTP|hand-off|stored", pos: as.Pos(), node: nid, detail: "the packet pointer is stored into " + exprStr(as.Lhs[i]) + ": it outlives the write and the pool hands the packet to the next caller"})
							}
						}
					}
				} else {
					lhss = []ast.Expr{s.(*ast.IncDecStmt).X}
				}
				for i, l := range lhss {
					rooted, elem := c29RootedAt(info, l, fr.pvars)
					if !rooted {
						continue
					}
					if v := core.VarOf(info, l); v != nil {
						continue // plain rebinding of the local pointer: handled as alias
					}
					fv := core.FieldOf(info, l)
					switch {
					case elem:
						add(c29Event{kind: "bad", key: "writeRTP|write|element:" + c29FieldPath(info, l), pos: l.Pos(), node: nid, detail: "element write through a slice of the packet (" + exprStr(l) + "): the slice is shared with the caller's packet"})
					case fv == nil:
						add(c29Event{kind: "bad", key: "writeRTP|write|whole-packet", pos: l.Pos(), node: nid, detail: "the packet is overwritten as a whole (" + exprStr(l) + ")"})
					case fv == rtpHeader["SSRC"] || fv == rtpHeader["PayloadType"]:
						want := a.fSSRC
						if fv == rtpHeader["PayloadType"] {
							want = a.fPT
						}
						add(c29Event{kind: "rewrite", field: fv.Name(), pos: l.Pos(), node: nid, always: true, srcOK: rhss != nil && fr.bindingField(rhss[i], want)})
					case fv == rtpHeader["PaddingSize"]:
						// accepted idiom: mirrors the deprecated Packet.PaddingSize into Header.PaddingSize (same quantity, moved)
						okSrc := false
						if rhss != nil {
							if se, ok := c23Strip(info, rhss[i]).(*ast.SelectorExpr); ok {
								if rv := core.FieldOf(info, se); rv != nil && rv.Name() == "PaddingSize" {
									if rooted2, _ := c29RootedAt(info, se, fr.pvars); rooted2 {
										okSrc = true
									}
								}
							}
						}
						add(c29Event{kind: "padding", pos: l.Pos(), node: nid, srcOK: okSrc})
					default:
						d := "a non-scalar member of the packet is replaced (" + exprStr(l) + "): payload and other header fields must reach the writers unchanged"
						if _, isBasic := fv.Type().Underlying().(*types.Basic); isBasic {
							d = "header/packet field other than SSRC, PayloadType and the PaddingSize mirror is rewritten: " + exprStr(l)
						}
						add(c29Event{kind: "bad", key: "writeRTP|write|" + c29FieldPath(info, l), pos: l.Pos(), node: nid, detail: d})
					}
				}
			case *ast.CallExpr:
				call := s
				if se, ok := ast.Unparen(call.Fun).(*ast.SelectorExpr); ok {
					if core.FieldOf(info, se.X) == a.fStream {
						// the fan-out itself
						argsOK := len(call.Args) == 2
						for _, arg := range call.Args {
							rooted, elem := c29RootedAt(info, arg, fr.pvars)
							if !rooted || elem {
								argsOK = false
							}
						}
						add(c29Event{kind: "send", pos: call.Pos(), node: nid, srcOK: fr.bindingField(se.X, a.fStream), argsOK: argsOK, once: true})
						return true
					}
					if sel := info.Selections[se]; sel != nil && sel.Kind() == types.MethodVal {
						if rooted, _ := c29RootedAt(info, se.X, fr.pvars); rooted {
							add(c29Event{kind: "bad", key: "writeRTP|hand-off|method:" + se.Sel.Name, pos: call.Pos(), node: nid, detail: "a method is invoked on the packet inside writeRTP (" + exprStr(call.Fun) + "): it may modify slices shared with the caller"})
						}
					}
				}
				if tv, ok := info.Types[call.Fun]; ok && tv.IsType() {
					return true // conversion
				}
				if id, ok := ast.Unparen(call.Fun).(*ast.Ident); ok {
					if b, ok := info.Uses[id].(*types.Builtin); ok && (b.Name() == "len" || b.Name() == "cap") {
						return true
					}
				}
				handsPacket := false
				for _, arg := range call.Args {
					if rooted, _ := c29RootedAt(info, arg, fr.pvars); rooted {
						if _, isBasic := info.TypeOf(arg).Underlying().(*types.Basic); !isBasic {
							handsPacket = true
						}
					}
				}
				if !handsPacket {
					return true
				}
				out = append(out, c29FollowHelper(c, a, fr, call, nid, depth)...)
			}
			return true
		})
	}
	return out
}

// c29FollowHelper analyses a call that receives the packet: a same-package function with a body is entered
// with its parameters bound to the arguments; anything else is a hand-off.
func c29FollowHelper(c *Ctx, a *c29Anchors, fr *c29Frame, call *ast.CallExpr, nid int, depth int) []c29Event {
	info := fr.info
	name := calleeName(info, call)
	bad := func(kind, detail string) []c29Event {
		return []c29Event{{kind: kind, key: "writeRTP|hand-off|" + name, pos: call.Pos(), node: nid, detail: detail, via: fr.via}}
	}
	callee := core.Callee(info, call)
	hfi := c.P.DeclOf(callee)
	if hfi == nil || hfi.Decl.Body == nil || hfi.Pkg != fr.fi.Pkg {
		return bad("bad", "the packet (or a slice of it) is handed to "+name+" inside writeRTP")
	}
	if depth >= 2 {
		return bad("undecided", "helper nesting too deep to follow the packet into "+name)
	}
	if _, isGo := fr.g.Nodes[nid].Ast.(*ast.GoStmt); isGo {
		return bad("bad", "the packet is handed to a goroutine ("+name+"): it is used after writeRTP returned it to the pool")
	}
	if _, isDefer := fr.g.Nodes[nid].Ast.(*ast.DeferStmt); isDefer {
		return bad("undecided", "the packet is handed to a deferred call ("+name+")")
	}
	sig := callee.Type().(*types.Signature)
	if sig.Variadic() || sig.Params().Len() != len(call.Args) {
		return bad("undecided", "cannot bind the arguments of "+name+" to its parameters")
	}
	hinfo := hfi.Pkg.TypesInfo
	pv := map[*types.Var]bool{}
	bindingParams := map[*types.Var]bool{}
	for i, arg := range call.Args {
		p := sig.Params().At(i)
		argS := c23Strip(info, arg)
		if v := core.VarOf(info, argS); v != nil && fr.pvars[v] {
			pv[p] = true
			continue
		}
		if rooted, _ := c29RootedAt(info, arg, fr.pvars); rooted {
			if _, isBasic := info.TypeOf(arg).Underlying().(*types.Basic); isBasic {
				continue // a scalar copied out of the packet
			}
			return bad("undecided", "a part of the packet ("+exprStr(arg)+") is passed to "+name+"; only the packet pointer itself is followed into helpers")
		}
		base := ast.Unparen(argS)
		if u, ok := base.(*ast.UnaryExpr); ok && u.Op == token.AND {
			base = ast.Unparen(u.X)
		}
		if fr.isBinding(base) {
			bindingParams[p] = true
		}
	}
	if sig.Recv() != nil {
		// a method: its receiver is not the packet (that case is reported as method-on-packet by the caller)
	}
	// local aliases of the packet parameter inside the helper
	for p := range pv {
		for v := range c29Aliases(hinfo, hfi.Decl.Body, p) {
			pv[v] = true
		}
	}
	via := hfi.Name()
	if fr.via != "" {
		via = fr.via + " > " + via
	}
	hg := c.P.GraphOf(hfi)
	hfr := &c29Frame{fi: hfi, info: hinfo, g: hg, pvars: pv, via: via, isBinding: func(base ast.Expr) bool {
		v := core.VarOf(hinfo, ast.Unparen(base))
		return v != nil && bindingParams[v]
	}}
	c.R.Saw(hfi.Name())
	inner := c29Scan(c, a, hfr, depth+1)
	// helper-internal structure: where are its sends
	var hsends []int
	for _, ev := range inner {
		if ev.kind == "send" {
			hsends = append(hsends, ev.node)
		}
	}
	var out []c29Event
	for _, ev := range inner {
		up := ev
		switch ev.kind {
		case "rewrite":
			if ev.always {
				if len(hsends) > 0 {
					for _, sn := range hsends {
						if !hg.Dominated(sn, map[int]bool{ev.node: true}) {
							up.always = false
						}
					}
				} else if !hg.Dominated(hg.Exit, map[int]bool{ev.node: true}) {
					up.always = false
				}
			}
		case "send":
			if ev.once {
				if !hg.Dominated(hg.Exit, map[int]bool{ev.node: true}) {
					up.once = false
				}
				var succ []int
				for _, e := range hg.Nodes[ev.node].Succs {
					succ = append(succ, e.To)
				}
				after := hg.Reach(succ, nil, nil)
				for _, sn := range hsends {
					if after[sn] {
						up.once = false
					}
				}
			}
		}
		up.node = nid
		out = append(out, up)
	}
	return out
}
