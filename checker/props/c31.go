package props

import (
	"go/ast"
	"go/constant"
	"go/token"
	"go/types"
	"strings"

	"verif/checker/absint"
	"verif/checker/core"
)

func init() {
	register(&Prop{
		ID:        "C31",
		Engine:    "e1tab+e2cfg",
		Technique: "order-abstraction decision table of sampleSequenceLocation.compare over every weak ordering of (head, tail, pos); effect tables of Push and Pop by abstract interpretation; go/cfg dominance rules in buildSample (partition-head gate, run boundaries, consumption, FIFO hand-over); who-may-write sweep for the prepared queue",
		LevelText: "Structural necessary conditions of the SampleBuilder property, each decided for all inputs because it speaks about code shape: (1) the circular-interval classifier returns Inside exactly for positions in [head, tail) and Void exactly for empty intervals, for every ordering of its three 16-bit operands (it only compares them, so the 13 weak orderings are exhaustive); (2) Push stores the packet at its sequence number and extends the filled interval exactly as the classifier's answer requires; (3) a sample is only built from a run that starts at a partition head, ends at a partition tail (inclusive) or at the first timestamp change (exclusive), concatenates payloads in sequence order over exactly that run, and the run is consumed (active head advanced past it) on every path that emits; (4) emitted samples go through a FIFO (appended at prepared.tail, removed at prepared.head, slot cleared, each index written by one site) so each comes out once and in order. The behaviour over arbitrary push histories (reordering within maxLate, purging, wrap-around interplay) is NOT decided.",
		LevelNote: "Trusted: absint soundness on the supported fragment; the order-abstraction argument requires that compare() touches its operands only through comparisons on every path that returns Inside or Void (checked syntactically). Depacketizer implementations (pion/rtp) are outside the module.",
		DesignRef: "DESIGN.md §5 C31",
		Run:       runC31,
	})
}

const c31Pkg = "pkg/media/samplebuilder"

func runC31(c *Ctx) {
	r := c.R
	r.Rule("C31.R1", "sampleSequenceLocation.compare, tabulated over every weak ordering of (head, tail, pos): Void iff head == tail; Inside iff the interval is non-empty and pos lies in the circular half-open interval [head, tail); otherwise Before or After; Inside/Void decisions use comparisons only", 28)
	r.Rule("C31.R2", "Push stores the packet at buffer[packet.SequenceNumber] on every path and updates the filled interval from the classifier's answer: Void -> [seq, seq+1), Before -> head = seq, After -> tail = seq+1, Inside -> unchanged; then purges", 7)
	r.Rule("C31.R3", "prepared-sample FIFO: Pop returns nil without touching the queue when it is empty, otherwise takes preparedSamples[prepared.head], clears the slot and advances head by one; buildSample appends at prepared.tail then advances tail by one; no other function writes prepared.head/tail or preparedSamples", 6)
	r.Rule("C31.R4", "buildSample: every path that returns a sample has consumed its run (active.head = consume.tail), stored the sample at prepared.tail before advancing it, and purged the consumed run", 3)
	r.Rule("C31.R5", "buildSample: a sample literal is only built when the run's first packet is a partition head (IsPartitionHead on buffer[consume.head].Payload is true)", 1)
	r.Rule("C31.R6", "buildSample: a run ends at i+1 only when packet i is a partition tail, and at i only when packet i's timestamp differs from the run head's; the run always starts at active.head; payloads are concatenated by a forward loop from consume.head to consume.tail with no skipped element", 4)
	r.Rule("C31.R7", "seqnumDistance and timestampDistance equal the circular distance min(d, 2^n-d) on boundary values of both operands, including across the wrap-around", 2)
	r.Rule("C31.R8", "purgeBuffers force-drops a packet (active.head++ / droppedPackets++) only on the edge where active.head == filled.head holds: only the oldest buffered packet may be given up", 2)
	r.NotCovered = append(r.NotCovered,
		"behaviour over arbitrary push histories: reordering within maxLate, purging/too-old logic, wrap-around interplay between filled/active intervals",
		"Before vs After classification of positions outside the interval (modular distance arithmetic)",
		"completeness after Flush for loss-free streams", "duration computation")
	r.Trusted = append(r.Trusted, "absint soundness on the supported fragment", "order abstraction: code that only compares values behaves identically on order-isomorphic inputs")

	cmp := c.mustFunc("C31.R1", c31Pkg, "sampleSequenceLocation.compare")
	push := c.mustFunc("C31.R2", c31Pkg, "SampleBuilder.Push")
	pop := c.mustFunc("C31.R3", c31Pkg, "SampleBuilder.Pop")
	build := c.mustFunc("C31.R4", c31Pkg, "SampleBuilder.buildSample")
	purge := c.mustFunc("C31.R2", c31Pkg, "SampleBuilder.purgeBuffers")
	if cmp == nil || push == nil || pop == nil || build == nil || purge == nil {
		return
	}
	names := []string{"slCompareVoid", "slCompareBefore", "slCompareInside", "slCompareAfter"}
	kc := map[string]*types.Const{}
	for _, n := range names {
		k := c.mustConst("C31.R1", c31Pkg, n)
		if k == nil {
			return
		}
		kc[n] = k
	}
	valName := func(v absint.Val) string {
		if k, ok := v.(absint.Const); ok {
			for n, kk := range kc {
				if constant.Compare(k.V, token.EQL, kk.Val()) {
					return n
				}
			}
		}
		return v.String()
	}
	c31Compare(c, cmp, valName)
	c31Push(c, push, cmp, purge, kc)
	c31Queue(c, pop, build)
	c31Build(c, build)
	c31R7(c, "C31.R7")
	c31R8(c, "C31.R8")
}

func c31Compare(c *Ctx, cmp *core.FuncInfo, valName func(absint.Val) string) {
	r := c.R
	pos := c.P.Pos(cmp.Decl.Pos())
	u16 := types.Typ[types.Uint16]
	mk := func(vals ...int64) []absint.Val {
		var out []absint.Val
		for _, v := range vals {
			out = append(out, absint.IntVal(v, u16))
		}
		return out
	}
	oracle := func(h, t, p int64) string {
		switch {
		case h == t:
			return "slCompareVoid"
		case h < t && h <= p && p < t, h > t && (p >= h || p < t):
			return "slCompareInside"
		}
		return "outside"
	}
	run := func(label string, reps []absint.Val) {
		sameRecv := func(fn *types.Func) bool { // other methods of the location type (empty(), hasData(), ...) are interpreted in place
			sig, ok := fn.Type().(*types.Signature)
			if !ok || sig.Recv() == nil || fn == cmp.Obj {
				return false
			}
			csig := cmp.Obj.Type().(*types.Signature)
			return types.Identical(sig.Recv().Type(), csig.Recv().Type())
		}
		t := absint.Tabulate(absint.Config{P: c.P, Inline: sameRecv, Pure: sameRecv, Dims: []absint.Dim{{Key: "$recv.head", Domain: reps}, {Key: "$recv.tail", Domain: reps}, {Key: "$p0", Domain: reps}}}, cmp)
		if tableProblems(c, "C31.R1", "compare|table|"+label, pos, t) {
			return
		}
		r.Cells += len(t.Rows)
		for _, row := range t.Rows {
			h, tl, p := intOf(row.Valuation["$recv.head"]), intOf(row.Valuation["$recv.tail"]), intOf(row.Valuation["$p0"])
			key := sprintf("compare|%s|head=%d,tail=%d,pos=%d", label, h, tl, p)
			want := oracle(h, tl, p)
			bad := ""
			if len(row.Outcomes) == 0 {
				bad = "no outcome"
			}
			for _, o := range row.Outcomes {
				if o.Panic != "" || len(o.Results) != 1 {
					bad = "indefinite outcome " + o.String()
					continue
				}
				got := valName(o.Results[0])
				switch want {
				case "outside":
					if got != "slCompareBefore" && got != "slCompareAfter" {
						bad = sprintf("position outside the interval classified %s", got)
					}
				default:
					if got != want {
						bad = sprintf("classified %s, the circular interval [head, tail) says %s", got, want)
					}
				}
			}
			r.Check(bad == "", "C31.R1", key, pos, "agrees with the circular half-open interval", bad)
		}
	}
	// every weak ordering of three values is realised by a triple over {1,2,3}
	r.Exhaustive = true
	run("order", mk(1, 2, 3))
	if c.Thorough {
		run("extremes", mk(0, 1, 32767, 32768, 65534, 65535))
	}
	// the order-abstraction argument: conditions from which an Inside/Void return is reachable contain no arithmetic
	g := c.P.GraphOf(cmp)
	info := g.Info
	var decisive []int
	for _, id := range g.Returns() {
		rs := g.Nodes[id].Ast.(*ast.ReturnStmt)
		if len(rs.Results) != 1 {
			continue
		}
		tv := info.Types[rs.Results[0]]
		if tv.Value == nil {
			decisive = append(decisive, id) // unknown value: treat as decisive
			continue
		}
		if n := valNameOfConst(c, tv.Value); n == "slCompareInside" || n == "slCompareVoid" {
			decisive = append(decisive, id)
		}
	}
	bad := ""
	for _, n := range g.Nodes {
		e, ok := n.Ast.(ast.Expr)
		if !ok || n.Kind != core.NAst {
			continue
		}
		reach := g.Reach([]int{n.ID}, nil, nil)
		hits := false
		for _, d := range decisive {
			if reach[d] {
				hits = true
			}
		}
		if !hits {
			continue
		}
		ast.Inspect(e, func(x ast.Node) bool {
			switch b := x.(type) {
			case *ast.BinaryExpr:
				switch b.Op {
				case token.EQL, token.NEQ, token.LSS, token.LEQ, token.GTR, token.GEQ, token.LAND, token.LOR:
				default:
					bad = "condition `" + exprStr(e) + "` on the way to an Inside/Void return uses arithmetic (" + b.Op.String() + "): the ordering table is not exhaustive"
				}
			case *ast.CallExpr:
				if fn := core.Callee(info, b); fn != nil && c31OrderOnlyHelper(c, fn) {
					return false // a sibling predicate that itself only compares (e.g. empty(): head == tail)
				}
				bad = "condition `" + exprStr(e) + "` on the way to an Inside/Void return calls a function: the ordering table is not exhaustive"
			}
			return true
		})
	}
	if len(decisive) == 0 {
		bad = "no return of Inside/Void found"
	}
	r.Check(bad == "", "C31.R1", "compare|order-only", pos, "Inside/Void are decided by comparisons only, so the 13 weak orderings are exhaustive", bad)
}

func valNameOfConst(c *Ctx, v constant.Value) string {
	for _, n := range []string{"slCompareVoid", "slCompareBefore", "slCompareInside", "slCompareAfter"} {
		if k := c.P.Const(c31Pkg, n); k != nil && constant.Compare(k.Val(), token.EQL, v) {
			return n
		}
	}
	return ""
}

func c31Push(c *Ctx, push, cmp, purge *core.FuncInfo, kc map[string]*types.Const) {
	r := c.R
	pos := c.P.Pos(push.Decl.Pos())
	var dom []absint.Val
	for _, n := range []string{"slCompareVoid", "slCompareBefore", "slCompareInside", "slCompareAfter"} {
		dom = append(dom, absint.ConstOf(kc[n]))
	}
	dom = append(dom, absint.IntVal(77, kc["slCompareVoid"].Type()))
	t := absint.Tabulate(absint.Config{P: c.P, Dims: []absint.Dim{{Key: "$cmp", Domain: dom}},
		WatchStore: func(p string) bool { return strings.HasPrefix(p, "$recv.") },
		OnCall: func(in *absint.Interp, st *absint.State, call *ast.CallExpr, fn *types.Func, recv absint.Val, args []absint.Val) (absint.Val, bool) {
			switch fn {
			case cmp.Obj:
				v, _ := st.Dim("$cmp")
				a := ""
				if len(args) == 1 {
					a = args[0].String()
				}
				st.Emit("classify " + recv.String() + " " + a)
				return v, true
			case purge.Obj:
				st.Emit("purge")
				return absint.Tuple{}, true
			}
			return nil, false
		}}, push)
	if tableProblems(c, "C31.R2", "Push|table", pos, t) {
		return
	}
	r.Cells += len(t.Rows)
	const seq = "ref($p0.SequenceNumber)"
	want := map[string][]string{
		"slCompareVoid":   {"$recv.filled.head = " + seq, "$recv.filled.tail = ⊤"},
		"slCompareBefore": {"$recv.filled.head = " + seq},
		"slCompareAfter":  {"$recv.filled.tail = ⊤"},
		"slCompareInside": {},
	}
	for _, row := range t.Rows {
		name := ""
		for n, k := range kc {
			if kv, ok := row.Valuation["$cmp"].(absint.Const); ok && constant.Compare(kv.V, token.EQL, k.Val()) {
				name = n
			}
		}
		key := "Push|classified=" + name
		if name == "" {
			r.Info("C31.R2", "Push|classified=undeclared", pos, "undeclared classifier value: "+outcomesStr(row.Outcomes))
			continue
		}
		bad := ""
		if len(row.Outcomes) != 1 {
			bad = "not a single outcome: " + outcomesStr(row.Outcomes)
		} else {
			tr := row.Outcomes[0].Trace
			exp := append([]string{"$recv.buffer[] = ref($p0)", "classify ref($recv.filled) " + seq}, want[name]...)
			exp = append(exp, "purge")
			if strings.Join(tr, "; ") != strings.Join(exp, "; ") {
				bad = "effects [" + strings.Join(tr, "; ") + "], expected [" + strings.Join(exp, "; ") + "]"
			}
		}
		r.Check(bad == "", "C31.R2", key, pos, "filled interval updated as the classification requires", bad)
	}
	// the values the table shows as ⊤ / elided: buffer index is the packet's sequence number; every tail assignment is seq + 1
	g := c.P.GraphOf(push)
	info := g.Info
	fSeq := c.P.FieldOfExternal("github.com/pion/rtp", "Header", "SequenceNumber")
	fBuf := c.mustField("C31.R2", c31Pkg, "SampleBuilder", "buffer")
	fFilled := c.mustField("C31.R2", c31Pkg, "SampleBuilder", "filled")
	fTail := c.mustField("C31.R2", c31Pkg, "sampleSequenceLocation", "tail")
	if fSeq == nil || fBuf == nil || fFilled == nil || fTail == nil {
		if fSeq == nil {
			r.Fail("C31.R2", "anchor:rtp.Header.SequenceNumber", "-", "pion/rtp Header.SequenceNumber no longer resolves")
		}
		return
	}
	param := push.Obj.Type().(*types.Signature).Params().At(0)
	isSeqOfParam := func(e ast.Expr) bool {
		se, ok := ast.Unparen(e).(*ast.SelectorExpr)
		return ok && core.FieldOf(info, se) == fSeq && core.VarOf(info, se.X) == param
	}
	stores := g.FindNodes(func(n ast.Node) bool {
		as, ok := n.(*ast.AssignStmt)
		if !ok || len(as.Lhs) != 1 || len(as.Rhs) != 1 {
			return false
		}
		ix, ok := ast.Unparen(as.Lhs[0]).(*ast.IndexExpr)
		return ok && core.FieldOf(info, ix.X) == fBuf && isSeqOfParam(ix.Index) && core.VarOf(info, as.Rhs[0]) == param
	})
	r.Check(len(stores) > 0 && g.Dominated(g.Exit, core.NodeSet(stores)), "C31.R2", "Push|buffer[seq]=packet", pos,
		"the packet is stored at its own sequence number on every path", "Push does not store the packet at buffer[packet.SequenceNumber] on every path")
	nt := 0
	ast.Inspect(push.Decl.Body, func(n ast.Node) bool {
		as, ok := n.(*ast.AssignStmt)
		if !ok {
			return true
		}
		for i, l := range as.Lhs {
			se, ok := ast.Unparen(l).(*ast.SelectorExpr)
			if !ok || core.FieldOf(info, se) != fTail || core.FieldOf(info, se.X) != fFilled {
				continue
			}
			nt++
			ok2 := false
			if len(as.Rhs) == len(as.Lhs) {
				if be, isB := ast.Unparen(as.Rhs[i]).(*ast.BinaryExpr); isB && be.Op == token.ADD {
					if tv := info.Types[be.Y]; tv.Value != nil && constant.Compare(tv.Value, token.EQL, constant.MakeInt64(1)) && isSeqOfParam(be.X) {
						ok2 = true
					}
					if tv := info.Types[be.X]; tv.Value != nil && constant.Compare(tv.Value, token.EQL, constant.MakeInt64(1)) && isSeqOfParam(be.Y) {
						ok2 = true
					}
				}
			}
			r.Check(ok2, "C31.R2", sprintf("Push|filled.tail-assign#%d", nt), c.P.Pos(as.Pos()), "tail = packet.SequenceNumber + 1 (half-open interval)", "filled.tail is assigned something other than packet.SequenceNumber + 1: the interval no longer ends one past the newest packet")
		}
		return true
	})
}

func c31Queue(c *Ctx, pop, build *core.FuncInfo) {
	r := c.R
	pos := c.P.Pos(pop.Decl.Pos())
	t := absint.Tabulate(absint.Config{P: c.P, Dims: []absint.Dim{{Key: "$recv.prepared.empty()", Domain: []absint.Val{absint.BoolVal(false), absint.BoolVal(true)}}},
		WatchStore: func(p string) bool { return strings.HasPrefix(p, "$recv.") },
		OnCall: func(in *absint.Interp, st *absint.State, call *ast.CallExpr, fn *types.Func, recv absint.Val, args []absint.Val) (absint.Val, bool) {
			if fn == build.Obj {
				st.Emit("build")
				return absint.Top{}, true
			}
			return nil, false
		}}, pop)
	if !tableProblems(c, "C31.R3", "Pop|table", pos, t) {
		r.Cells += len(t.Rows)
		for _, row := range t.Rows {
			empty := row.Get("$recv.prepared.empty()") == "true"
			key := sprintf("Pop|empty=%v", empty)
			bad := ""
			if len(row.Outcomes) != 1 || len(row.Outcomes[0].Results) != 1 {
				bad = "not a single outcome: " + outcomesStr(row.Outcomes)
			} else {
				o := row.Outcomes[0]
				tr := strings.Join(o.Trace, "; ")
				if empty {
					if _, isNil := o.Results[0].(absint.Nil); !isNil || tr != "build" {
						bad = "an empty queue must yield nil and leave the queue untouched, got " + o.String()
					}
				} else {
					clears := 0
					adv := 0
					for _, ev := range o.Trace {
						if strings.HasPrefix(ev, "$recv.preparedSamples[] = nil") {
							clears++
						}
						if strings.HasPrefix(ev, "$recv.prepared.head") {
							adv++
						}
					}
					if clears != 1 || adv != 1 || len(o.Trace) != 3 || o.Trace[0] != "build" {
						bad = "a non-empty queue must hand out one sample: clear the slot once and advance head once, got [" + tr + "]"
					}
					if _, isNil := o.Results[0].(absint.Nil); isNil {
						bad = "returns nil although a prepared sample is queued"
					}
				}
			}
			r.Check(bad == "", "C31.R3", key, pos, "FIFO hand-out", bad)
		}
	}
	// syntactic details the trace elides: slot index is prepared.head; head advances by ++; returned value is the loaded slot
	info := pop.Pkg.TypesInfo
	fPrep := c.mustField("C31.R3", c31Pkg, "SampleBuilder", "prepared")
	fSamples := c.mustField("C31.R3", c31Pkg, "SampleBuilder", "preparedSamples")
	fHead := c.mustField("C31.R3", c31Pkg, "sampleSequenceLocation", "head")
	fTail := c.mustField("C31.R3", c31Pkg, "sampleSequenceLocation", "tail")
	if fPrep == nil || fSamples == nil || fHead == nil || fTail == nil {
		return
	}
	isPrep := func(e ast.Expr, f *types.Var) bool {
		se, ok := ast.Unparen(e).(*ast.SelectorExpr)
		return ok && core.FieldOf(info, se) == f && core.FieldOf(info, se.X) == fPrep
	}
	isSlot := func(e ast.Expr, idx *types.Var) bool {
		ix, ok := ast.Unparen(e).(*ast.IndexExpr)
		return ok && core.FieldOf(info, ix.X) == fSamples && isPrep(ix.Index, idx)
	}
	// who writes
	type site struct{ fn, what string }
	var sites []site
	for _, fi := range c.P.AllFuncs() {
		if fi.Pkg != pop.Pkg || fi.Decl.Body == nil {
			continue
		}
		ast.Inspect(fi.Decl.Body, func(n ast.Node) bool {
			switch s := n.(type) {
			case *ast.IncDecStmt:
				for _, f := range []*types.Var{fHead, fTail} {
					if isPrep(s.X, f) {
						sites = append(sites, site{fi.Name(), "prepared." + f.Name() + s.Tok.String()})
					}
				}
			case *ast.AssignStmt:
				for i, l := range s.Lhs {
					for _, f := range []*types.Var{fHead, fTail} {
						if isPrep(l, f) {
							sites = append(sites, site{fi.Name(), "prepared." + f.Name() + " assigned"})
						}
					}
					if core.FieldOf(info, l) == fPrep {
						sites = append(sites, site{fi.Name(), "prepared assigned"})
					}
					if ix, ok := ast.Unparen(l).(*ast.IndexExpr); ok && core.FieldOf(info, ix.X) == fSamples {
						what := "preparedSamples[?] assigned"
						switch {
						case isSlot(l, fHead) && len(s.Rhs) == len(s.Lhs) && core.IsNilIdent(info, s.Rhs[i]):
							what = "preparedSamples[prepared.head] = nil"
						case isSlot(l, fTail):
							what = "preparedSamples[prepared.tail] = sample"
						}
						sites = append(sites, site{fi.Name(), what})
					}
				}
			}
			return true
		})
	}
	allowed := map[site]bool{
		{pop.Name(), "prepared.head++"}:                           true,
		{pop.Name(), "preparedSamples[prepared.head] = nil"}:      true,
		{build.Name(), "prepared.tail++"}:                         true,
		{build.Name(), "preparedSamples[prepared.tail] = sample"}: true,
	}
	seen := map[site]bool{}
	for _, s := range sites {
		seen[s] = true
		r.Check(allowed[s], "C31.R3", "queue-write|"+s.what+"|in:"+s.fn, "-", "queue written by its owner with FIFO discipline", "the prepared-sample queue is written in a way that breaks FIFO/exactly-once hand-out: "+s.what+" in "+s.fn)
	}
	for s := range allowed {
		if !seen[s] {
			r.Fail("C31.R3", "queue-write|"+s.what+"|in:"+s.fn, "-", "expected FIFO operation is missing: "+s.what+" in "+s.fn)
		}
	}
	// Pop returns the value loaded from the head slot
	okRet := false
	ast.Inspect(pop.Decl.Body, func(n ast.Node) bool {
		as, ok := n.(*ast.AssignStmt)
		if !ok {
			return true
		}
		for i, rhs := range as.Rhs {
			if len(as.Rhs) == len(as.Lhs) && isSlot(rhs, fHead) {
				if v := core.VarOf(info, as.Lhs[i]); v != nil {
					// that variable is what every non-nil return yields
					g := c.P.GraphOf(pop)
					all := true
					n := 0
					for _, id := range g.Returns() {
						rs := g.Nodes[id].Ast.(*ast.ReturnStmt)
						if len(rs.Results) == 1 && !core.IsNilIdent(info, rs.Results[0]) {
							n++
							if core.VarOf(info, rs.Results[0]) != v {
								all = false
							}
						}
					}
					okRet = all && n > 0
				}
			}
		}
		return true
	})
	r.Check(okRet, "C31.R3", "Pop|returns-head-slot", pos, "the sample returned is the one stored at prepared.head", "Pop does not return the sample stored at preparedSamples[prepared.head]")
}

func c31Build(c *Ctx, build *core.FuncInfo) {
	r := c.R
	g := c.P.GraphOf(build)
	info := g.Info
	pos := c.P.Pos(build.Decl.Pos())
	fActive := c.mustField("C31.R4", c31Pkg, "SampleBuilder", "active")
	fPrep := c.mustField("C31.R4", c31Pkg, "SampleBuilder", "prepared")
	fSamples := c.mustField("C31.R4", c31Pkg, "SampleBuilder", "preparedSamples")
	fBuf := c.mustField("C31.R5", c31Pkg, "SampleBuilder", "buffer")
	fHead := c.mustField("C31.R4", c31Pkg, "sampleSequenceLocation", "head")
	fTail := c.mustField("C31.R4", c31Pkg, "sampleSequenceLocation", "tail")
	purgeLoc := c.mustFunc("C31.R4", c31Pkg, "SampleBuilder.purgeConsumedLocation")
	isHead := c.P.InterfaceMethod("github.com/pion/rtp", "Depacketizer", "IsPartitionHead")
	isTail := c.P.InterfaceMethod("github.com/pion/rtp", "Depacketizer", "IsPartitionTail")
	unmarshal := c.P.InterfaceMethod("github.com/pion/rtp", "Depacketizer", "Unmarshal")
	fTS := c.P.FieldOfExternal("github.com/pion/rtp", "Header", "Timestamp")
	fPayload := c.P.FieldOfExternal("github.com/pion/rtp", "Packet", "Payload")
	if fActive == nil || fPrep == nil || fSamples == nil || fBuf == nil || fHead == nil || fTail == nil || purgeLoc == nil {
		return
	}
	if isHead == nil || isTail == nil || unmarshal == nil || fTS == nil || fPayload == nil {
		r.Fail("C31.R5", "anchor:github.com/pion/rtp.Depacketizer", "-", "pion/rtp Depacketizer methods / Header.Timestamp / Packet.Payload no longer resolve")
		return
	}
	// the local run variable: a sampleSequenceLocation-typed local whose tail is assigned
	locT := c.P.Named(c31Pkg, "sampleSequenceLocation")
	var consume *types.Var
	ast.Inspect(build.Decl.Body, func(n ast.Node) bool {
		if as, ok := n.(*ast.AssignStmt); ok {
			for _, l := range as.Lhs {
				if se, ok := ast.Unparen(l).(*ast.SelectorExpr); ok && core.FieldOf(info, se) == fTail {
					if v := core.VarOf(info, se.X); v != nil && types.Identical(v.Type(), locT) {
						consume = v
					}
				}
			}
		}
		return true
	})
	if consume == nil {
		r.Undecided("C31.R6", "buildSample|run-variable", pos, "no local sampleSequenceLocation whose tail is assigned (the run being consumed) found")
		return
	}
	selOf := func(e ast.Expr, base func(ast.Expr) bool, f *types.Var) bool {
		se, ok := ast.Unparen(e).(*ast.SelectorExpr)
		return ok && core.FieldOf(info, se) == f && base(se.X)
	}
	isConsume := func(e ast.Expr) bool { return core.VarOf(info, e) == consume }
	isActive := func(e ast.Expr) bool { return core.FieldOf(info, e) == fActive }
	isPrepared := func(e ast.Expr) bool { return core.FieldOf(info, e) == fPrep }

	// ---- R4
	var sampleRets []int
	for _, id := range g.Returns() {
		rs := g.Nodes[id].Ast.(*ast.ReturnStmt)
		if len(rs.Results) == 1 && !core.IsNilIdent(info, rs.Results[0]) {
			sampleRets = append(sampleRets, id)
		}
	}
	consumeNodes := g.FindNodes(func(n ast.Node) bool {
		as, ok := n.(*ast.AssignStmt)
		if !ok || len(as.Lhs) != 1 || len(as.Rhs) != 1 {
			return false
		}
		return selOf(as.Lhs[0], isActive, fHead) && selOf(as.Rhs[0], isConsume, fTail)
	})
	storeNodes := g.FindNodes(func(n ast.Node) bool {
		as, ok := n.(*ast.AssignStmt)
		if !ok || len(as.Lhs) != 1 {
			return false
		}
		ix, ok := ast.Unparen(as.Lhs[0]).(*ast.IndexExpr)
		return ok && core.FieldOf(info, ix.X) == fSamples && selOf(ix.Index, isPrepared, fTail)
	})
	advNodes := g.FindNodes(func(n ast.Node) bool {
		s, ok := n.(*ast.IncDecStmt)
		return ok && s.Tok == token.INC && selOf(s.X, isPrepared, fTail)
	})
	purgeNodes := g.FindNodes(func(n ast.Node) bool {
		call, ok := n.(*ast.CallExpr)
		return ok && core.Callee(info, call) == purgeLoc.Obj && len(call.Args) == 2 && isConsume(call.Args[0])
	})
	if len(sampleRets) == 0 {
		r.Undecided("C31.R4", "buildSample|sample-returns", pos, "no return of a non-nil sample found")
	}
	for i, ret := range sampleRets {
		key := sprintf("buildSample|emit#%d", i)
		p := c.P.Pos(g.PosOf(ret))
		why := ""
		switch {
		case !g.Dominated(ret, core.NodeSet(consumeNodes)):
			why = "a sample is returned on a path that did not advance active.head to consume.tail: its packets can contribute to a second sample"
		case !g.Dominated(ret, core.NodeSet(storeNodes)) || !g.Dominated(ret, core.NodeSet(advNodes)):
			why = "a sample is returned on a path that did not append it to the prepared queue (store at prepared.tail and tail++)"
		case !g.Dominated(ret, core.NodeSet(purgeNodes)):
			why = "a sample is returned on a path that did not purge the consumed run"
		}
		if why == "" {
			// store before advance: the tail++ must not be able to reach the store
			for _, a := range advNodes {
				reach := g.Reach([]int{a}, nil, nil)
				for _, s := range storeNodes {
					if reach[s] && s != a {
						why = "prepared.tail is advanced before the sample is stored at it (the slot handed out is empty, the sample lands one slot late)"
					}
				}
			}
		}
		r.Check(why == "", "C31.R4", key, p, "run consumed, sample queued then tail advanced, run purged", why)
	}
	r.Check(len(consumeNodes) > 0, "C31.R4", "buildSample|consume-assign", pos, "active.head = consume.tail present", "buildSample never advances active.head to consume.tail")
	r.Check(len(storeNodes) == 1 && len(advNodes) == 1, "C31.R4", "buildSample|queue-append", pos, "one store at prepared.tail and one tail++", sprintf("expected one store at prepared.tail and one tail++, found %d/%d", len(storeNodes), len(advNodes)))

	// ---- R5: sample literal gated by IsPartitionHead(buffer[consume.head].Payload) == true
	sampleT := c.P.Named("pkg/media", "Sample")
	lits := g.FindNodes(func(n ast.Node) bool {
		cl, ok := n.(*ast.CompositeLit)
		return ok && sampleT != nil && types.Identical(info.TypeOf(cl), sampleT)
	})
	headEdges := map[core.EdgeRef]bool{}
	for _, n := range g.Nodes {
		for i, e := range n.Succs {
			if e.Cond == nil || e.Tag != nil || e.Branch == 0 {
				continue
			}
			call, truth := c31StripNot(e.Cond, e.Branch == 1)
			ce, ok := call.(*ast.CallExpr)
			if !ok || core.Callee(info, ce) != isHead.Origin() || !truth || len(ce.Args) != 1 {
				continue
			}
			// argument: s.buffer[consume.head].Payload
			if se, ok := ast.Unparen(ce.Args[0]).(*ast.SelectorExpr); ok && core.FieldOf(info, se) == fPayload {
				if ix, ok := ast.Unparen(se.X).(*ast.IndexExpr); ok && core.FieldOf(info, ix.X) == fBuf && selOf(ix.Index, isConsume, fHead) {
					headEdges[core.EdgeRef{From: n.ID, Idx: i}] = true
				}
			}
		}
	}
	if len(lits) == 0 {
		r.Undecided("C31.R5", "buildSample|sample-literal", pos, "no media.Sample literal found")
	}
	for i, l := range lits {
		r.Check(len(headEdges) > 0 && g.DominatedByEdges(l, headEdges), "C31.R5", sprintf("buildSample|sample-literal#%d|partition-head-gate", i), c.P.Pos(g.PosOf(l)),
			"a sample is only built when the run starts at a partition head", "a sample can be built although IsPartitionHead(buffer[consume.head].Payload) was not established: samples that do not start at a partition head are emitted")
	}

	// ---- R6: run boundaries
	type tailAssign struct {
		node int
		kind string // "i+1", "i", other
		iv   *types.Var
	}
	var tas []tailAssign
	for _, n := range g.Nodes {
		as, ok := n.Ast.(*ast.AssignStmt)
		if !ok || len(as.Lhs) != 1 || len(as.Rhs) != 1 || !selOf(as.Lhs[0], isConsume, fTail) {
			continue
		}
		rhs := ast.Unparen(as.Rhs[0])
		ta := tailAssign{node: n.ID, kind: "other:" + exprStr(rhs)}
		if v := core.VarOf(info, rhs); v != nil {
			ta.kind, ta.iv = "i", v
		} else if be, ok := rhs.(*ast.BinaryExpr); ok && be.Op == token.ADD {
			if tv := info.Types[be.Y]; tv.Value != nil && constant.Compare(tv.Value, token.EQL, constant.MakeInt64(1)) {
				if v := core.VarOf(info, be.X); v != nil {
					ta.kind, ta.iv = "i+1", v
				}
			}
		}
		tas = append(tas, ta)
	}
	live := g.Live()
	nTA := 0
	for _, ta := range tas {
		if !live[ta.node] {
			continue
		}
		nTA++
		p := c.P.Pos(g.PosOf(ta.node))
		idxIs := func(e ast.Expr, v *types.Var) bool { // s.buffer[v]
			ix, ok := ast.Unparen(e).(*ast.IndexExpr)
			return ok && core.FieldOf(info, ix.X) == fBuf && core.VarOf(info, ix.Index) == v
		}
		edges := map[core.EdgeRef]bool{}
		switch ta.kind {
		case "i+1":
			for _, n := range g.Nodes {
				for i, e := range n.Succs {
					if e.Cond == nil || e.Tag != nil || e.Branch == 0 {
						continue
					}
					x, truth := c31StripNot(e.Cond, e.Branch == 1)
					ce, ok := x.(*ast.CallExpr)
					if !ok || !truth || core.Callee(info, ce) != isTail.Origin() || len(ce.Args) != 2 {
						continue
					}
					if se, ok := ast.Unparen(ce.Args[1]).(*ast.SelectorExpr); ok && core.FieldOf(info, se) == fPayload && idxIs(se.X, ta.iv) {
						edges[core.EdgeRef{From: n.ID, Idx: i}] = true
					}
				}
			}
			r.Check(len(edges) > 0 && g.DominatedByEdges(ta.node, edges), "C31.R6", "buildSample|run-end-inclusive", p,
				"run ends after packet i only when packet i is a partition tail", "consume.tail = i+1 is reachable without IsPartitionTail(buffer[i]) being true: a run is cut after a packet that is not a partition tail")
		case "i":
			for _, n := range g.Nodes {
				for i, e := range n.Succs {
					if e.Cond == nil || e.Tag != nil || e.Branch != 1 {
						continue
					}
					if c31HasTimestampNeq(info, e.Cond, fTS, func(x ast.Expr) bool { return idxIs(x, ta.iv) }) {
						edges[core.EdgeRef{From: n.ID, Idx: i}] = true
					}
				}
			}
			r.Check(len(edges) > 0 && g.DominatedByEdges(ta.node, edges), "C31.R6", "buildSample|run-end-exclusive", p,
				"run ends before packet i only when packet i's timestamp differs", "consume.tail = i is reachable without buffer[i].Timestamp != head timestamp being established: packets of one timestamp are split, or packets of different timestamps merged")
		default:
			r.Undecided("C31.R6", "buildSample|run-end|"+ta.kind, p, "unrecognised run boundary assignment")
		}
	}
	if nTA == 0 {
		r.Undecided("C31.R6", "buildSample|run-end", pos, "no assignment to the run's tail found")
	}
	// run start: every assignment to consume.head is active.head
	nh := 0
	ast.Inspect(build.Decl.Body, func(n ast.Node) bool {
		as, ok := n.(*ast.AssignStmt)
		if !ok || len(as.Lhs) != 1 || len(as.Rhs) != 1 || !selOf(as.Lhs[0], isConsume, fHead) {
			return true
		}
		nh++
		r.Check(selOf(as.Rhs[0], isActive, fHead), "C31.R6", sprintf("buildSample|run-start#%d", nh), c.P.Pos(as.Pos()), "run starts at active.head", "a run starts somewhere other than active.head (packets skipped or re-used)")
		return true
	})
	// concatenation loop: for i := consume.head; i != consume.tail; i++ { ... Unmarshal(buffer[i].Payload) ... append(data, payload...) }
	var loop *ast.ForStmt
	ast.Inspect(build.Decl.Body, func(n ast.Node) bool {
		fs, ok := n.(*ast.ForStmt)
		if !ok {
			return true
		}
		has := false
		ast.Inspect(fs.Body, func(m ast.Node) bool {
			if ce, ok := m.(*ast.CallExpr); ok && core.Callee(info, ce) == unmarshal.Origin() {
				has = true
			}
			return true
		})
		if has {
			loop = fs
		}
		return true
	})
	key := "buildSample|concat-loop"
	if loop == nil {
		r.Undecided("C31.R6", key, pos, "no loop calling Depacketizer.Unmarshal found")
		return
	}
	why := ""
	var iv *types.Var
	if as, ok := loop.Init.(*ast.AssignStmt); ok && len(as.Lhs) == 1 && len(as.Rhs) == 1 && selOf(as.Rhs[0], isConsume, fHead) {
		iv = core.VarOf(info, as.Lhs[0])
	} else {
		why = "loop does not start at consume.head"
	}
	if be, ok := loop.Cond.(*ast.BinaryExpr); !ok || be.Op != token.NEQ || core.VarOf(info, be.X) != iv || !selOf(be.Y, isConsume, fTail) {
		if why == "" {
			why = "loop condition is not i != consume.tail"
		}
	}
	if inc, ok := loop.Post.(*ast.IncDecStmt); !ok || inc.Tok != token.INC || core.VarOf(info, inc.X) != iv {
		if why == "" {
			why = "loop does not advance by i++"
		}
	}
	// body: payload var from Unmarshal(s.buffer[i].Payload); append(data, payload...) unconditional at top level; no continue/break
	var payloadVar *types.Var
	appended := false
	for _, s := range loop.Body.List {
		as, ok := s.(*ast.AssignStmt)
		if !ok {
			continue
		}
		if len(as.Rhs) == 1 {
			if ce, ok := ast.Unparen(as.Rhs[0]).(*ast.CallExpr); ok {
				if core.Callee(info, ce) == unmarshal.Origin() && len(ce.Args) == 1 && len(as.Lhs) >= 1 {
					if se, ok := ast.Unparen(ce.Args[0]).(*ast.SelectorExpr); ok && core.FieldOf(info, se) == fPayload {
						if ix, ok := ast.Unparen(se.X).(*ast.IndexExpr); ok && core.FieldOf(info, ix.X) == fBuf && core.VarOf(info, ix.Index) == iv {
							payloadVar = core.VarOf(info, as.Lhs[0])
						}
					}
				}
				if id, ok := ce.Fun.(*ast.Ident); ok && id.Name == "append" && len(ce.Args) == 2 && ce.Ellipsis.IsValid() && payloadVar != nil &&
					core.VarOf(info, ce.Args[1]) == payloadVar && core.VarOf(info, ce.Args[0]) == core.VarOf(info, as.Lhs[0]) {
					appended = true
				}
			}
		}
	}
	if why == "" && payloadVar == nil {
		why = "the loop does not depacketize buffer[i].Payload"
	}
	if why == "" && !appended {
		why = "the depacketized payload is not appended unconditionally to the sample data"
	}
	ast.Inspect(loop.Body, func(n ast.Node) bool {
		if bs, ok := n.(*ast.BranchStmt); ok && (bs.Tok == token.CONTINUE || bs.Tok == token.BREAK || bs.Tok == token.GOTO) {
			why = "the concatenation loop can skip a packet or stop early (" + bs.Tok.String() + ")"
		}
		return true
	})
	r.Check(why == "", "C31.R6", key, c.P.Pos(loop.Pos()), "payloads of exactly the run are concatenated in sequence order", "concatenation loop: "+why)
}

// c31StripNot removes leading negations; truth is the truth value of the stripped expression on the edge.
func c31StripNot(e ast.Expr, truth bool) (ast.Expr, bool) {
	for {
		e = ast.Unparen(e)
		u, ok := e.(*ast.UnaryExpr)
		if !ok || u.Op != token.NOT {
			return e, truth
		}
		e, truth = u.X, !truth
	}
}

// c31HasTimestampNeq: the condition (a conjunction on its true edge) contains `<buf[i]>.Timestamp != x` or `x != <buf[i]>.Timestamp`.
func c31HasTimestampNeq(info *types.Info, cond ast.Expr, fTS *types.Var, isBufI func(ast.Expr) bool) bool {
	cond = ast.Unparen(cond)
	be, ok := cond.(*ast.BinaryExpr)
	if !ok {
		return false
	}
	switch be.Op {
	case token.LAND:
		return c31HasTimestampNeq(info, be.X, fTS, isBufI) || c31HasTimestampNeq(info, be.Y, fTS, isBufI)
	case token.NEQ:
		for _, side := range []ast.Expr{be.X, be.Y} {
			if se, ok := ast.Unparen(side).(*ast.SelectorExpr); ok && core.FieldOf(info, se) == fTS && isBufI(se.X) {
				return true
			}
		}
	}
	return false
}

// c31R7: the modular distances used by the too-old test and by count(): seqnumDistance (16 bit)
// and timestampDistance (32 bit) are evaluated over boundary values of both operands and must equal
// the circular distance min(d, 2^n - d), d = (x - y) mod 2^n - in particular across the wrap-around.
// (Added after seed C31-m1: a plain unsigned |x-y| reports ~2^32 for timestamps that straddle the
// wrap, the buffer is judged too old and in-flight packets are force-dropped.)
func c31R7(c *Ctx, rule string) {
	r := c.R
	for _, spec := range []struct {
		fn   string
		bits uint
		t    types.Type
	}{{"seqnumDistance", 16, types.Typ[types.Uint16]}, {"timestampDistance", 32, types.Typ[types.Uint32]}} {
		fi := c.mustFunc(rule, c31Pkg, spec.fn)
		if fi == nil {
			continue
		}
		pos := c.P.Pos(fi.Decl.Pos())
		mod := int64(1) << spec.bits
		half := mod / 2
		vals := []int64{0, 1, 2, 1000, half - 1, half, half + 1, mod - 1000, mod - 2, mod - 1}
		bad, undec := "", ""
		for _, x := range vals {
			for _, y := range vals {
				ev := &core.Evaluator{P: c.P, Fuel: 200}
				out := ev.Call(fi, core.EVal{}, []core.EVal{core.EInt(x, spec.t), core.EInt(y, spec.t)})
				r.Cells++
				if out.Kind != "return" || len(out.Results) != 1 {
					undec = sprintf("%s(%d, %d): %s %s", spec.fn, x, y, out.Kind, out.Why)
					continue
				}
				got, ok := out.Results[0].Int64()
				if !ok {
					undec = sprintf("%s(%d, %d): result %s", spec.fn, x, y, out.Results[0])
					continue
				}
				d := ((x-y)%mod + mod) % mod
				want := d
				if mod-d < d {
					want = mod - d
				}
				if got != want {
					bad = sprintf("%s(%d, %d) = %d, the circular distance modulo 2^%d is %d", spec.fn, x, y, got, spec.bits, want)
				}
			}
		}
		key := spec.fn + "|circular-distance"
		if undec != "" && bad == "" {
			r.Undecided(rule, key, pos, "could not evaluate: "+undec)
			continue
		}
		r.Check(bad == "", rule, key, pos, sprintf("equals min(d, 2^%d-d) on %d boundary pairs", spec.bits, len(vals)*len(vals)), bad+": values on either side of the wrap-around are reported far apart")
	}
}

// c31R8: a packet is force-dropped (active.head++ together with droppedPackets++) only when it is
// the OLDEST buffered packet, i.e. on the edge where active.head == filled.head holds. Dropping at any
// other position discards a packet that is still waiting for its predecessors within maxLate.
// (Added after seed C31-m2: the `active.head == filled.head` conjunct was removed from purgeBuffers.)
func c31R8(c *Ctx, rule string) {
	r := c.R
	fi := c.mustFunc(rule, c31Pkg, "SampleBuilder.purgeBuffers")
	fActive := c.mustField(rule, c31Pkg, "SampleBuilder", "active")
	fFilled := c.mustField(rule, c31Pkg, "SampleBuilder", "filled")
	fDropped := c.mustField(rule, c31Pkg, "SampleBuilder", "droppedPackets")
	fHead := c.mustField(rule, c31Pkg, "sampleSequenceLocation", "head")
	if fi == nil || fActive == nil || fFilled == nil || fDropped == nil || fHead == nil {
		return
	}
	g := c.P.GraphOf(fi)
	info := g.Info
	isHeadOf := func(e ast.Expr, owner *types.Var) bool {
		se, ok := ast.Unparen(e).(*ast.SelectorExpr)
		return ok && core.FieldOf(info, se) == fHead && core.FieldOf(info, se.X) == owner
	}
	sameHead := map[core.EdgeRef]bool{}
	for _, n := range g.Nodes {
		for i, e := range n.Succs {
			if e.Cond == nil || e.Tag != nil || e.Branch == 0 {
				continue
			}
			var facts []ast.Expr
			var collect func(x ast.Expr, truth bool)
			collect = func(x ast.Expr, truth bool) {
				x = ast.Unparen(x)
				switch b := x.(type) {
				case *ast.UnaryExpr:
					if b.Op == token.NOT {
						collect(b.X, !truth)
					}
				case *ast.BinaryExpr:
					switch {
					case b.Op == token.LAND && truth:
						collect(b.X, true)
						collect(b.Y, true)
					case b.Op == token.LOR && !truth:
						collect(b.X, false)
						collect(b.Y, false)
					case (b.Op == token.EQL && truth) || (b.Op == token.NEQ && !truth):
						facts = append(facts, b)
					}
				}
			}
			collect(e.Cond, e.Branch == 1)
			for _, f := range facts {
				b := f.(*ast.BinaryExpr)
				if (isHeadOf(b.X, fActive) && isHeadOf(b.Y, fFilled)) || (isHeadOf(b.X, fFilled) && isHeadOf(b.Y, fActive)) {
					sameHead[core.EdgeRef{From: n.ID, Idx: i}] = true
				}
			}
		}
	}
	n := 0
	for _, nd := range g.Nodes {
		inc, ok := nd.Ast.(*ast.IncDecStmt)
		if !ok || inc.Tok != token.INC {
			continue
		}
		what := ""
		switch {
		case isHeadOf(inc.X, fActive):
			what = "active.head++"
		case core.FieldOf(info, inc.X) == fDropped:
			what = "droppedPackets++"
		default:
			continue
		}
		n++
		r.Check(len(sameHead) > 0 && g.DominatedByEdges(nd.ID, sameHead), rule, "purgeBuffers|forced-drop|"+what, c.P.Pos(inc.Pos()),
			"only the oldest buffered packet (active.head == filled.head) is force-dropped",
			what+" in purgeBuffers is reachable without active.head == filled.head having been established: a packet that is not the oldest one in the buffer is dropped although its predecessors may still arrive within maxLate")
	}
	if n == 0 {
		r.Undecided(rule, "purgeBuffers|forced-drop", c.P.Pos(fi.Decl.Pos()), "no forced-drop statements (active.head++ / droppedPackets++) found")
	}
}

// c31OrderOnlyHelper: a same-package function whose body is `return <expr>` statements made of comparisons and logical
// connectives over variables / fields only (no arithmetic, no calls): interpreting it keeps the order abstraction exact.
func c31OrderOnlyHelper(c *Ctx, fn *types.Func) bool {
	fi := c.P.DeclOf(fn)
	if fi == nil || fi.Decl == nil || fi.Decl.Body == nil {
		return false
	}
	ok := true
	for _, st := range fi.Decl.Body.List {
		ret, isRet := st.(*ast.ReturnStmt)
		if !isRet {
			return false
		}
		for _, e := range ret.Results {
			ast.Inspect(e, func(x ast.Node) bool {
				switch b := x.(type) {
				case *ast.BinaryExpr:
					switch b.Op {
					case token.EQL, token.NEQ, token.LSS, token.LEQ, token.GTR, token.GEQ, token.LAND, token.LOR:
					default:
						ok = false
					}
				case *ast.CallExpr:
					ok = false
				}
				return true
			})
		}
	}
	return ok
}
