package props

import (
	"go/ast"
	"go/types"
	"strings"

	"verif/checker/absint"
	"verif/checker/core"
)

func init() {
	register(&Prop{
		ID:        "C01",
		Engine:    "e1tab+e2cfg",
		Technique: "finite-domain abstract interpretation: exhaustive decision table of checkNextSignalingState and effect table of setDescription compared with the JSEP/W3C edge set; who-may-write sweep",
		LevelText: "Exhaustive finite tables extracted from the source (every (state, next, op, type) tuple; every (op, type, state, closed) effect row) compared with the transcribed JSEP/W3C transition table, plus a who-may-write rule and getter tables; an induction over accepted edges gives 'pending empty whenever stable'. Decides the state machine for all call sequences because every sequence is a walk over the tabulated edges.",
		LevelNote: "Trusted: the transcription of the JSEP/W3C table in the checker, soundness of the abstract interpreter for the supported fragment (anything else is UNDECIDED), and that untracked code does not write the tracked fields (checked by the who-may-write rule). Does not decide SDP-content equality of descriptions or handler delivery order.",
		DesignRef: "DESIGN.md §5 C01",
		Run:       runC01,
	})
}

// jsepEdge is one edge of the JSEP/W3C signaling state machine (W3C webrtc §4.3.1 / RFC 8829 §3.2).
type jsepEdge struct{ cur, op, typ, next string }

// jsepEdges: the edges a conforming implementation may accept. The last four
// are the rollback edges; the W3C "re-offer in the same have-*-offer state"
// self-edges are allowed too (pion does not implement them; accepting a subset
// is what the property's 'only if' asks).
var jsepEdges = []jsepEdge{
	{"SignalingStateStable", "stateChangeOpSetLocal", "SDPTypeOffer", "SignalingStateHaveLocalOffer"},
	{"SignalingStateStable", "stateChangeOpSetRemote", "SDPTypeOffer", "SignalingStateHaveRemoteOffer"},
	{"SignalingStateHaveLocalOffer", "stateChangeOpSetRemote", "SDPTypeAnswer", "SignalingStateStable"},
	{"SignalingStateHaveLocalOffer", "stateChangeOpSetRemote", "SDPTypePranswer", "SignalingStateHaveRemotePranswer"},
	{"SignalingStateHaveRemotePranswer", "stateChangeOpSetRemote", "SDPTypeAnswer", "SignalingStateStable"},
	{"SignalingStateHaveRemotePranswer", "stateChangeOpSetRemote", "SDPTypePranswer", "SignalingStateHaveRemotePranswer"},
	{"SignalingStateHaveRemoteOffer", "stateChangeOpSetLocal", "SDPTypeAnswer", "SignalingStateStable"},
	{"SignalingStateHaveRemoteOffer", "stateChangeOpSetLocal", "SDPTypePranswer", "SignalingStateHaveLocalPranswer"},
	{"SignalingStateHaveLocalPranswer", "stateChangeOpSetLocal", "SDPTypeAnswer", "SignalingStateStable"},
	{"SignalingStateHaveLocalPranswer", "stateChangeOpSetLocal", "SDPTypePranswer", "SignalingStateHaveLocalPranswer"},
	{"SignalingStateHaveLocalOffer", "stateChangeOpSetLocal", "SDPTypeOffer", "SignalingStateHaveLocalOffer"},
	{"SignalingStateHaveRemoteOffer", "stateChangeOpSetRemote", "SDPTypeOffer", "SignalingStateHaveRemoteOffer"},
	// rollback
	{"SignalingStateHaveLocalOffer", "stateChangeOpSetLocal", "SDPTypeRollback", "SignalingStateStable"},
	{"SignalingStateHaveLocalPranswer", "stateChangeOpSetLocal", "SDPTypeRollback", "SignalingStateStable"},
	{"SignalingStateHaveRemoteOffer", "stateChangeOpSetRemote", "SDPTypeRollback", "SignalingStateStable"},
	{"SignalingStateHaveRemotePranswer", "stateChangeOpSetRemote", "SDPTypeRollback", "SignalingStateStable"},
}

// jsepTarget: the state a successful (op, type) call must propose, independent of the current state where unique.
func jsepTargets(op, typ string) map[string]bool {
	out := map[string]bool{}
	for _, e := range jsepEdges {
		if e.op == op && e.typ == typ {
			out[e.next] = true
		}
	}
	return out
}

func inJSEP(cur, op, typ, next string) bool {
	for _, e := range jsepEdges {
		if e.cur == cur && e.op == op && e.typ == typ && e.next == next {
			return true
		}
	}
	return false
}

// enumDomain returns the declared constants of a named type plus one undeclared value.
func enumDomain(c *Ctx, rule, rel, typ string, other int64) ([]absint.Val, bool) {
	cs := c.P.ConstsOfType(rel, typ)
	if len(cs) == 0 {
		c.R.Fail(rule, "anchor:"+rel+"/"+typ, "-", "no constants of the enumerated type found (fails closed)")
		return nil, false
	}
	var out []absint.Val
	for _, k := range cs {
		out = append(out, absint.ConstOf(k))
	}
	out = append(out, absint.IntVal(other, cs[0].Type()))
	return out, true
}

func tableProblems(c *Ctx, rule, key, pos string, t *absint.Table) bool {
	if len(t.Problems) > 0 {
		c.R.Undecided(rule, key, pos, "abstract interpreter met unsupported constructs: "+strings.Join(t.Problems, "; "))
		return true
	}
	return false
}

func runC01(c *Ctx) {
	r := c.R
	r.Exhaustive = true
	r.Rule("C01.R1", "checkNextSignalingState, tabulated over every (cur, next, op, sdpType) incl. one undeclared value per enum: a tuple is accepted (state, nil) only if it is an edge of the JSEP/W3C table and the returned state is the proposed one; every other tuple returns (cur, non-nil error)", 800)
	r.Rule("C01.R2", "setDescription, tabulated over (op, sd.Type, current state, closed): on success it proposes the JSEP target for (op, type), stores exactly the JSEP bookkeeping into the four description fields (reading pending before clearing it), sets the signaling state to the accepted state and emits one state-change event; on failure it writes nothing", 200)
	r.Rule("C01.R3", "who-may-write: description fields, signalingState.Set, onSignalingStateChange only in setDescription (Set(Closed) in close)", 17)
	r.Rule("C01.R4", "LocalDescription/RemoteDescription return the pending description when non-nil, else the current one; Pending*/Current* getters return nil iff the field is nil", 8)
	r.Rule("C01.R5", "induction: NewPeerConnection starts stable with no pending descriptions and every accepted edge into stable clears both pending fields", 3)
	r.NotCovered = append(r.NotCovered, "SDP-content level equality of stored descriptions", "delivery order of OnSignalingStateChange handlers (one goroutine per event)", "the 'if' direction: pion accepts a strict subset of the JSEP edges (rollback edges are C02's subject)")
	r.Trusted = append(r.Trusted, "transcribed JSEP/W3C §4.3.1 edge table (props/c01.go jsepEdges)", "absint soundness on the supported fragment")

	check := c.mustFunc("C01.R1", "", "checkNextSignalingState")
	setDesc := c.mustFunc("C01.R2", "", "PeerConnection.setDescription")
	if check == nil || setDesc == nil {
		return
	}
	states, ok1 := enumDomain(c, "C01.R1", "", "SignalingState", 77)
	ops, ok2 := enumDomain(c, "C01.R1", "", "stateChangeOp", 0)
	typs, ok3 := enumDomain(c, "C01.R1", "", "SDPType", 77)
	if !ok1 || !ok2 || !ok3 {
		return
	}

	// ---- R1
	dims := []absint.Dim{{Key: "$p0", Domain: states}, {Key: "$p1", Domain: states}, {Key: "$p2", Domain: ops}, {Key: "$p3", Domain: typs}}
	t := absint.Tabulate(absint.Config{P: c.P, Dims: dims}, check)
	pos := c.P.Pos(check.Decl.Pos())
	if tableProblems(c, "C01.R1", "checkNextSignalingState|table", pos, t) {
		return
	}
	r.Cells += len(t.Rows)
	accepted := map[string]bool{}
	for _, row := range t.Rows {
		cur, next, op, typ := row.Get("$p0"), row.Get("$p1"), row.Get("$p2"), row.Get("$p3")
		key := sprintf("checkNextSignalingState|cell|%s,%s,%s->%s", cur, op, typ, next)
		if len(row.Outcomes) != 1 || len(row.Outcomes[0].Results) != 2 || row.Outcomes[0].Panic != "" {
			r.Undecided("C01.R1", key, pos, "cell does not have a single definite outcome: "+outcomesStr(row.Outcomes))
			continue
		}
		res := row.Outcomes[0].Results
		switch e := res[1].(type) {
		case absint.Nil:
			switch {
			case !inJSEP(cur, op, typ, next):
				r.Fail("C01.R1", key, pos, sprintf("accepted transition %s --%s(%s)--> %s is not an edge of the JSEP/W3C signaling state machine", cur, op, typ, next))
			case res[0].String() != next:
				r.Fail("C01.R1", key, pos, sprintf("accepted transition returns state %s instead of the proposed %s", res[0], next))
			default:
				accepted[cur+"|"+op+"|"+typ+"|"+next] = true
				r.OK("C01.R1", key, pos, "accepted; is a JSEP edge")
			}
		case absint.NonNil:
			if res[0].String() != cur {
				r.Fail("C01.R1", key, pos, sprintf("rejected transition returns state %s instead of leaving %s", res[0], cur))
			} else {
				r.OK("C01.R1", key, pos, "rejected with "+e.Desc)
			}
		default:
			r.Undecided("C01.R1", key, pos, "error result not decided: "+res[1].String())
		}
	}
	r.Extra["accepted_edges"] = sortedKeys(accepted)

	// ---- R2
	c01R2(c, setDesc, check, states, ops, typs, accepted)

	// ---- R3 (shared with C03.R3)
	whoMayWriteNegotiationState(c, "C01.R3", setDesc)

	// ---- R4
	c01R4(c)
}

func outcomesStr(os []absint.Outcome) string {
	var s []string
	for _, o := range os {
		s = append(s, o.String())
	}
	return strings.Join(s, " || ")
}

func sortedKeys(m map[string]bool) []string {
	var s []string
	for k := range m {
		s = append(s, k)
	}
	sortStrings(s)
	return s
}

// descEffects replays "path = value" events of a trace into the final values of the description fields.
type descEffects struct {
	fields   map[string]string // field -> last value written
	set      []string          // values passed to signalingState.Set
	events   []string          // values passed to onSignalingStateChange
	negReset bool              // isNegotiationNeeded.Store(false)
	negCall  int               // onNegotiationNeeded calls
	order    []string
}

func parseDescTrace(trace []string) descEffects {
	d := descEffects{fields: map[string]string{}}
	for _, ev := range trace {
		d.order = append(d.order, ev)
		switch {
		case strings.HasPrefix(ev, "$recv.") && strings.Contains(ev, " = "):
			parts := strings.SplitN(strings.TrimPrefix(ev, "$recv."), " = ", 2)
			d.fields[parts[0]] = parts[1]
		case strings.HasPrefix(ev, "Set("):
			d.set = append(d.set, strings.TrimSuffix(strings.TrimPrefix(ev, "Set("), ")"))
		case strings.HasPrefix(ev, "onSignalingStateChange("):
			d.events = append(d.events, strings.TrimSuffix(strings.TrimPrefix(ev, "onSignalingStateChange("), ")"))
		case ev == "$recv.isNegotiationNeeded.Store(false)":
			d.negReset = true
		case strings.HasPrefix(ev, "onNegotiationNeeded("):
			d.negCall++
		}
	}
	return d
}

// jsepBookkeeping: the description-field values JSEP prescribes after a successful (op, type).
// "sd" is the description being applied; "old:<f>" is the value field f had before the call.
func jsepBookkeeping(op, typ string) map[string]string {
	local := op == "stateChangeOpSetLocal"
	mine, other := "Remote", "Local"
	if local {
		mine, other = "Local", "Remote"
	}
	switch typ {
	case "SDPTypeOffer", "SDPTypePranswer":
		return map[string]string{"pending" + mine + "Description": "ref($p0)"}
	case "SDPTypeAnswer":
		return map[string]string{
			"current" + mine + "Description":  "ref($p0)",
			"current" + other + "Description": "ref($recv.pending" + other + "Description)",
			"pending" + mine + "Description":  "nil",
			"pending" + other + "Description": "nil",
		}
	}
	return nil
}

func c01R2(c *Ctx, setDesc, check *core.FuncInfo, states, ops, typs []absint.Val, accepted map[string]bool) {
	r := c.R
	pos := c.P.Pos(setDesc.Decl.Pos())
	setFn := c.mustFunc("C01.R2", "", "SignalingState.Set")
	onChange := c.mustFunc("C01.R2", "", "PeerConnection.onSignalingStateChange")
	onNeg := c.mustFunc("C01.R2", "", "PeerConnection.onNegotiationNeeded")
	newSDPType := c.mustFunc("C01.R2", "", "NewSDPType")
	sdpString := c.mustFunc("C01.R2", "", "SDPType.String")
	if setFn == nil || onChange == nil || onNeg == nil || newSDPType == nil || sdpString == nil {
		return
	}
	inline := map[*types.Func]bool{check.Obj: true, newSDPType.Obj: true, sdpString.Obj: true}
	watchFields := map[string]bool{"$recv.pendingLocalDescription": true, "$recv.pendingRemoteDescription": true,
		"$recv.currentLocalDescription": true, "$recv.currentRemoteDescription": true, "$recv.isNegotiationNeeded.Load()": true}
	dims := []absint.Dim{
		{Key: "$p1", Domain: ops},
		{Key: "$p0.Type", Domain: typs},
		{Key: "$recv.SignalingState()", Domain: states},
		{Key: "$recv.isClosed.Load()", Domain: []absint.Val{absint.BoolVal(false), absint.BoolVal(true)}},
	}
	cfg := absint.Config{
		P: c.P, Dims: dims,
		Inline:     func(fn *types.Func) bool { return inline[fn] },
		WatchStore: func(p string) bool { return watchFields[p] },
		OnCall: func(in *absint.Interp, st *absint.State, call *ast.CallExpr, fn *types.Func, recv absint.Val, args []absint.Val) (absint.Val, bool) {
			switch fn {
			case setFn.Obj:
				if rr, ok := recv.(absint.Ref); ok && len(args) == 1 {
					st.SetPath(rr.Path+".Get()", args[0])
					st.Emit("Set(" + args[0].String() + ")")
					return absint.Tuple{}, true
				}
			case onChange.Obj:
				st.Emit("onSignalingStateChange(" + args[0].String() + ")")
				return absint.Tuple{}, true
			case onNeg.Obj:
				st.Emit("onNegotiationNeeded()")
				return absint.Tuple{}, true
			}
			return nil, false
		},
	}
	t := absint.Tabulate(cfg, setDesc)
	if tableProblems(c, "C01.R2", "setDescription|table", pos, t) {
		return
	}
	r.Cells += len(t.Rows)
	r.Saw("NewSDPType", "SDPType.String")
	intoStableClears := true
	for _, row := range t.Rows {
		op, typ, cur, closed := row.Get("$p1"), row.Get("$p0.Type"), row.Get("$recv.SignalingState()"), row.Get("$recv.isClosed.Load()")
		key := sprintf("setDescription|row|%s(%s) from %s closed=%s", op, typ, cur, closed)
		if len(row.Outcomes) == 0 {
			r.Undecided("C01.R2", key, pos, "no outcome computed")
			continue
		}
		bad := ""
		nSuccess := 0
		for _, o := range row.Outcomes {
			if o.Panic != "" || len(o.Results) != 1 {
				bad = "indefinite outcome " + o.String()
				break
			}
			eff := parseDescTrace(o.Trace)
			switch o.Results[0].(type) {
			case absint.Nil:
				nSuccess++
				if closed == "true" {
					bad = "succeeds on a closed connection"
					break
				}
				if len(eff.set) != 1 || len(eff.events) != 1 || eff.set[0] != eff.events[0] {
					bad = sprintf("success must set the state once and emit one matching event; Set=%v events=%v", eff.set, eff.events)
					break
				}
				next := eff.set[0]
				if !accepted[cur+"|"+op+"|"+typ+"|"+next] {
					bad = sprintf("success moves %s --%s(%s)--> %s, which checkNextSignalingState's table does not accept / JSEP does not allow", cur, op, typ, next)
					break
				}
				if !jsepTargets(op, typ)[next] {
					bad = sprintf("proposes %s for %s(%s); JSEP target differs", next, op, typ)
					break
				}
				if typ != "SDPTypeRollback" {
					want := jsepBookkeeping(op, typ)
					if !sameMap(want, eff.fields) {
						bad = sprintf("description bookkeeping %v differs from JSEP's %v", eff.fields, want)
						break
					}
				}
				if next == "SignalingStateStable" {
					for _, f := range []string{"pendingLocalDescription", "pendingRemoteDescription"} {
						if v, written := eff.fields[f]; typ != "SDPTypeRollback" && (!written || v != "nil") {
							intoStableClears = false
						}
					}
					if !eff.negReset || eff.negCall != 1 {
						bad = "reaching stable must reset the negotiation-needed flag and re-run the negotiation-needed check exactly once"
					}
				} else if eff.negReset || eff.negCall != 0 {
					bad = "negotiation-needed flag touched although the new state is not stable"
				}
			case absint.NonNil:
				if len(eff.fields) > 0 || len(eff.set) > 0 || len(eff.events) > 0 || eff.negReset {
					bad = sprintf("failing outcome has effects: %v", o.Trace)
				}
			default:
				bad = "error result not decided: " + o.String()
			}
			if bad != "" {
				break
			}
		}
		// an accepted edge must be able to succeed (not only fail)
		if bad == "" && closed == "false" {
			acceptable := false
			for k := range accepted {
				if strings.HasPrefix(k, cur+"|"+op+"|"+typ+"|") {
					acceptable = true
				}
			}
			if acceptable && nSuccess == 0 {
				bad = "transition accepted by the table can never succeed in setDescription"
			}
		}
		if bad != "" {
			r.Fail("C01.R2", key, pos, bad+"  [outcomes: "+outcomesStr(row.Outcomes)+"]")
		} else {
			r.OK("C01.R2", key, pos, sprintf("%d outcome(s), %d successful", len(row.Outcomes), nSuccess))
		}
	}

	// ---- R5 induction base + step
	r.Check(intoStableClears, "C01.R5", "setDescription|edges-into-stable-clear-pending", pos,
		"every successful non-rollback row whose new state is stable writes nil to both pending fields", "some successful edge into stable leaves a pending description set")
	c01R5Base(c)
}

func sameMap(a, b map[string]string) bool {
	if len(a) != len(b) {
		return false
	}
	for k, v := range a {
		if b[k] != v {
			return false
		}
	}
	return true
}

// c01R5Base: the constructor starts in stable with the pending fields unset.
func c01R5Base(c *Ctx) {
	r := c.R
	ctor := c.mustFunc("C01.R5", "", "API.NewPeerConnection")
	stable := c.mustConst("C01.R5", "", "SignalingStateStable")
	if ctor == nil || stable == nil {
		return
	}
	info := ctor.Pkg.TypesInfo
	pcType := c.P.Named("", "PeerConnection")
	found := false
	ast.Inspect(ctor.Decl.Body, func(n ast.Node) bool {
		cl, ok := n.(*ast.CompositeLit)
		if !ok || pcType == nil || !types.Identical(info.TypeOf(cl), pcType) {
			return true
		}
		found = true
		pos := c.P.Pos(cl.Pos())
		var sigVal string
		pendingSet := ""
		for _, el := range cl.Elts {
			kv, ok := el.(*ast.KeyValueExpr)
			if !ok {
				continue
			}
			name := exprStr(kv.Key)
			switch name {
			case "signalingState":
				if tv := info.Types[kv.Value]; tv.Value != nil {
					sigVal = tv.Value.String()
				} else {
					sigVal = "non-constant"
				}
			case "pendingLocalDescription", "pendingRemoteDescription":
				if !core.IsNilIdent(info, kv.Value) {
					pendingSet = name
				}
			}
		}
		r.Check(sigVal == stable.Val().String(), "C01.R5", "NewPeerConnection|initial-state", pos, "initial signaling state is the constant Stable", "initial signaling state is "+sigVal+", not Stable")
		r.Check(pendingSet == "", "C01.R5", "NewPeerConnection|initial-pending", pos, "pending descriptions start nil", "constructor sets "+pendingSet)
		return true
	})
	if !found {
		r.Undecided("C01.R5", "NewPeerConnection|literal", c.P.Pos(ctor.Decl.Pos()), "PeerConnection composite literal not found in the constructor")
	}
}

func c01R4(c *Ctx) {
	r := c.R
	nilOrNot := func(desc string) []absint.Val { return []absint.Val{absint.Nil{}, absint.NonNil{Desc: desc}} }
	// LocalDescription over the two accessor results
	if fi := c.mustFunc("C01.R4", "", "PeerConnection.LocalDescription"); fi != nil {
		dims := []absint.Dim{{Key: "$recv.PendingLocalDescription()", Domain: nilOrNot("pending")}, {Key: "$recv.CurrentLocalDescription()", Domain: nilOrNot("current")}}
		t := absint.Tabulate(absint.Config{P: c.P, Dims: dims}, fi)
		judgeGetter(c, fi, t, "$recv.PendingLocalDescription()", "$recv.CurrentLocalDescription()")
	}
	if fi := c.mustFunc("C01.R4", "", "PeerConnection.RemoteDescription"); fi != nil {
		dims := []absint.Dim{{Key: "$recv.pendingRemoteDescription", Domain: nilOrNot("pending")}, {Key: "$recv.currentRemoteDescription", Domain: nilOrNot("current")}}
		t := absint.Tabulate(absint.Config{P: c.P, Dims: dims}, fi)
		judgeGetter(c, fi, t, "$recv.pendingRemoteDescription", "$recv.currentRemoteDescription")
	}
	// field getters: nil iff the field is nil
	pop := c.P.Func("", "populateLocalCandidates")
	for _, g := range []struct{ fn, field string }{
		{"PeerConnection.PendingLocalDescription", "$recv.pendingLocalDescription"},
		{"PeerConnection.CurrentLocalDescription", "$recv.currentLocalDescription"},
		{"PeerConnection.PendingRemoteDescription", "$recv.pendingRemoteDescription"},
		{"PeerConnection.CurrentRemoteDescription", "$recv.currentRemoteDescription"},
	} {
		fi := c.mustFunc("C01.R4", "", g.fn)
		if fi == nil {
			continue
		}
		dims := []absint.Dim{{Key: g.field, Domain: nilOrNot("field")}}
		t := absint.Tabulate(absint.Config{P: c.P, Dims: dims, Inline: func(fn *types.Func) bool { return pop != nil && fn == pop.Obj }}, fi)
		pos := c.P.Pos(fi.Decl.Pos())
		if tableProblems(c, "C01.R4", fi.Name()+"|table", pos, t) {
			continue
		}
		r.Cells += len(t.Rows)
		ok := true
		detail := ""
		for _, row := range t.Rows {
			for _, o := range row.Outcomes {
				if len(o.Results) != 1 {
					ok = false
					continue
				}
				_, resNil := o.Results[0].(absint.Nil)
				_, resNN := o.Results[0].(absint.NonNil)
				fieldNil := row.Get(g.field) == "nil"
				if fieldNil != resNil || (!fieldNil && !resNN) {
					ok = false
					detail = sprintf("field %s=%s but getter returns %s", g.field, row.Get(g.field), o.Results[0])
				}
			}
		}
		r.Check(ok, "C01.R4", fi.Name()+"|nil-iff-field-nil", pos, "returns nil exactly when the field is nil", detail)
	}
}

func judgeGetter(c *Ctx, fi *core.FuncInfo, t *absint.Table, pendingKey, currentKey string) {
	r := c.R
	pos := c.P.Pos(fi.Decl.Pos())
	if tableProblems(c, "C01.R4", fi.Name()+"|table", pos, t) {
		return
	}
	r.Cells += len(t.Rows)
	for _, row := range t.Rows {
		p, cur := row.Get(pendingKey), row.Get(currentKey)
		key := sprintf("%s|pending=%s,current=%s", fi.Name(), p, cur)
		want := cur
		if p != "nil" {
			want = p
		}
		ok := len(row.Outcomes) == 1 && len(row.Outcomes[0].Results) == 1 && row.Outcomes[0].Results[0].String() == want
		r.Check(ok, "C01.R4", key, pos, "returns "+want, "expected "+want+", got "+outcomesStr(row.Outcomes))
	}
}
