package props

import (
	"go/ast"
	"go/constant"
	"go/token"
	"go/types"
	"regexp"
	"sort"
	"strings"
	"time"

	"verif/checker/absint"
	"verif/checker/core"
)

func init() {
	register(&Prop{
		ID:        "C25",
		Engine:    "e5sync+e1tab+e2cfg",
		Technique: "sibling agreement of the four ToICE config literals against a key->field oracle, dispatch coverage ICECandidateType -> ice constructor and its inverse table convertTypeFromICE (tabulated), field coverage of newICECandidateFromICE against a field->getter oracle, valuation-restricted path rule for the ufrag filter of AddICECandidate",
		LevelText: "Structural necessary conditions of the candidate round trip: every ICECandidate type is converted by the matching pion/ice constructor, every config key the constructor needs is filled from the one ICECandidate field that newICECandidateFromICE fills from the corresponding ice getter (so no attribute is dropped or crossed in either direction), extensions are exported on every successful conversion, convertTypeFromICE is the inverse of the dispatch on all declared ice types; and in AddICECandidate, under the valuation 'candidate carries a ufrag extension that matches no ufrag of the remote description', the call that hands the candidate to the ICE transport is unreachable and the only reachable exits return nil.",
		LevelNote: "Trusted: pion/ice's constructors, getters, Marshal/UnmarshalCandidate (NewCandidateX(...).Type() == CandidateTypeX); absint soundness. The hand-written extension splitter and TCP type of non-host candidates (no config field in pion/ice) are not decided.",
		DesignRef: "DESIGN.md §5 C25",
		Run:       runC25,
	})
}

const c25IcePath = "github.com/pion/ice/v4"

// c25Arms: ICECandidateType constant -> pion/ice constructor and the ice.CandidateType it produces.
var c25Arms = []struct{ typ, ctor, iceType string }{
	{"ICECandidateTypeHost", "NewCandidateHost", "CandidateTypeHost"},
	{"ICECandidateTypeSrflx", "NewCandidateServerReflexive", "CandidateTypeServerReflexive"},
	{"ICECandidateTypePrflx", "NewCandidatePeerReflexive", "CandidateTypePeerReflexive"},
	{"ICECandidateTypeRelay", "NewCandidateRelay", "CandidateTypeRelay"},
}

// c25KeyField: config key -> the ICECandidate field it must be filled from.
var c25KeyField = map[string]string{
	"CandidateID": "statsID", "Network": "Protocol", "Address": "Address", "Port": "Port", "Component": "Component",
	"Foundation": "Foundation", "Priority": "Priority", "RelAddr": "RelatedAddress", "RelPort": "RelatedPort", "TCPType": "TCPType",
}

var c25CoreKeys = []string{"CandidateID", "Network", "Address", "Port", "Component", "Foundation", "Priority"}

// c25FieldGetter: ICECandidate field -> what newICECandidateFromICE must fill it from
// (root getter of the ice.Candidate parameter, optional sub-selection; or a parameter).
var c25FieldGetter = map[string]struct{ getter, sub, param string }{
	"statsID":        {getter: "ID"},
	"Foundation":     {getter: "Foundation"},
	"Priority":       {getter: "Priority"},
	"Address":        {getter: "Address"},
	"Protocol":       {getter: "NetworkType"},
	"Port":           {getter: "Port"},
	"Typ":            {getter: "Type"},
	"Component":      {getter: "Component"},
	"RelatedAddress": {getter: "RelatedAddress", sub: "Address"},
	"RelatedPort":    {getter: "RelatedAddress", sub: "Port"},
	"TCPType":        {getter: "TCPType"},
	"SDPMid":         {param: "$p1"},
	"SDPMLineIndex":  {param: "$p2"},
	"extensions":     {getter: "Extensions"},
}

var (
	c25RecvFieldRe = regexp.MustCompile(`\$recv\.([A-Za-z_][A-Za-z0-9_]*)`)
	c25GetterRe    = regexp.MustCompile(`\$p0\.([A-Za-z_][A-Za-z0-9_]*)\(\)((?:\.[A-Za-z_][A-Za-z0-9_]*)?)`)
	c25ParamRe     = regexp.MustCompile(`\$p[0-9]+`)
)

func runC25(c *Ctx) {
	r := c.R
	t0 := time.Now()
	defer func() { r.Extra["rule_eval_s"] = time.Since(t0).Seconds() }()
	r.Rule("C25.R1", "ToICE: every ICECandidateType constant is converted by the matching pion/ice constructor; each of the four config literals fills CandidateID, Network, Address, Port, Component, Foundation, Priority (host: also TCPType; the others: also RelAddr, RelPort) from exactly the ICECandidate field of the oracle; the siblings fill a shared key with the same expression; unknown types return an error; extensions are exported on every successful conversion", 52)
	r.Rule("C25.R2", "newICECandidateFromICE fills every field of ICECandidate from the matching ice.Candidate getter (or parameter); convertTypeFromICE, tabulated over all declared ice.CandidateType values and one undeclared value, is the inverse of ToICE's dispatch and rejects everything else", 20)
	r.Rule("C25.R5", "AddICECandidate hands ice.UnmarshalCandidate the init's Candidate text with only the literal \"candidate:\" prefix removed: no other strings-package call (TrimSpace, Fields, ...) on the way (a leading space is pion's form of an empty foundation)", 1)
	r.Rule("C25.R3", "AddICECandidate: under the valuation (ufrag extension present, descriptionContainsUfrag false) the call AddRemoteCandidate(<non-nil>) is unreachable and every exit reachable after the lookup returns a nil error; under the other valuations the call is reachable; the looked-up extension key is \"ufrag\" and it is compared with the applied remote description; descriptionContainsUfrag returns true only on the true edge of an equality between an ice-ufrag attribute and its argument", 6)
	r.NotCovered = append(r.NotCovered,
		"the hand-written extension splitter exportExtensions / setExtensions (string algorithm)",
		"pion/ice Marshal/UnmarshalCandidate and the constructors' own validation",
		"TCP type of non-host candidates: pion/ice's srflx/prflx/relay configs have no TCPType field, so ToICE cannot carry it (library API)",
		"ICEProtocol String()/NewICEProtocol inverse pair (enum tables are C38's subject)")
	r.Trusted = append(r.Trusted, "pion/ice: NewCandidateX(cfg).Type() == CandidateTypeX and getters return the config values", "absint soundness on the supported fragment")

	c25R1(c)
	c25R2(c)
	c25R3(c)
	c25R5(c) // c25c.go
}

func c25IceScope(c *Ctx, rule string) *types.Scope {
	root := c.P.Pkg("")
	if ip := root.Imports[c25IcePath]; ip != nil && ip.Types != nil {
		return ip.Types.Scope()
	}
	c.R.Fail(rule, "anchor:import "+c25IcePath, "-", "the root package no longer imports pion/ice v4 (fails closed)")
	return nil
}

// ---------------------------------------------------------------- R1

func c25R1(c *Ctx) {
	r := c.R
	fi := c.mustFunc("C25.R1", "", "ICECandidate.ToICE")
	typF := c.mustField("C25.R1", "", "ICECandidate", "Typ")
	export := c.mustFunc("C25.R1", "", "ICECandidate.exportExtensions")
	if fi == nil || typF == nil || export == nil {
		return
	}
	g := c.P.GraphOf(fi)
	info := g.Info
	pos := c.P.Pos(fi.Decl.Pos())

	// All pion/ice constructor calls of ToICE.
	type arm struct {
		ctor  string
		call  *ast.CallExpr
		node  int
		keys  map[string]string // key -> canon
		extra []string
	}
	var ctorCalls []*arm
	for _, n := range g.Nodes {
		if n.Ast == nil {
			continue
		}
		for _, call := range core.CallsIn(n.Ast) {
			if fn := core.Callee(info, call); fn != nil && fn.Pkg() != nil && fn.Pkg().Path() == c25IcePath && strings.HasPrefix(fn.Name(), "NewCandidate") {
				ctorCalls = append(ctorCalls, &arm{ctor: fn.Name(), call: call, node: n.ID})
			}
		}
	}
	// Dispatch: for every declared ICECandidateType value K (and one undeclared value) explore ToICE under the
	// valuation c.Typ == K. Works for a tag switch, a tagless switch and an if-chain alike.
	declared := c.P.ConstsOfType("", "ICECandidateType")
	if len(declared) < 5 {
		r.Fail("C25.R1", "anchor:/ICECandidateType", "-", sprintf("expected at least 5 ICECandidateType constants, found %d", len(declared)))
		return
	}
	typVal := func(e ast.Expr) (constant.Value, bool) {
		tv, ok := info.Types[e]
		if ok && tv.Value != nil && types.Identical(tv.Type, declared[0].Type()) {
			return tv.Value, true
		}
		return nil, false
	}
	want := map[string]string{}
	for _, a := range c25Arms {
		want[a.typ] = a.ctor
	}
	arms := map[string]*arm{} // by type constant name
	type kase struct {
		name string
		val  constant.Value
	}
	var kases []kase
	for _, k := range declared {
		kases = append(kases, kase{k.Name(), k.Val()})
	}
	kases = append(kases, kase{"OTHER(77)", constant.MakeInt64(77)})
	if c.Thorough {
		for _, v := range []int64{-1, int64(len(declared)), int64(len(declared)) + 1, 255, 1 << 20} {
			kases = append(kases, kase{sprintf("OTHER(%d)", v), constant.MakeInt64(v)})
		}
	}
	for _, k := range kases {
		eq := func(x, y ast.Expr) int {
			if core.FieldOf(info, y) == typF {
				x, y = y, x
			}
			if core.FieldOf(info, x) != typF {
				return core.Unknown
			}
			if v, ok := typVal(y); ok {
				if constant.Compare(v, token.EQL, k.val) {
					return core.True
				}
				return core.False
			}
			return core.Unknown
		}
		ex := g.Explore(core.ExploreOpts{
			Atoms: func(e ast.Expr) (int, bool) {
				if b, ok := e.(*ast.BinaryExpr); ok && (b.Op == token.EQL || b.Op == token.NEQ) {
					if v := eq(b.X, b.Y); v != core.Unknown {
						if b.Op == token.NEQ {
							v = 1 - v
						}
						return v, true
					}
				}
				return 0, false
			},
			Tag: func(tag, ce ast.Expr) int { return eq(tag, ce) },
		})
		r.Cells += len(ex.Reached)
		var reached []*arm
		for _, a := range ctorCalls {
			if ex.Has(a.node) {
				reached = append(reached, a)
			}
		}
		key := "ToICE|dispatch|" + k.name
		ctor, judged := want[k.name]
		switch {
		case !judged && (constant.Sign(k.val) == 0 || strings.HasPrefix(k.name, "OTHER")):
			// the zero value (Unknown) and undeclared values must not be converted, and must end in an error
			bad := ""
			if len(reached) > 0 {
				bad = "a value without concrete candidate type is converted by ice." + reached[0].ctor
			}
			for id := range ex.Reached {
				if ret, ok := g.Nodes[id].Ast.(*ast.ReturnStmt); ok && bad == "" {
					if len(ret.Results) != 2 || !core.CertainlyNonNil(info, ret.Results[1]) {
						bad = "the exit at " + c.P.Pos(ret.Pos()) + " is reachable and does not return a freshly built error"
					}
				}
			}
			r.Check(bad == "", "C25.R1", key, pos, "not converted; ends in an error", bad)
		case !judged:
			r.Undecided("C25.R1", key, pos, "a new ICECandidateType constant has no oracle entry: add its constructor to the table")
		case len(reached) == 0:
			r.Fail("C25.R1", key, pos, "no pion/ice constructor is reachable for this candidate type: such candidates cannot be signaled")
		case len(reached) > 1:
			r.Undecided("C25.R1", key, pos, sprintf("%d pion/ice constructor calls are reachable for this candidate type", len(reached)))
		default:
			a := reached[0]
			arms[k.name] = a
			r.Check(a.ctor == ctor, "C25.R1", key, c.P.Pos(a.call.Pos()), "converted by ice."+ctor, sprintf("converted by ice.%s, expected ice.%s: the candidate changes type on the round trip", a.ctor, ctor))
		}
	}

	// config literals
	recvFields := func(canon string) []string {
		set := map[string]bool{}
		for _, m := range c25RecvFieldRe.FindAllStringSubmatch(canon, -1) {
			set[m[1]] = true
		}
		var out []string
		for k := range set {
			out = append(out, k)
		}
		sort.Strings(out)
		return out
	}
	var armNames []string
	for n := range arms {
		armNames = append(armNames, n)
	}
	sort.Strings(armNames)
	for _, name := range armNames {
		a := arms[name]
		if a.call == nil || a.node < 0 || len(a.call.Args) != 1 {
			continue
		}
		lit, at, lg, subst := c25ConfigLiteral(c, g, a.node, a.call.Args[0])
		if lit == nil {
			r.Undecided("C25.R1", "ToICE|"+name+"|config", c.P.Pos(a.call.Pos()), "cannot resolve the config argument to one composite literal")
			continue
		}
		a.keys = map[string]string{}
		for _, el := range lit.Elts {
			kv, ok := el.(*ast.KeyValueExpr)
			if !ok {
				r.Undecided("C25.R1", "ToICE|"+name+"|config", c.P.Pos(lit.Pos()), "positional composite literal: keys cannot be attributed")
				continue
			}
			k := exprStr(kv.Key)
			a.keys[k] = subst(lg.Canon(at, kv.Value))
			if _, known := c25KeyField[k]; !known {
				a.extra = append(a.extra, k)
			}
		}
		required := append([]string{}, c25CoreKeys...)
		if name == "ICECandidateTypeHost" {
			required = append(required, "TCPType")
		} else {
			required = append(required, "RelAddr", "RelPort")
		}
		for _, k := range required {
			key := "ToICE|" + name + "|" + k
			cn, present := a.keys[k]
			if !present {
				r.Fail("C25.R1", key, c.P.Pos(lit.Pos()), sprintf("the %s config does not set %s: the attribute is lost when the candidate is converted to its signaling form", a.ctor, k))
				continue
			}
			fs := recvFields(cn)
			r.Check(len(fs) == 1 && fs[0] == c25KeyField[k], "C25.R1", key, c.P.Pos(lit.Pos()), k+" <- "+cn,
				sprintf("%s is filled from %s (fields %v), expected exactly the candidate's %s field", k, cn, fs, c25KeyField[k]))
			r.Cells++
		}
		for _, k := range a.extra {
			r.Info("C25.R1", "ToICE|"+name+"|"+k, c.P.Pos(lit.Pos()), "config key without oracle, not judged: "+k+" <- "+a.keys[k])
		}
	}
	// sibling agreement per key
	var keys []string
	for k := range c25KeyField {
		keys = append(keys, k)
	}
	sort.Strings(keys)
	for _, k := range keys {
		forms := map[string][]string{}
		for _, name := range armNames {
			if cn, ok := arms[name].keys[k]; ok {
				forms[cn] = append(forms[cn], name)
			}
		}
		if len(forms) == 0 {
			continue
		}
		var desc []string
		for cn, who := range forms {
			desc = append(desc, strings.Join(who, ",")+": "+cn)
		}
		sort.Strings(desc)
		r.Check(len(forms) == 1, "C25.R1", "ToICE|sibling|"+k, pos, "all arms compute "+k+" the same way: "+desc[0],
			"the arms disagree on how "+k+" is computed: "+strings.Join(desc, " | "))
	}

	// extensions exported on every successful conversion
	errVar, candVar := c25NamedResults(g)
	bad := ""
	n := 0
	for _, name := range armNames {
		a := arms[name]
		if a.node < 0 {
			continue
		}
		n++
		init := core.Facts{}
		if errVar != nil {
			init = core.FactsNil(init, errVar)
		}
		if candVar != nil {
			init = core.FactsNonNil(init, candVar)
		}
		var starts []int
		for _, e := range g.Nodes[a.node].Succs {
			starts = append(starts, e.To)
		}
		ex := g.Explore(core.ExploreOpts{Start: starts, Init: init, Avoid: func(id int) bool {
			nd := g.Nodes[id]
			if nd.Ast == nil {
				return false
			}
			for _, call := range core.CallsIn(nd.Ast) {
				if core.IsCallTo(info, call, export.Obj) {
					return true
				}
			}
			return false
		}})
		r.Cells += len(ex.Reached)
		if ex.Has(g.Exit) {
			bad = "after a successful ice." + a.ctor + " a return is reachable without exportExtensions: the candidate's extensions are dropped from its signaling form"
		}
	}
	if errVar == nil || candVar == nil {
		r.Undecided("C25.R1", "ToICE|extensions-exported-on-success", pos, "ToICE no longer uses the named results (cand, err): cannot state 'successful conversion' as nil/non-nil facts")
	} else {
		r.Check(bad == "" && n > 0, "C25.R1", "ToICE|extensions-exported-on-success", pos, sprintf("every exit reachable from the %d constructors with (cand != nil, err == nil) passes exportExtensions", n), bad)
	}
}

// c25NamedResults returns the named results of type error and ice.Candidate.
func c25NamedResults(g *core.Graph) (errVar, candVar *types.Var) {
	sig := g.Sig()
	if sig == nil {
		return nil, nil
	}
	for i := 0; i < sig.Results().Len(); i++ {
		v := sig.Results().At(i)
		if v.Name() == "" {
			continue
		}
		if isErrorType(v.Type()) {
			errVar = v
		} else {
			candVar = v
		}
	}
	return
}

// c25ConfigLiteral resolves `&config` / `&T{...}` to the composite literal, the
// graph and node where it is evaluated, and a substitution to apply to canonical
// renderings made there (identity unless the literal lives in a helper whose
// parameters are replaced by the caller's arguments).
func c25ConfigLiteral(c *Ctx, g *core.Graph, at int, arg ast.Expr) (*ast.CompositeLit, int, *core.Graph, func(string) string) {
	id := func(s string) string { return s }
	strip := func(e ast.Expr) ast.Expr {
		e = ast.Unparen(e)
		if u, ok := e.(*ast.UnaryExpr); ok && u.Op == token.AND {
			e = ast.Unparen(u.X)
		}
		return e
	}
	arg = strip(arg)
	for i := 0; i < 4; i++ {
		switch x := arg.(type) {
		case *ast.CompositeLit:
			return x, at, g, id
		case *ast.Ident:
			v, _ := g.Info.Uses[x].(*types.Var)
			if v == nil {
				return nil, -1, nil, nil
			}
			ds := g.DefsReaching(at, v)
			if len(ds) != 1 || ds[0].Rhs == nil || ds[0].Idx >= 0 {
				return nil, -1, nil, nil
			}
			arg, at = strip(ds[0].Rhs), ds[0].Node
		case *ast.CallExpr:
			// a same-package helper all of whose returns are one composite literal
			fi := c.P.DeclOf(core.Callee(g.Info, x))
			if fi == nil || fi.Decl.Body == nil {
				return nil, -1, nil, nil
			}
			if se, ok := ast.Unparen(x.Fun).(*ast.SelectorExpr); ok && fi.Decl.Recv != nil {
				if g.Canon(at, se.X) != "$recv" {
					return nil, -1, nil, nil // helper invoked on another value than the receiver
				}
			}
			hg := c.P.GraphOf(fi)
			var lit *ast.CompositeLit
			node := -1
			for _, rid := range hg.Returns() {
				ret := hg.Nodes[rid].Ast.(*ast.ReturnStmt)
				if len(ret.Results) != 1 {
					return nil, -1, nil, nil
				}
				l, n2, g2, _ := c25ConfigLiteral(c, hg, rid, ret.Results[0])
				if l == nil || g2 != hg || (lit != nil && l != lit) {
					return nil, -1, nil, nil
				}
				lit, node = l, n2
			}
			if lit == nil {
				return nil, -1, nil, nil
			}
			var args []string
			for _, a := range x.Args {
				args = append(args, g.Canon(at, a))
			}
			re := regexp.MustCompile(`\$p([0-9]+)`)
			subst := func(s string) string {
				return re.ReplaceAllStringFunc(s, func(m string) string {
					var k int
					for _, ch := range m[2:] {
						k = k*10 + int(ch-'0')
					}
					if k < len(args) {
						return args[k]
					}
					return m
				})
			}
			return lit, node, hg, subst
		default:
			return nil, -1, nil, nil
		}
	}
	return nil, -1, nil, nil
}

// ---------------------------------------------------------------- R2

var c25QualifiedCallRe = regexp.MustCompile(`(?:^|[^\w.)\]])([a-z]\w*)\.([A-Za-z]\w*)\(`)

func c25R2(c *Ctx) {
	r := c.R
	fi := c.mustFunc("C25.R2", "", "newICECandidateFromICE")
	conv := c.mustFunc("C25.R2", "", "convertTypeFromICE")
	st := c.P.Named("", "ICECandidate")
	if fi == nil || conv == nil || st == nil {
		if st == nil {
			r.Fail("C25.R2", "anchor:/ICECandidate", "-", "anchored type no longer resolves (fails closed)")
		}
		return
	}
	g := c.P.GraphOf(fi)
	info := g.Info
	pos := c.P.Pos(fi.Decl.Pos())
	strct, _ := st.Underlying().(*types.Struct)

	// the variable returned on success
	var resVar *types.Var
	var retNode int = -1
	for _, id := range g.Returns() {
		ret := g.Nodes[id].Ast.(*ast.ReturnStmt)
		if len(ret.Results) == 2 && core.IsNilIdent(info, ret.Results[1]) {
			if v := core.VarOf(info, ret.Results[0]); v != nil {
				if resVar != nil && resVar != v {
					resVar = nil
					break
				}
				resVar, retNode = v, id
			}
		}
	}
	if resVar == nil || strct == nil {
		r.Undecided("C25.R2", "newICECandidateFromICE|result", pos, "expected the success returns to return one local ICECandidate variable with a nil error")
		return
	}
	sources := map[string][]string{} // field -> canon sources
	for _, d := range g.AllDefs(resVar) {
		lit, ok := ast.Unparen(d.Rhs).(*ast.CompositeLit)
		if !ok {
			if d.Rhs != nil {
				r.Undecided("C25.R2", "newICECandidateFromICE|result", c.P.Pos(g.PosOf(d.Node)), "the result variable is assigned from something other than a composite literal: "+exprStr(d.Rhs))
			}
			continue
		}
		for _, el := range lit.Elts {
			if kv, ok := el.(*ast.KeyValueExpr); ok {
				sources[exprStr(kv.Key)] = append(sources[exprStr(kv.Key)], g.Canon(d.Node, kv.Value))
			} else {
				r.Undecided("C25.R2", "newICECandidateFromICE|result", c.P.Pos(lit.Pos()), "positional composite literal")
			}
		}
	}
	for _, n := range g.Nodes {
		if n.Ast == nil {
			continue
		}
		// field assignments res.F = e
		if as, ok := n.Ast.(*ast.AssignStmt); ok && len(as.Lhs) == len(as.Rhs) {
			for i, l := range as.Lhs {
				se, ok := ast.Unparen(l).(*ast.SelectorExpr)
				if !ok || core.VarOf(info, se.X) != resVar {
					continue
				}
				if f := core.FieldOf(info, se); f != nil {
					sources[f.Name()] = append(sources[f.Name()], g.Canon(n.ID, as.Rhs[i]))
				}
			}
		}
		// setter methods res.m(args): the fields m assigns from its parameters
		for _, call := range core.CallsIn(n.Ast) {
			se, ok := ast.Unparen(call.Fun).(*ast.SelectorExpr)
			if !ok || core.VarOf(info, se.X) != resVar {
				continue
			}
			m := c.P.DeclOf(core.Callee(info, call))
			if m == nil || m.Decl.Body == nil || m.Decl.Recv == nil {
				continue
			}
			var args []string
			for _, a := range call.Args {
				args = append(args, g.Canon(n.ID, a))
			}
			for _, f := range c25FieldsAssignedByMethod(m) {
				sources[f] = append(sources[f], m.Name()+"("+strings.Join(args, ", ")+")")
			}
		}
	}
	_ = retNode
	for i := 0; i < strct.NumFields(); i++ {
		f := strct.Field(i).Name()
		key := "newICECandidateFromICE|field|" + f
		srcs := sources[f]
		oracle, judged := c25FieldGetter[f]
		switch {
		case len(srcs) == 0:
			r.Fail("C25.R2", key, pos, "field "+f+" of ICECandidate is never filled by newICECandidateFromICE: the attribute is lost when a signaled candidate is parsed")
		case !judged:
			r.Undecided("C25.R2", key, pos, "field "+f+" has no oracle entry (new field?): add the ice.Candidate getter it must come from; filled from "+strings.Join(srcs, " | "))
		default:
			bad := ""
			for _, s := range srcs {
				if oracle.param != "" {
					ps := c25ParamRe.FindAllString(s, -1)
					if len(ps) != 1 || ps[0] != oracle.param {
						bad = sprintf("filled from %s, expected parameter %s", s, oracle.param)
					}
					continue
				}
				ms := c25GetterRe.FindAllStringSubmatch(s, -1)
				getters := map[string]bool{}
				subOK := oracle.sub == ""
				for _, m := range ms {
					getters[m[1]] = true
					if m[1] == oracle.getter && m[2] == "."+oracle.sub {
						subOK = true
					}
				}
				if len(getters) != 1 || !getters[oracle.getter] || !subOK {
					want := "candidate." + oracle.getter + "()"
					if oracle.sub != "" {
						want += "." + oracle.sub
					}
					bad = sprintf("filled from %s, expected exactly %s", s, want)
				}
			}
			// the getter's value must arrive untransformed: no call of an imported (non pion/ice) package function may wrap it
			if bad == "" {
				for _, s := range srcs {
					for _, m := range c25QualifiedCallRe.FindAllStringSubmatch(s, -1) {
						for _, imp := range fi.Pkg.Types.Imports() {
							if imp.Name() == m[1] && !strings.Contains(imp.Path(), "pion/ice") {
								bad = sprintf("filled from %s: the getter's value is transformed by %s.%s before it is stored (the parsed candidate no longer carries the signaled %s)", s, m[1], m[2], f)
							}
						}
					}
				}
			}
			r.Check(bad == "", "C25.R2", key, pos, f+" <- "+strings.Join(srcs, " | "), bad)
		}
		r.Cells++
	}

	// convertTypeFromICE: inverse of the dispatch, total on the declared types
	sc := c25IceScope(c, "C25.R2")
	if sc == nil {
		return
	}
	ctObj, _ := sc.Lookup("CandidateType").(*types.TypeName)
	if ctObj == nil {
		r.Fail("C25.R2", "anchor:ice.CandidateType", "-", "pion/ice no longer declares CandidateType (fails closed)")
		return
	}
	var dom []absint.Val
	names := map[string]string{} // exact value -> const name
	for _, nm := range sc.Names() {
		if k, ok := sc.Lookup(nm).(*types.Const); ok && types.Identical(k.Type(), ctObj.Type()) {
			dom = append(dom, absint.ConstOf(k))
			names[k.Val().ExactString()] = nm
		}
	}
	if len(dom) < 5 {
		r.Fail("C25.R2", "anchor:ice.CandidateType constants", "-", sprintf("expected at least 5 ice.CandidateType constants, found %d", len(dom)))
		return
	}
	dom = append(dom, absint.IntVal(77, ctObj.Type()))
	if c.Thorough {
		// every value of the underlying byte type: the table is then exhaustive, not representative
		dom = dom[:len(dom)-1]
		for v := int64(0); v < 256; v++ {
			if _, declared := names[constant.MakeInt64(v).ExactString()]; !declared {
				dom = append(dom, absint.IntVal(v, ctObj.Type()))
			}
		}
		r.Exhaustive = true
	}
	t := absint.Tabulate(absint.Config{P: c.P, Dims: []absint.Dim{{Key: "$p0", Domain: dom}}}, conv)
	cpos := c.P.Pos(conv.Decl.Pos())
	if tableProblems(c, "C25.R2", "convertTypeFromICE|table", cpos, t) {
		return
	}
	inverse := map[string]string{}
	for _, a := range c25Arms {
		inverse[a.iceType] = a.typ
	}
	for _, row := range t.Rows {
		in := row.Get("$p0")
		if k, ok := row.Valuation["$p0"].(absint.Const); ok {
			if nm := names[k.V.ExactString()]; nm != "" {
				in = nm
			}
		}
		key := "convertTypeFromICE|" + in
		r.Cells++
		if len(row.Outcomes) != 1 || row.Outcomes[0].Panic != "" || len(row.Outcomes[0].Results) != 2 {
			r.Fail("C25.R2", key, cpos, "no single definite outcome: "+outcomesStr(row.Outcomes))
			continue
		}
		res := row.Outcomes[0].Results
		_, isNil := res[1].(absint.Nil)
		_, isErr := res[1].(absint.NonNil)
		want, accepted := inverse[in]
		switch {
		case accepted:
			r.Check(isNil && res[0].String() == want, "C25.R2", key, cpos, "-> "+want, sprintf("maps to (%s, %s), expected (%s, nil): the candidate type does not survive ToICE followed by newICECandidateFromICE", res[0], res[1], want))
		default:
			r.Check(isErr, "C25.R2", key, cpos, "rejected with an error", sprintf("an ice candidate type without WebRTC counterpart maps to (%s, %s) instead of an error", res[0], res[1]))
		}
	}
}

// c25FieldsAssignedByMethod lists the receiver fields a method assigns.
func c25FieldsAssignedByMethod(m *core.FuncInfo) []string {
	info := m.Pkg.TypesInfo
	if len(m.Decl.Recv.List) != 1 || len(m.Decl.Recv.List[0].Names) != 1 {
		return nil
	}
	recv, _ := info.Defs[m.Decl.Recv.List[0].Names[0]].(*types.Var)
	set := map[string]bool{}
	ast.Inspect(m.Decl.Body, func(n ast.Node) bool {
		if as, ok := n.(*ast.AssignStmt); ok {
			for _, l := range as.Lhs {
				if se, ok := ast.Unparen(l).(*ast.SelectorExpr); ok && core.VarOf(info, se.X) == recv {
					if f := core.FieldOf(info, se); f != nil {
						set[f.Name()] = true
					}
				}
			}
		}
		return true
	})
	var out []string
	for k := range set {
		out = append(out, k)
	}
	sort.Strings(out)
	return out
}

// ---------------------------------------------------------------- R3

func c25R3(c *Ctx) {
	r := c.R
	fi := c.mustFunc("C25.R3", "", "PeerConnection.AddICECandidate")
	contains := c.mustFunc("C25.R3", "", "PeerConnection.descriptionContainsUfrag")
	addRemote := c.mustFunc("C25.R3", "", "ICETransport.AddRemoteCandidate")
	remoteDesc := c.mustFunc("C25.R3", "", "PeerConnection.RemoteDescription")
	if fi == nil || contains == nil || addRemote == nil || remoteDesc == nil {
		return
	}
	g := c.P.GraphOf(fi)
	info := g.Info
	pos := c.P.Pos(fi.Decl.Pos())

	// the lookup: <x>, ok := cand.GetExtension("ufrag")
	var okVar, extVar *types.Var
	lookupNode := -1
	nLookup := 0
	for _, n := range g.Nodes {
		as, ok := n.Ast.(*ast.AssignStmt)
		if !ok || len(as.Rhs) != 1 || len(as.Lhs) != 2 {
			continue
		}
		call, ok := ast.Unparen(as.Rhs[0]).(*ast.CallExpr)
		if !ok || !core.CalleeIs(info, call, c25IcePath, "Candidate.GetExtension") {
			continue
		}
		nLookup++
		lookupNode = n.ID
		extVar, okVar = core.VarOf(info, as.Lhs[0]), core.VarOf(info, as.Lhs[1])
		keyOK := false
		if len(call.Args) == 1 {
			if tv, ok := info.Types[call.Args[0]]; ok && tv.Value != nil && tv.Value.Kind() == constant.String {
				keyOK = constant.StringVal(tv.Value) == "ufrag"
			}
		}
		r.Check(keyOK, "C25.R3", "AddICECandidate|extension-key", c.P.Pos(call.Pos()), `looks up the "ufrag" extension`, "the extension looked up is not the constant \"ufrag\": the generation filter never sees the candidate's username fragment")
	}
	if nLookup != 1 || okVar == nil || extVar == nil {
		r.Undecided("C25.R3", "AddICECandidate|ufrag-lookup", pos, sprintf("expected exactly one `ext, ok := cand.GetExtension(\"ufrag\")` in AddICECandidate, found %d", nLookup))
		return
	}
	// the filter call and its arguments
	var filterCalls []*ast.CallExpr
	for _, n := range g.Nodes {
		if n.Ast == nil {
			continue
		}
		for _, call := range core.CallsIn(n.Ast) {
			if core.IsCallTo(info, call, contains.Obj) {
				filterCalls = append(filterCalls, call)
			}
		}
	}
	if len(filterCalls) != 1 {
		r.Undecided("C25.R3", "AddICECandidate|ufrag-filter", pos, sprintf("expected exactly one call to descriptionContainsUfrag, found %d", len(filterCalls)))
		return
	}
	fc := filterCalls[0]
	fnode := g.NodeContaining(fc)
	argOK, why := false, ""
	if len(fc.Args) == 2 {
		a0, a1 := g.Canon(fnode, fc.Args[0]), g.Canon(fnode, fc.Args[1])
		wantDesc := "$recv." + remoteDesc.Obj.Name() + "().parsed"
		se, isSel := ast.Unparen(fc.Args[1]).(*ast.SelectorExpr)
		valOK := isSel && se.Sel.Name == "Value" && core.VarOf(info, se.X) == extVar
		argOK = a0 == wantDesc && valOK
		why = sprintf("descriptionContainsUfrag(%s, %s): expected (%s, <looked-up extension>.Value)", a0, a1, wantDesc)
	}
	r.Check(argOK, "C25.R3", "AddICECandidate|filter-arguments", c.P.Pos(fc.Pos()), "the looked-up ufrag is compared with the applied remote description (pc.RemoteDescription().parsed)", why)

	// atoms: the ok variable and the filter call; boolean locals are evaluated through their definition
	atoms := func(okVal, containsVal int) core.AtomFn {
		return g.WithLocalBools(func(e ast.Expr) (int, bool) {
			if e == ast.Expr(fc) {
				return containsVal, true
			}
			if id, isID := e.(*ast.Ident); isID {
				if v, _ := info.Uses[id].(*types.Var); v != nil && v == okVar {
					return okVal, true
				}
			}
			return 0, false
		})
	}
	// the hand-over: AddRemoteCandidate(<not nil>)
	var handovers []int
	for _, n := range g.Nodes {
		if n.Ast == nil {
			continue
		}
		for _, call := range core.CallsIn(n.Ast) {
			if core.IsCallTo(info, call, addRemote.Obj) && len(call.Args) == 1 && !core.IsNilIdent(info, call.Args[0]) {
				handovers = append(handovers, n.ID)
			}
		}
	}
	if len(handovers) == 0 {
		r.Undecided("C25.R3", "AddICECandidate|handover", pos, "no call AddRemoteCandidate(<candidate>) found")
		return
	}
	// start after the lookup so that `ok` is defined (the variables are assigned there and not afterwards)
	for _, v := range []*types.Var{okVar} {
		if ds := g.AllDefs(v); len(ds) != 1 {
			r.Undecided("C25.R3", "AddICECandidate|ufrag-lookup", pos, "the ok result of the ufrag lookup is reassigned")
			return
		}
	}
	var afterLookup []int
	for _, e := range g.Nodes[lookupNode].Succs {
		afterLookup = append(afterLookup, e.To)
	}
	// every path to a hand-over passes the lookup
	for _, h := range handovers {
		if !g.Dominated(h, map[int]bool{lookupNode: true}) {
			r.Fail("C25.R3", "AddICECandidate|handover-after-filter", c.P.Pos(g.PosOf(h)), "AddRemoteCandidate(<candidate>) is reachable without looking up the candidate's ufrag extension first: candidates of old generations reach the ICE agent")
			return
		}
	}
	type val struct {
		name         string
		ok, contains int
		mustReach    bool
	}
	vals := []val{
		{"ufrag-present,no-match", core.True, core.False, false},
		{"ufrag-present,match", core.True, core.True, true},
		{"no-ufrag", core.False, core.Unknown, true},
	}
	for _, v := range vals {
		ex := g.Explore(core.ExploreOpts{Start: afterLookup, Atoms: atoms(v.ok, v.contains)})
		r.Cells += len(ex.Reached)
		reached := false
		for _, h := range handovers {
			if ex.Has(h) {
				reached = true
			}
		}
		key := "AddICECandidate|" + v.name
		switch {
		case v.mustReach:
			r.Check(reached, "C25.R3", key, pos, "the candidate reaches AddRemoteCandidate", "the candidate can no longer reach AddRemoteCandidate under this valuation (every candidate would be dropped)")
		case reached:
			r.Fail("C25.R3", key, c.P.Pos(g.PosOf(handovers[0])), "AddRemoteCandidate(<candidate>) is reachable although the candidate's ufrag matches no ufrag of the applied remote description: candidates of old generations reach the ICE agent")
		default:
			// only nil-error exits
			bad := ""
			nret := 0
			for id, fs := range ex.Reached {
				ret, isRet := g.Nodes[id].Ast.(*ast.ReturnStmt)
				if !isRet {
					continue
				}
				nret++
				for _, f := range fs {
					if len(ret.Results) != 1 {
						bad = "unexpected return shape"
						continue
					}
					e := ret.Results[0]
					if core.IsNilIdent(info, e) {
						continue
					}
					if rv := core.VarOf(info, e); rv != nil && f.IsNil(rv) {
						continue
					}
					bad = sprintf("the exit at %s may return a non-nil error (%s) for a candidate that is to be dropped silently", c.P.Pos(ret.Pos()), exprStr(e))
				}
			}
			if nret == 0 {
				bad = "no return reached"
			}
			r.Check(bad == "", "C25.R3", key, pos, "dropped without error and without reaching AddRemoteCandidate", bad)
		}
	}

	// descriptionContainsUfrag: `return true` only on the true edge of an equality with the argument
	cg := c.P.GraphOf(contains)
	cinfo := cg.Info
	_, cparams := c25Params(cg)
	if len(cparams) != 2 {
		r.Undecided("C25.R3", "descriptionContainsUfrag|shape", c.P.Pos(contains.Decl.Pos()), "expected two parameters (description, ufrag)")
		return
	}
	match := cparams[1]
	isUfragAttr := func(n int, v *types.Var) bool {
		for _, d := range cg.DefsReaching(n, v) {
			call, ok := ast.Unparen(d.Rhs).(*ast.CallExpr)
			if !ok || d.Idx != 0 || len(call.Args) != 1 {
				return false
			}
			se, ok := ast.Unparen(call.Fun).(*ast.SelectorExpr)
			tv, okc := cinfo.Types[call.Args[0]]
			if !ok || se.Sel.Name != "Attribute" || !okc || tv.Value == nil || tv.Value.Kind() != constant.String || constant.StringVal(tv.Value) != "ice-ufrag" {
				return false
			}
		}
		return true
	}
	eqAtom := func(at int) func(e ast.Expr) bool {
		return func(e ast.Expr) bool {
			b, ok := ast.Unparen(e).(*ast.BinaryExpr)
			if !ok || b.Op != token.EQL {
				return false
			}
			x, y := core.VarOf(cinfo, b.X), core.VarOf(cinfo, b.Y)
			if y != match {
				x, y = y, x
			}
			return y == match && x != nil && x != match && isUfragAttr(at, x)
		}
	}
	bad := ""
	nTrue := 0
	for _, id := range cg.Returns() {
		ret := cg.Nodes[id].Ast.(*ast.ReturnStmt)
		if len(ret.Results) != 1 {
			continue
		}
		tv := cinfo.Types[ret.Results[0]]
		if tv.Value != nil && tv.Value.Kind() == constant.Bool && !constant.BoolVal(tv.Value) {
			continue // return false
		}
		nTrue++
		// every path to this return takes an edge that implies the equality
		edges := map[core.EdgeRef]bool{}
		for _, n := range cg.Nodes {
			for i, e := range n.Succs {
				if e.Cond != nil && e.Tag == nil && core.EdgeImplies(e.Cond, e.Branch == 1, eqAtom(n.ID)) {
					edges[core.EdgeRef{From: n.ID, Idx: i}] = true
				}
			}
		}
		if tv.Value == nil || !cg.DominatedByEdges(id, edges) {
			bad = sprintf("the return at %s can yield true without an ice-ufrag attribute of the description being equal to the argument", c.P.Pos(ret.Pos()))
		}
	}
	if nTrue == 0 {
		bad = "descriptionContainsUfrag never returns true"
	}
	r.Check(bad == "", "C25.R3", "descriptionContainsUfrag|true-only-on-equality", c.P.Pos(contains.Decl.Pos()), sprintf("%d `return true` exits, each dominated by an equality of an ice-ufrag attribute with the argument", nTrue), bad)
}

func c25Params(g *core.Graph) (recv *types.Var, params []*types.Var) { return g.ParamVars() }
