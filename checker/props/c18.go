package props

import (
	"go/ast"
	"go/constant"
	"go/token"
	"go/types"
	"sort"
	"strings"
	"time"

	"verif/checker/absint"
	"verif/checker/core"
)

func init() {
	register(&Prop{
		ID:        "C18",
		Engine:    "e3lock+e1tab+e2cfg",
		Technique: "lockset analysis (GuardedBy, check-then-insert in one critical section) for the id bookkeeping; exhaustive explicit-state exploration of generateAndSetDataChannelID over (CFG node x every uint16 value of the id variable x every DTLS role constant) for parity and the 65535 bound; who-may-write + dominance rules for DataChannel.id; region rule tying every channel registration to the used-id set",
		LevelText: "Structural clauses of stream-id assignment: (R1) the used-id lookup, the insert and the hand-out happen in one write-locked critical section of SCTPTransport.lock on the same key, and dataChannels / dataChannelIDsUsed are only touched under that lock; (R2) the allocator is explored for every value the uint16 id variable can take and every DTLSRole constant: every id handed out is even iff the role is client, never 65535, is the key that was inserted, cannot change after it was handed out, and a nil error is returned only after a hand-out; the role argument is the transport's own role(), which only yields client or server; MaxChannels() is shown to be the constant 65535; (R3) DataChannel.id is written only by the constructor and once in open, dominated by id == nil, behind the single-entry gate on d.sctpTransport; (R4) every registration of a channel in dataChannels records a known id in the used set in the same critical section, and the used set is never shrunk.",
		LevelNote: "Ids chosen by the application (options.ID, ORTC parameters) are not checked against the used set or the parity rule (the property speaks of ids the connection assigns). The id variable's wrap-around is listed, not judged. Trusted: sync.RWMutex semantics; the explicit-state exploration treats every condition it cannot evaluate as non-deterministic (over-approximation).",
		DesignRef: "DESIGN.md §5 C18",
		Run:       runC18,
	})
}

type c18Ctx struct {
	c                        *Ctx
	info                     *types.Info
	lock, chans, used, maxCh *types.Var
	dcID, dcMu, dcSCTP       *types.Var
	gen, maxChannels, open   *core.FuncInfo
	idGetter, role           *core.FuncInfo
	bodies                   []*core.Body
	gd                       *core.Guard
}

func runC18(c *Ctx) {
	r := c.R
	c18T0 := time.Now()
	defer func() { r.Extra["analysis_seconds_excluding_load"] = time.Since(c18T0).Seconds() }()
	r.Rule("C18.R1", "GuardedBy: SCTPTransport.dataChannels and dataChannelIDsUsed are only accessed with the same transport's lock held (write-locked for writes); in generateAndSetDataChannelID the lookup, the not-found test, the insert and the hand-out use the same key and share one write-locked critical section", 12)
	r.Rule("C18.R2", "allocator, explored for every uint16 value of the id variable and every DTLSRole constant: handed-out ids are even iff role == client and odd for server, never 65535; the inserted key is the handed-out id; the id cannot change after the hand-out; nil is returned only after a hand-out; callers pass the transport's own role(), which yields only client/server; MaxChannels() is the constant sctpMaxChannels", 7)
	r.Rule("C18.R3", "DataChannel.id is written only by the constructor literal and in open; the write in open is dominated by id == nil and by the success of generateAndSetDataChannelID, stores the generated id, and lies behind the single-entry gate (d.sctpTransport tested and set in one d.mu critical section; sctpTransport written nowhere else)", 3)
	r.Rule("C18.R5", "a remotely created channel keeps the pointer it is given as its id: the variable whose address is stored as DataChannelParameters.ID in the accept loop is declared inside the loop body (or is fresh in a helper), so a later accept cannot rewrite the id an earlier channel reports (same rule as C19.R3, restricted to the ID field)", 1)
	r.Rule("C18.R4", "every append to SCTPTransport.dataChannels is accompanied, in the same critical section, by the insertion of the channel's id into dataChannelIDsUsed unless ID() is nil; the used set is never shrunk or replaced", 3)
	r.NotCovered = append(r.NotCovered,
		"collisions or parity of application-chosen ids (DataChannelInit.ID, ORTC DataChannelParameters.ID)",
		"termination of the allocation loop (wrap-around of the id variable is listed, not judged)",
		"ids of channels opened through the ORTC constructor are not recorded in the used set (not an id the connection assigns)")
	r.Trusted = append(r.Trusted, "sync.RWMutex semantics", "conditions the explorer cannot evaluate are taken both ways")

	x := &c18Ctx{c: c}
	x.lock = c.mustField("C18.R1", "", "SCTPTransport", "lock")
	x.chans = c.mustField("C18.R1", "", "SCTPTransport", "dataChannels")
	x.used = c.mustField("C18.R1", "", "SCTPTransport", "dataChannelIDsUsed")
	x.maxCh = c.mustField("C18.R2", "", "SCTPTransport", "maxChannels")
	x.dcID = c.mustField("C18.R3", "", "DataChannel", "id")
	x.dcMu = c.mustField("C18.R3", "", "DataChannel", "mu")
	x.dcSCTP = c.mustField("C18.R3", "", "DataChannel", "sctpTransport")
	x.gen = c.mustFunc("C18.R2", "", "SCTPTransport.generateAndSetDataChannelID")
	x.maxChannels = c.mustFunc("C18.R2", "", "SCTPTransport.MaxChannels")
	x.open = c.mustFunc("C18.R3", "", "DataChannel.open")
	x.idGetter = c.mustFunc("C18.R4", "", "DataChannel.ID")
	x.role = c.mustFunc("C18.R2", "", "DTLSTransport.role")
	if x.lock == nil || x.chans == nil || x.used == nil || x.maxCh == nil || x.dcID == nil || x.dcMu == nil || x.dcSCTP == nil ||
		x.gen == nil || x.maxChannels == nil || x.open == nil || x.idGetter == nil || x.role == nil {
		return
	}
	x.info = c.P.Pkg("").TypesInfo
	x.bodies = c.P.AllBodies(nil)
	x.gd = core.NewGuard(c.P, x.bodies)

	x.r1guard(c.P, x.gd, x.chans, x.used, x.lock, "")
	x.r12alloc()
	x.r3()
	x.r4()
	c19R3(c, "C18.R5", "ID") // c19b.go

	if c.Thorough {
		c05Config386(c, func(c2 *Ctx) { runC18(c2) })
	}
}

// ---- R1: GuardedBy ---------------------------------------------------------

func (x *c18Ctx) r1guard(p *core.Program, gd *core.Guard, chans, used, lock *types.Var, suffix string) {
	r := x.c.R
	type agg struct {
		pos    string
		n, w   int
		bad    []string
		status map[string]bool
	}
	res := map[string]*agg{}
	var keys []string
	for _, gr := range gd.Check(core.GuardSpec{Fields: map[*types.Var]bool{chans: true, used: true}, MuField: lock}) {
		key := "guarded|SCTPTransport." + gr.Access.Field.Name() + "|in:" + gr.Body.Label + suffix
		a := res[key]
		if a == nil {
			a = &agg{pos: p.Pos(gr.Access.Sel.Pos()), status: map[string]bool{}}
			res[key] = a
			keys = append(keys, key)
		}
		a.n++
		if gr.Access.Write {
			a.w++
		}
		a.status[gr.Status] = true
		if !gr.OK() {
			a.bad = append(a.bad, p.Pos(gr.Access.Sel.Pos())+": "+gr.Access.How+" of "+exprStr(gr.Access.Sel)+": "+gr.Why)
		}
		r.Cells++
	}
	sort.Strings(keys)
	for _, k := range keys {
		a := res[k]
		r.Check(len(a.bad) == 0, "C18.R1", k, a.pos, sprintf("%d access(es), %d write(s), lock: %s", a.n, a.w, joinSorted(a.status)), strings.Join(a.bad, "; "))
	}
}

// ---- R1 (atomic check-then-insert) + R2 (explicit-state exploration) -------

// c18ConstMethod proves that a nullary method always returns one constant:
// every return is a constant expression, or the dereference of a receiver
// field that is only ever assigned the address of a local whose single
// definition is that constant.
func (x *c18Ctx) c18ConstMethod(fi *core.FuncInfo) (int64, string) {
	g := x.c.P.GraphOf(fi)
	var val *int64
	set := func(v int64) bool {
		if val == nil {
			val = &v
			return true
		}
		return *val == v
	}
	for _, rn := range g.Returns() {
		ret := g.Nodes[rn].Ast.(*ast.ReturnStmt)
		if len(ret.Results) != 1 {
			return 0, "return without a single result"
		}
		e := ast.Unparen(ret.Results[0])
		if k, ok := core.IntConst(x.info, e); ok {
			if !set(k) {
				return 0, "returns different constants"
			}
			continue
		}
		st, ok := e.(*ast.StarExpr)
		fld := (*types.Var)(nil)
		if ok {
			fld = core.FieldOf(x.info, st.X)
		}
		if fld == nil {
			return 0, "returns " + exprStr(e) + ", which is neither a constant nor *field"
		}
		// all writes of fld in the module
		nW := 0
		for _, b := range x.bodies {
			if b.G == nil {
				continue
			}
			for _, a := range b.G.FieldAccesses(map[*types.Var]bool{fld: true}) {
				if !a.Write {
					continue
				}
				nW++
				as, isAs := b.G.Nodes[a.Node].Ast.(*ast.AssignStmt)
				if !isAs || a.How != "assign" || len(as.Lhs) != len(as.Rhs) {
					return 0, "field " + fld.Name() + " is written in an unsupported way in " + b.Label
				}
				for i, l := range as.Lhs {
					if ast.Unparen(l) != ast.Expr(a.Sel) {
						continue
					}
					u, isU := ast.Unparen(as.Rhs[i]).(*ast.UnaryExpr)
					if !isU || u.Op != token.AND {
						return 0, "field " + fld.Name() + " is assigned " + exprStr(as.Rhs[i]) + " in " + b.Label
					}
					v := core.VarOf(x.info, u.X)
					if v == nil {
						return 0, "field " + fld.Name() + " is assigned the address of a non-variable in " + b.Label
					}
					// v must be defined once by a constant and never written otherwise (UniqueDef rejects &v, so inspect by hand)
					var defs []ast.Expr
					bad := false
					ast.Inspect(b.Owner.Decl.Body, func(n ast.Node) bool {
						switch s := n.(type) {
						case *ast.AssignStmt:
							for j, ll := range s.Lhs {
								if core.VarOf(x.info, ll) == v {
									if len(s.Lhs) == len(s.Rhs) && (s.Tok == token.DEFINE || s.Tok == token.ASSIGN) {
										defs = append(defs, s.Rhs[j])
									} else {
										bad = true
									}
								}
							}
						case *ast.IncDecStmt:
							if core.VarOf(x.info, s.X) == v {
								bad = true
							}
						}
						return true
					})
					if bad || len(defs) != 1 {
						return 0, "the variable whose address is stored in " + fld.Name() + " is not defined exactly once"
					}
					k, isK := core.IntConst(x.info, defs[0])
					if !isK {
						return 0, "the value behind " + fld.Name() + " is " + exprStr(defs[0]) + ", not a constant"
					}
					if !set(k) {
						return 0, "the value behind " + fld.Name() + " differs from the other return values"
					}
				}
			}
		}
		if nW == 0 {
			return 0, "field " + fld.Name() + " is never assigned"
		}
	}
	if val == nil {
		return 0, "no return"
	}
	return *val, ""
}

func c18Bits(t types.Type) (bits uint, signed bool, ok bool) {
	b, isB := t.Underlying().(*types.Basic)
	if !isB {
		return 0, false, false
	}
	switch b.Kind() {
	case types.Uint8:
		return 8, false, true
	case types.Uint16:
		return 16, false, true
	case types.Uint32:
		return 32, false, true
	case types.Uint64, types.Uint, types.Uintptr:
		return 64, false, true
	case types.Int8:
		return 8, true, true
	case types.Int16:
		return 16, true, true
	case types.Int32:
		return 32, true, true
	case types.Int64, types.Int:
		return 64, true, true
	}
	return 0, false, false
}

// c18Wrap truncates v to the width of t; wrapped reports whether truncation changed the value.
func c18Wrap(v constant.Value, t types.Type) (constant.Value, bool) {
	bits, signed, ok := c18Bits(t)
	if !ok || v.Kind() != constant.Int {
		return v, false
	}
	mod := constant.Shift(constant.MakeInt64(1), token.SHL, bits)
	w := v
	q := constant.BinaryOp(w, token.QUO_ASSIGN, mod)
	w = constant.BinaryOp(w, token.SUB, constant.BinaryOp(q, token.MUL, mod))
	if constant.Sign(w) < 0 {
		w = constant.BinaryOp(w, token.ADD, mod)
	}
	if signed {
		half := constant.Shift(constant.MakeInt64(1), token.SHL, bits-1)
		if constant.Compare(w, token.GEQ, half) {
			w = constant.BinaryOp(w, token.SUB, mod)
		}
	}
	return w, !constant.Compare(w, token.EQL, v)
}

type c18Eval struct {
	x       *c18Ctx
	idVar   *types.Var
	roleVar *types.Var
	roleVal int64
	consts  map[*types.Var]constant.Value
	methods map[*types.Func]constant.Value
	wrapped *bool
}

func (e *c18Eval) eval(ex ast.Expr, id int64) (constant.Value, bool) {
	info := e.x.info
	ex = ast.Unparen(ex)
	if tv, ok := info.Types[ex]; ok && tv.Value != nil {
		return tv.Value, true
	}
	switch t := ex.(type) {
	case *ast.Ident:
		v := core.VarOf(info, t)
		switch {
		case v == nil:
			return nil, false
		case v == e.idVar:
			if id < 0 {
				return nil, false
			}
			return constant.MakeInt64(id), true
		case v == e.roleVar:
			return constant.MakeInt64(e.roleVal), true
		}
		if c, ok := e.consts[v]; ok {
			return c, true
		}
	case *ast.CallExpr:
		if tv, ok := info.Types[t.Fun]; ok && tv.IsType() && len(t.Args) == 1 {
			v, ok := e.eval(t.Args[0], id)
			if !ok || v.Kind() != constant.Int {
				return nil, false
			}
			w, _ := c18Wrap(v, tv.Type)
			return w, true
		}
		if fn := core.Callee(info, t); fn != nil && len(t.Args) == 0 {
			if c, ok := e.methods[fn]; ok {
				return c, true
			}
		}
	case *ast.UnaryExpr:
		v, ok := e.eval(t.X, id)
		if !ok {
			return nil, false
		}
		switch t.Op {
		case token.NOT:
			if v.Kind() == constant.Bool {
				return constant.MakeBool(!constant.BoolVal(v)), true
			}
		case token.SUB, token.ADD, token.XOR:
			if v.Kind() == constant.Int {
				w, wr := c18Wrap(constant.UnaryOp(t.Op, v, 0), info.TypeOf(ex))
				if wr && e.wrapped != nil {
					*e.wrapped = true
				}
				return w, true
			}
		}
	case *ast.BinaryExpr:
		switch t.Op {
		case token.LAND, token.LOR:
			l, okL := e.eval(t.X, id)
			if okL && l.Kind() == constant.Bool {
				if constant.BoolVal(l) == (t.Op == token.LOR) {
					return l, true
				}
				return e.eval(t.Y, id)
			}
			rr, okR := e.eval(t.Y, id)
			if okR && rr.Kind() == constant.Bool && constant.BoolVal(rr) == (t.Op == token.LOR) {
				return rr, true // short-circuit value regardless of the unknown left operand
			}
			return nil, false
		}
		l, okL := e.eval(t.X, id)
		rr, okR := e.eval(t.Y, id)
		if !okL || !okR {
			return nil, false
		}
		return e.binop(t.Op, l, rr, info.TypeOf(ex))
	}
	return nil, false
}

func (e *c18Eval) binop(op token.Token, l, r constant.Value, t types.Type) (res constant.Value, ok bool) {
	defer func() {
		if recover() != nil {
			res, ok = nil, false
		}
	}()
	switch op {
	case token.EQL, token.NEQ, token.LSS, token.LEQ, token.GTR, token.GEQ:
		if l.Kind() != r.Kind() {
			return nil, false
		}
		return constant.MakeBool(constant.Compare(l, op, r)), true
	case token.SHL, token.SHR:
		n, isU := constant.Uint64Val(r)
		if !isU || n > 64 || l.Kind() != constant.Int {
			return nil, false
		}
		w, wr := c18Wrap(constant.Shift(l, op, uint(n)), t)
		if wr && e.wrapped != nil {
			*e.wrapped = true
		}
		return w, true
	case token.QUO, token.REM:
		if l.Kind() != constant.Int || r.Kind() != constant.Int || constant.Sign(r) == 0 {
			return nil, false
		}
		if op == token.QUO {
			op = token.QUO_ASSIGN
		}
	}
	if l.Kind() != constant.Int || r.Kind() != constant.Int {
		return nil, false
	}
	w, wr := c18Wrap(constant.BinaryOp(l, op, r), t)
	if wr && e.wrapped != nil {
		*e.wrapped = true
	}
	return w, true
}

var c18OpAssign = map[token.Token]token.Token{token.ADD_ASSIGN: token.ADD, token.SUB_ASSIGN: token.SUB, token.MUL_ASSIGN: token.MUL,
	token.QUO_ASSIGN: token.QUO, token.REM_ASSIGN: token.REM, token.AND_ASSIGN: token.AND, token.OR_ASSIGN: token.OR,
	token.XOR_ASSIGN: token.XOR, token.SHL_ASSIGN: token.SHL, token.SHR_ASSIGN: token.SHR, token.AND_NOT_ASSIGN: token.AND_NOT}

func (x *c18Ctx) r12alloc() {
	r, P := x.c.R, x.c.P
	b := x.bodyOf(x.gen)
	g := b.G
	pos := P.Pos(x.gen.Decl.Pos())
	sig := x.gen.Obj.Type().(*types.Signature)
	recvNames := x.gen.Decl.Recv.List[0].Names
	if len(recvNames) == 0 || sig.Params().Len() < 2 {
		r.Undecided("C18.R2", "alloc|shape", pos, "generateAndSetDataChannelID no longer has a named receiver and (role, out) parameters")
		return
	}
	inst := recvNames[0].Name + "." + x.lock.Name()
	li := x.gd.LocksOf(b)

	// the insert into the used set and its key variable
	var inserts, lookups []int
	var idVar *types.Var
	shapeBad := ""
	for _, a := range g.FieldAccesses(map[*types.Var]bool{x.used: true}) {
		// find the IndexExpr around the access
		var ix *ast.IndexExpr
		core.InspectShallow(g.Nodes[a.Node].Ast, func(n ast.Node) bool {
			if i, ok := n.(*ast.IndexExpr); ok && ast.Unparen(i.X) == ast.Expr(a.Sel) {
				ix = i
			}
			return true
		})
		if ix == nil {
			shapeBad = "dataChannelIDsUsed is used other than by indexing at " + P.Pos(a.Sel.Pos())
			continue
		}
		v := core.VarOf(x.info, ix.Index)
		if v == nil {
			shapeBad = "dataChannelIDsUsed is indexed by a computed key at " + P.Pos(ix.Pos())
			continue
		}
		if idVar != nil && v != idVar {
			shapeBad = "lookup and insert use different key variables"
			continue
		}
		idVar = v
		if a.Write {
			inserts = append(inserts, a.Node)
		} else {
			lookups = append(lookups, a.Node)
		}
	}
	if shapeBad != "" || idVar == nil || len(inserts) != 1 || len(lookups) != 1 {
		if shapeBad == "" {
			shapeBad = sprintf("expected one lookup and one insert keyed by one local variable, found %d / %d", len(lookups), len(inserts))
		}
		r.Undecided("C18.R1", "alloc|lookup+insert-atomic", pos, shapeBad)
		return
	}
	if bits, signed, ok := c18Bits(idVar.Type()); !ok || bits != 16 || signed {
		r.Undecided("C18.R2", "alloc|shape", pos, "the id variable is not a uint16: the exhaustive exploration is sized for 65536 values")
		return
	}
	L, I := lookups[0], inserts[0]

	// the hand-out: *out = &id (or &copy of id)
	outParam := sig.Params().At(1)
	var handouts []int
	for _, n := range g.Nodes {
		as, ok := n.Ast.(*ast.AssignStmt)
		if !ok || len(as.Lhs) != 1 || len(as.Rhs) != 1 {
			continue
		}
		st, ok := ast.Unparen(as.Lhs[0]).(*ast.StarExpr)
		if !ok || core.VarOf(x.info, st.X) != outParam {
			continue
		}
		u, ok := ast.Unparen(as.Rhs[0]).(*ast.UnaryExpr)
		if ok && u.Op == token.AND && core.VarOf(x.info, u.X) == idVar {
			handouts = append(handouts, n.ID)
		} else {
			shapeBad = "the out parameter is assigned " + exprStr(as.Rhs[0]) + ", not the address of the key variable"
		}
	}
	if shapeBad != "" || len(handouts) != 1 {
		if shapeBad == "" {
			shapeBad = sprintf("expected exactly one '*out = &id', found %d", len(handouts))
		}
		r.Undecided("C18.R2", "alloc|shape", pos, shapeBad)
		return
	}
	H := handouts[0]

	// nodes that write the id variable; address-of outside the hand-out
	writes := map[int]bool{}
	for _, n := range g.Nodes {
		if n.Ast == nil {
			continue
		}
		core.InspectShallow(n.Ast, func(y ast.Node) bool {
			switch s := y.(type) {
			case *ast.AssignStmt:
				for _, l := range s.Lhs {
					if core.VarOf(x.info, l) == idVar {
						writes[n.ID] = true
					}
				}
			case *ast.IncDecStmt:
				if core.VarOf(x.info, s.X) == idVar {
					writes[n.ID] = true
				}
			case *ast.ValueSpec:
				for _, nm := range s.Names {
					if x.info.Defs[nm] == types.Object(idVar) {
						writes[n.ID] = true
					}
				}
			case *ast.UnaryExpr:
				if s.Op == token.AND && core.VarOf(x.info, s.X) == idVar && n.ID != H {
					shapeBad = "the address of the id variable escapes at " + P.Pos(s.Pos())
				}
			case *ast.FuncLit:
				ast.Inspect(s, func(z ast.Node) bool {
					if id, ok := z.(*ast.Ident); ok && x.info.Uses[id] == types.Object(idVar) {
						shapeBad = "the id variable is captured by a function literal"
					}
					return true
				})
			}
			return true
		})
	}
	if shapeBad != "" {
		r.Undecided("C18.R2", "alloc|shape", pos, shapeBad)
		return
	}

	// ---- R1: one critical section, same key, not-found dominates insert and hand-out
	{
		var bad []string
		for _, n := range []int{L, I, H} {
			if li.HeldInst(n, inst) != "W" {
				bad = append(bad, "the id bookkeeping at "+P.Pos(g.PosOf(n))+" does not hold "+inst+" in write mode")
			}
		}
		if len(bad) == 0 {
			if ok, w := li.SameRegion(L, I, inst); !ok {
				bad = append(bad, "lookup and insert are not in one critical section ("+w+"): two concurrent allocations can pick the same id")
			}
			if ok, w := c05SameRegionEither(g, li, I, H, inst); !ok {
				bad = append(bad, "insert and hand-out are not in one critical section ("+w+")")
			}
		}
		// the not-found edge
		var okVar *types.Var
		if as, ok := g.Nodes[L].Ast.(*ast.AssignStmt); ok && len(as.Lhs) == 2 {
			okVar = core.VarOf(x.info, as.Lhs[1])
		}
		if okVar == nil {
			bad = append(bad, "the lookup is not of the comma-ok form")
		} else {
			notFound := g.EdgesWhere(func(f core.Fact) bool {
				t, isB := f.IsBool()
				return isB && !t && core.VarOf(x.info, f.L) == okVar
			})
			for _, n := range []int{I, H} {
				if len(notFound) == 0 || !g.DominatedByEdges(n, notFound) {
					bad = append(bad, "the id is claimed at "+P.Pos(g.PosOf(n))+" on a path that did not find it unused")
				}
			}
		}
		// no write of the key between lookup and insert / hand-out
		fromL := g.Reach(c18SuccsOf(g, L), func(n int) bool { return n == L }, nil)
		for w := range writes {
			if !fromL[w] {
				continue
			}
			fw := g.Reach([]int{w}, func(n int) bool { return n == L }, nil)
			if fw[I] || fw[H] {
				bad = append(bad, "the key variable is modified at "+P.Pos(g.PosOf(w))+" between the lookup and the claim")
			}
		}
		r.Check(len(bad) == 0, "C18.R1", "alloc|lookup+insert-atomic", P.Pos(g.PosOf(L)), "lookup, not-found test, insert and hand-out share one write-locked critical section of "+inst+" on one key", strings.Join(bad, "; "))
	}

	// ---- R2: constants the explorer may use
	maxK, whyMax := x.c18ConstMethod(x.maxChannels)
	cmax := x.c.mustConst("C18.R2", "", "sctpMaxChannels")
	if cmax == nil {
		return
	}
	maxWant, _ := constant.Int64Val(cmax.Val())
	methods := map[*types.Func]constant.Value{}
	if whyMax == "" {
		methods[x.maxChannels.Obj] = constant.MakeInt64(maxK)
	}
	r.Check(whyMax == "" && maxK == maxWant, "C18.R2", "MaxChannels|is-constant-sctpMaxChannels", P.Pos(x.maxChannels.Decl.Pos()),
		sprintf("MaxChannels() always returns %d", maxK), "MaxChannels() is not provably the constant sctpMaxChannels ("+whyMax+"): the loop bound of the allocator is unknown")

	// locals with a single constant definition
	consts := map[*types.Var]constant.Value{}
	ev0 := &c18Eval{x: x, methods: methods, consts: consts}
	for _, n := range g.Nodes {
		as, ok := n.Ast.(*ast.AssignStmt)
		if !ok || as.Tok != token.DEFINE {
			continue
		}
		for _, l := range as.Lhs {
			v := core.VarOf(x.info, l)
			if v == nil || v == idVar {
				continue
			}
			if rhs, _ := g.UniqueDef(v); rhs != nil {
				if c, ok := ev0.eval(rhs, -1); ok {
					consts[v] = c
				}
			}
		}
	}

	roles, okRoles := enumDomain(x.c, "C18.R2", "", "DTLSRole", 200)
	cClient := x.c.mustConst("C18.R2", "", "DTLSRoleClient")
	cServer := x.c.mustConst("C18.R2", "", "DTLSRoleServer")
	if !okRoles || cClient == nil || cServer == nil {
		return
	}
	clientV, _ := constant.Int64Val(cClient.Val())
	serverV, _ := constant.Int64Val(cServer.Val())

	const nVals = 65536
	seenRole := map[int64]bool{}
	for _, rv := range roles {
		rc, isC := rv.(absint.Const)
		if !isC {
			continue
		}
		roleV, _ := constant.Int64Val(rc.V)
		if seenRole[roleV] {
			continue // alias constants (defaultDtlsRoleAnswer ...) have the same value
		}
		seenRole[roleV] = true
		wrapped := false
		ev := &c18Eval{x: x, idVar: idVar, roleVar: sig.Params().At(0), roleVal: roleV, consts: consts, methods: methods}
		visited := make([][]uint64, len(g.Nodes))
		seen := func(n int, v int64) bool {
			if visited[n] == nil {
				visited[n] = make([]uint64, (nVals+1+63)/64)
			}
			i := v + 1
			if visited[n][i/64]&(1<<(uint(i)%64)) != 0 {
				return true
			}
			visited[n][i/64] |= 1 << (uint(i) % 64)
			return false
		}
		type st struct {
			n int
			v int64
		}
		work := []st{{g.Entry, -1}}
		seen(g.Entry, -1)
		handed := make([]bool, nVals)
		nHanded := 0
		problem := ""
		wrapAt := ""
		states := 0
		for len(work) > 0 && problem == "" {
			s := work[len(work)-1]
			work = work[:len(work)-1]
			states++
			node := g.Nodes[s.n]
			v := s.v
			if s.n == H {
				if v < 0 {
					problem = "the id is handed out before it is initialised"
					break
				}
				if !handed[v] {
					handed[v] = true
					nHanded++
				}
			}
			// transfer
			if writes[s.n] {
				nv, how := x.c18Transfer(ev, node.Ast, idVar, v, &wrapped)
				if how != "" {
					problem = how + " at " + P.Pos(g.PosOf(s.n))
					break
				}
				if wrapped && wrapAt == "" {
					wrapAt = P.Pos(g.PosOf(s.n))
				}
				v = nv
			}
			// successors
			if len(node.Succs) == 2 && node.Succs[0].Cond != nil && node.Succs[0].Range == nil {
				e0 := node.Succs[0]
				var truth constant.Value
				known := false
				if e0.Tag != nil {
					tv, ok1 := ev.eval(e0.Tag, v)
					cv, ok2 := ev.eval(e0.Cond, v)
					if ok1 && ok2 && tv.Kind() == cv.Kind() {
						truth, known = constant.MakeBool(constant.Compare(tv, token.EQL, cv)), true
					}
				} else {
					truth, known = ev.eval(e0.Cond, v)
					known = known && truth.Kind() == constant.Bool
				}
				if known {
					to := node.Succs[1].To
					if constant.BoolVal(truth) {
						to = node.Succs[0].To
					}
					if !seen(to, v) {
						work = append(work, st{to, v})
					}
					continue
				}
			}
			for _, e := range node.Succs {
				if !seen(e.To, v) {
					work = append(work, st{e.To, v})
				}
			}
		}
		r.Cells += states
		key := "alloc|handed-out-ids|role=" + rv.String()
		if problem != "" {
			r.Undecided("C18.R2", key, pos, "the allocator's id arithmetic is outside the supported fragment: "+problem)
			continue
		}
		judged := roleV == clientV || roleV == serverV
		even, odd, max := 0, 0, int64(-1)
		for v := int64(0); v < nVals; v++ {
			if handed[v] {
				if v%2 == 0 {
					even++
				} else {
					odd++
				}
				max = v
			}
		}
		detail := sprintf("%d distinct ids can be handed out (%d even, %d odd, largest %d); %d (node,value) states explored", nHanded, even, odd, max, states)
		if wrapAt != "" {
			detail += "; the id variable can wrap around at " + wrapAt + " (listed, not judged)"
		}
		if !judged {
			r.Info("C18.R2", key, pos, "role() never yields this value; "+detail)
			continue
		}
		var bad []string
		if nHanded == 0 {
			bad = append(bad, "no id can ever be handed out for this role")
		}
		if roleV == clientV && odd > 0 {
			bad = append(bad, sprintf("a DTLS client can be given an odd stream id (%d of them), RFC 8832 requires even", odd))
		}
		if roleV == serverV && even > 0 {
			bad = append(bad, sprintf("a DTLS server can be given an even stream id (%d of them), RFC 8832 requires odd", even))
		}
		if handed[65535] {
			bad = append(bad, "stream id 65535 can be handed out")
		}
		r.Check(len(bad) == 0, "C18.R2", key, pos, detail, strings.Join(bad, "; ")+" ["+detail+"]")
	}

	// the id cannot change after the hand-out; nil only after a hand-out
	{
		var bad []string
		after := g.Reach(c18SuccsOf(g, H), nil, nil)
		for w := range writes {
			if after[w] {
				bad = append(bad, "the id variable is modified at "+P.Pos(g.PosOf(w))+" after its address was handed out (the caller's id changes)")
			}
		}
		r.Check(len(bad) == 0, "C18.R2", "alloc|id-stable-after-hand-out", P.Pos(g.PosOf(H)), "no write to the id variable is reachable after '*out = &id'", strings.Join(bad, "; "))
		bad = nil
		nOK := 0
		for _, rn := range g.Returns() {
			ret := g.Nodes[rn].Ast.(*ast.ReturnStmt)
			if len(ret.Results) == 1 && core.IsNilIdent(x.info, ret.Results[0]) {
				nOK++
				if !g.Dominated(rn, core.NodeSet([]int{H})) || !g.Dominated(rn, core.NodeSet([]int{I})) {
					bad = append(bad, "success is returned at "+P.Pos(ret.Pos())+" on a path that did not hand out and record an id")
				}
			}
		}
		if nOK == 0 {
			bad = append(bad, "no success return")
		}
		r.Check(len(bad) == 0, "C18.R2", "alloc|success-only-after-hand-out", pos, sprintf("%d success return(s), all after insert and hand-out", nOK), strings.Join(bad, "; "))
	}

	// callers pass the transport's own role()
	sites := core.CallSitesOf(x.bodies, x.gen.Obj)
	if len(sites) == 0 {
		r.Fail("C18.R2", "alloc|call-sites", pos, "generateAndSetDataChannelID is never called")
	}
	for _, s := range sites {
		key := "alloc|role-argument|in:" + s.Body.Label
		p := P.Pos(s.Body.G.PosOf(s.Node))
		if s.Kind != "call" || len(s.Call.Args) < 1 {
			r.Undecided("C18.R2", key, p, "used as "+s.Kind)
			continue
		}
		sel, _ := ast.Unparen(s.Call.Fun).(*ast.SelectorExpr)
		arg, _ := ast.Unparen(s.Call.Args[0]).(*ast.CallExpr)
		ok := false
		if sel != nil && arg != nil && core.IsCallTo(x.info, arg, x.role.Obj) {
			if rs, isSel := ast.Unparen(arg.Fun).(*ast.SelectorExpr); isSel {
				if ds, isSel2 := ast.Unparen(rs.X).(*ast.SelectorExpr); isSel2 && ds.Sel.Name == "dtlsTransport" &&
					core.CanonExpr(ds.X) != "" && core.CanonExpr(ds.X) == core.CanonExpr(sel.X) {
					ok = true
				}
			}
		}
		r.Check(ok, "C18.R2", key, p, "role argument is <transport>.dtlsTransport.role() of the same transport", "the role passed to the allocator is not the role() of the allocating transport's own DTLS transport: parity no longer follows the local DTLS role")
	}
	// role() yields only client or server
	t := absint.Tabulate(absint.Config{P: P}, x.role)
	if !tableProblems(x.c, "C18.R2", "role|table", P.Pos(x.role.Decl.Pos()), t) {
		vals := map[string]bool{}
		bad := ""
		for _, row := range t.Rows {
			for _, o := range row.Outcomes {
				if o.Panic != "" || len(o.Results) != 1 {
					bad = "indefinite outcome " + o.String()
					continue
				}
				k, isC := o.Results[0].(absint.Const)
				if !isC {
					bad = "role() may return a non-constant: " + o.Results[0].String()
					continue
				}
				vals[k.String()] = true
				n, _ := constant.Int64Val(k.V)
				if n != clientV && n != serverV {
					bad = "role() may return " + k.String() + ", for which RFC 8832 gives no parity"
				}
			}
		}
		r.Cells += t.Paths
		r.Check(bad == "" && len(vals) > 0, "C18.R2", "role|yields-client-or-server", P.Pos(x.role.Decl.Pos()), "role() returns only "+joinSorted(vals), bad)
	}
}

func c18SuccsOf(g *core.Graph, n int) []int {
	var out []int
	for _, e := range g.Nodes[n].Succs {
		out = append(out, e.To)
	}
	return out
}

// c18Transfer applies the effect of node a on the id variable (value v, -1 = not yet declared).
func (x *c18Ctx) c18Transfer(ev *c18Eval, a ast.Node, idVar *types.Var, v int64, wrapped *bool) (int64, string) {
	res := v
	problem := ""
	set := func(c constant.Value, ok bool) {
		if !ok || c.Kind() != constant.Int {
			problem = "the id variable is assigned a value the explorer cannot evaluate"
			return
		}
		w, wr := c18Wrap(c, idVar.Type())
		if wr {
			*wrapped = true
		}
		n, _ := constant.Int64Val(w)
		res = n
	}
	core.InspectShallow(a, func(y ast.Node) bool {
		if problem != "" {
			return false
		}
		switch s := y.(type) {
		case *ast.ValueSpec:
			for i, nm := range s.Names {
				if x.info.Defs[nm] != types.Object(idVar) {
					continue
				}
				if len(s.Values) == 0 {
					res = 0
				} else if len(s.Values) == len(s.Names) {
					c, ok := ev.eval(s.Values[i], v)
					set(c, ok)
				} else {
					problem = "multi-value declaration of the id variable"
				}
			}
		case *ast.IncDecStmt:
			if core.VarOf(x.info, s.X) == idVar {
				op := token.ADD
				if s.Tok == token.DEC {
					op = token.SUB
				}
				if v < 0 {
					problem = "id used before declaration"
					return false
				}
				set(constant.BinaryOp(constant.MakeInt64(v), op, constant.MakeInt64(1)), true)
			}
		case *ast.AssignStmt:
			for i, l := range s.Lhs {
				if core.VarOf(x.info, l) != idVar {
					continue
				}
				if len(s.Lhs) != len(s.Rhs) {
					problem = "multi-value assignment to the id variable"
					return false
				}
				if s.Tok == token.ASSIGN || s.Tok == token.DEFINE {
					c, ok := ev.eval(s.Rhs[i], v)
					set(c, ok)
					continue
				}
				op, isOp := c18OpAssign[s.Tok]
				rhs, ok := ev.eval(s.Rhs[i], v)
				if !isOp || !ok || v < 0 || rhs.Kind() != constant.Int {
					problem = "compound assignment to the id variable with an unknown operand"
					return false
				}
				if op == token.QUO {
					op = token.QUO_ASSIGN
				}
				if (op == token.QUO_ASSIGN || op == token.REM) && constant.Sign(rhs) == 0 {
					problem = "division by zero"
					return false
				}
				if op == token.SHL || op == token.SHR {
					n, _ := constant.Uint64Val(rhs)
					set(constant.Shift(constant.MakeInt64(v), op, uint(n)), true)
				} else {
					set(constant.BinaryOp(constant.MakeInt64(v), op, rhs), true)
				}
			}
		}
		return true
	})
	return res, problem
}

func (x *c18Ctx) bodyOf(fi *core.FuncInfo) *core.Body {
	for _, b := range x.bodies {
		if b.Lit == nil && b.Owner == fi {
			return b
		}
	}
	return nil
}

// ---- R3 ------------------------------------------------------------------

func (x *c18Ctx) r3() {
	r, P := x.c.R, x.c.P
	nOpen := 0
	for _, b := range x.bodies {
		if b.G == nil {
			continue
		}
		g := b.G
		// composite-literal initialisation
		if b.Lit == nil {
			ast.Inspect(b.Owner.Decl.Body, func(n ast.Node) bool {
				kv, ok := n.(*ast.KeyValueExpr)
				if !ok {
					return true
				}
				if id, ok := kv.Key.(*ast.Ident); ok && b.Owner.Pkg.TypesInfo.Uses[id] == types.Object(x.dcID) {
					isCtor := b.Owner.Obj.Name() == "newDataChannel"
					r.Check(isCtor, "C18.R3", "id-write|literal|in:"+b.Label, P.Pos(kv.Pos()), "initial id set by the constructor literal (object not yet published)", "DataChannel.id is initialised in a composite literal outside the constructor")
				}
				return true
			})
		}
		for _, a := range g.FieldAccesses(map[*types.Var]bool{x.dcID: true}) {
			if !a.Write {
				continue
			}
			key := "id-write|" + a.How + "|in:" + b.Label
			pos := P.Pos(a.Sel.Pos())
			if b.Lit != nil || b.Owner != x.open {
				r.Fail("C18.R3", key, pos, "DataChannel.id is written outside the constructor and open: an id that was already set can change")
				continue
			}
			nOpen++
			var bad []string
			base := a.Base
			canon := core.CanonExpr(base)
			inst := canon + "." + x.dcMu.Name()
			li := x.gd.LocksOf(b)
			if li.HeldInst(a.Node, inst) != "W" {
				bad = append(bad, "id written without "+inst+" in write mode")
			}
			// dominated by id == nil
			nilEdges := g.EdgesWhere(func(f core.Fact) bool {
				return f.R != nil && f.Op == token.EQL && core.FieldOf(x.info, f.L) == x.dcID && core.IsNilIdent(x.info, f.R) &&
					core.CanonExpr(ast.Unparen(f.L).(*ast.SelectorExpr).X) == canon
			})
			if len(nilEdges) == 0 || !g.DominatedByEdges(a.Node, nilEdges) {
				bad = append(bad, "the write is not dominated by the test "+canon+".id == nil: an id that is already set can be replaced")
			}
			// value: the variable whose address went to the allocator, after its success
			as, _ := g.Nodes[a.Node].Ast.(*ast.AssignStmt)
			var valVar *types.Var
			if as != nil && len(as.Lhs) == len(as.Rhs) {
				for i, l := range as.Lhs {
					if ast.Unparen(l) == ast.Expr(a.Sel) {
						valVar = core.VarOf(x.info, as.Rhs[i])
					}
				}
			}
			genCalls := g.FindNodes(func(n ast.Node) bool { return core.IsCallTo(x.info, n, x.gen.Obj) })
			okVal := false
			if valVar != nil && len(genCalls) == 1 {
				var call *ast.CallExpr
				core.InspectShallow(g.Nodes[genCalls[0]].Ast, func(n ast.Node) bool {
					if core.IsCallTo(x.info, n, x.gen.Obj) {
						call = n.(*ast.CallExpr)
					}
					return true
				})
				if len(call.Args) == 2 {
					if u, ok := ast.Unparen(call.Args[1]).(*ast.UnaryExpr); ok && u.Op == token.AND && core.VarOf(x.info, u.X) == valVar {
						okVal = true
					}
				}
				// success edge of the call dominates the write
				errVar := errVarAssignedBy(g, genCalls[0], x.gen.Obj)
				if errVar == nil {
					bad = append(bad, "the allocator's error is not kept in a variable")
				} else {
					succ := g.EdgesWhere(func(f core.Fact) bool {
						return f.R != nil && f.Op == token.EQL && core.VarOf(x.info, f.L) == errVar && core.IsNilIdent(x.info, f.R)
					})
					if len(succ) == 0 || !g.DominatedByEdges(a.Node, succ) || !g.Dominated(a.Node, core.NodeSet(genCalls)) {
						bad = append(bad, "the id is stored on a path where the allocator did not succeed")
					}
				}
			}
			if !okVal {
				bad = append(bad, "the stored value is not the variable filled by generateAndSetDataChannelID")
			}
			// single-entry gate on sctpTransport
			gateEdges := g.EdgesWhere(func(f core.Fact) bool {
				return f.R != nil && f.Op == token.EQL && core.FieldOf(x.info, f.L) == x.dcSCTP && core.IsNilIdent(x.info, f.R) &&
					core.CanonExpr(ast.Unparen(f.L).(*ast.SelectorExpr).X) == canon
			})
			var gateStores []int
			for _, sa := range g.FieldAccesses(map[*types.Var]bool{x.dcSCTP: true}) {
				if sa.Write && core.CanonExpr(sa.Base) == canon {
					gateStores = append(gateStores, sa.Node)
				}
			}
			switch {
			case len(gateEdges) == 0 || !g.DominatedByEdges(a.Node, gateEdges):
				bad = append(bad, "the write is not behind the 'already open' gate ("+canon+".sctpTransport == nil): two concurrent open() calls can both assign an id")
			case len(gateStores) != 1 || !g.Dominated(a.Node, core.NodeSet(gateStores)):
				bad = append(bad, "the gate is not closed (sctpTransport stored) before the id is assigned")
			default:
				for er := range gateEdges {
					if ok, w := li.SameRegion(er.From, gateStores[0], inst); !ok {
						bad = append(bad, "the gate test and the gate store are not in one critical section of "+inst+" ("+w+")")
					}
				}
			}
			r.Check(len(bad) == 0, "C18.R3", key, pos, "written once, under "+inst+", only if id == nil, with the allocator's result, behind the single-entry gate", strings.Join(bad, "; "))
		}
	}
	if nOpen == 0 {
		r.Fail("C18.R3", "id-write|missing|in:(*DataChannel).open", P.Pos(x.open.Decl.Pos()), "open no longer stores a generated id")
	}
	// the gate field is written only in open (and the constructor literal)
	nGate := 0
	for _, b := range x.bodies {
		if b.G == nil {
			continue
		}
		for _, a := range b.G.FieldAccesses(map[*types.Var]bool{x.dcSCTP: true}) {
			if !a.Write {
				continue
			}
			nGate++
			r.Check(b.Lit == nil && b.Owner == x.open, "C18.R3", "gate-write|in:"+b.Label, P.Pos(a.Sel.Pos()), "DataChannel.sctpTransport is set by open only", "DataChannel.sctpTransport is written outside open: the single-entry gate can be re-opened and the id assigned twice")
		}
	}
	if nGate == 0 {
		r.Fail("C18.R3", "gate-write|missing", P.Pos(x.open.Decl.Pos()), "the 'already open' gate is never closed")
	}
}

// ---- R4 ------------------------------------------------------------------

func (x *c18Ctx) r4() {
	r, P := x.c.R, x.c.P
	nApp := 0
	for _, b := range x.bodies {
		if b.G == nil {
			continue
		}
		g := b.G
		for _, a := range g.FieldAccesses(map[*types.Var]bool{x.chans: true, x.used: true}) {
			if !a.Write {
				continue
			}
			as, _ := g.Nodes[a.Node].Ast.(*ast.AssignStmt)
			if a.Field == x.used {
				if a.How == "elem-assign" {
					continue // an insertion
				}
				r.Fail("C18.R4", "used-set|"+a.How+"|in:"+b.Label, P.Pos(a.Sel.Pos()), "dataChannelIDsUsed is replaced / shrunk: an id still in use can be handed out again")
				continue
			}
			// dataChannels: is it an append of one channel?
			if a.How != "assign" || as == nil || len(as.Lhs) != len(as.Rhs) {
				continue // element writes / other shapes: removal bookkeeping (DetachWithDeadline), judged by R1 only
			}
			var appended ast.Expr
			for i, l := range as.Lhs {
				if ast.Unparen(l) != ast.Expr(a.Sel) {
					continue
				}
				call, ok := ast.Unparen(as.Rhs[i]).(*ast.CallExpr)
				if !ok {
					continue
				}
				if id, ok := ast.Unparen(call.Fun).(*ast.Ident); ok {
					if bi, ok := x.info.Uses[id].(*types.Builtin); ok && bi.Name() == "append" && len(call.Args) == 2 && call.Ellipsis == token.NoPos &&
						core.FieldOf(x.info, call.Args[0]) == x.chans {
						appended = call.Args[1]
					}
				}
			}
			if appended == nil {
				continue
			}
			nApp++
			key := "register|in:" + b.Label
			pos := P.Pos(a.Sel.Pos())
			chVar := core.VarOf(x.info, appended)
			if chVar == nil {
				r.Undecided("C18.R4", key, pos, "the registered channel is not a variable")
				continue
			}
			canon := core.CanonExpr(a.Base)
			inst := canon + "." + x.lock.Name()
			li := x.gd.LocksOf(b)
			isIDCallOn := func(e ast.Expr) bool {
				c, ok := ast.Unparen(e).(*ast.CallExpr)
				if !ok || !core.IsCallTo(x.info, c, x.idGetter.Obj) {
					return false
				}
				sel, ok := ast.Unparen(c.Fun).(*ast.SelectorExpr)
				return ok && core.VarOf(x.info, sel.X) == chVar
			}
			var inserts []int
			for _, ia := range g.FieldAccesses(map[*types.Var]bool{x.used: true}) {
				if !ia.Write || ia.How != "elem-assign" || core.CanonExpr(ia.Base) != canon {
					continue
				}
				core.InspectShallow(g.Nodes[ia.Node].Ast, func(n ast.Node) bool {
					if ix, ok := n.(*ast.IndexExpr); ok && ast.Unparen(ix.X) == ast.Expr(ia.Sel) {
						if st, ok := ast.Unparen(ix.Index).(*ast.StarExpr); ok && isIDCallOn(st.X) {
							inserts = append(inserts, ia.Node)
						}
					}
					return true
				})
			}
			var bad []string
			if len(inserts) == 0 {
				bad = append(bad, "the channel is added to dataChannels but its id is never recorded in dataChannelIDsUsed: the allocator can hand the same id out again")
			} else {
				isIDValue := func(e ast.Expr) bool {
					if isIDCallOn(e) {
						return true
					}
					if v := core.VarOf(x.info, e); v != nil {
						if rhs, _ := g.UniqueDef(v); rhs != nil && isIDCallOn(rhs) {
							return true
						}
					}
					return false
				}
				nilEdges := g.EdgesWhere(func(f core.Fact) bool {
					return f.R != nil && f.Op == token.EQL && isIDValue(f.L) && core.IsNilIdent(x.info, f.R)
				})
				for _, in := range inserts {
					if ok, w := c05SameRegionEither(g, li, a.Node, in, inst); !ok {
						bad = append(bad, "registration and id recording are not in one critical section of "+inst+" ("+w+")")
					}
				}
				// every path through the registration passes an insertion or the ID() == nil edge, before or after it
				insSet := core.NodeSet(inserts)
				avoidEdge := func(from, idx int, e core.Edge) bool { return nilEdges[core.EdgeRef{From: from, Idx: idx}] }
				pre := g.ReachFromEntry(func(n int) bool { return insSet[n] }, avoidEdge)[a.Node]
				if pre {
					ends := map[int]bool{g.Exit: true}
					for _, u := range li.UnlockNodes(inst) {
						ends[u] = true
					}
					reach := g.Reach(c18SuccsOf(g, a.Node), func(n int) bool { return insSet[n] || ends[n] }, avoidEdge)
					for e := range ends {
						if reach[e] {
							bad = append(bad, "a path registers the channel and leaves the critical section at "+P.Pos(g.PosOf(e))+" without recording a non-nil id")
							break
						}
					}
				}
			}
			r.Check(len(bad) == 0, "C18.R4", key, pos, "channel registered and its id (when known) recorded in one critical section of "+inst, strings.Join(bad, "; "))
		}
	}
	if nApp < 2 {
		r.Fail("C18.R4", "register|missing", "-", sprintf("expected at least two registration sites (CreateDataChannel, onDataChannel), found %d", nApp))
	}
	// the used set is created once, in the constructor literal
	nInit := 0
	for _, b := range x.bodies {
		if b.Lit != nil {
			continue
		}
		ast.Inspect(b.Owner.Decl.Body, func(n ast.Node) bool {
			kv, ok := n.(*ast.KeyValueExpr)
			if !ok {
				return true
			}
			if id, ok := kv.Key.(*ast.Ident); ok && b.Owner.Pkg.TypesInfo.Uses[id] == types.Object(x.used) {
				nInit++
				r.OK("C18.R4", "used-set|init|in:"+b.Label, P.Pos(kv.Pos()), "created with the transport")
			}
			return true
		})
	}
	if nInit == 0 {
		r.Fail("C18.R4", "used-set|init|missing", "-", "dataChannelIDsUsed is never initialised (insertions would panic)")
	}
}
