package props

import (
	"go/ast"
	"go/types"

	"verif/checker/core"
)

// c34R4: the Annex-B start-code detector of each reader, tabulated with the byte-predicate
// evaluator over (byte read, zeros seen so far, length buffered so far) and compared with the
// framing rule itself: a 0x00 extends the run of zeros; a 0x01 after at least two zeros is a
// start code - the two (three when the run is longer) trailing zeros belong to it, and a unit
// is reported iff something remains in the buffer; a 0x01 after fewer zeros, and any other
// byte, is payload; both reset the run. This replaces the syntactic comparison of the two
// readers as the judged rule (a one-sided refactor made that comparison raise a false alarm);
// the comparison is still listed.
func c34R4(c *Ctx, rule string) {
	r := c.R
	for _, rd := range c34Readers {
		fi := c.mustFunc(rule, rd.rel, rd.typ+".processByte")
		fZ := c.mustField(rule, rd.rel, rd.typ, "countOfConsecutiveZeroBytes")
		fB := c.mustField(rule, rd.rel, rd.typ, "nalBuffer")
		if fi == nil || fZ == nil || fB == nil {
			continue
		}
		pos := c.P.Pos(fi.Decl.Pos())
		intT := fZ.Type()
		u8 := types.Typ[types.Uint8]
		badByClass := map[string]string{}
		classes := []string{"zero", "one-after-start-code-zeros", "one-after-fewer-zeros", "other-byte"}
		for _, b := range []int64{0, 1, 2, 0x67, 0xff} {
			for z := int64(0); z <= 5; z++ {
				for _, L := range []int64{0, 1, 2, 3, 4, 5, 9} {
					class := "other-byte"
					switch {
					case b == 0:
						class = "zero"
					case b == 1 && z >= 2:
						class = "one-after-start-code-zeros"
					case b == 1:
						class = "one-after-fewer-zeros"
					}
					// oracle
					wantZ, wantL, wantFound := int64(0), L, false
					switch class {
					case "zero":
						wantZ = z + 1
					case "one-after-start-code-zeros":
						k := int64(2)
						if z > 2 {
							k = 3
						}
						if L-k > 0 {
							wantL, wantFound = L-k, true
						}
					}
					ev := &core.Evaluator{P: c.P, Fuel: 400}
					ev.Path = func(p string) (core.EVal, bool) {
						switch p {
						case "recv." + fZ.Name():
							return core.EInt(z, intT), true
						case "recv." + fB.Name():
							return core.EBytes("recv."+fB.Name(), L), true
						}
						return core.EVal{}, false
					}
					out := ev.Call(fi, core.EVal{K: core.ERef, Path: "recv"}, []core.EVal{core.EInt(b, u8)})
					r.Cells++
					desc := sprintf("byte 0x%02x after %d zero(s) with %d byte(s) buffered", b, z, L)
					if out.Kind != "return" || len(out.Results) != 1 {
						badByClass[class] = "UNDECIDED " + desc + ": " + out.Kind + " " + out.Why
						continue
					}
					gotFound := out.Results[0].IsTrue()
					if !gotFound && !out.Results[0].IsFalse() {
						badByClass[class] = "UNDECIDED " + desc + ": result " + out.Results[0].String()
						continue
					}
					gotZ := z
					if v, ok := ev.Stores["recv."+fZ.Name()]; ok {
						n, isInt := v.Int64()
						if !isInt {
							badByClass[class] = "UNDECIDED " + desc + ": zero counter becomes " + v.String()
							continue
						}
						gotZ = n
					}
					gotL := L
					if v, ok := ev.Stores["recv."+fB.Name()]; ok {
						if v.K != core.ESlice || !v.LenKnown || v.Off != 0 {
							badByClass[class] = "UNDECIDED " + desc + ": buffer becomes " + v.String()
							continue
						}
						gotL = v.Len
					}
					if gotFound != wantFound || gotZ != wantZ || gotL != wantL {
						badByClass[class] = sprintf("%s: unit reported=%v zeros=%d buffered=%d, Annex-B framing requires reported=%v zeros=%d buffered=%d", desc, gotFound, gotZ, gotL, wantFound, wantZ, wantL)
					}
				}
			}
		}
		for _, class := range classes {
			key := rd.typ + ".processByte|" + class
			bad := badByClass[class]
			if len(bad) > 9 && bad[:9] == "UNDECIDED" {
				r.Undecided(rule, key, pos, bad[10:])
				continue
			}
			r.Check(bad == "", rule, key, pos, "agrees with the Annex-B start-code rule for every (byte, zero run, buffered length) cell", bad)
		}
	}
}

// c34R5: the read buffer never aliases the scratch buffer handed to the underlying stream.
// `read` must hold bytes across calls of stream.Read(tmpReadBuf); if readBuffer were a window
// into tmpReadBuf, the next Read would overwrite bytes not yet consumed, and the result would
// depend on how the stream chunks its data. Every assignment to readBuffer is therefore an
// append to readBuffer itself (copying), a re-slice of readBuffer itself, or nil / a fresh
// slice. (Added after seed C34-m2.)
func c34R5(c *Ctx, rule string) {
	r := c.R
	for _, rd := range c34Readers {
		fRB := c.mustField(rule, rd.rel, rd.typ, "readBuffer")
		fTmp := c.mustField(rule, rd.rel, rd.typ, "tmpReadBuf")
		if fRB == nil || fTmp == nil {
			continue
		}
		pkg := c.P.Pkg(rd.rel)
		n := 0
		for _, fi := range c.P.AllFuncs() {
			if fi.Pkg != pkg || fi.Decl.Body == nil {
				continue
			}
			info := fi.Pkg.TypesInfo
			ast.Inspect(fi.Decl.Body, func(x ast.Node) bool {
				as, ok := x.(*ast.AssignStmt)
				if !ok {
					return true
				}
				for i, l := range as.Lhs {
					if core.FieldOf(info, l) != fRB || i >= len(as.Rhs) {
						continue
					}
					n++
					rhs := ast.Unparen(as.Rhs[i])
					ok := false
					why := "`" + exprStr(rhs) + "`"
					switch e := rhs.(type) {
					case *ast.Ident:
						ok = core.IsNilIdent(info, e)
					case *ast.SliceExpr:
						ok = core.FieldOf(info, e.X) == fRB
					case *ast.CompositeLit:
						ok = true
					case *ast.CallExpr:
						if id, isId := e.Fun.(*ast.Ident); isId && id.Name == "append" && len(e.Args) >= 1 {
							a0 := ast.Unparen(e.Args[0])
							if core.FieldOf(info, a0) == fRB {
								ok = true
							}
							if cl, isLit := a0.(*ast.CompositeLit); isLit && len(cl.Elts) == 0 {
								ok = true
							}
						}
						if id, isId := e.Fun.(*ast.Ident); isId && id.Name == "make" {
							ok = true
						}
					}
					// anything mentioning the scratch buffer outside an append's source operands aliases it
					r.Check(ok, rule, sprintf("%s|readBuffer-assign#%d|in:%s", rd.typ, n, fi.Name()), c.P.Pos(as.Pos()),
						"readBuffer is appended to / re-sliced from itself (owns its bytes)",
						"readBuffer is assigned "+why+", which is not a copy into readBuffer's own storage: pending bytes can alias the scratch buffer that the next stream.Read overwrites, so the units returned depend on the stream's chunk sizes")
				}
				return true
			})
		}
		if n == 0 {
			r.Undecided(rule, rd.typ+"|readBuffer-assign", "-", "no assignment to readBuffer found")
		}
	}
}
