package props

import (
	"go/ast"
	"go/constant"
	"go/token"
	"go/types"
	"sort"
	"strings"

	"verif/checker/absint"
	"verif/checker/core"
)

func init() {
	register(&Prop{
		ID:        "C13",
		Engine:    "e1tab+e2cfg",
		Technique: "finite-domain abstract interpretation: decision tables of connectionRoleFromDtlsRole, sdp.ConnectionRole.String (library source), dtlsRoleFromSDP, CreateAnswer's connectionRole, SetRemoteDescription's iceRole region and DTLSTransport.role, composed over the full configuration matrix and compared with RFC 5763/4145 (setup) and RFC 8445 §6.1.1 (ICE roles); who-may-write sweep for the configured answering role; provenance rules for the values handed to the transports and written as a=setup",
		LevelText: "Exhaustive: every function that takes part in the role decision is tabulated for all values of its finite inputs directly from the source; the tables are composed for all 2x2 ICE-lite settings x 3 configured answering roles x 4 offered a=setup values (48 configurations, plus the offerer's own configured role where the offerer is pion) and each configuration is compared with the RFC rules. Glue rules show that the tabulated values are the ones that reach ICETransport.Start / DTLSTransport.Start and the a=setup attribute.",
		LevelNote: "Trusted: the RFC rules as transcribed in props/c13.go; absint soundness on the supported fragment; that the remote's a=ice-lite attribute reflects its ICELite setting (populateSDP emission is checked, SDP parsing is not). An absent a=setup in the offer is treated like actpass (no constraint from the offer). Does not decide what pion/ice and pion/dtls do with the roles, nor role stability across ICE restarts.",
		DesignRef: "DESIGN.md §5 C13",
		Run:       runC13,
	})
}

// c13Table is a decision table with one definite outcome per row.
type c13Table map[string]string

func c13Key(parts ...string) string { return strings.Join(parts, "|") }

// c13Single tabulates fi and reduces every row to the single value pick() extracts from its outcomes.
// pick returns ("", false) for outcomes that do not carry the value (e.g. error exits before the decision).
func c13Single(c *Ctx, rule, name, pos string, t *absint.Table, dims []string, pick func(o absint.Outcome) (string, bool)) (c13Table, bool) {
	if tableProblems(c, rule, name+"|table", pos, t) {
		return nil, false
	}
	c.R.Cells += len(t.Rows)
	out := c13Table{}
	ok := true
	for _, row := range t.Rows {
		var ks []string
		for _, d := range dims {
			ks = append(ks, row.Get(d))
		}
		vals := map[string]bool{}
		for _, o := range row.Outcomes {
			if o.Panic != "" {
				vals["PANIC("+o.Panic+")"] = true
				continue
			}
			if v, has := pick(o); has {
				vals[v] = true
			}
		}
		if len(vals) != 1 {
			c.R.Undecided(rule, name+"|row|"+strings.Join(ks, ","), pos, sprintf("row does not have exactly one definite value: %v  [%s]", sortedKeys(vals), outcomesStr(row.Outcomes)))
			ok = false
			continue
		}
		out[c13Key(ks...)] = sortedKeys(vals)[0]
	}
	return out, ok
}

func c13FirstResult(o absint.Outcome) (string, bool) {
	if len(o.Results) != 1 {
		return "indefinite", true
	}
	return o.Results[0].String(), true
}

// c13ConstsOf lists the package-level constants of a named type (any package), in declaration order, plus extra values.
func c13ConstsOf(n *types.Named, extra ...int64) []absint.Val {
	var cs []*types.Const
	sc := n.Obj().Pkg().Scope()
	for _, nm := range sc.Names() {
		if k, ok := sc.Lookup(nm).(*types.Const); ok && types.Identical(k.Type(), n) {
			cs = append(cs, k)
		}
	}
	sort.Slice(cs, func(i, j int) bool { return cs[i].Pos() < cs[j].Pos() })
	var out []absint.Val
	have := map[string]bool{}
	for _, k := range cs {
		if !have[k.Val().ExactString()] {
			have[k.Val().ExactString()] = true
			out = append(out, absint.ConstOf(k))
		}
	}
	for _, e := range extra {
		v := constant.MakeInt64(e)
		if !have[v.ExactString()] {
			have[v.ExactString()] = true
			out = append(out, absint.Const{V: v, T: n})
		}
	}
	return out
}

var c13Bools = []absint.Val{absint.BoolVal(false), absint.BoolVal(true)}

func runC13(c *Ctx) {
	r := c.R
	r.Exhaustive = true
	r.Rule("C13.R0", "the configured answering DTLS role is written only by SettingEngine.SetAnsweringDTLSRole, which stores its argument iff it is Client or Server (tabulated) => domain {unset, client, server}", 6)
	r.Rule("C13.R1", "for every configuration (ICE-lite of each peer x configured answering role x offered a=setup) the a=setup value CreateAnswer hands to the SDP generator is active or passive (RFC 5763 §5: never actpass/holdconn/none)", 48)
	r.Rule("C13.R2", "for every configuration the answerer's DTLSTransport.role() agrees with the a=setup it answered, the answer is a legal response to the offered a=setup (RFC 4145 §4.1: active<->passive), and the offerer's role (pion's role() for actpass offers, for every offerer-side configured role; RFC 4145 otherwise) is the opposite one", 48)
	r.Rule("C13.R3", "for every ICE-lite combination exactly one peer computes ICERoleControlling in SetRemoteDescription and it is the RFC 8445 §6.1.1 choice (the full agent if exactly one is lite, else the offerer)", 4)
	r.Rule("C13.R4", "glue: the tabulated values are the ones used - startTransports receives the iceRole variable and dtlsRoleFromSDP(desc.parsed) and passes them unchanged to ICETransport.Start / DTLSTransport.Start; prepareStart stores the remote parameters before evaluating role(); every sdp.ConnectionRole argument in the module is a forwarded parameter, connectionRoleFromDtlsRole(defaultDtlsRoleOffer)=actpass (offers) or CreateAnswer's tabulated variable; a=setup is written only from such a parameter; a=ice-lite is written iff the ICELite setting is on", 22)
	r.Rule("C13.R6", "sibling agreement: every reader of a session-level flag attribute (func(*sdp.SessionDescription) bool, e.g. isIceLiteSet / isExtMapAllowMixedSet) recognises the key the same way (today: strings.TrimSpace(a.Key) == key over desc.Attributes); a lone exact-match reader misses a whitespace-padded a=ice-lite", 1)
	c13R6(c) // c13b.go
	r.NotCovered = append(r.NotCovered,
		"what pion/ice and pion/dtls do with the roles they are given",
		"role stability across renegotiation / ICE restart (roles are decided by the first SetRemoteDescription)",
		"parsing of a=ice-lite / a=setup by the remote peer (only pion's own reading and writing is analysed)",
		"offers with more than one distinct a=setup value (dtlsRoleFromSDP reads the first one)")
	r.Trusted = append(r.Trusted,
		"RFC 5763 §5 / RFC 4145 §4.1 (setup negotiation) and RFC 8445 §6.1.1 (ICE role) as transcribed in props/c13.go",
		"absint soundness on the supported fragment",
		"an offer without a=setup is treated like actpass")

	t1fn := c.mustFunc("C13.R1", "", "connectionRoleFromDtlsRole")
	t2fn := c.mustFunc("C13.R2", "", "dtlsRoleFromSDP")
	createAnswer := c.mustFunc("C13.R1", "", "PeerConnection.CreateAnswer")
	setRemote := c.mustFunc("C13.R3", "", "PeerConnection.SetRemoteDescription")
	roleFn := c.mustFunc("C13.R2", "", "DTLSTransport.role")
	setAnswering := c.mustFunc("C13.R0", "", "SettingEngine.SetAnsweringDTLSRole")
	startTransports := c.mustFunc("C13.R4", "", "PeerConnection.startTransports")
	genMatched := c.mustFunc("C13.R4", "", "PeerConnection.generateMatchedSDP")
	isLite := c.mustFunc("C13.R3", "", "isIceLiteSet")
	roleField := c.mustField("C13.R0", "", "SettingEngine", "answeringDTLSRole")
	dtlsRoleT := c.P.Named("", "DTLSRole")
	iceRoleT := c.P.Named("", "ICERole")
	kClient, kServer, kAuto := c.mustConst("C13.R2", "", "DTLSRoleClient"), c.mustConst("C13.R2", "", "DTLSRoleServer"), c.mustConst("C13.R2", "", "DTLSRoleAuto")
	kControlling, kControlled := c.mustConst("C13.R3", "", "ICERoleControlling"), c.mustConst("C13.R3", "", "ICERoleControlled")
	kOfferDefault := c.mustConst("C13.R4", "", "defaultDtlsRoleOffer")
	if t1fn == nil || t2fn == nil || createAnswer == nil || setRemote == nil || roleFn == nil || setAnswering == nil || startTransports == nil ||
		genMatched == nil || isLite == nil || roleField == nil || dtlsRoleT == nil || iceRoleT == nil || kClient == nil || kServer == nil || kAuto == nil ||
		kControlling == nil || kControlled == nil || kOfferDefault == nil {
		if dtlsRoleT == nil || iceRoleT == nil {
			r.Fail("C13.R1", "anchor:DTLSRole/ICERole", "-", "anchored types no longer resolve (fails closed)")
		}
		return
	}
	// the connection-role type is whatever connectionRoleFromDtlsRole returns (resolved, not spelled)
	sig1 := t1fn.Obj.Type().(*types.Signature)
	var connT *types.Named
	if sig1.Results().Len() == 1 {
		connT, _ = sig1.Results().At(0).Type().(*types.Named)
	}
	if connT == nil || connT.Obj().Pkg() == nil {
		r.Fail("C13.R1", "anchor:connectionRoleFromDtlsRole/result-type", c.P.Pos(t1fn.Decl.Pos()), "connectionRoleFromDtlsRole no longer returns a named connection-role type (fails closed)")
		return
	}
	crString := c.P.ExternalFunc(connT.Obj().Pkg().Path(), connT.Obj().Name()+".String")
	if crString == nil {
		r.Fail("C13.R1", "anchor:"+connT.Obj().Pkg().Path()+"."+connT.Obj().Name()+".String", "-", "source of the connection-role String method not loaded (fails closed)")
		return
	}
	r.Saw(connT.Obj().Pkg().Name() + "." + connT.Obj().Name() + ".String")

	dtlsDom := c13ConstsOf(dtlsRoleT, 77)
	connDom := c13ConstsOf(connT, 0, 77)
	iceDom := c13ConstsOf(iceRoleT, 77)
	client, server, auto := absint.ConstOf(kClient).String(), absint.ConstOf(kServer).String(), absint.ConstOf(kAuto).String()
	unset := absint.Const{V: constant.MakeInt64(0), T: dtlsRoleT}.String()
	controlling, controlled := absint.ConstOf(kControlling).String(), absint.ConstOf(kControlled).String()

	// ---- T0: wire string of each connection role (library source)
	t0raw := absint.Tabulate(absint.Config{P: c.P, Dims: []absint.Dim{{Key: "$recv", Domain: connDom}}}, crString)
	t0, ok0 := c13Single(c, "C13.R1", "ConnectionRole.String", "-", t0raw, []string{"$recv"}, c13FirstResult)

	// ---- T1
	t1raw := absint.Tabulate(absint.Config{P: c.P, Dims: []absint.Dim{{Key: "$p0", Domain: dtlsDom}}}, t1fn)
	t1, ok1 := c13Single(c, "C13.R1", "connectionRoleFromDtlsRole", c.P.Pos(t1fn.Decl.Pos()), t1raw, []string{"$p0"}, c13FirstResult)

	// ---- T2: one media section with one attribute (key, value)
	const kPath, vPath = "$p0.MediaDescriptions[0].Attributes[0].Key", "$p0.MediaDescriptions[0].Attributes[0].Value"
	strs := func(ss ...string) []absint.Val {
		var out []absint.Val
		for _, s := range ss {
			out = append(out, absint.StrVal(s))
		}
		return out
	}
	setupValues := []string{"active", "passive", "actpass", "holdconn", "other"}
	t2cfg := absint.Config{P: c.P,
		Dims: []absint.Dim{
			{Key: "len($p0.MediaDescriptions)", Domain: []absint.Val{absint.IntVal(1, types.Typ[types.Int])}},
			{Key: "len($p0.MediaDescriptions[0].Attributes)", Domain: []absint.Val{absint.IntVal(1, types.Typ[types.Int])}},
			{Key: kPath, Domain: strs("setup", "other")},
			{Key: vPath, Domain: strs(setupValues...)},
		},
		Inline:   func(fn *types.Func) bool { return fn == crString.Obj || c13ValueHelper(fn) },
		RootBind: map[string]absint.Val{"$p0": absint.Ref{Path: "$p0", NonNilRef: true}},
	}
	t2raw := absint.Tabulate(t2cfg, t2fn)
	t2, ok2 := c13Single(c, "C13.R2", "dtlsRoleFromSDP", c.P.Pos(t2fn.Decl.Pos()), t2raw, []string{kPath, vPath}, c13FirstResult)
	// no media sections at all / nil description: absent
	t2empty := absint.Tabulate(absint.Config{P: c.P, Dims: []absint.Dim{{Key: "len($p0.MediaDescriptions)", Domain: []absint.Val{absint.IntVal(0, types.Typ[types.Int])}}},
		Inline: t2cfg.Inline}, t2fn)
	t2e, ok2e := c13Single(c, "C13.R2", "dtlsRoleFromSDP(no media)", c.P.Pos(t2fn.Decl.Pos()), t2empty, []string{"len($p0.MediaDescriptions)"}, c13FirstResult)
	if c.Thorough && ok2 {
		c13T2FirstWins(c, t2fn, t2cfg, t2, setupValues)
	}

	// ---- T3: CreateAnswer's connection role
	connIdx := -1
	gsig := genMatched.Obj.Type().(*types.Signature)
	for i := 0; i < gsig.Params().Len(); i++ {
		if types.Identical(gsig.Params().At(i).Type(), connT) {
			if connIdx >= 0 {
				connIdx = -2
			} else {
				connIdx = i
			}
		}
	}
	var t3 c13Table
	ok3 := false
	posCA := c.P.Pos(createAnswer.Decl.Pos())
	if connIdx < 0 {
		r.Undecided("C13.R1", "CreateAnswer|generator-parameter", c.P.Pos(genMatched.Decl.Pos()), "generateMatchedSDP does not have exactly one connection-role parameter")
	} else {
		sigStates := []absint.Val{}
		for _, nm := range []string{"SignalingStateHaveRemoteOffer", "SignalingStateHaveLocalPranswer"} {
			if k := c.mustConst("C13.R1", "", nm); k != nil {
				sigStates = append(sigStates, absint.ConstOf(k))
			}
		}
		if !c.Thorough && len(sigStates) > 1 {
			sigStates = sigStates[:1]
		}
		dims := []absint.Dim{
			{Key: "$recv.idpLoginURL", Domain: []absint.Val{absint.Nil{}}},
			{Key: "$recv.RemoteDescription()", Domain: []absint.Val{absint.NonNil{Desc: "remote description"}}},
			{Key: "$recv.isClosed.Load()", Domain: []absint.Val{absint.BoolVal(false)}},
			{Key: "$recv.signalingState.Get()", Domain: sigStates},
			{Key: "$recv.api.settingEngine.answeringDTLSRole", Domain: dtlsDom},
			{Key: "offer-role", Domain: dtlsDom},
			{Key: "remote-lite", Domain: c13Bools},
			{Key: "$recv.api.settingEngine.candidates.ICELite", Domain: c13Bools},
		}
		t3raw := absint.Tabulate(absint.Config{P: c.P, Dims: dims, MaxPaths: 500000,
			// helpers that compute a role value are interpreted (an extracted helper must not change the verdict)
			Inline: func(fn *types.Func) bool {
				return fn == t1fn.Obj || c13Returns(fn, connT, dtlsRoleT) || c13Takes(fn, connT)
			},
			OnCall: func(in *absint.Interp, st *absint.State, call *ast.CallExpr, fn *types.Func, recv absint.Val, args []absint.Val) (absint.Val, bool) {
				switch fn {
				case t2fn.Obj:
					v, _ := st.Dim("offer-role")
					return v, true
				case isLite.Obj:
					v, _ := st.Dim("remote-lite")
					return v, true
				case genMatched.Obj:
					if connIdx < len(args) {
						st.Emit("answer-setup=" + args[connIdx].String())
					}
					return absint.Tuple{absint.Top{}, absint.Top{}}, true
				}
				return nil, false
			}}, createAnswer)
		t3, ok3 = c13Single(c, "C13.R1", "CreateAnswer", posCA, t3raw,
			[]string{"$recv.signalingState.Get()", "$recv.api.settingEngine.answeringDTLSRole", "offer-role", "remote-lite", "$recv.api.settingEngine.candidates.ICELite"},
			func(o absint.Outcome) (string, bool) {
				for _, ev := range o.Trace {
					if strings.HasPrefix(ev, "answer-setup=") {
						return strings.TrimPrefix(ev, "answer-setup="), true
					}
				}
				// an outcome without the generator call must be an error exit
				if len(o.Results) == 2 {
					if _, isErr := o.Results[1].(absint.NonNil); isErr {
						return "", false
					}
				}
				return "returns without calling the SDP generator: " + o.String(), true
			})
	}

	// ---- T4: iceRole region of SetRemoteDescription
	t4, ok4, iceVar, stCall := c13IceRoleTable(c, setRemote, startTransports, isLite)

	// ---- T5: DTLSTransport.role()
	t5raw := absint.Tabulate(absint.Config{P: c.P, Dims: []absint.Dim{
		{Key: "$recv.remoteParameters.Role", Domain: dtlsDom},
		{Key: "$recv.api.settingEngine.answeringDTLSRole", Domain: dtlsDom},
		{Key: "$recv.iceTransport.Role()", Domain: iceDom},
	}, Inline: func(fn *types.Func) bool { return c13Returns(fn, dtlsRoleT) || c13ValueHelper(fn) }}, roleFn)
	t5, ok5 := c13Single(c, "C13.R2", "DTLSTransport.role", c.P.Pos(roleFn.Decl.Pos()), t5raw,
		[]string{"$recv.remoteParameters.Role", "$recv.api.settingEngine.answeringDTLSRole", "$recv.iceTransport.Role()"}, c13FirstResult)

	// ---- R0
	c13R0(c, setAnswering, roleField, dtlsDom, client, server)

	// ---- R4 glue
	c13Glue(c, setRemote, startTransports, t2fn, t1fn, createAnswer, genMatched, connT, kOfferDefault, t1, t0, iceVar, stCall)

	r.Extra["tables"] = map[string]any{"T0_ConnectionRole.String": t0, "T1_connectionRoleFromDtlsRole": t1, "T2_dtlsRoleFromSDP": t2, "T3_CreateAnswer": t3, "T4_iceRole": t4, "T5_DTLSTransport.role": t5}
	if !(ok0 && ok1 && ok2 && ok2e && ok3 && ok4 && ok5) {
		return
	}

	// ---- composition over the matrix
	wire := func(connName string) string { return strings.Trim(t0[connName], `"`) }
	offerRole := func(setup string) (string, bool) {
		if setup == "absent" {
			a, b := t2[c13Key(`"other"`, `"other"`)], t2e["0"]
			if a != b {
				return "", false
			}
			return a, true
		}
		v, ok := t2[c13Key(`"setup"`, `"`+setup+`"`)]
		return v, ok
	}
	sigState := ""
	for k := range t3 {
		sigState = strings.SplitN(k, "|", 2)[0]
		break
	}
	bs := func(b bool) string {
		if b {
			return "true"
		}
		return "false"
	}
	configured := []struct{ name, val string }{{"unset", unset}, {"client", client}, {"server", server}}
	for _, x := range []bool{false, true} { // offerer is lite
		for _, y := range []bool{false, true} { // answerer is lite
			iceA, okA := t4[c13Key("false", bs(x), bs(y))]
			iceO, okO := t4[c13Key("true", bs(y), bs(x))]
			key3 := sprintf("matrix|offererLite=%v,answererLite=%v", x, y)
			if !okA || !okO {
				r.Undecided("C13.R3", key3, c.P.Pos(setRemote.Decl.Pos()), "iceRole table has no row for this combination")
				continue
			}
			wantO := controlling
			wantA := controlled
			if x != y && x { // offerer lite, answerer full
				wantO, wantA = controlled, controlling
			}
			r.Check(iceA == wantA && iceO == wantO, "C13.R3", key3, c.P.Pos(setRemote.Decl.Pos()),
				sprintf("offerer %s, answerer %s", iceO, iceA),
				sprintf("offerer computes %s and answerer computes %s; RFC 8445 §6.1.1 requires offerer %s / answerer %s", iceO, iceA, wantO, wantA))
			for _, cf := range configured {
				for _, s := range []string{"actpass", "active", "passive", "absent"} {
					key := sprintf("matrix|offererLite=%v,answererLite=%v,answeringRole=%s,offerSetup=%s", x, y, cf.name, s)
					or, ok := offerRole(s)
					if !ok {
						r.Undecided("C13.R1", key, posCA, "dtlsRoleFromSDP table has no definite row for this offer")
						r.Undecided("C13.R2", key, posCA, "dtlsRoleFromSDP table has no definite row for this offer")
						continue
					}
					ansConn, ok := t3[c13Key(sigState, cf.val, or, bs(x), bs(y))]
					if !ok {
						r.Undecided("C13.R1", key, posCA, "CreateAnswer table has no row for ("+cf.val+","+or+")")
						r.Undecided("C13.R2", key, posCA, "CreateAnswer table has no row")
						continue
					}
					a := wire(ansConn)
					okR1 := a == "active" || a == "passive"
					r.Check(okR1, "C13.R1", key, posCA, "answer a=setup:"+a, sprintf("answer carries a=setup:%s (%s); RFC 5763 §5 requires active or passive", a, ansConn))
					// R2
					var bad []string
					ansRole, ok := t5[c13Key(or, cf.val, iceA)]
					if !ok {
						bad = append(bad, "role() table has no row")
					}
					switch {
					case a == "active" && ansRole != client:
						bad = append(bad, sprintf("answer says a=setup:active but the answerer's role() is %s", ansRole))
					case a == "passive" && ansRole != server:
						bad = append(bad, sprintf("answer says a=setup:passive but the answerer's role() is %s", ansRole))
					case !okR1:
						bad = append(bad, "answer setup is neither active nor passive")
					}
					if (s == "active" && a != "passive") || (s == "passive" && a != "active") {
						bad = append(bad, sprintf("offer a=setup:%s answered with a=setup:%s: both endpoints claim the same side (RFC 4145 §4.1)", s, a))
					}
					// offerer's role
					rfcOfferer := map[string]string{"active": server, "passive": client}[a]
					if rfcOfferer != "" && ansRole == rfcOfferer {
						bad = append(bad, sprintf("both endpoints take %s", ansRole))
					}
					if s == "actpass" && okR1 {
						// pion offerer: role() evaluated on the answer, for each offerer-side configured role
						ar, ok := t2[c13Key(`"setup"`, `"`+a+`"`)]
						for _, co := range configured {
							offRole, ok2 := t5[c13Key(ar, co.val, iceO)]
							if !ok || !ok2 {
								bad = append(bad, "offerer-side tables have no row")
								break
							}
							if offRole != rfcOfferer {
								bad = append(bad, sprintf("pion offerer (configured %s) takes %s on answer a=setup:%s, RFC 4145 gives %s", co.name, offRole, a, rfcOfferer))
							}
							if offRole == ansRole {
								bad = append(bad, sprintf("pion offerer (configured %s) and answerer both take %s", co.name, ansRole))
							}
						}
					}
					r.Check(len(bad) == 0, "C13.R2", key, posCA, sprintf("answer a=setup:%s, answerer %s, offerer %s", a, ansRole, rfcOfferer), strings.Join(bad, "; "))
				}
			}
		}
	}
	// rows outside the quantifier are listed
	for k, v := range t3 {
		p := strings.Split(k, "|")
		if p[1] != unset && p[1] != client && p[1] != server {
			r.Info("C13.R1", "CreateAnswer|row|"+k, posCA, "configured role outside {unset, client, server} (excluded by R0): "+v)
		}
	}
	_ = auto
	c13DebugDump(c)
}

// c13T2FirstWins (thorough): with two attributes, the first setup attribute decides.
func c13T2FirstWins(c *Ctx, t2fn *core.FuncInfo, base absint.Config, t2 c13Table, values []string) {
	const k0, v0 = "$p0.MediaDescriptions[0].Attributes[0].Key", "$p0.MediaDescriptions[0].Attributes[0].Value"
	const k1, v1 = "$p0.MediaDescriptions[0].Attributes[1].Key", "$p0.MediaDescriptions[0].Attributes[1].Value"
	var sv []absint.Val
	for _, s := range values {
		sv = append(sv, absint.StrVal(s))
	}
	keys := []absint.Val{absint.StrVal("setup"), absint.StrVal("other")}
	cfg := base
	cfg.Dims = []absint.Dim{
		{Key: "len($p0.MediaDescriptions)", Domain: []absint.Val{absint.IntVal(1, types.Typ[types.Int])}},
		{Key: "len($p0.MediaDescriptions[0].Attributes)", Domain: []absint.Val{absint.IntVal(2, types.Typ[types.Int])}},
		{Key: k0, Domain: keys}, {Key: v0, Domain: sv}, {Key: k1, Domain: keys}, {Key: v1, Domain: sv},
	}
	pos := c.P.Pos(t2fn.Decl.Pos())
	tt, ok := c13Single(c, "C13.R2", "dtlsRoleFromSDP(two attributes)", pos, absint.Tabulate(cfg, t2fn), []string{k0, v0, k1, v1}, c13FirstResult)
	if !ok {
		return
	}
	bad := ""
	for k, v := range tt {
		p := strings.Split(k, "|")
		want := t2[c13Key(p[2], p[3])]
		if p[0] == `"setup"` {
			want = t2[c13Key(p[0], p[1])]
		}
		if v != want {
			bad = sprintf("attributes (%s) give %s, the first setup attribute alone gives %s", k, v, want)
		}
	}
	c.R.Check(bad == "", "C13.R2", "dtlsRoleFromSDP|first-setup-attribute-decides", pos, sprintf("%d two-attribute rows agree with the one-attribute table", len(tt)), bad)
}

// c13IceRoleTable tabulates the region of SetRemoteDescription that computes the ICE role handed to startTransports.
func c13IceRoleTable(c *Ctx, setRemote, startTransports, isLite *core.FuncInfo) (c13Table, bool, *types.Var, *ast.CallExpr) {
	r := c.R
	g := c.P.GraphOf(setRemote)
	info := g.Info
	pos := c.P.Pos(setRemote.Decl.Pos())
	// the startTransports call and the literal that holds it
	var stCall *ast.CallExpr
	var holder *ast.FuncLit
	n := 0
	var lits []*ast.FuncLit
	var walk func(x ast.Node)
	walk = func(x ast.Node) {
		ast.Inspect(x, func(y ast.Node) bool {
			if fl, ok := y.(*ast.FuncLit); ok && y != x {
				lits = append(lits, fl)
				walk(fl)
				lits = lits[:len(lits)-1]
				return false
			}
			if call, ok := y.(*ast.CallExpr); ok && core.IsCallTo(info, call, startTransports.Obj) {
				n++
				stCall = call
				if len(lits) > 0 {
					holder = lits[0]
				}
			}
			return true
		})
	}
	walk(setRemote.Decl.Body)
	if n != 1 || stCall == nil || len(stCall.Args) < 2 {
		r.Undecided("C13.R3", "SetRemoteDescription|startTransports-call", pos, sprintf("expected exactly one call to startTransports, found %d", n))
		return nil, false, nil, nil
	}
	iceVar := core.VarOf(info, stCall.Args[0])
	if iceVar == nil || iceVar.Parent() == nil || iceVar.Pkg() == nil || iceVar.Parent() == iceVar.Pkg().Scope() {
		r.Undecided("C13.R3", "SetRemoteDescription|iceRole-variable", c.P.Pos(stCall.Pos()), "the ICE role passed to startTransports is not a local variable: "+exprStr(stCall.Args[0]))
		return nil, false, nil, stCall
	}
	// stop node: the statement that holds the literal (or the call itself when it is not in a literal)
	stops := g.FindNodes(func(x ast.Node) bool {
		if holder != nil {
			return x == ast.Node(holder)
		}
		return x == ast.Node(stCall)
	})
	if len(stops) != 1 {
		r.Undecided("C13.R3", "SetRemoteDescription|iceRole-region", pos, sprintf("cannot locate the statement that starts the transports (%d candidates)", len(stops)))
		return nil, false, iceVar, stCall
	}
	stop := stops[0]
	// assignments of the variable
	assigns := g.FindNodes(func(x ast.Node) bool {
		switch s := x.(type) {
		case *ast.AssignStmt:
			for _, l := range s.Lhs {
				if core.VarOf(info, l) == iceVar {
					return true
				}
			}
		case *ast.ValueSpec:
			for _, nm := range s.Names {
				if info.Defs[nm] == types.Object(iceVar) {
					return true
				}
			}
		case *ast.IncDecStmt:
			return core.VarOf(info, s.X) == iceVar
		case *ast.UnaryExpr:
			return s.Op == token.AND && core.VarOf(info, s.X) == iceVar
		}
		return false
	})
	// every syntactic write (also inside literals) must be one of these graph nodes
	total := 0
	ast.Inspect(setRemote.Decl.Body, func(x ast.Node) bool {
		switch s := x.(type) {
		case *ast.AssignStmt:
			for _, l := range s.Lhs {
				if core.VarOf(info, l) == iceVar {
					total++
					break
				}
			}
		case *ast.ValueSpec:
			for _, nm := range s.Names {
				if info.Defs[nm] == types.Object(iceVar) {
					total++
				}
			}
		case *ast.IncDecStmt:
			if core.VarOf(info, s.X) == iceVar {
				total++
			}
		case *ast.UnaryExpr:
			if s.Op == token.AND && core.VarOf(info, s.X) == iceVar {
				total++
			}
		}
		return true
	})
	start := -1
	for _, a := range assigns {
		dom := g.Dominated(stop, map[int]bool{a: true})
		for _, o := range assigns {
			if o != a && !g.Dominated(o, map[int]bool{a: true}) {
				dom = false
			}
		}
		if dom {
			start = a
		}
	}
	if start < 0 || total != len(assigns) {
		r.Undecided("C13.R3", "SetRemoteDescription|iceRole-region", pos, sprintf("cannot delimit the region that computes %s: %d writes, %d in the function's own graph, no dominating first write", iceVar.Name(), total, len(assigns)))
		return nil, false, iceVar, stCall
	}
	inRegion := g.Reach([]int{start}, func(n int) bool { return n == stop }, nil)
	for _, a := range assigns {
		if !inRegion[a] {
			r.Undecided("C13.R3", "SetRemoteDescription|iceRole-region", c.P.Pos(g.PosOf(a)), "a write of the ICE role variable lies outside the region between its first write and the transport start")
			return nil, false, iceVar, stCall
		}
	}
	// inputs: boolean locals defined before the region, classified by their defining expression
	answerK := c.mustConst("C13.R3", "", "SDPTypeAnswer")
	typeField := c.mustField("C13.R3", "", "SessionDescription", "Type")
	if answerK == nil || typeField == nil {
		return nil, false, iceVar, stCall
	}
	descParam := setRemote.Obj.Type().(*types.Signature).Params().At(0)
	bind := map[*types.Var]string{}
	defs := map[*types.Var]int{}
	ast.Inspect(setRemote.Decl.Body, func(x ast.Node) bool {
		as, ok := x.(*ast.AssignStmt)
		if !ok {
			return true
		}
		for i, l := range as.Lhs {
			v := core.VarOf(info, l)
			if v == nil || !types.Identical(v.Type(), types.Typ[types.Bool]) {
				continue
			}
			defs[v]++
			if len(as.Rhs) != len(as.Lhs) {
				continue
			}
			rhs := ast.Unparen(as.Rhs[i])
			if call, ok := rhs.(*ast.CallExpr); ok && core.IsCallTo(info, call, isLite.Obj) {
				if c13IsDescParsed(info, call.Args[0], descParam) {
					bind[v] = "remote-lite"
				}
			}
			if be, ok := rhs.(*ast.BinaryExpr); ok && be.Op == token.EQL {
				for _, pair := range [][2]ast.Expr{{be.X, be.Y}, {be.Y, be.X}} {
					if core.FieldOf(info, pair[0]) == typeField {
						if sel, ok := ast.Unparen(pair[0]).(*ast.SelectorExpr); ok && core.VarOf(info, sel.X) == descParam {
							if tv := info.Types[pair[1]]; tv.Value != nil && constant.Compare(tv.Value, token.EQL, answerK.Val()) {
								bind[v] = "we-offer"
							}
						}
					}
				}
			}
		}
		return true
	})
	found := map[string]*types.Var{}
	for v, k := range bind {
		if defs[v] != 1 || found[k] != nil {
			r.Undecided("C13.R3", "SetRemoteDescription|iceRole-inputs", pos, "input variable "+v.Name()+" is assigned more than once or is ambiguous")
			return nil, false, iceVar, stCall
		}
		found[k] = v
	}
	if found["we-offer"] == nil || found["remote-lite"] == nil {
		r.Undecided("C13.R3", "SetRemoteDescription|iceRole-inputs", pos, "cannot identify the locals holding 'the applied description is an answer' (desc.Type == SDPTypeAnswer) and isIceLiteSet(desc.parsed)")
		return nil, false, iceVar, stCall
	}
	// the definitions must dominate the use (the region's exit). A definition made before the region is bound to its
	// dimension at region entry; isIceLiteSet(desc.parsed) may also be evaluated inside the region (the call is stubbed
	// by the same dimension), so moving that pure statement next to its use changes nothing.
	inRegionDef := map[string]bool{}
	for k, v := range found {
		dn := g.FindNodes(func(x ast.Node) bool {
			as, ok := x.(*ast.AssignStmt)
			if !ok {
				return false
			}
			for _, l := range as.Lhs {
				if core.VarOf(info, l) == v {
					return true
				}
			}
			return false
		})
		switch {
		case len(dn) == 1 && g.Dominated(start, core.NodeSet(dn)):
		case len(dn) == 1 && k == "remote-lite" && inRegion[dn[0]] && g.Dominated(stop, core.NodeSet(dn)):
			inRegionDef[k] = true
		default:
			r.Undecided("C13.R3", "SetRemoteDescription|iceRole-inputs", pos, "definition of the "+k+" input does not dominate the region")
			return nil, false, iceVar, stCall
		}
	}
	boundVars := map[*types.Var]bool{iceVar: true}
	for v, k := range bind {
		boundVars[v] = true
		if inRegionDef[k] {
			delete(bind, v)
		}
	}
	stopsMap := map[int]string{stop: "start-transports"}
	prelude := c13RegionPrelude(g, setRemote.Decl, start, stopsMap, boundVars)
	dims := []absint.Dim{
		{Key: "we-offer", Domain: c13Bools},
		{Key: "remote-lite", Domain: c13Bools},
		{Key: "$recv.api.settingEngine.candidates.ICELite", Domain: c13Bools},
	}
	iceT := iceVar.Type()
	t := absint.TabulateRegion(absint.Config{P: c.P, Dims: dims, MaxPaths: 200000,
		Inline: func(fn *types.Func) bool { return c13Returns(fn, iceT) || c13ValueHelper(fn) },
		OnCall: func(in *absint.Interp, st *absint.State, call *ast.CallExpr, fn *types.Func, recv absint.Val, args []absint.Val) (absint.Val, bool) {
			if fn == isLite.Obj && len(call.Args) == 1 && c13IsDescParsed(info, call.Args[0], descParam) {
				v, _ := st.Dim("remote-lite")
				return v, true
			}
			return nil, false
		}}, g, setRemote.Obj.Type().(*types.Signature), setRemote.Obj,
		absint.Region{Start: start, Stops: stopsMap, Bind: bind, Observe: []*types.Var{iceVar}, Prelude: prelude})
	prefix := "observe " + iceVar.Name() + "="
	tab, ok := c13Single(c, "C13.R3", "SetRemoteDescription.iceRole", c.P.Pos(g.PosOf(start)), t, []string{"we-offer", "remote-lite", "$recv.api.settingEngine.candidates.ICELite"},
		func(o absint.Outcome) (string, bool) {
			for _, ev := range o.Trace {
				if strings.HasPrefix(ev, prefix) {
					return strings.TrimPrefix(ev, prefix), true
				}
			}
			return "", false // left the region through an error return
		})
	return tab, ok, iceVar, stCall
}

// c13Returns reports whether fn is a module function one of whose results has one of the given types.
func c13Returns(fn *types.Func, ts ...types.Type) bool {
	if fn.Pkg() == nil || !strings.HasPrefix(fn.Pkg().Path(), core.ModPath) {
		return false
	}
	res := fn.Type().(*types.Signature).Results()
	for i := 0; i < res.Len(); i++ {
		for _, t := range ts {
			if t != nil && types.Identical(res.At(i).Type(), t) {
				return true
			}
		}
	}
	return false
}

// c13Takes reports whether fn is a module function with a parameter of type t.
func c13Takes(fn *types.Func, t types.Type) bool {
	if fn.Pkg() == nil || !strings.HasPrefix(fn.Pkg().Path(), core.ModPath) {
		return false
	}
	ps := fn.Type().(*types.Signature).Params()
	for i := 0; i < ps.Len(); i++ {
		if types.Identical(ps.At(i).Type(), t) {
			return true
		}
	}
	return false
}

// c13IsDescParsed: e is <param>.parsed
func c13IsDescParsed(info *types.Info, e ast.Expr, param *types.Var) bool {
	sel, ok := ast.Unparen(e).(*ast.SelectorExpr)
	if !ok {
		return false
	}
	f := core.FieldOf(info, sel)
	return f != nil && f.Name() == "parsed" && core.VarOf(info, sel.X) == param
}

func c13R0(c *Ctx, setAnswering *core.FuncInfo, field *types.Var, dom []absint.Val, client, server string) {
	r := c.R
	pos := c.P.Pos(setAnswering.Decl.Pos())
	t := absint.Tabulate(absint.Config{P: c.P, Dims: []absint.Dim{{Key: "$p0", Domain: dom}},
		WatchStore: func(p string) bool { return p == "$recv."+field.Name() }}, setAnswering)
	if !tableProblems(c, "C13.R0", "SetAnsweringDTLSRole|table", pos, t) {
		r.Cells += len(t.Rows)
		for _, row := range t.Rows {
			v := row.Get("$p0")
			key := "SetAnsweringDTLSRole|" + v
			legal := v == client || v == server
			bad := ""
			if len(row.Outcomes) != 1 || len(row.Outcomes[0].Results) != 1 {
				bad = "no single definite outcome: " + outcomesStr(row.Outcomes)
			} else {
				o := row.Outcomes[0]
				_, isNil := o.Results[0].(absint.Nil)
				_, isErr := o.Results[0].(absint.NonNil)
				stored := len(o.Trace) == 1 && o.Trace[0] == "$recv."+field.Name()+" = "+v
				switch {
				case legal && !(isNil && stored):
					bad = "a legal role must be stored and accepted: " + o.String()
				case !legal && !(isErr && len(o.Trace) == 0):
					bad = "a role other than client/server must be rejected without a store: " + o.String()
				}
			}
			r.Check(bad == "", "C13.R0", key, pos, map[bool]string{true: "stored", false: "rejected"}[legal], bad)
		}
	}
	// who may write the field
	writes := 0
	for _, fi := range c.P.AllFuncs() {
		if fi.Decl.Body == nil {
			continue
		}
		info := fi.Pkg.TypesInfo
		ast.Inspect(fi.Decl.Body, func(n ast.Node) bool {
			site := func(what string, p token.Pos) {
				writes++
				r.Check(fi == setAnswering, "C13.R0", what+":answeringDTLSRole|in:"+fi.Name(), c.P.Pos(p), "inside the validated setter",
					"the configured answering role is written outside SetAnsweringDTLSRole: values other than client/server become possible")
			}
			switch s := n.(type) {
			case *ast.AssignStmt:
				for _, l := range s.Lhs {
					if core.FieldOf(info, l) == field {
						site("write", l.Pos())
					}
				}
			case *ast.IncDecStmt:
				if core.FieldOf(info, s.X) == field {
					site("write", s.Pos())
				}
			case *ast.UnaryExpr:
				if s.Op == token.AND && core.FieldOf(info, s.X) == field {
					site("addr", s.Pos())
				}
			case *ast.KeyValueExpr:
				if id, ok := s.Key.(*ast.Ident); ok && info.Uses[id] == types.Object(field) {
					site("init", s.Pos())
				}
			}
			return true
		})
	}
	if writes == 0 {
		r.Fail("C13.R0", "write:answeringDTLSRole|none", pos, "no write of the configured answering role found: the setter no longer stores it")
	}
}

// c13Glue: provenance of the role values (R4).
func c13Glue(c *Ctx, setRemote, startTransports, t2fn, t1fn, createAnswer, genMatched *core.FuncInfo, connT *types.Named, offerDefault *types.Const,
	t1, t0 c13Table, iceVar *types.Var, stCall *ast.CallExpr) {
	r := c.R
	const rule = "C13.R4"
	// G1: arguments of the startTransports call
	if stCall != nil && iceVar != nil {
		info := setRemote.Pkg.TypesInfo
		descParam := setRemote.Obj.Type().(*types.Signature).Params().At(0)
		ok := false
		if call, isCall := ast.Unparen(stCall.Args[1]).(*ast.CallExpr); isCall && core.IsCallTo(info, call, t2fn.Obj) && len(call.Args) == 1 {
			ok = c13IsDescParsed(info, call.Args[0], descParam)
		}
		r.Check(ok, rule, "SetRemoteDescription|startTransports-dtls-role", c.P.Pos(stCall.Args[1].Pos()), "dtlsRoleFromSDP(desc.parsed) of the applied description",
			"the DTLS role handed to startTransports is not dtlsRoleFromSDP(<applied description>.parsed): "+exprStr(stCall.Args[1]))
		r.OK(rule, "SetRemoteDescription|startTransports-ice-role", c.P.Pos(stCall.Args[0].Pos()), "the tabulated local "+iceVar.Name())
	}
	// other callers of startTransports
	for _, fi := range c.P.AllFuncs() {
		if fi.Decl.Body == nil || fi == setRemote {
			continue
		}
		ast.Inspect(fi.Decl.Body, func(n ast.Node) bool {
			if core.IsCallTo(fi.Pkg.TypesInfo, n, startTransports.Obj) {
				r.Fail(rule, "call:startTransports|in:"+fi.Name(), c.P.Pos(n.Pos()), "startTransports is called outside SetRemoteDescription with roles this check does not tabulate")
			}
			return true
		})
	}
	// G2: startTransports forwards its two role parameters unchanged
	{
		info := startTransports.Pkg.TypesInfo
		sig := startTransports.Obj.Type().(*types.Signature)
		iceP, dtlsP := sig.Params().At(0), sig.Params().At(1)
		iceStart := c.mustFunc(rule, "", "ICETransport.Start")
		dtlsStart := c.mustFunc(rule, "", "DTLSTransport.Start")
		paramsT := c.P.Named("", "DTLSParameters")
		assigned := map[*types.Var]bool{}
		ast.Inspect(startTransports.Decl.Body, func(n ast.Node) bool {
			switch s := n.(type) {
			case *ast.AssignStmt:
				for _, l := range s.Lhs {
					if v := core.VarOf(info, l); v != nil {
						assigned[v] = true
					}
				}
			case *ast.IncDecStmt:
				if v := core.VarOf(info, s.X); v != nil {
					assigned[v] = true
				}
			}
			return true
		})
		okIce, okDTLS := false, false
		nIce, nDTLS := 0, 0
		if iceStart != nil && dtlsStart != nil && paramsT != nil {
			ast.Inspect(startTransports.Decl.Body, func(n ast.Node) bool {
				call, ok := n.(*ast.CallExpr)
				if !ok {
					return true
				}
				switch {
				case core.IsCallTo(info, call, iceStart.Obj):
					nIce++
					for _, a := range call.Args {
						if u, ok := ast.Unparen(a).(*ast.UnaryExpr); ok && u.Op == token.AND && core.VarOf(info, u.X) == iceP {
							okIce = true
						}
					}
				case core.IsCallTo(info, call, dtlsStart.Obj):
					nDTLS++
					if len(call.Args) == 1 {
						if cl, ok := ast.Unparen(call.Args[0]).(*ast.CompositeLit); ok && types.Identical(info.TypeOf(cl), paramsT) {
							for _, el := range cl.Elts {
								if kv, ok := el.(*ast.KeyValueExpr); ok {
									if f, _ := info.Uses[kv.Key.(*ast.Ident)].(*types.Var); f != nil && f.Name() == "Role" && core.VarOf(info, kv.Value) == dtlsP {
										okDTLS = true
									}
								}
							}
						}
					}
				}
				return true
			})
		}
		pos := c.P.Pos(startTransports.Decl.Pos())
		r.Check(okIce && nIce == 1 && !assigned[iceP], rule, "startTransports|ice-role-forwarded", pos, "ICETransport.Start(..., &iceRole) with the unmodified parameter",
			"startTransports does not hand its (unmodified) ICE role parameter to ICETransport.Start exactly once")
		r.Check(okDTLS && nDTLS == 1 && !assigned[dtlsP], rule, "startTransports|dtls-role-forwarded", pos, "DTLSTransport.Start(DTLSParameters{Role: dtlsRole}) with the unmodified parameter",
			"startTransports does not hand its (unmodified) DTLS role parameter to DTLSTransport.Start as DTLSParameters.Role exactly once")
	}
	// G3: the remote parameters are stored before role() is evaluated; role() has no other caller
	c13GlueRoleCall(c)
	// G3b: ICETransport keeps the role it was started with
	c13GlueICERole(c)
	// G4: provenance of every connection-role argument; G5: a=setup sinks
	c13GlueConnRole(c, t1fn, createAnswer, genMatched, connT, offerDefault, t1, t0)
	// G6: a=ice-lite is written iff the ICELite setting is on
	c13GlueLite(c)
}

func c13GlueRoleCall(c *Ctx) {
	r := c.R
	const rule = "C13.R4"
	roleFn := c.P.Func("", "DTLSTransport.role")
	field := c.mustField(rule, "", "DTLSTransport", "remoteParameters")
	if roleFn == nil || field == nil {
		return
	}
	callers := 0
	for _, fi := range c.P.AllFuncs() {
		if fi.Decl.Body == nil {
			continue
		}
		g := c.P.GraphOf(fi)
		calls := g.FindNodes(func(n ast.Node) bool { return core.IsCallTo(g.Info, n, roleFn.Obj) })
		if len(calls) == 0 {
			// calls inside literals
			ast.Inspect(fi.Decl.Body, func(n ast.Node) bool {
				if fl, ok := n.(*ast.FuncLit); ok {
					ast.Inspect(fl.Body, func(m ast.Node) bool {
						if core.IsCallTo(fi.Pkg.TypesInfo, m, roleFn.Obj) {
							callers++
							r.Undecided(rule, "call:role|in-literal:"+fi.Name(), c.P.Pos(m.Pos()), "role() evaluated inside a function literal: ordering with the remote-parameter store not analysed")
						}
						return true
					})
					return false
				}
				return true
			})
			continue
		}
		sig := fi.Obj.Type().(*types.Signature)
		stores := g.FindNodes(func(n ast.Node) bool {
			as, ok := n.(*ast.AssignStmt)
			if !ok || len(as.Lhs) != len(as.Rhs) {
				return false
			}
			for i, l := range as.Lhs {
				if core.FieldOf(g.Info, l) == field {
					// the stored value must be a parameter of this function
					if v := core.VarOf(g.Info, as.Rhs[i]); v != nil {
						for k := 0; k < sig.Params().Len(); k++ {
							if sig.Params().At(k) == v {
								return true
							}
						}
					}
				}
			}
			return false
		})
		if len(stores) == 0 {
			// a later re-evaluation (SRTP key direction, data-channel id parity): same inputs once the transport has started; not this property's subject
			for _, cn := range calls {
				r.Info(rule, "call:role|in:"+fi.Name()+"|re-evaluation", c.P.Pos(g.PosOf(cn)), "re-evaluates role() after the transport was started (listed, not judged)")
			}
			continue
		}
		for _, cn := range calls {
			callers++
			ok := g.Dominated(cn, core.NodeSet(stores))
			r.Check(ok, rule, "call:role|in:"+fi.Name()+"|after-remote-parameters-store", c.P.Pos(g.PosOf(cn)), "t.remoteParameters = <parameter> dominates the role() evaluation",
				"role() is evaluated on a path that has not stored the remote DTLS parameters: the remote's explicit role is ignored")
		}
	}
	if callers == 0 {
		r.Fail(rule, "call:role|none", "-", "DTLSTransport.role() is never evaluated: the tabulated decision is not the one in use")
	}
	// the parameter of prepareStart comes from start's parameter, which comes from Start's: checked by forwarding
	for _, pair := range [][2]string{{"DTLSTransport.Start", "DTLSTransport.start"}, {"DTLSTransport.start", "DTLSTransport.prepareStart"}} {
		from, to := c.P.Func("", pair[0]), c.P.Func("", pair[1])
		if from == nil || to == nil {
			r.Undecided(rule, "forward:"+pair[0]+"->"+pair[1], "-", "DTLS start chain changed shape; remote-parameter forwarding not established")
			continue
		}
		info := from.Pkg.TypesInfo
		p0 := from.Obj.Type().(*types.Signature).Params().At(0)
		ok := false
		ast.Inspect(from.Decl.Body, func(n ast.Node) bool {
			if call, isCall := n.(*ast.CallExpr); isCall && core.IsCallTo(info, call, to.Obj) && len(call.Args) > 0 && core.VarOf(info, call.Args[0]) == p0 {
				ok = true
			}
			return true
		})
		r.Check(ok, rule, "forward:"+pair[0]+"->"+pair[1], c.P.Pos(from.Decl.Pos()), "remote parameters forwarded unchanged", pair[0]+" does not forward its remote-parameters argument to "+pair[1])
	}
}

func c13GlueICERole(c *Ctx) {
	r := c.R
	const rule = "C13.R4"
	field := c.mustField(rule, "", "ICETransport", "role")
	getter := c.mustFunc(rule, "", "ICETransport.Role")
	start := c.mustFunc(rule, "", "ICETransport.Start")
	startCtx := c.mustFunc(rule, "", "ICETransport.StartContext")
	if field == nil || getter == nil || start == nil || startCtx == nil {
		return
	}
	// Role() returns the field
	okGet := false
	ast.Inspect(getter.Decl.Body, func(n ast.Node) bool {
		if ret, ok := n.(*ast.ReturnStmt); ok && len(ret.Results) == 1 && core.FieldOf(getter.Pkg.TypesInfo, ret.Results[0]) == field {
			okGet = true
		}
		return true
	})
	r.Check(okGet, rule, "ICETransport.Role|returns-field", c.P.Pos(getter.Decl.Pos()), "returns t.role", "ICETransport.Role() no longer returns the stored role")
	// writes of the field: only *<role parameter> in StartContext
	for _, fi := range c.P.AllFuncs() {
		if fi.Decl.Body == nil {
			continue
		}
		info := fi.Pkg.TypesInfo
		ast.Inspect(fi.Decl.Body, func(n ast.Node) bool {
			as, ok := n.(*ast.AssignStmt)
			if !ok {
				return true
			}
			for i, l := range as.Lhs {
				if core.FieldOf(info, l) != field {
					continue
				}
				ok := false
				if fi == startCtx && len(as.Rhs) == len(as.Lhs) {
					if st, isStar := ast.Unparen(as.Rhs[i]).(*ast.StarExpr); isStar {
						if v := core.VarOf(info, st.X); v != nil {
							sig := fi.Obj.Type().(*types.Signature)
							for k := 0; k < sig.Params().Len(); k++ {
								if sig.Params().At(k) == v {
									ok = true
								}
							}
						}
					}
				}
				r.Check(ok, rule, "write:ICETransport.role|in:"+fi.Name(), c.P.Pos(l.Pos()), "stores the role it was started with", "ICETransport.role is written from something other than StartContext's role parameter")
			}
			return true
		})
	}
	// Start forwards role to StartContext
	info := start.Pkg.TypesInfo
	sig := start.Obj.Type().(*types.Signature)
	okFwd := false
	ast.Inspect(start.Decl.Body, func(n ast.Node) bool {
		if call, ok := n.(*ast.CallExpr); ok && core.IsCallTo(info, call, startCtx.Obj) && len(call.Args) > 0 {
			if core.VarOf(info, call.Args[len(call.Args)-1]) == sig.Params().At(sig.Params().Len()-1) {
				okFwd = true
			}
		}
		return true
	})
	r.Check(okFwd, rule, "forward:ICETransport.Start->StartContext", c.P.Pos(start.Decl.Pos()), "role forwarded unchanged", "ICETransport.Start does not forward its role argument")
}

func c13GlueConnRole(c *Ctx, t1fn, createAnswer, genMatched *core.FuncInfo, connT *types.Named, offerDefault *types.Const, t1, t0 c13Table) {
	r := c.R
	const rule = "C13.R4"
	actpassName := ""
	for k, v := range t0 {
		if v == `"actpass"` {
			actpassName = k
		}
	}
	// AttrKeyConnectionSetup's value, found as the constant "setup" of the connection-role package
	setupKey := constant.MakeString("setup")
	for _, fi := range c.P.AllFuncs() {
		if fi.Decl.Body == nil {
			continue
		}
		info := fi.Pkg.TypesInfo
		sig := fi.Obj.Type().(*types.Signature)
		ownParam := func(e ast.Expr) bool {
			v := core.VarOf(info, e)
			if v == nil {
				return false
			}
			for k := 0; k < sig.Params().Len(); k++ {
				if sig.Params().At(k) == v {
					return true
				}
			}
			return false
		}
		assigned := map[*types.Var]bool{}
		ast.Inspect(fi.Decl.Body, func(n ast.Node) bool {
			if as, ok := n.(*ast.AssignStmt); ok {
				for _, l := range as.Lhs {
					if v := core.VarOf(info, l); v != nil && types.Identical(v.Type(), connT) {
						if as.Tok == token.DEFINE && info.Defs[ast.Unparen(l).(*ast.Ident)] != nil {
							continue
						}
						assigned[v] = true
					}
				}
			}
			return true
		})
		ast.Inspect(fi.Decl.Body, func(n ast.Node) bool {
			call, ok := n.(*ast.CallExpr)
			if !ok {
				return true
			}
			callee := core.Callee(info, call)
			// sinks: WithValueAttribute("setup", X)
			if callee != nil && callee.Name() == "WithValueAttribute" && len(call.Args) == 2 {
				if tv := info.Types[call.Args[0]]; tv.Value != nil && tv.Value.Kind() == constant.String && constant.Compare(tv.Value, token.EQL, setupKey) {
					key := "sink:a=setup|in:" + fi.Name()
					ok := false
					if sc, isCall := ast.Unparen(call.Args[1]).(*ast.CallExpr); isCall {
						if se, isSel := ast.Unparen(sc.Fun).(*ast.SelectorExpr); isSel && se.Sel.Name == "String" && len(sc.Args) == 0 {
							if v := core.VarOf(info, se.X); v != nil && ownParam(se.X) && types.Identical(v.Type(), connT) && !assigned[v] {
								ok = true
							}
						}
					}
					r.Check(ok, rule, key, c.P.Pos(call.Pos()), "a=setup is the String() of the function's unmodified connection-role parameter",
						"a=setup is written from something other than the unmodified connection-role parameter: "+exprStr(call.Args[1]))
				}
			}
			if callee == nil || c.P.DeclOf(callee) == nil {
				return true
			}
			csig := callee.Type().(*types.Signature)
			for i := 0; i < csig.Params().Len() && i < len(call.Args); i++ {
				if !types.Identical(csig.Params().At(i).Type(), connT) || callee == t1fn.Obj {
					continue
				}
				arg := ast.Unparen(call.Args[i])
				key := sprintf("arg:%s->%s", fi.Name(), core.FuncName(callee))
				pos := c.P.Pos(arg.Pos())
				switch {
				case ownParam(arg) && !assigned[core.VarOf(info, arg)]:
					r.OK(rule, key, pos, "forwards its own unmodified connection-role parameter")
				case fi == createAnswer && core.VarOf(info, arg) != nil && !ownParam(arg):
					// T3 interprets every module function that takes a connection role, so the value is observed where it reaches the generator
					r.OK(rule, key, pos, "CreateAnswer's local, tabulated as T3 where it reaches the SDP generator")
				default:
					// connectionRoleFromDtlsRole(<constant>) evaluating to actpass
					ok := false
					detail := "connection-role argument of unknown provenance: " + exprStr(arg)
					if ac, isCall := arg.(*ast.CallExpr); isCall && core.IsCallTo(info, ac, t1fn.Obj) && len(ac.Args) == 1 {
						if tv := info.Types[ac.Args[0]]; tv.Value != nil {
							name := absint.Const{V: tv.Value, T: tv.Type}.String()
							got := t1[name]
							ok = got == actpassName && actpassName != "" && fi != createAnswer
							detail = sprintf("offers must carry a=setup:actpass (RFC 5763 §5); connectionRoleFromDtlsRole(%s) is %s", name, got)
						}
					}
					r.Check(ok, rule, key, pos, "connectionRoleFromDtlsRole(<constant>) = actpass: an offer", detail)
				}
			}
			return true
		})
	}
	// every other use of the constant "setup" must be a read (comparison), never another way of writing the attribute
	for _, fi := range c.P.AllFuncs() {
		if fi.Decl.Body == nil {
			continue
		}
		info := fi.Pkg.TypesInfo
		accounted := map[ast.Node]bool{}
		mark := func(e ast.Expr) {
			ast.Inspect(e, func(n ast.Node) bool {
				if n != nil {
					accounted[n] = true
				}
				return true
			})
		}
		ast.Inspect(fi.Decl.Body, func(n ast.Node) bool {
			switch x := n.(type) {
			case *ast.CallExpr:
				if fn := core.Callee(info, x); fn != nil && fn.Name() == "WithValueAttribute" && len(x.Args) == 2 {
					mark(x.Args[0]) // judged above as a sink
				}
			case *ast.BinaryExpr:
				if x.Op == token.EQL || x.Op == token.NEQ {
					mark(x.X)
					mark(x.Y)
				}
			case *ast.CaseClause:
				for _, e := range x.List {
					mark(e)
				}
			}
			return true
		})
		ast.Inspect(fi.Decl.Body, func(n ast.Node) bool {
			e, ok := n.(ast.Expr)
			if !ok || accounted[n] {
				return true
			}
			if tv, ok := info.Types[e]; ok && tv.Value != nil && tv.Value.Kind() == constant.String && constant.Compare(tv.Value, token.EQL, setupKey) {
				r.Undecided(rule, "use:\"setup\"|in:"+fi.Name(), c.P.Pos(e.Pos()), "the attribute key \"setup\" is used outside a recognised a=setup sink or a comparison: the attribute may be written by other means")
				return false
			}
			return true
		})
	}
	// the offer default constant maps to actpass
	name := absint.ConstOf(offerDefault).String()
	r.Check(t1[name] == actpassName && actpassName != "", rule, "defaultDtlsRoleOffer|maps-to-actpass", "-", name+" -> "+t1[name], "defaultDtlsRoleOffer ("+name+") maps to "+t1[name]+", not actpass")
}

// c13GlueLite: populateSDP writes a=ice-lite iff its isICELite parameter is true, and every caller passes the ICELite setting.
func c13GlueLite(c *Ctx) {
	r := c.R
	const rule = "C13.R4"
	pop := c.mustFunc(rule, "", "populateSDP")
	liteField := c.P.Field("", "SettingEngine", "candidates")
	if pop == nil || liteField == nil {
		if liteField == nil {
			r.Fail(rule, "anchor:SettingEngine.candidates", "-", "anchored field no longer resolves (fails closed)")
		}
		return
	}
	g := c.P.GraphOf(pop)
	info := g.Info
	sig := pop.Obj.Type().(*types.Signature)
	liteKey := constant.MakeString("ice-lite")
	writes := g.FindNodes(func(n ast.Node) bool {
		call, ok := n.(*ast.CallExpr)
		if !ok || len(call.Args) == 0 {
			return false
		}
		fn := core.Callee(info, call)
		if fn == nil || !strings.HasPrefix(fn.Name(), "With") {
			return false
		}
		tv := info.Types[call.Args[0]]
		return tv.Value != nil && tv.Value.Kind() == constant.String && constant.Compare(tv.Value, token.EQL, liteKey)
	})
	pos := c.P.Pos(pop.Decl.Pos())
	if len(writes) != 1 {
		r.Undecided(rule, "populateSDP|ice-lite-attribute", pos, sprintf("expected exactly one statement writing the ice-lite attribute, found %d", len(writes)))
		return
	}
	// the edges on which a bool parameter is true / false
	var liteParam *types.Var
	trueEdges := map[core.EdgeRef]bool{}
	falseEdges := map[core.EdgeRef]bool{}
	for _, n := range g.Nodes {
		for i, e := range n.Succs {
			if e.Cond == nil || e.Tag != nil {
				continue
			}
			v := core.VarOf(info, e.Cond)
			if v == nil {
				continue
			}
			isParam := false
			for k := 0; k < sig.Params().Len(); k++ {
				if sig.Params().At(k) == v && types.Identical(v.Type(), types.Typ[types.Bool]) {
					isParam = true
				}
			}
			if !isParam {
				continue
			}
			// is this the branch that guards the write?
			if e.Branch == 1 && g.Reach([]int{e.To}, nil, nil)[writes[0]] && !g.Reach([]int{n.Succs[1-i].To}, nil, nil)[writes[0]] {
				liteParam = v
			}
		}
	}
	if liteParam == nil {
		r.Fail(rule, "populateSDP|ice-lite-attribute", c.P.Pos(g.PosOf(writes[0])), "the ice-lite attribute is not guarded by a boolean parameter of populateSDP: it no longer reflects the ICELite setting")
		return
	}
	for _, n := range g.Nodes {
		for i, e := range n.Succs {
			if e.Cond != nil && e.Tag == nil && core.VarOf(info, e.Cond) == liteParam {
				if e.Branch == 1 {
					trueEdges[core.EdgeRef{From: n.ID, Idx: i}] = true
				} else {
					falseEdges[core.EdgeRef{From: n.ID, Idx: i}] = true
				}
			}
		}
	}
	// written only when true; and when true, every path to a success return writes it
	onlyTrue := g.DominatedByEdges(writes[0], trueEdges)
	always := len(trueEdges) > 0
	for er := range trueEdges {
		to := g.Nodes[er.From].Succs[er.Idx].To
		if g.Reach([]int{to}, func(n int) bool { return n == writes[0] }, nil)[g.Exit] {
			always = false // the function can return from the true arm without having written the attribute
		}
	}
	r.Check(onlyTrue && always, rule, "populateSDP|ice-lite-iff-parameter", c.P.Pos(g.PosOf(writes[0])), "a=ice-lite written exactly when "+liteParam.Name()+" is true",
		"a=ice-lite is not written exactly when populateSDP's "+liteParam.Name()+" parameter is true")
	idx := -1
	for k := 0; k < sig.Params().Len(); k++ {
		if sig.Params().At(k) == liteParam {
			idx = k
		}
	}
	// callers pass <...>.settingEngine.candidates.ICELite
	for _, fi := range c.P.AllFuncs() {
		if fi.Decl.Body == nil {
			continue
		}
		finfo := fi.Pkg.TypesInfo
		ast.Inspect(fi.Decl.Body, func(n ast.Node) bool {
			call, ok := n.(*ast.CallExpr)
			if !ok || !core.IsCallTo(finfo, call, pop.Obj) || idx >= len(call.Args) {
				return true
			}
			arg := ast.Unparen(call.Args[idx])
			ok2 := false
			if f := core.FieldOf(finfo, arg); f != nil && f.Name() == "ICELite" {
				if sel, isSel := arg.(*ast.SelectorExpr); isSel && core.FieldOf(finfo, sel.X) == liteField {
					ok2 = true
				}
			}
			r.Check(ok2, rule, "arg:"+fi.Name()+"->populateSDP|ice-lite", c.P.Pos(arg.Pos()), "passes settingEngine.candidates.ICELite", "populateSDP's ice-lite flag is not the ICELite setting: "+exprStr(arg))
			return true
		})
	}
}
