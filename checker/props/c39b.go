package props

import (
	"go/ast"
	"go/types"

	"verif/checker/core"
)

// c39R5 (C39, added after seed C39-m5): the immutability guard of SetConfiguration compares the requested certificates
// with the list the connection stores. That comparison protects nothing if the stored list IS a slice the application
// still holds: the application's next write to its own slice changes the connection's certificate with no call at all,
// and the guard then compares the new certificate with itself. Rule (aliasing / provenance on the AST, type-resolved):
// every store into <PeerConnection>.configuration.Certificates, anywhere in the root package, writes a slice whose
// backing array is the connection's own: a composite literal, append(<the stored list itself>, elements...),
// append(<literal or nil conversion>, xs...), slices.Clone(...), or a make() result. A right-hand side rooted at a
// parameter of the enclosing function (directly, re-sliced, or through a single-definition local) is the violation.
// Any other shape is undecided (fails).
func c39R5(c *Ctx) {
	r := c.R
	const rule = "C39.R5"
	pcConf := c.mustField(rule, "", "PeerConnection", "configuration")
	certs := c.mustField(rule, "", "Configuration", "Certificates")
	if pcConf == nil || certs == nil {
		return
	}
	n := 0
	for _, fi := range c.P.AllFuncs() {
		if fi.Decl == nil || fi.Decl.Body == nil || fi.Pkg != c.P.Pkg("") {
			continue
		}
		info := fi.Pkg.TypesInfo
		isStored := func(e ast.Expr) bool { // e is X.configuration.Certificates with X.configuration the PeerConnection field
			sel, ok := ast.Unparen(e).(*ast.SelectorExpr)
			if !ok || info.Uses[sel.Sel] != certs {
				return false
			}
			in, ok := ast.Unparen(sel.X).(*ast.SelectorExpr)
			return ok && info.Uses[in.Sel] == pcConf
		}
		params := map[*types.Var]bool{}
		sig := fi.Obj.Type().(*types.Signature)
		for i := 0; i < sig.Params().Len(); i++ {
			params[sig.Params().At(i)] = true
		}
		g := c.P.GraphOf(fi)
		k := 0
		ast.Inspect(fi.Decl.Body, func(x ast.Node) bool {
			as, ok := x.(*ast.AssignStmt)
			if !ok || len(as.Lhs) != len(as.Rhs) {
				return true
			}
			for i, lhs := range as.Lhs {
				if !isStored(lhs) {
					continue
				}
				n++
				k++
				var classify func(e ast.Expr, depth int) string // "fresh", "param:<name>", "?"
				classify = func(e ast.Expr, depth int) string {
					e = ast.Unparen(e)
					switch v := e.(type) {
					case *ast.CompositeLit:
						return "fresh"
					case *ast.CallExpr:
						if id, ok := ast.Unparen(v.Fun).(*ast.Ident); ok {
							if b, ok := info.Uses[id].(*types.Builtin); ok {
								switch b.Name() {
								case "make":
									return "fresh"
								case "append":
									if len(v.Args) == 0 {
										return "?"
									}
									if isStored(v.Args[0]) {
										if v.Ellipsis.IsValid() {
											return "fresh" // copies the elements into the connection's own array (or a new one)
										}
										return "fresh"
									}
									base := classify(v.Args[0], depth+1)
									if base == "fresh" || isNilConv(info, v.Args[0]) {
										return "fresh"
									}
									return base
								}
							}
						}
						if fn := core.Callee(info, v); fn != nil && fn.Pkg() != nil && fn.Pkg().Path() == "slices" && fn.Name() == "Clone" {
							return "fresh"
						}
						return "?"
					case *ast.SliceExpr:
						return classify(v.X, depth+1)
					case *ast.SelectorExpr:
						if isStored(v) {
							return "fresh"
						}
						return classify(v.X, depth+1)
					case *ast.IndexExpr:
						return classify(v.X, depth+1)
					case *ast.Ident:
						if vv, ok := info.Uses[v].(*types.Var); ok {
							if params[vv] {
								return "param:" + vv.Name()
							}
							if depth < 4 && g != nil {
								if rhs, _ := g.UniqueDef(vv); rhs != nil {
									return classify(rhs, depth+1)
								}
							}
						}
						return "?"
					}
					return "?"
				}
				cl := classify(as.Rhs[i], 0)
				key := sprintf("%s|store#%d->configuration.Certificates|own-backing-array", fi.Name(), k)
				pos := c.P.Pos(as.Pos())
				r.Cells++
				switch {
				case cl == "fresh":
					r.Check(true, rule, key, pos, "the stored certificate list has a backing array only the connection holds", "")
				case cl == "?":
					r.Undecided(rule, key, pos, "cannot tell whether "+types.ExprString(as.Rhs[i])+" shares its backing array with the caller")
				default:
					r.Check(false, rule, key, pos, "the stored certificate list has a backing array only the connection holds",
						"stores "+types.ExprString(as.Rhs[i])+", the caller's own slice ("+cl+"): a later write by the application to that slice replaces the connection's certificate without any SetConfiguration call, and the guard then compares the new certificate with itself")
				}
			}
			return true
		})
	}
	if n < 2 {
		r.Undecided(rule, "stores->configuration.Certificates|count", "-", sprintf("only %d store(s) into PeerConnection.configuration.Certificates found (initConfiguration has two)", n))
	}
}

func isNilConv(info *types.Info, e ast.Expr) bool {
	e = ast.Unparen(e)
	if call, ok := e.(*ast.CallExpr); ok && len(call.Args) == 1 {
		if tv, ok := info.Types[call.Fun]; ok && tv.IsType() {
			if id, ok := ast.Unparen(call.Args[0]).(*ast.Ident); ok && id.Name == "nil" {
				return true
			}
		}
	}
	if id, ok := e.(*ast.Ident); ok && id.Name == "nil" {
		return true
	}
	return false
}
