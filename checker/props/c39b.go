package props

import (
	"go/ast"
	"go/types"

	"verif/checker/core"
)

// c39R5 (C39, added after seed C39-m5): the immutability guard of SetConfiguration compares the requested certificates
// with the list the connection stores. That comparison protects nothing if the stored list IS a slice the application
// still holds: the application's next write to its own slice changes the connection's certificate with no call at all,
// and the guard then compares the new certificate with itself. Rule (aliasing / provenance on the AST, type-resolved):
// every store into <PeerConnection>.configuration.Certificates, anywhere in the root package, writes a slice whose
// backing array is the connection's own: a composite literal, append(<the stored list itself>, elements...),
// append(<literal or nil conversion>, xs...), slices.Clone(...), or a make() result. A right-hand side rooted at a
// parameter of the enclosing function (directly, re-sliced, or through a single-definition local) is the violation.
// Any other shape is undecided (fails).
func c39R5(c *Ctx) {
	r := c.R
	const rule = "C39.R5"
	pcConf := c.mustField(rule, "", "PeerConnection", "configuration")
	certs := c.mustField(rule, "", "Configuration", "Certificates")
	if pcConf == nil || certs == nil {
		return
	}
	n := 0
	for _, fi := range c.P.AllFuncs() {
		if fi.Decl == nil || fi.Decl.Body == nil || fi.Pkg != c.P.Pkg("") {
			continue
		}
		info := fi.Pkg.TypesInfo
		isStored := func(e ast.Expr) bool { // e is X.configuration.Certificates with X.configuration the PeerConnection field
			sel, ok := ast.Unparen(e).(*ast.SelectorExpr)
			if !ok || info.Uses[sel.Sel] != certs {
				return false
			}
			in, ok := ast.Unparen(sel.X).(*ast.SelectorExpr)
			return ok && info.Uses[in.Sel] == pcConf
		}
		params := map[*types.Var]bool{}
		sig := fi.Obj.Type().(*types.Signature)
		for i := 0; i < sig.Params().Len(); i++ {
			params[sig.Params().At(i)] = true
		}
		g := c.P.GraphOf(fi)
		k := 0
		ast.Inspect(fi.Decl.Body, func(x ast.Node) bool {
			as, ok := x.(*ast.AssignStmt)
			if !ok || len(as.Lhs) != len(as.Rhs) {
				return true
			}
			for i, lhs := range as.Lhs {
				if !isStored(lhs) {
					continue
				}
				n++
				k++
				var classify func(e ast.Expr, depth int) string // "fresh", "param:<name>", "?"
				classify = func(e ast.Expr, depth int) string {
					e = ast.Unparen(e)
					switch v := e.(type) {
					case *ast.CompositeLit:
						return "fresh"
					case *ast.CallExpr:
						if id, ok := ast.Unparen(v.Fun).(*ast.Ident); ok {
							if b, ok := info.Uses[id].(*types.Builtin); ok {
								switch b.Name() {
								case "make":
									return "fresh"
								case "append":
									if len(v.Args) == 0 {
										return "?"
									}
									if isStored(v.Args[0]) {
										if v.Ellipsis.IsValid() {
											return "fresh" // copies the elements into the connection's own array (or a new one)
										}
										return "fresh"
									}
									base := classify(v.Args[0], depth+1)
									if base == "fresh" || isNilConv(info, v.Args[0]) {
										return "fresh"
									}
									return base
								}
							}
						}
						if fn := core.Callee(info, v); fn != nil && fn.Pkg() != nil && fn.Pkg().Path() == "slices" && fn.Name() == "Clone" {
							return "fresh"
						}
						return "?"
					case *ast.SliceExpr:
						return classify(v.X, depth+1)
					case *ast.SelectorExpr:
						if isStored(v) {
							return "fresh"
						}
						return classify(v.X, depth+1)
					case *ast.IndexExpr:
						return classify(v.X, depth+1)
					case *ast.Ident:
						if vv, ok := info.Uses[v].(*types.Var); ok {
							if params[vv] {
								return "param:" + vv.Name()
							}
							if depth < 4 && g != nil {
								if rhs, _ := g.UniqueDef(vv); rhs != nil {
									return classify(rhs, depth+1)
								}
							}
						}
						return "?"
					}
					return "?"
				}
				cl := classify(as.Rhs[i], 0)
				key := sprintf("%s|store#%d->configuration.Certificates|own-backing-array", fi.Name(), k)
				pos := c.P.Pos(as.Pos())
				r.Cells++
				switch {
				case cl == "fresh":
					r.Check(true, rule, key, pos, "the stored certificate list has a backing array only the connection holds", "")
				case cl == "?":
					r.Undecided(rule, key, pos, "cannot tell whether "+types.ExprString(as.Rhs[i])+" shares its backing array with the caller")
				default:
					r.Check(false, rule, key, pos, "the stored certificate list has a backing array only the connection holds",
						"stores "+types.ExprString(as.Rhs[i])+", the caller's own slice ("+cl+"): a later write by the application to that slice replaces the connection's certificate without any SetConfiguration call, and the guard then compares the new certificate with itself")
				}
			}
			return true
		})
	}
	if n < 2 {
		r.Undecided(rule, "stores->configuration.Certificates|count", "-", sprintf("only %d store(s) into PeerConnection.configuration.Certificates found (initConfiguration has two)", n))
	}
}

func isNilConv(info *types.Info, e ast.Expr) bool {
	e = ast.Unparen(e)
	if call, ok := e.(*ast.CallExpr); ok && len(call.Args) == 1 {
		if tv, ok := info.Types[call.Fun]; ok && tv.IsType() {
			if id, ok := ast.Unparen(call.Args[0]).(*ast.Ident); ok && id.Name == "nil" {
				return true
			}
		}
	}
	if id, ok := e.(*ast.Ident); ok && id.Name == "nil" {
		return true
	}
	return false
}

// c19R5 (C19, added after seed C19-m5): "delivers every message sent while it is open": the creating peer may send as
// soon as its OnOpen fires, i.e. before the accepting peer's OnDataChannel handler (where OnMessage is registered) has
// returned. The accept loop therefore starts the channel's read loop (DataChannel.handleOpen) only after receiving from
// the done channel of SCTPTransport.onDataChannel. Rule (ordering, AST + types): in acceptDataChannels every call of
// DataChannel.handleOpen is preceded, in its own or an enclosing statement list, by a statement that is an
// unconditional receive `<-X` with X a call of SCTPTransport.onDataChannel (or a single-definition local holding one);
// a receive that is one case of a select with alternatives is not a wait.
func c19R5(c *Ctx) {
	r := c.R
	const rule = "C19.R5"
	fi := c.mustFunc(rule, "", "SCTPTransport.acceptDataChannels")
	od := c.mustFunc(rule, "", "SCTPTransport.onDataChannel")
	ho := c.mustFunc(rule, "", "DataChannel.handleOpen")
	if fi == nil || od == nil || ho == nil {
		return
	}
	info := fi.Pkg.TypesInfo
	g := c.P.GraphOf(fi)
	isDoneChan := func(e ast.Expr) bool {
		e = ast.Unparen(e)
		if id, ok := e.(*ast.Ident); ok && g != nil {
			if vv, ok := info.Uses[id].(*types.Var); ok {
				if rhs, _ := g.UniqueDef(vv); rhs != nil {
					e = ast.Unparen(rhs)
				}
			}
		}
		call, ok := e.(*ast.CallExpr)
		return ok && core.Callee(info, call) == od.Obj
	}
	isWait := func(s ast.Stmt) bool {
		var x ast.Expr
		switch v := s.(type) {
		case *ast.ExprStmt:
			x = v.X
		case *ast.AssignStmt:
			if len(v.Rhs) == 1 {
				x = v.Rhs[0]
			}
		}
		if x == nil {
			return false
		}
		u, ok := ast.Unparen(x).(*ast.UnaryExpr)
		return ok && u.Op.String() == "<-" && isDoneChan(u.X)
	}
	n := 0
	var stack []ast.Node
	ast.Inspect(fi.Decl.Body, func(x ast.Node) bool {
		if x == nil {
			stack = stack[:len(stack)-1]
			return true
		}
		stack = append(stack, x)
		call, ok := x.(*ast.CallExpr)
		if !ok || core.Callee(info, call) != ho.Obj {
			return true
		}
		n++
		waited := false
		// walk outwards: in every enclosing statement list, look at the statements before the one containing the call
		for i := len(stack) - 1; i > 0 && !waited; i-- {
			if _, isLit := stack[i].(*ast.FuncLit); isLit {
				break // a closure runs at another time
			}
			var list []ast.Stmt
			switch b := stack[i-1].(type) {
			case *ast.BlockStmt:
				list = b.List
			case *ast.CaseClause:
				list = b.Body
			case *ast.CommClause:
				list = b.Body
			default:
				continue
			}
			for _, s := range list {
				if ast.Node(s) == stack[i] {
					break
				}
				if isWait(s) {
					waited = true
					break
				}
			}
		}
		r.Cells++
		r.Check(waited, rule, sprintf("acceptDataChannels|handleOpen#%d|after-unconditional-wait-for-OnDataChannel-handler", n), c.P.Pos(call.Pos()),
			"the read loop starts only after the OnDataChannel handler has returned",
			"handleOpen is not preceded by an unconditional receive from onDataChannel's done channel: with a slow OnDataChannel handler the read loop starts before OnMessage is registered and messages the creator already sent are read and dropped")
		return true
	})
	if n == 0 {
		r.Undecided(rule, "acceptDataChannels|handleOpen", c.P.Pos(fi.Decl.Pos()), "no call of DataChannel.handleOpen in acceptDataChannels")
	}
	// the done channel is closed only after the handler returned: in onDataChannel, a close(done) inside a closure follows the handler call
	closes, handlerCalls, bad := 0, 0, ""
	ast.Inspect(od.Decl.Body, func(x ast.Node) bool {
		fl, ok := x.(*ast.FuncLit)
		if !ok {
			return true
		}
		seenHandler := false
		for _, s := range fl.Body.List {
			es, ok := s.(*ast.ExprStmt)
			if !ok {
				continue
			}
			call, ok := es.X.(*ast.CallExpr)
			if !ok {
				continue
			}
			if id, ok := call.Fun.(*ast.Ident); ok {
				if _, isB := od.Pkg.TypesInfo.Uses[id].(*types.Builtin); isB && id.Name == "close" {
					closes++
					if !seenHandler {
						bad = "close(done) precedes the handler call in the goroutine"
					}
					continue
				}
				if _, isV := od.Pkg.TypesInfo.Uses[id].(*types.Var); isV {
					seenHandler = true
					handlerCalls++
				}
			}
		}
		return true
	})
	r.Cells++
	if closes == 0 || handlerCalls == 0 {
		r.Undecided(rule, "onDataChannel|done-closed-after-handler", c.P.Pos(od.Decl.Pos()), "handler goroutine with handler(dc); close(done) not recognised")
	} else {
		r.Check(bad == "", rule, "onDataChannel|done-closed-after-handler", c.P.Pos(od.Decl.Pos()), "done is closed after the handler returned", bad)
	}
}
