package props

import (
	"go/ast"
	"go/token"
	"go/types"

	"verif/checker/core"
)

// c08R5: every transceiver that takes over a remote m-section records that section's direction.
// AddTrack decides whether it may reuse a transceiver for sending from the recorded current remote
// direction (isSendAllowed); a transceiver matched to a `sendonly` section without the record is later
// flipped to sendrecv and the answer sends where the offer did not agree to receive. Path rule on the
// per-m-section loop of SetRemoteDescription: within one iteration the point where the transceiver is
// given the section's mid (SetMid) is unreachable without passing setCurrentRemoteDirection(<the remote
// direction of this section>). (Added after seed C08-m1.)
func c08R5(c *Ctx, rule string) {
	r := c.R
	srd := c.mustFunc(rule, "", "PeerConnection.SetRemoteDescription")
	setDir := c.mustFunc(rule, "", "RTPTransceiver.setCurrentRemoteDirection")
	setMid := c.mustFunc(rule, "", "RTPTransceiver.SetMid")
	peerDir := c.mustFunc(rule, "", "getPeerDirection")
	if srd == nil || setDir == nil || setMid == nil || peerDir == nil {
		return
	}
	g := c.P.GraphOf(srd)
	info := g.Info
	n := 0
	for _, l := range c06RangeLoops(g) {
		var mids, recs []int
		for id := range l.Body {
			if g.Nodes[id].Ast == nil {
				continue
			}
			for _, call := range core.CallsIn(g.Nodes[id].Ast) {
				switch core.Callee(info, call) {
				case setMid.Obj:
					mids = append(mids, id)
				case setDir.Obj:
					// the argument is the direction read from this section
					okArg := false
					if len(call.Args) == 1 {
						if v := core.VarOf(info, call.Args[0]); v != nil {
							for _, d := range c06Defs(g, id, v) {
								if dc, ok := ast.Unparen(d.Rhs).(*ast.CallExpr); ok && core.Callee(info, dc) == peerDir.Obj {
									okArg = true
								}
							}
						}
					}
					if okArg {
						recs = append(recs, id)
					}
				}
			}
		}
		if len(mids) == 0 {
			continue
		}
		n++
		rec := core.NodeSet(recs)
		// the transceiver variable: receiver of the SetMid call; paths are explored with what is known about its nil-ness
		// (`if t != nil { record }` followed by `switch { case t == nil: … }` has no feasible path around both)
		var tv *types.Var
		for _, call := range core.CallsIn(g.Nodes[mids[0]].Ast) {
			if core.Callee(info, call) == setMid.Obj {
				if sel, ok := ast.Unparen(call.Fun).(*ast.SelectorExpr); ok {
					tv = core.VarOf(info, sel.X)
				}
			}
		}
		type st struct {
			n      int
			status int // 0 unknown, 1 nil, 2 non-nil
		}
		reach := map[int]bool{}
		seen := map[st]bool{}
		stack := []st{{l.BodyEntry, 0}}
		for len(stack) > 0 {
			cur := stack[len(stack)-1]
			stack = stack[:len(stack)-1]
			if seen[cur] || !l.Body[cur.n] {
				continue
			}
			seen[cur] = true
			reach[cur.n] = true
			if rec[cur.n] {
				continue
			}
			status := cur.status
			if as, ok := g.Nodes[cur.n].Ast.(*ast.AssignStmt); ok && tv != nil {
				for i, lhs := range as.Lhs {
					if core.VarOf(info, lhs) == tv {
						status = 0
						if len(as.Rhs) == len(as.Lhs) && core.IsNilIdent(info, as.Rhs[i]) {
							status = 1
						}
					}
				}
			}
			for _, e := range g.Nodes[cur.n].Succs {
				next := status
				feasible := true
				for _, f := range c06EdgeFacts(e) {
					be, ok := ast.Unparen(f.Expr).(*ast.BinaryExpr)
					if !ok || tv == nil || (be.Op != token.EQL && be.Op != token.NEQ) {
						continue
					}
					isT := (core.VarOf(info, be.X) == tv && core.IsNilIdent(info, be.Y)) || (core.VarOf(info, be.Y) == tv && core.IsNilIdent(info, be.X))
					if !isT {
						continue
					}
					isNil := (be.Op == token.EQL) == f.Truth
					switch {
					case isNil && status == 2, !isNil && status == 1:
						feasible = false
					case isNil:
						next = 1
					default:
						next = 2
					}
				}
				if feasible {
					stack = append(stack, st{e.To, next})
				}
			}
		}
		bad := ""
		for _, m := range mids {
			if reach[m] && !rec[m] {
				bad = "the transceiver is given the section's mid at " + c.P.Pos(g.PosOf(m)) + " on a path that did not record the section's direction with setCurrentRemoteDirection"
			}
		}
		if len(recs) == 0 {
			bad = "no setCurrentRemoteDirection(<direction of this section>) call in the loop"
		}
		r.Check(bad == "", rule, "SetRemoteDescription|section-loop|remote-direction-recorded", c.P.Pos(l.Range.Pos()),
			"every transceiver that takes a section's mid has the section's direction recorded",
			bad+": AddTrack's reuse test (isSendAllowed) then treats a transceiver answering a sendonly section as free for sending, and the answer says sendrecv")
	}
	if n == 0 {
		r.Undecided(rule, "SetRemoteDescription|section-loop", c.P.Pos(srd.Decl.Pos()), "no loop that assigns mids to transceivers found")
	}
}
