package props

import (
	"go/ast"
	"go/constant"
	"go/types"
	"strings"

	"verif/checker/core"
)

func init() {
	register(&Prop{
		ID:        "C16",
		Engine:    "e6flow+e1tab+e2cfg",
		Technique: "AST provenance closure over every definition (closures included) for the codec lists that reach SDP generation; decision tables of the kind lookups over the negotiated flags; constant propagation with the match type injected for the preference filter",
		LevelText: "Narrow necessary clause of 'answer codecs are a subset of the offered codecs': once a kind is negotiated, every codec list that can reach SDP generation is drawn from the negotiated list, and the negotiated list only ever receives codecs parsed from the remote description (with the remote payload type). Decided as provenance over all definitions of the variables involved, so it holds for every input and every execution order.",
		LevelNote: "Necessary condition only. Does not decide the per-section subset (a transceiver without preferences lists every negotiated codec of its kind; two sections of one kind with different payload maps are beyond a structural rule), nor user-supplied SetCodecPreferences lists beyond the match filter in getCodecs.",
		DesignRef: "DESIGN.md §5 C16",
		Run:       runC16,
	})
}

func runC16(c *Ctx) {
	r := c.R
	r.Rule("C16.R1", "shared with C15.R1: everything that can reach a list handed to pushCodecs derives from codecsFromMediaDescription(remote media), added only for its own Exact/Partial match; the negotiated lists are written only in pushCodecs through addCodec, and pushCodecs is called only from updateFromRemoteDescription", 26)
	r.Rule("C16.R4", "shared with C15.R4: getCodecsByKind/getCodecByPayload consult a registered list only for a kind that is not negotiated", 21)
	r.Rule("C16.R1p", "design rule R1': every value that can reach the preference list set by setCodecPreferencesFromRemoteDescription derives from codecsFromMediaDescription(the remote media section) or from getCodecsByKind(t.kind) (the negotiated list once negotiated); never a literal, a registered list or another field; the preference list is written only by SetCodecPreferences (or initialised from getCodecsByKind)", 4)
	r.Rule("C16.R2", "RTPTransceiver.getCodecs (the only codec source of addTransceiverSDP): every returned value derives from getCodecsByKind(t.kind) or from a preference that fuzzy-matches it; a preference whose match type against getCodecsByKind(t.kind) is None is never returned", 3)
	r.Rule("C16.R7", "getCodecs: every path to the append of a preference passes `pref.PayloadType = <match of this iteration>.PayloadType` or a test that pref.PayloadType != 0; SetCodecPreferences never writes a PayloadType (a payload-type-less preference follows the negotiated, remote-numbered list)", 2)
	r.Rule("C16.R8", "same rule as C15.R5: codecParametersFuzzySearch returns Partial only under EqualFold(mime), ClockRateEqual and ChannelsEqual (a preference kept for an offered payload type is the same codec: mime type, clock rate, channels)", 4)
	r.Rule("C16.R9", "the MediaEngine learns codecs only from accepted descriptions: in SetRemoteDescription the call of updateFromRemoteDescription is dominated by pc.setDescription and reachable from it only through the edge establishing its error nil", 1)
	r.Rule("C16.R5", "an RTX codec is added to a remote-created transceiver's preferences only when every RTX look-up of that iteration succeeded (the remote section offered RTX for the primary and the media engine has one)", 1)
	r.Rule("C16.R6", "pushCodecs never loses an addCodec error (payload type re-used for another codec): on every path a possibly non-nil error reaches errors.Join / the return value before being overwritten", 2)
	r.NotCovered = append(r.NotCovered,
		"the per-section subset: a transceiver without preferences lists every negotiated codec of its kind",
		"two sections of one kind with different payload-type maps",
		"a user-supplied preference that partially matches a negotiated codec keeps its own payload type/fmtp (SetCodecPreferences is user input)")
	r.Trusted = append(r.Trusted, "go/types", "append/range semantics", "C15.R5 (codecParametersFuzzySearch returns a haystack element or the zero codec), used as a provenance summary")

	if u := c15Anchors(c, "C16.R1"); u != nil {
		c15R1(c, "C16.R1", u)
	}
	c15CodecListWrites(c, "C16.R1", false)
	c16NegotiatedWriters(c, "C16.R1")
	c15R4(c, "C16.R4")
	c16R1p(c, "C16.R1p")
	c16R2(c, "C16.R2")
	c16R5(c, "C16.R5")
	c16R6(c, "C16.R6")
	c16R7(c, "C16.R7") // c16c.go
	c15R5(c, "C16.R8")
	c16R9(c)
}

// c16NegotiatedWriters: negotiated lists are written only inside pushCodecs with elements of its parameter; pushCodecs is called only from updateFromRemoteDescription.
func c16NegotiatedWriters(c *Ctx, rule string) {
	r := c.R
	push := c.mustFunc(rule, "", "MediaEngine.pushCodecs")
	upd := c.mustFunc(rule, "", "MediaEngine.updateFromRemoteDescription")
	add := c.mustFunc(rule, "", "MediaEngine.addCodec")
	nv := c.mustField(rule, "", "MediaEngine", "negotiatedVideoCodecs")
	na := c.mustField(rule, "", "MediaEngine", "negotiatedAudioCodecs")
	if push == nil || upd == nil || add == nil || nv == nil || na == nil {
		return
	}
	nCalls := 0
	up := c10NewUpProv(c)
	for _, fi := range c.P.AllFuncs() {
		if fi.Decl.Body == nil {
			continue
		}
		info := fi.Pkg.TypesInfo
		ast.Inspect(fi.Decl.Body, func(n ast.Node) bool {
			switch s := n.(type) {
			case *ast.CallExpr:
				if core.IsCallTo(info, s, push.Obj) {
					nCalls++
					// directly in updateFromRemoteDescription, or in an unexported helper that is only ever called from it
					// (its tail extracted; the provenance of the lists is followed through the call by R1)
					via := fi == upd
					if !via && !fi.Obj.Exported() && !up.escapes[fi.Obj] && len(up.callers[fi.Obj]) > 0 {
						via = true
						for _, cs := range up.callers[fi.Obj] {
							if cs.fi != upd {
								via = false
							}
						}
					}
					r.Check(via, rule, "call:pushCodecs|in:"+fi.Name(), c.P.Pos(s.Pos()), "called from updateFromRemoteDescription (argument provenance checked there)", "pushCodecs is called outside updateFromRemoteDescription: the negotiated list can receive codecs that were not matched against a remote description")
				}
			case *ast.AssignStmt:
				for _, l := range s.Lhs {
					f := core.FieldOf(info, l)
					if f == nil {
						if ix, ok := ast.Unparen(l).(*ast.IndexExpr); ok {
							f = core.FieldOf(info, ix.X)
						}
					}
					if f != nv && f != na {
						continue
					}
					if fi != push {
						r.Fail(rule, sprintf("write:%s|in:%s", f.Name(), fi.Name()), c.P.Pos(l.Pos()), "a negotiated codec list is written outside pushCodecs")
					}
				}
			}
			return true
		})
	}
	if nCalls == 0 {
		r.Fail(rule, "call:pushCodecs", "-", "pushCodecs is never called")
	}
	// inside pushCodecs: the value handed to addCodec is an element of the first parameter
	pv := core.NewProv(c.P, push)
	info := push.Pkg.TypesInfo
	n := 0
	ast.Inspect(push.Decl.Body, func(x ast.Node) bool {
		call, ok := x.(*ast.CallExpr)
		if !ok || !core.IsCallTo(info, call, add.Obj) || len(call.Args) != 2 {
			return true
		}
		n++
		lv := pv.Leaves(call.Args[1])
		okSrc := len(lv) == 1 && lv["param:0"].Kind == "param"
		f := core.FieldOf(info, call.Args[0])
		name := "?"
		if f != nil {
			name = f.Name()
		}
		r.Check(okSrc, rule, sprintf("pushCodecs|addCodec(%s)|codec-source", name), c.P.Pos(call.Pos()), "the added codec is an element of the list handed to pushCodecs", "the codec added to the negotiated list derives from "+core.LeafKeys(lv)+", not only from the list handed to pushCodecs")
		return true
	})
	if n == 0 {
		r.Fail(rule, "pushCodecs|addCodec", c.P.Pos(push.Decl.Pos()), "pushCodecs does not add through addCodec")
	}
}

// c16Summary: provenance summaries of helpers whose result is an element of (or the filtered) operand.
func c16Summary(c *Ctx) func(call *ast.CallExpr, fn *types.Func, idx int) ([]ast.Expr, bool) {
	fuzzy := c.P.Func("", "codecParametersFuzzySearch")
	filter := c.P.Func("", "filterUnattachedRTX")
	return func(call *ast.CallExpr, fn *types.Func, idx int) ([]ast.Expr, bool) {
		switch {
		case fuzzy != nil && fn == fuzzy.Obj && len(call.Args) == 2:
			if idx == 0 {
				return []ast.Expr{call.Args[1]}, true // a haystack element or the zero codec (C15.R5)
			}
			return nil, true // the match type carries no codec
		case filter != nil && fn == filter.Obj && len(call.Args) == 1:
			return []ast.Expr{call.Args[0]}, true // a sub-sequence of its operand (C10.R2)
		}
		return nil, false
	}
}

func c16R1p(c *Ctx, rule string) {
	r := c.R
	fi := c.mustFunc(rule, "", "RTPTransceiver.setCodecPreferencesFromRemoteDescription")
	set := c.mustFunc(rule, "", "RTPTransceiver.SetCodecPreferences")
	fromMedia := c.mustFunc(rule, "", "codecsFromMediaDescription")
	byKind := c.mustFunc(rule, "", "MediaEngine.getCodecsByKind")
	kindF := c.mustField(rule, "", "RTPTransceiver", "kind")
	if fi == nil || set == nil || fromMedia == nil || byKind == nil || kindF == nil {
		return
	}
	info := fi.Pkg.TypesInfo
	pv := core.NewProv(c.P, fi)
	pv.Summary = c16Summary(c)
	pv.Inline = func(fn *types.Func) bool {
		return fn.Pkg() != nil && fn.Pkg().Path() == core.ModPath && fn != fromMedia.Obj && fn != byKind.Obj && fn != set.Obj
	}
	n := 0
	ast.Inspect(fi.Decl.Body, func(x ast.Node) bool {
		call, ok := x.(*ast.CallExpr)
		if !ok || !core.IsCallTo(info, call, set.Obj) || len(call.Args) != 1 {
			return true
		}
		n++
		c16JudgeSources(c, rule, fi.Name()+"|SetCodecPreferences-arg", c.P.Pos(call.Pos()), pv, pv.Leaves(call.Args[0]), fromMedia, byKind, kindF, nil, true)
		return true
	})
	if n == 0 {
		r.Fail(rule, fi.Name()+"|SetCodecPreferences-call", c.P.Pos(fi.Decl.Pos()), "no call of SetCodecPreferences found: the rule lost its anchor")
	}
	// writes to t.codecs elsewhere than SetCodecPreferences would bypass it
	codecsF := c.mustField(rule, "", "RTPTransceiver", "codecs")
	if codecsF == nil {
		return
	}
	for _, f := range c.P.AllFuncs() {
		if f.Decl.Body == nil {
			continue
		}
		finfo := f.Pkg.TypesInfo
		ast.Inspect(f.Decl.Body, func(x ast.Node) bool {
			switch s := x.(type) {
			case *ast.AssignStmt:
				for _, l := range s.Lhs {
					if c15RootFieldIs(finfo, l, codecsF) {
						r.Check(f == set, rule, "write:RTPTransceiver.codecs|in:"+f.Name(), c.P.Pos(l.Pos()), "written by SetCodecPreferences only", "the preference list is written outside SetCodecPreferences")
					}
				}
			case *ast.KeyValueExpr:
				if id, ok := s.Key.(*ast.Ident); ok && finfo.Uses[id] == types.Object(codecsF) {
					// a transceiver literal may start with the media engine's list for a kind (negotiated once negotiated)
					lv := core.NewProv(c.P, f).Leaves(s.Value)
					okInit := len(lv) > 0
					for _, lf := range lv {
						if !(lf.Kind == "call" && lf.Fn == byKind.Obj) {
							okInit = false
						}
					}
					r.Check(okInit, rule, "init:RTPTransceiver.codecs|in:"+f.Name(), c.P.Pos(s.Pos()), "initialised from getCodecsByKind", "the preference list is initialised in a literal from "+core.LeafKeys(lv)+", not from getCodecsByKind")
				}
			}
			return true
		})
	}
}

// c15RootFieldIs: l is f, f[i], f[i].x ...
func c15RootFieldIs(info *types.Info, l ast.Expr, f *types.Var) bool {
	for {
		l = ast.Unparen(l)
		if core.FieldOf(info, l) == f {
			return true
		}
		switch x := l.(type) {
		case *ast.IndexExpr:
			l = x.X
		case *ast.SelectorExpr:
			if core.FieldOf(info, x) == nil {
				return false
			}
			l = x.X
		default:
			return false
		}
	}
}

// c16JudgeSources records one obligation per leaf: allowed are codecsFromMediaDescription(param) (if allowRemote),
// getCodecsByKind(<recv>.kind) and the extra field (the preference list).
func c16JudgeSources(c *Ctx, rule, keyBase, pos string, pv *core.Prov, leaves map[string]core.Leaf, fromMedia, byKind *core.FuncInfo, kindF, extraField *types.Var, allowRemote bool) {
	r := c.R
	if len(leaves) == 0 {
		r.Fail(rule, keyBase+"|sources", pos, "the list has no provenance at all (always empty?)")
		return
	}
	var keys []string
	for k := range leaves {
		keys = append(keys, k)
	}
	sortStrings(keys)
	for _, k := range keys {
		lf := leaves[k]
		key := keyBase + "|source:" + k
		p := c.P.Pos(lf.Node.Pos())
		switch {
		case allowRemote && lf.Kind == "call" && lf.Fn == fromMedia.Obj && lf.Idx == 0:
			call := lf.Node.(*ast.CallExpr)
			al := pv.Leaves(call.Args[0])
			okArg := len(al) > 0
			for _, a := range al {
				if a.Kind != "param" {
					okArg = false
				}
			}
			r.Check(okArg, rule, key, p, "codecs parsed from the remote media section parameter", "codecsFromMediaDescription is applied to something other than the remote media section parameter: "+core.LeafKeys(al))
		case lf.Kind == "call" && lf.Fn == byKind.Obj:
			call := lf.Node.(*ast.CallExpr)
			okArg := len(call.Args) == 1 && core.FieldOf(pv.Info, call.Args[0]) == kindF
			r.Check(okArg, rule, key, p, "the media engine's list for the transceiver's kind (negotiated list once negotiated, C15.R4)", "getCodecsByKind is asked for "+exprStr(call.Args[0])+", not for the transceiver's own kind")
		case extraField != nil && lf.Kind == "field" && lf.Var == extraField:
			r.OK(rule, key, p, "the preference list (filtered by the match gate)")
		default:
			r.Fail(rule, key, p, "a value from "+k+" can reach the codec list: it would be offered/answered although it is neither a remote codec nor a negotiated one")
		}
	}
}

func c16R2(c *Ctx, rule string) {
	r := c.R
	fi := c.mustFunc(rule, "", "RTPTransceiver.getCodecs")
	fuzzy := c.mustFunc(rule, "", "codecParametersFuzzySearch")
	byKind := c.mustFunc(rule, "", "MediaEngine.getCodecsByKind")
	fromMedia := c.mustFunc(rule, "", "codecsFromMediaDescription")
	kindF := c.mustField(rule, "", "RTPTransceiver", "kind")
	codecsF := c.mustField(rule, "", "RTPTransceiver", "codecs")
	kNone := c.mustConst(rule, "", "codecMatchNone")
	if fi == nil || fuzzy == nil || byKind == nil || fromMedia == nil || kindF == nil || codecsF == nil || kNone == nil {
		return
	}
	g := c.P.GraphOf(fi)
	info := g.Info
	pv := core.NewProv(c.P, fi)
	pv.Summary = c16Summary(c)
	pv.Inline = func(fn *types.Func) bool {
		return fn.Pkg() != nil && fn.Pkg().Path() == core.ModPath && fn != byKind.Obj && fn != fuzzy.Obj
	}
	pos := c.P.Pos(fi.Decl.Pos())
	c16JudgeSources(c, rule, fi.Name()+"|result", pos, pv, pv.ReturnLeaves(0), fromMedia, byKind, kindF, codecsF, false)

	// the gate: a value that derives from the preference list is appended only when its match against getCodecsByKind(kind) is not None
	type site struct {
		node int
		call *ast.CallExpr
	}
	var appends []site
	for _, n := range g.Nodes {
		if n.Ast == nil {
			continue
		}
		for _, call := range core.CallsIn(n.Ast) {
			id, ok := ast.Unparen(call.Fun).(*ast.Ident)
			if !ok {
				continue
			}
			if b, ok := info.Uses[id].(*types.Builtin); !ok || b.Name() != "append" {
				continue
			}
			fromPref := false
			for _, a := range call.Args[1:] {
				for _, lf := range pv.Leaves(a) {
					if lf.Kind == "field" && lf.Var == codecsF {
						fromPref = true
					}
				}
			}
			if fromPref {
				appends = append(appends, site{n.ID, call})
			}
		}
	}
	// direct returns of the preference list (without the gate) show up as a result leaf with no append: require at least one gated append when the field is a source
	usesPref := false
	for _, lf := range pv.ReturnLeaves(0) {
		if lf.Kind == "field" && lf.Var == codecsF {
			usesPref = true
		}
	}
	if !usesPref {
		return
	}
	if len(appends) == 0 {
		r.Fail(rule, fi.Name()+"|preference-gate", pos, "the preference list reaches the result without passing an append guarded by the match against getCodecsByKind(kind)")
		return
	}
	// match definitions: x, mt := codecParametersFuzzySearch(pref, L) with L from getCodecsByKind
	for i, ap := range appends {
		key := sprintf("%s|preference-gate|append#%d", fi.Name(), i+1)
		var defNode = -1
		var mtVar, prefVar *types.Var
		for _, n := range g.Nodes {
			as, ok := n.Ast.(*ast.AssignStmt)
			if !ok || len(as.Rhs) != 1 || len(as.Lhs) != 2 {
				continue
			}
			call, ok := ast.Unparen(as.Rhs[0]).(*ast.CallExpr)
			if !ok || !core.IsCallTo(info, call, fuzzy.Obj) {
				continue
			}
			hl := pv.Leaves(call.Args[1])
			okHay := len(hl) > 0
			for _, lf := range hl {
				if !(lf.Kind == "call" && lf.Fn == byKind.Obj) {
					okHay = false
				}
			}
			if !okHay {
				continue
			}
			if v := core.VarOf(info, call.Args[0]); v != nil && core.VarOf(info, ap.call.Args[len(ap.call.Args)-1]) == v {
				defNode, mtVar, prefVar = n.ID, core.VarOf(info, as.Lhs[1]), v
			}
		}
		if defNode < 0 || mtVar == nil {
			r.Fail(rule, key, c.P.Pos(ap.call.Pos()), "a preference is appended to the result without having been matched (codecParametersFuzzySearch(pref, getCodecsByKind(kind))) in this iteration")
			continue
		}
		_ = prefVar
		cf := &core.ConstFlow{G: g,
			Inject: func(node int, v *types.Var, rhs ast.Expr, idx int, env core.CFEnv) (constant.Value, bool) {
				if node == defNode && v == mtVar {
					return kNone.Val(), true
				}
				return nil, false
			},
			Stop: func(n int) bool { return n == defNode },
		}
		res := cf.Run(defNode, core.CFEnv{})
		r.Cells += res.States
		switch {
		case len(res.Problems) > 0:
			r.Undecided(rule, key, c.P.Pos(ap.call.Pos()), strings.Join(res.Problems, "; "))
		case res.ReachedNode(ap.node):
			r.Fail(rule, key, c.P.Pos(ap.call.Pos()), "a preference whose match type against the media engine's (negotiated) list is None is still appended: the section would list a codec the remote did not offer")
		default:
			r.OK(rule, key, c.P.Pos(ap.call.Pos()), "unreachable when the match type is None")
		}
	}
}
