package props

import (
	"encoding/json"
	"fmt"
	"go/ast"
	"go/constant"
	"go/token"
	"go/types"
	"os"
	"reflect"
	"sort"
	"strings"
	"time"
	"unicode/utf8"

	"verif/checker/absint"
	"verif/checker/core"
)

func init() {
	register(&Prop{
		ID:        "C38",
		Engine:    "e5sync+e1tab",
		Technique: "inverse-table agreement: String() and the string parser of every enum are tabulated by abstract interpretation and composed on every declared constant; the JSON/text (Un)Marshal methods are tabulated the same way and composed with encoding/json's own precedence rules; dispatch coverage and decoder typing of UnmarshalStatsJSON; key agreement between the hand-written ICEServer JSON writer/reader, the PEM block types written/read, and the JSON member names of the W3C dictionaries",
		LevelText: "For every enum type with a textual form (discovered by type: a String() method plus a package function string->T) both tables are extracted from the source for every declared constant and composed: parse(String(x)) == x with no error, strings pairwise distinct; Unmarshal(Marshal(x)) stores x for every (Un)MarshalJSON/Text method pair. UnmarshalStatsJSON has a case for every StatsType constant, each case decodes the struct type(s) that constant labels, every Stats implementation is decodable, and every decoded struct carries the `type` member the dispatcher reads. The JSON keys ICEServer.MarshalJSON writes are exactly the keys iceserverUnmarshalFields reads (per key: same struct field), OAuth keys agree with OAuthCredential's member names, the PEM block types written by Certificate.PEM are read by CertificateFromPEM with the matching x509 codec, and SessionDescription / ICECandidateInit carry the W3C member names, unique.",
		LevelNote: "Trusted: absint soundness on the supported fragment; encoding/json and strings.EqualFold/ToLower (run on constants inside the checker, never on pion code); the W3C dictionary member names and the StatsType->struct table as transcribed. Value-level equality of decoded structs (nil vs empty URL list, certificates, stats members) is not decided; the zero/Unknown enum value is listed, not judged.",
		DesignRef: "DESIGN.md §5 C38",
		Run:       runC38,
	})
}

func runC38(c *Ctx) {
	r := c.R
	g7Start = time.Now()
	r.Exhaustive = true
	r.Rule("C38.R1", "for every enum type T of the root package with a String() method and a parser func(string) T / (T, error): parser(String(x)) == x without error for every declared constant x that has a textual form, every non-zero declared constant has one, and the textual forms are pairwise distinct and valid UTF-8 (both functions tabulated by abstract interpretation)", 100)
	r.Rule("C38.R1b", "for every such enum with JSON/text methods: the encoder and decoder come in pairs, and feeding the tabulated Marshal output of x (composed with encoding/json's Marshaler>TextMarshaler / Unmarshaler>TextUnmarshaler precedence) to the tabulated Unmarshal method stores exactly x and returns nil, for every declared constant with a textual form", 50)
	r.Rule("C38.R2", "UnmarshalStatsJSON switches on the `type` member it decoded from the same bytes; every StatsType constant has a case; each case hands the same bytes to a decoder that json.Unmarshals them into, and returns, the struct type(s) the constant labels (labelling composite literals in the module + transcribed table); every struct implementing Stats is decodable by some case; every decoded struct has a StatsType member named `type`", 87)
	r.Rule("C38.R3", "key agreement: ICEServer.MarshalJSON writes exactly the keys iceserverUnmarshalFields reads, each key from/to the same ICEServer field; the keys iceserverUnmarshalOauth reads are OAuthCredential's JSON member names; every PEM block type Certificate.PEM writes is a case of CertificateFromPEM with the matching x509 parser; SessionDescription and ICECandidateInit have unique JSON member names equal to the W3C dictionary members", 22)
	r.Rule("C38.R4", "Certificate.Equals (the equality the PEM round trip is judged by) answers true only via x509Cert.Equal and compares no key material by pointer/interface identity: a re-imported certificate holds freshly parsed keys", 6)
	r.Rule("C38.R6", "omission discipline of ICEServer.MarshalJSON: a key may be left out only under a zero-value test of the very field stored under it (the value an absent key decodes to); any wider condition drops a value that then decodes differently", 4)
	r.Rule("C38.R5", "for every key of the hand-written ICEServer JSON codec: when the writer stores a nilable value unconditionally (so it may be encoded as JSON null), the reader must accept null for that key - no concrete type assertion reachable by a nil value, directly or in the helper the value is passed to", 4)
	r.NotCovered = append(r.NotCovered,
		"value-level equality of decoded structs beyond null-acceptance (Certificate equality, fingerprints, expiry; nil vs empty collections)",
		"the zero/Unknown value of each enum (listed as not-judged: its textual form is ErrUnknownType.Error(), which error-returning decoders reject)",
		"members of the Stats structs other than `type`")
	r.Trusted = append(r.Trusted,
		"absint soundness on the supported fragment",
		"encoding/json, strings.EqualFold, strings.ToLower/ToUpper semantics (executed on constants inside the checker)",
		"W3C RTCSessionDescriptionInit / RTCIceCandidateInit member names and the webrtc-stats type->dictionary table as transcribed in props/c38.go")

	c38R1(c)
	c38R2(c)
	c38R3(c)
	c14CertEquals(c, "C38.R4", "C38.R4")
	c38OmissionDiscipline(c, "C38.R6")
	g7DebugDump(c)
}

var g7Start time.Time

// g7DebugDump lists every obligation on stderr when VERIF_DEBUG is set (development aid).
func g7DebugDump(c *Ctx) {
	if os.Getenv("VERIF_DEBUG") == "" {
		return
	}
	fmt.Fprintf(os.Stderr, "  analysis time (after load): %.2fs\n", time.Since(g7Start).Seconds())
	for _, o := range c.R.Obs {
		fmt.Fprintf(os.Stderr, "  %-12s %-8s %s @ %s: %s\n", o.Status, o.Rule, o.Key, o.Pos, o.Detail)
	}
}

// ---------------------------------------------------------------------------
// R1: enum tables

type c38Enum struct {
	named   *types.Named
	consts  []*types.Const // distinct values, declaration order
	str     *core.FuncInfo
	parsers []*core.FuncInfo
	methods map[string]*core.FuncInfo // MarshalJSON, MarshalText, UnmarshalJSON, UnmarshalText
}

func c38IsString(t types.Type) bool {
	b, ok := t.Underlying().(*types.Basic)
	return ok && b.Kind() == types.String
}

func c38IsByteSlice(t types.Type) bool {
	s, ok := t.Underlying().(*types.Slice)
	if !ok {
		return false
	}
	b, ok := s.Elem().Underlying().(*types.Basic)
	return ok && b.Kind() == types.Uint8
}

// c38Discover finds the enum types of one package by type shape only.
func c38Discover(c *Ctx, rel string) []*c38Enum {
	pk := c.P.Pkg(rel)
	if pk == nil {
		return nil
	}
	sc := pk.Types.Scope()
	byType := map[*types.Named]*c38Enum{}
	var order []*c38Enum
	for _, nm := range sc.Names() {
		tn, ok := sc.Lookup(nm).(*types.TypeName)
		if !ok || tn.IsAlias() {
			continue
		}
		named, ok := tn.Type().(*types.Named)
		if !ok {
			continue
		}
		b, ok := named.Underlying().(*types.Basic)
		if !ok || b.Info()&types.IsInteger == 0 {
			continue
		}
		e := &c38Enum{named: named, methods: map[string]*core.FuncInfo{}}
		for i := 0; i < named.NumMethods(); i++ {
			m := named.Method(i)
			sig := m.Type().(*types.Signature)
			fi := c.P.DeclOf(m)
			if fi == nil || fi.Decl.Body == nil {
				continue
			}
			_, ptrRecv := sig.Recv().Type().(*types.Pointer)
			switch m.Name() {
			case "String":
				if !ptrRecv && sig.Params().Len() == 0 && sig.Results().Len() == 1 && c38IsString(sig.Results().At(0).Type()) {
					e.str = fi
				}
			case "MarshalJSON", "MarshalText":
				if sig.Params().Len() == 0 && sig.Results().Len() == 2 && c38IsByteSlice(sig.Results().At(0).Type()) && isErrorType(sig.Results().At(1).Type()) {
					e.methods[m.Name()] = fi
				}
			case "UnmarshalJSON", "UnmarshalText":
				if ptrRecv && sig.Params().Len() == 1 && c38IsByteSlice(sig.Params().At(0).Type()) && sig.Results().Len() == 1 && isErrorType(sig.Results().At(0).Type()) {
					e.methods[m.Name()] = fi
				}
			}
		}
		if e.str == nil {
			continue
		}
		seen := map[string]bool{}
		for _, k := range c.P.ConstsOfType(rel, tn.Name()) {
			if v := k.Val().ExactString(); !seen[v] {
				seen[v] = true
				e.consts = append(e.consts, k)
			}
		}
		byType[named] = e
		order = append(order, e)
	}
	for _, nm := range sc.Names() {
		fn, ok := sc.Lookup(nm).(*types.Func)
		if !ok {
			continue
		}
		sig := fn.Type().(*types.Signature)
		if sig.Recv() != nil || sig.Params().Len() != 1 || sig.Variadic() || !c38IsString(sig.Params().At(0).Type()) {
			continue
		}
		if n := sig.Results().Len(); n != 1 && !(n == 2 && isErrorType(sig.Results().At(1).Type())) {
			continue
		}
		named, ok := sig.Results().At(0).Type().(*types.Named)
		if !ok || byType[named] == nil {
			continue
		}
		if fi := c.P.DeclOf(fn); fi != nil && fi.Decl.Body != nil {
			byType[named].parsers = append(byType[named].parsers, fi)
		}
	}
	return order
}

const c38OtherString = "\x00verif:any-other-string"

// c38Stubs models the standard-library calls the enum code uses, on constants only.
func c38Stubs(c *Ctx) func(in *absint.Interp, st *absint.State, call *ast.CallExpr, fn *types.Func, recv absint.Val, args []absint.Val) (absint.Val, bool) {
	strOf := func(v absint.Val) (string, bool) {
		k, ok := v.(absint.Const)
		if !ok || k.V.Kind() != constant.String {
			return "", false
		}
		return constant.StringVal(k.V), true
	}
	varOfAddr := func(e ast.Expr) *types.Var {
		u, ok := ast.Unparen(e).(*ast.UnaryExpr)
		if !ok || u.Op != token.AND {
			return nil
		}
		id, ok := ast.Unparen(u.X).(*ast.Ident)
		if !ok {
			return nil
		}
		for _, pk := range c.P.Pkgs {
			if v, ok := pk.TypesInfo.Uses[id].(*types.Var); ok {
				return v
			}
		}
		return nil
	}
	return func(in *absint.Interp, st *absint.State, call *ast.CallExpr, fn *types.Func, recv absint.Val, args []absint.Val) (absint.Val, bool) {
		if fn.Pkg() == nil {
			return nil, false
		}
		switch fn.Pkg().Path() + "." + fn.Name() {
		case "strings.EqualFold":
			if len(args) == 2 {
				a, ok1 := strOf(args[0])
				b, ok2 := strOf(args[1])
				if ok1 && ok2 {
					return absint.BoolVal(strings.EqualFold(a, b)), true
				}
			}
		case "strings.ToLower", "strings.ToUpper":
			if len(args) == 1 {
				if a, ok := strOf(args[0]); ok {
					if fn.Name() == "ToLower" {
						return absint.StrVal(strings.ToLower(a)), true
					}
					return absint.StrVal(strings.ToUpper(a)), true
				}
			}
		case "encoding/json.Marshal":
			if len(args) == 1 {
				if a, ok := strOf(args[0]); ok {
					if k := args[0].(absint.Const); c38IsString(k.T) {
						enc, err := json.Marshal(a)
						if err == nil {
							return absint.Tuple{absint.Const{V: constant.MakeString(string(enc)), T: types.NewSlice(types.Typ[types.Uint8])}, absint.Nil{}}, true
						}
					}
				}
				return absint.Tuple{absint.Top{}, absint.Top{}}, true
			}
		case "encoding/json.Unmarshal":
			if len(args) == 2 {
				text, ok := strOf(args[0])
				v := varOfAddr(call.Args[1])
				if !ok || v == nil || !c38IsString(v.Type()) {
					return nil, false
				}
				var s string
				if err := json.Unmarshal([]byte(text), &s); err != nil {
					return absint.NonNil{Desc: "json: " + err.Error()}, true
				}
				in.SetVar(st, v, absint.Const{V: constant.MakeString(s), T: v.Type()})
				return absint.Nil{}, true
			}
		}
		return nil, false
	}
}

func c38Config(c *Ctx, pkg *types.Package, dims []absint.Dim) absint.Config {
	return absint.Config{P: c.P, Dims: dims, OnCall: c38Stubs(c),
		Inline:     func(fn *types.Func) bool { return fn.Pkg() == pkg },
		WatchStore: func(p string) bool { return p == "$recv" },
	}
}

// c38Single returns the single non-panicking outcome of a row, or "" + why.
func c38Single(row absint.Row) (*absint.Outcome, string) {
	if len(row.Outcomes) != 1 {
		return nil, "no single definite outcome: " + outcomesStr(row.Outcomes)
	}
	if row.Outcomes[0].Panic != "" {
		return nil, "panics: " + row.Outcomes[0].Panic
	}
	return &row.Outcomes[0], ""
}

func c38Str(v absint.Val) (string, bool) {
	k, ok := v.(absint.Const)
	if !ok || k.V.Kind() != constant.String {
		return "", false
	}
	return constant.StringVal(k.V), true
}

func c38R1(c *Ctx) {
	r := c.R
	rels := []string{""}
	if c.Thorough {
		for rel := range c.P.ByRel {
			if rel != "" {
				rels = append(rels, rel)
			}
		}
		sort.Strings(rels[1:])
	}
	nPaired := 0
	for _, rel := range rels {
		for _, e := range c38Discover(c, rel) {
			name := pkgLabel(rel) + e.named.Obj().Name()
			pos := c.P.Pos(e.named.Obj().Pos())
			if len(e.parsers) == 0 {
				r.Info("C38.R1", name+"|no-parser", pos, "has String() but no func(string) "+e.named.Obj().Name()+" in its package: one-way textual form, nothing to compose")
				if len(e.methods) > 0 {
					c38Methods(c, rel, e, name, nil)
				}
				continue
			}
			if rel == "" {
				nPaired++
			}
			c38Enum1(c, rel, e, name)
		}
	}
	if nPaired < 15 {
		r.Fail("C38.R1", "enum-discovery", "-", sprintf("only %d enum types with String()+parser found in the root package, hand-confirmed minimum is 15: discovery lost its anchors", nPaired))
	} else {
		r.OK("C38.R1", "enum-discovery", "-", sprintf("%d enum types with String() and a string parser in the root package", nPaired))
	}
}

func c38Enum1(c *Ctx, rel string, e *c38Enum, name string) {
	r := c.R
	pkg := e.named.Obj().Pkg()
	pos := c.P.Pos(e.str.Decl.Pos())
	r.Saw(pkgLabel(rel) + e.str.Name())
	if len(e.consts) == 0 {
		r.Fail("C38.R1", name+"|constants", pos, "enum type has no declared constants")
		return
	}
	// ---- String() table
	var dom []absint.Val
	for _, k := range e.consts {
		dom = append(dom, absint.ConstOf(k))
	}
	dom = append(dom, absint.IntVal(7777, e.named))
	ts := absint.Tabulate(c38Config(c, pkg, []absint.Dim{{Key: "$recv", Domain: dom}}), e.str)
	if tableProblems(c, "C38.R1", name+"|String-table", pos, ts) {
		return
	}
	r.Cells += len(ts.Rows)
	text := map[*types.Const]string{}
	hasText := map[*types.Const]bool{}
	for i, k := range e.consts {
		o, why := c38Single(ts.Rows[i])
		isZero := constant.Sign(k.Val()) == 0
		key := name + "|roundtrip|" + k.Name()
		switch {
		case o == nil:
			r.Undecided("C38.R1", key, pos, "String(): "+why)
		case len(o.Results) == 1:
			if s, ok := c38Str(o.Results[0]); ok {
				text[k], hasText[k] = s, true
			} else if isZero {
				r.Info("C38.R1", key, pos, "zero value has no constant textual form (String() = "+o.Results[0].String()+"); not judged")
			} else {
				r.Fail("C38.R1", key, pos, "String() has no constant text for this declared constant (returns "+o.Results[0].String()+"): its encoding cannot be decoded back to it")
			}
		default:
			r.Undecided("C38.R1", key, pos, "String(): unexpected result shape")
		}
	}
	// ---- distinct + UTF-8
	{
		byText := map[string][]string{}
		var bad []string
		for _, k := range e.consts {
			if hasText[k] {
				byText[text[k]] = append(byText[text[k]], k.Name())
				if !utf8.ValidString(text[k]) {
					bad = append(bad, k.Name()+" is not valid UTF-8")
				}
			}
		}
		for s, ks := range byText {
			if len(ks) > 1 {
				bad = append(bad, sprintf("%q is the text of %s", s, strings.Join(ks, " and ")))
			}
		}
		sort.Strings(bad)
		r.Check(len(bad) == 0, "C38.R1", name+"|strings-distinct", pos, sprintf("%d textual forms, pairwise distinct", len(byText)), strings.Join(bad, "; "))
	}
	// ---- parser tables
	var sdom []absint.Val
	var withText []*types.Const
	for _, k := range e.consts {
		if hasText[k] {
			withText = append(withText, k)
			sdom = append(sdom, absint.StrVal(text[k]))
		}
	}
	sdom = append(sdom, absint.StrVal(c38OtherString))
	for _, p := range e.parsers {
		ppos := c.P.Pos(p.Decl.Pos())
		r.Saw(pkgLabel(rel) + p.Name())
		tp := absint.Tabulate(c38Config(c, pkg, []absint.Dim{{Key: "$p0", Domain: sdom}}), p)
		if tableProblems(c, "C38.R1", name+"|parser-table|"+p.Name(), ppos, tp) {
			continue
		}
		r.Cells += len(tp.Rows)
		withErr := p.Obj.Type().(*types.Signature).Results().Len() == 2
		for i, k := range withText {
			key := name + "|roundtrip|" + k.Name()
			if len(e.parsers) > 1 {
				key += "|via:" + p.Name()
			}
			o, why := c38Single(tp.Rows[i])
			if o == nil {
				r.Undecided("C38.R1", key, ppos, sprintf("%s(%q): %s", p.Name(), text[k], why))
				continue
			}
			got, isConst := o.Results[0].(absint.Const)
			switch {
			case !isConst:
				r.Undecided("C38.R1", key, ppos, sprintf("%s(%q) = %s: not a constant", p.Name(), text[k], o.Results[0]))
			case !constant.Compare(got.V, token.EQL, k.Val()):
				r.Fail("C38.R1", key, ppos, sprintf("%s(%s.String()) = %s(%q) = %s, not %s: the textual form does not decode to the value that produced it", p.Name(), k.Name(), p.Name(), text[k], got, k.Name()))
			case withErr && !isNilVal(o.Results[1]):
				r.Fail("C38.R1", key, ppos, sprintf("%s(%q) returns %s together with error %s", p.Name(), text[k], got, o.Results[1]))
			default:
				r.OK("C38.R1", key, ppos, sprintf("%s(%q) = %s", p.Name(), text[k], got))
			}
		}
		// the zero value / unknown strings: listed only
		if o, _ := c38Single(tp.Rows[len(tp.Rows)-1]); o != nil {
			r.Info("C38.R1", name+"|other-string|"+p.Name(), ppos, "any other string (incl. the text of the zero value) parses to "+absint.Tuple(o.Results).String())
		}
	}
	c38Methods(c, rel, e, name, text)
}

func isNilVal(v absint.Val) bool { _, ok := v.(absint.Nil); return ok }

// c38Methods composes the (Un)Marshal methods of an enum the way encoding/json would.
func c38Methods(c *Ctx, rel string, e *c38Enum, name string, text map[*types.Const]string) {
	r := c.R
	if len(e.methods) == 0 {
		return
	}
	pkg := e.named.Obj().Pkg()
	enc := e.methods["MarshalJSON"]
	encIsJSON := enc != nil
	if enc == nil {
		enc = e.methods["MarshalText"]
	}
	dec := e.methods["UnmarshalJSON"]
	decIsJSON := dec != nil
	if dec == nil {
		dec = e.methods["UnmarshalText"]
	}
	tpos := c.P.Pos(e.named.Obj().Pos())
	pairKey := name + "|codec-pair"
	if enc == nil || dec == nil {
		have := sortedKeys(func() map[string]bool {
			m := map[string]bool{}
			for k := range e.methods {
				m[k] = true
			}
			return m
		}())
		r.Fail("C38.R1b", pairKey, tpos, "has "+strings.Join(have, ",")+" but no counterpart: encoding/json falls back to the integer form on the other side, so the encoding cannot be decoded")
		return
	}
	r.OK("C38.R1b", pairKey, tpos, enc.Obj.Name()+" / "+dec.Obj.Name())
	if text == nil {
		// no parser: tabulate String() just to know which constants have a text
		text = map[*types.Const]string{}
		var dom []absint.Val
		for _, k := range e.consts {
			dom = append(dom, absint.ConstOf(k))
		}
		ts := absint.Tabulate(c38Config(c, pkg, []absint.Dim{{Key: "$recv", Domain: dom}}), e.str)
		if tableProblems(c, "C38.R1b", name+"|String-table", tpos, ts) {
			return
		}
		for i, k := range e.consts {
			if o, _ := c38Single(ts.Rows[i]); o != nil && len(o.Results) == 1 {
				if s, ok := c38Str(o.Results[0]); ok {
					text[k] = s
				}
			}
		}
	}
	var ks []*types.Const
	var dom []absint.Val
	for _, k := range e.consts {
		if _, ok := text[k]; ok {
			ks = append(ks, k)
			dom = append(dom, absint.ConstOf(k))
		}
	}
	if len(ks) == 0 {
		return
	}
	epos, dpos := c.P.Pos(enc.Decl.Pos()), c.P.Pos(dec.Decl.Pos())
	r.Saw(pkgLabel(rel)+enc.Name(), pkgLabel(rel)+dec.Name())
	te := absint.Tabulate(c38Config(c, pkg, []absint.Dim{{Key: "$recv", Domain: dom}}), enc)
	if tableProblems(c, "C38.R1b", name+"|"+enc.Obj.Name()+"-table", epos, te) {
		return
	}
	r.Cells += len(te.Rows)
	// wire form seen by the decoder, following encoding/json's composition
	wire := map[*types.Const]string{}
	for i, k := range ks {
		key := name + "|codec-roundtrip|" + k.Name()
		o, why := c38Single(te.Rows[i])
		if o == nil {
			r.Undecided("C38.R1b", key, epos, enc.Obj.Name()+": "+why)
			continue
		}
		out, ok := c38Str(o.Results[0])
		if !ok || len(o.Results) != 2 || !isNilVal(o.Results[1]) {
			r.Fail("C38.R1b", key, epos, sprintf("%s(%s) = %s: not a constant encoding with a nil error", enc.Obj.Name(), k.Name(), absint.Tuple(o.Results)))
			continue
		}
		// normalise to the JSON value
		jsonVal := out
		if !encIsJSON {
			b, _ := json.Marshal(out)
			jsonVal = string(b)
		} else if !json.Valid([]byte(out)) {
			r.Fail("C38.R1b", key, epos, sprintf("MarshalJSON(%s) = %s is not valid JSON", k.Name(), out))
			continue
		}
		if decIsJSON {
			wire[k] = jsonVal
		} else {
			var s string
			if err := json.Unmarshal([]byte(jsonVal), &s); err != nil {
				r.Fail("C38.R1b", key, epos, sprintf("MarshalJSON(%s) = %s is not a JSON string, but the decoder is UnmarshalText", k.Name(), jsonVal))
				continue
			}
			wire[k] = s
		}
		want := text[k]
		if encIsJSON {
			b, _ := json.Marshal(want)
			want = string(b)
		}
		if out != want {
			r.Info("C38.R1b", name+"|encodes-other-than-String|"+k.Name(), epos, sprintf("%s(%s) = %s, String() = %q", enc.Obj.Name(), k.Name(), out, text[k]))
		}
	}
	var wk []*types.Const
	var wdom []absint.Val
	for _, k := range ks {
		if w, ok := wire[k]; ok {
			wk = append(wk, k)
			wdom = append(wdom, absint.Const{V: constant.MakeString(w), T: types.NewSlice(types.Typ[types.Uint8])})
		}
	}
	if len(wk) == 0 {
		return
	}
	td := absint.Tabulate(c38Config(c, pkg, []absint.Dim{{Key: "$p0", Domain: wdom}}), dec)
	if tableProblems(c, "C38.R1b", name+"|"+dec.Obj.Name()+"-table", dpos, td) {
		return
	}
	r.Cells += len(td.Rows)
	for i, k := range wk {
		key := name + "|codec-roundtrip|" + k.Name()
		o, why := c38Single(td.Rows[i])
		if o == nil {
			r.Undecided("C38.R1b", key, dpos, sprintf("%s(%s): %s", dec.Obj.Name(), wire[k], why))
			continue
		}
		wantStore := "$recv = " + absint.ConstOf(k).String()
		var stores []string
		for _, ev := range o.Trace {
			if strings.HasPrefix(ev, "$recv = ") {
				stores = append(stores, ev)
			}
		}
		switch {
		case len(o.Results) != 1 || !isNilVal(o.Results[0]):
			r.Fail("C38.R1b", key, dpos, sprintf("%s(%s(%s)) = %s(%s) returns %s, not nil", dec.Obj.Name(), enc.Obj.Name(), k.Name(), dec.Obj.Name(), wire[k], absint.Tuple(o.Results)))
		case len(stores) == 0:
			r.Fail("C38.R1b", key, dpos, sprintf("%s(%s) returns nil without storing a value through the receiver", dec.Obj.Name(), wire[k]))
		case stores[len(stores)-1] != wantStore:
			r.Fail("C38.R1b", key, dpos, sprintf("%s(%s(%s)) = %s(%s) stores %s, expected %s", dec.Obj.Name(), enc.Obj.Name(), k.Name(), dec.Obj.Name(), wire[k], strings.TrimPrefix(stores[len(stores)-1], "$recv = "), k.Name()))
		default:
			r.OK("C38.R1b", key, dpos, sprintf("%s(%s) stores %s", dec.Obj.Name(), wire[k], k.Name()))
		}
	}
}

var _ = reflect.DeepEqual
