package props

import (
	"go/ast"
	"go/token"
	"go/types"

	"verif/checker/core"
)

// c15R7: "every codec used ... was both offered by the remote and matched by a locally registered codec" - for an RTX
// codec "matched" includes its primary: matchRemoteCodec looks the apt payload type up in the lists of codecs already
// matched (exact, then partial) and ignores the RTX when its primary matched nothing. Path rule: inside the apt branch
// every return whose match type is not the constant codecMatchNone is dominated by a branch establishing
// `aptMatch != codecMatchNone`, aptMatch being the local that the look-up loops over the matched lists set.
func c15R7(c *Ctx) {
	r := c.R
	const rule = "C15.R7"
	fi := c.mustFunc(rule, "", "MediaEngine.matchRemoteCodec")
	none := c.mustConst(rule, "", "codecMatchNone")
	if fi == nil || none == nil {
		return
	}
	g := c.P.GraphOf(fi)
	info := g.Info
	pos := c.P.Pos(fi.Decl.Pos())
	sig := fi.Obj.Type().(*types.Signature)
	sliceParams := map[*types.Var]bool{}
	for i := 0; i < sig.Params().Len(); i++ {
		if _, ok := sig.Params().At(i).Type().Underlying().(*types.Slice); ok {
			sliceParams[sig.Params().At(i)] = true
		}
	}
	isNone := func(e ast.Expr) bool {
		tv, ok := info.Types[e]
		return ok && tv.Value != nil && types.Identical(tv.Type, none.Type()) && tv.Value.ExactString() == none.Val().ExactString()
	}
	// aptMatch candidates: locals of the match type assigned a constant inside a range loop over a slice parameter
	aptVars := map[*types.Var]bool{}
	for _, l := range c06RangeLoops(g) {
		if !sliceParams[core.VarOf(info, l.Range.X)] {
			continue
		}
		for id := range l.Body {
			as, ok := g.Nodes[id].Ast.(*ast.AssignStmt)
			if !ok || len(as.Lhs) != len(as.Rhs) {
				continue
			}
			for i, lh := range as.Lhs {
				v := core.VarOf(info, lh)
				if v == nil || !types.Identical(v.Type(), none.Type()) {
					continue
				}
				if tv, ok := info.Types[as.Rhs[i]]; ok && tv.Value != nil {
					aptVars[v] = true
				}
			}
		}
	}
	// ... or returned by a same-package look-up helper that is handed the matched lists
	for _, n := range g.Nodes {
		as, ok := n.Ast.(*ast.AssignStmt)
		if !ok || len(as.Rhs) != 1 {
			continue
		}
		call, ok := ast.Unparen(as.Rhs[0]).(*ast.CallExpr)
		if !ok {
			continue
		}
		fn := core.Callee(info, call)
		if fn == nil || c.P.DeclOf(fn) == nil {
			continue
		}
		takesList := false
		for _, a := range call.Args {
			if sliceParams[core.VarOf(info, a)] {
				takesList = true
			}
		}
		if !takesList {
			continue
		}
		for _, lh := range as.Lhs {
			if v := core.VarOf(info, lh); v != nil && types.Identical(v.Type(), none.Type()) {
				aptVars[v] = true
			}
		}
	}
	if len(aptVars) == 0 {
		r.Undecided(rule, "matchRemoteCodec|apt-branch|primary-matched", pos, "no match-type local set by a look-up loop over the already matched lists")
		return
	}
	// the apt branch: entered through the true edge of the ok-result of <fmtp>.Parameter("apt")
	var hasApt *types.Var
	for _, n := range g.Nodes {
		as, ok := n.Ast.(*ast.AssignStmt)
		if !ok || len(as.Lhs) != 2 || len(as.Rhs) != 1 {
			continue
		}
		call, ok := ast.Unparen(as.Rhs[0]).(*ast.CallExpr)
		if !ok || len(call.Args) != 1 {
			continue
		}
		if s, ok := c06ConstString(info, call.Args[0]); ok && s == "apt" {
			hasApt = core.VarOf(info, as.Lhs[1])
		}
	}
	if hasApt == nil {
		r.Undecided(rule, "matchRemoteCodec|apt-branch", pos, "no `apt, ok := <fmtp>.Parameter(\"apt\")` found")
		return
	}
	var entries []int
	for _, n := range g.Nodes {
		for _, e := range n.Succs {
			if e.Cond != nil && e.Tag == nil && e.Branch == 1 && core.VarOf(info, e.Cond) == hasApt {
				entries = append(entries, e.To)
			}
		}
	}
	var establishes func(e ast.Expr, truth bool) bool
	establishes = func(e ast.Expr, truth bool) bool {
		switch v := ast.Unparen(e).(type) {
		case *ast.UnaryExpr:
			if v.Op == token.NOT {
				return establishes(v.X, !truth)
			}
		case *ast.BinaryExpr:
			if v.Op == token.LAND && truth || v.Op == token.LOR && !truth {
				return establishes(v.X, truth) || establishes(v.Y, truth)
			}
			if (v.Op == token.EQL || v.Op == token.NEQ) && truth == (v.Op == token.NEQ) {
				return aptVars[core.VarOf(info, v.X)] && isNone(v.Y) || aptVars[core.VarOf(info, v.Y)] && isNone(v.X)
			}
		}
		return false
	}
	reach := g.Reach(entries, nil, func(from, idx int, e core.Edge) bool {
		return e.Cond != nil && e.Tag == nil && e.Branch != 0 && establishes(e.Cond, e.Branch == 1)
	})
	n := 0
	for _, rn := range g.Returns() {
		ret := g.Nodes[rn].Ast.(*ast.ReturnStmt)
		if len(ret.Results) != 3 || isNone(ret.Results[1]) {
			continue
		}
		inBranch := g.Reach(entries, nil, nil)[rn]
		if !inBranch {
			continue
		}
		n++
		r.Cells++
		r.Check(!reach[rn], rule, sprintf("matchRemoteCodec|apt-branch|return#%d|primary-matched", n), c.P.Pos(ret.Pos()),
			"an RTX codec is reported matched only on paths where its apt primary was found among the matched codecs",
			"matchRemoteCodec can report a match for a codec with an apt parameter although the apt's primary was found neither among the exact nor the partial matches: an RTX for a codec no local codec matches enters the negotiated set")
	}
	if n == 0 {
		r.Undecided(rule, "matchRemoteCodec|apt-branch|returns", pos, "no non-None return inside the apt branch")
	}
}
