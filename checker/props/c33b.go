package props

import (
	"go/ast"
	"go/types"
	"strings"

	"verif/checker/absint"
	"verif/checker/core"
)


// c33R5: granule arithmetic. Granule positions are the cumulative Opus sample count;
// the per-packet count is (samples per frame of the TOC configuration) x (frame count).
// Both functions are pure in one or two bytes, so they are tabulated exhaustively
// against RFC 6716 section 3.1 (added after seed C33-m1: a TOC mask changed from 0x60 to 0x70).
func c33R5(c *Ctx) {
	r := c.R
	spf := c.mustFunc("C33.R5", c33W, "opusSamplesPerFrame")
	fc := c.mustFunc("C33.R5", c33W, "opusPacketFrameCount")
	if spf == nil || fc == nil {
		return
	}
	u8 := types.Typ[types.Uint8]
	var bytesDom []absint.Val
	for v := int64(0); v < 256; v++ {
		bytesDom = append(bytesDom, absint.IntVal(v, u8))
	}
	// RFC 6716 Table 2: frame duration in 48 kHz samples per configuration number
	rfc := func(cfg int64) int64 {
		ms10 := []int64{100, 200, 400, 600} // SILK: 10, 20, 40, 60 ms (in 0.1 ms)
		switch {
		case cfg < 12:
			return ms10[cfg%4] * 48 / 10
		case cfg < 16:
			return []int64{100, 200}[cfg%2] * 48 / 10
		default:
			return []int64{25, 50, 100, 200}[cfg%4] * 48 / 10
		}
	}
	pos := c.P.Pos(spf.Decl.Pos())
	t := absint.Tabulate(absint.Config{P: c.P, Dims: []absint.Dim{{Key: "$p0", Domain: bytesDom}}}, spf)
	if !tableProblems(c, "C33.R5", "opusSamplesPerFrame|table", pos, t) {
		r.Cells += len(t.Rows)
		bad := map[int64]string{}
		for _, row := range t.Rows {
			toc := intOf(row.Valuation["$p0"])
			cfg := toc >> 3
			if len(row.Outcomes) != 1 || len(row.Outcomes[0].Results) != 1 || row.Outcomes[0].Panic != "" {
				bad[cfg] = sprintf("toc 0x%02x: no single definite result: %s", toc, outcomesStr(row.Outcomes))
				continue
			}
			if got := intOf(row.Outcomes[0].Results[0]); got != rfc(cfg) {
				bad[cfg] = sprintf("toc 0x%02x (config %d): %d samples per frame, RFC 6716 Table 2 says %d", toc, cfg, got, rfc(cfg))
			}
		}
		for cfg := int64(0); cfg < 32; cfg++ {
			r.Check(bad[cfg] == "", "C33.R5", sprintf("opusSamplesPerFrame|config=%d", cfg), pos, sprintf("%d samples for all 8 TOC bytes of this configuration", rfc(cfg)), bad[cfg])
		}
	}
	// frame count: code 0 -> 1, 1/2 -> 2, 3 -> payload[1]&0x3F (0 or missing byte is an error)
	pos = c.P.Pos(fc.Decl.Pos())
	lenT := types.Typ[types.Int]
	t = absint.Tabulate(absint.Config{P: c.P, Dims: []absint.Dim{
		{Key: "$p0[0]", Domain: bytesDom},
		{Key: "len($p0)", Domain: []absint.Val{absint.IntVal(1, lenT), absint.IntVal(2, lenT), absint.IntVal(3, lenT)}},
		{Key: "$p0[1]", Domain: bytesDom},
	}}, fc)
	if tableProblems(c, "C33.R5", "opusPacketFrameCount|table", pos, t) {
		return
	}
	r.Cells += len(t.Rows)
	badCode := map[int64]string{}
	for _, row := range t.Rows {
		b0, n, b1 := intOf(row.Valuation["$p0[0]"]), intOf(row.Valuation["len($p0)"]), intOf(row.Valuation["$p0[1]"])
		code := b0 & 3
		want := int64(-1) // error
		switch {
		case code == 0:
			want = 1
		case code == 1 || code == 2:
			want = 2
		case n >= 2 && b1&0x3f != 0:
			want = b1 & 0x3f
		}
		desc := sprintf("toc 0x%02x len %d second byte 0x%02x", b0, n, b1)
		if len(row.Outcomes) != 1 || len(row.Outcomes[0].Results) != 2 || row.Outcomes[0].Panic != "" {
			badCode[code] = desc + ": no single definite result: " + outcomesStr(row.Outcomes)
			continue
		}
		res := row.Outcomes[0].Results
		_, isErr := res[1].(absint.NonNil)
		_, isNil := res[1].(absint.Nil)
		switch {
		case want < 0 && !isErr:
			badCode[code] = desc + ": accepted although the frame count is missing or zero"
		case want >= 0 && (!isNil || intOf(res[0]) != want):
			badCode[code] = sprintf("%s: frame count %s, RFC 6716 section 3.2 says %d", desc, res[0], want)
		}
	}
	for code := int64(0); code < 4; code++ {
		r.Check(badCode[code] == "", "C33.R5", sprintf("opusPacketFrameCount|code=%d", code), pos, "agrees with RFC 6716 section 3.2 for every TOC byte, length and count byte", badCode[code])
	}
	// the per-packet count is the product of the two, taken from the packet's own first byte, and is what the granule position advances by
	cnt := c.mustFunc("C33.R5", c33W, "opusPacketSampleCount")
	if cnt == nil {
		return
	}
	fn := c.P.SSAFunc(cnt)
	ok := false
	detail := "opusPacketSampleCount does not return opusSamplesPerFrame(payload[0]) * frameCount"
	if fn != nil {
		for _, call := range core.SSACallsTo(fn, spf.Obj) {
			d := core.ValueDeps(call.Common().Args[0])
			if len(d.Params) == 1 {
				ok = true
			}
		}
		if len(core.SSACallsTo(fn, fc.Obj)) == 0 {
			ok = false
		}
	}
	r.Check(ok, "C33.R5", "opusPacketSampleCount|uses-both-tables", c.P.Pos(cnt.Decl.Pos()), "sample count = samples per frame x frame count of the packet", detail)
	fGran := c.mustField("C33.R5", c33W, "oggTrack", "previousGranulePosition")
	if fGran == nil {
		return
	}
	n := 0
	for _, fi := range c.P.AllFuncs() {
		if fi.Pkg != cnt.Pkg || fi.Decl.Body == nil {
			continue
		}
		info := fi.Pkg.TypesInfo
		ast.Inspect(fi.Decl.Body, func(x ast.Node) bool {
			as, ok := x.(*ast.AssignStmt)
			if !ok || len(as.Lhs) != 1 || core.FieldOf(info, as.Lhs[0]) != fGran {
				return true
			}
			n++
			good := false
			if as.Tok.String() == "+=" {
				if v := core.VarOf(info, as.Rhs[0]); v != nil {
					// the added value is the result of opusPacketSampleCount
					pv := core.NewProv(c.P, fi)
					for k := range pv.LeavesOfVar(v) {
						if strings.HasPrefix(k, "call:opusPacketSampleCount#0") {
							good = true
						}
					}
				}
			}
			r.Check(good, "C33.R5", "granule-advance|in:"+fi.Name(), c.P.Pos(as.Pos()), "granule position advances by the packet's sample count", "the granule position is changed other than by `+= opusPacketSampleCount(payload)`: granule positions no longer equal the cumulative sample count")
			return true
		})
	}
	if n == 0 {
		r.Fail("C33.R5", "granule-advance", "-", "the granule position is never advanced")
	}
}

// c33R6: last-page bookkeeping for the end-of-stream rewrite. markTrackEndOfStream rebuilds the
// stream's last page from fields of the track; those fields must have been recorded from the very
// page that was written last (fields of the loop's page value), in the iteration that writes the
// last page. (Added after seed C33-m2: the recorded sequence number was taken from the track's
// running counter, which differs when the final packet spans several pages.)
func c33R6(c *Ctx) {
	r := c.R
	wp := c.mustFunc("C33.R6", c33W, "writePage")
	eos := c.mustFunc("C33.R6", c33W, "markTrackEndOfStream")
	trackT := c.P.Named(c33W, "oggTrack")
	if wp == nil || eos == nil || trackT == nil {
		return
	}
	info := wp.Pkg.TypesInfo
	// fields the rewrite reads
	used := map[*types.Var]bool{}
	ast.Inspect(eos.Decl.Body, func(x ast.Node) bool {
		if se, ok := x.(*ast.SelectorExpr); ok {
			if f := core.FieldOf(info, se); f != nil {
				if st, ok := trackT.Underlying().(*types.Struct); ok {
					for i := 0; i < st.NumFields(); i++ {
						if st.Field(i) == f {
							used[f] = true
						}
					}
				}
			}
		}
		return true
	})
	// the loop over the pages just built
	var loop *ast.RangeStmt
	ast.Inspect(wp.Decl.Body, func(x ast.Node) bool {
		if rs, ok := x.(*ast.RangeStmt); ok && loop == nil {
			loop = rs
		}
		return true
	})
	pos := c.P.Pos(wp.Decl.Pos())
	if loop == nil || loop.Value == nil {
		r.Undecided("C33.R6", "writePage|page-loop", pos, "no range loop binding the page value found")
		return
	}
	page := core.VarOf(info, loop.Value)
	n := 0
	ast.Inspect(loop.Body, func(x ast.Node) bool {
		as, ok := x.(*ast.AssignStmt)
		if !ok || len(as.Lhs) != 1 || len(as.Rhs) != 1 {
			return true
		}
		f := core.FieldOf(info, as.Lhs[0])
		if f == nil || !used[f] {
			return true
		}
		rhs := ast.Unparen(as.Rhs[0])
		// constants (flags) are fine
		if tv := info.Types[rhs]; tv.Value != nil {
			return true
		}
		n++
		// every variable mentioned on the right is the page value, a local of the loop body, or the field itself (append(track.f[:0], …))
		bad := ""
		ast.Inspect(rhs, func(y ast.Node) bool {
			switch e := y.(type) {
			case *ast.SelectorExpr:
				if g := core.FieldOf(info, e); g != nil {
					if g == f {
						return false
					}
					if core.VarOf(info, e.X) != page {
						bad = "`" + exprStr(e) + "` is not a field of the page being written"
					}
					return false
				}
			case *ast.Ident:
				if v := core.VarOf(info, e); v != nil && v != page {
					if !(v.Pos() >= loop.Body.Lbrace && v.Pos() <= loop.Body.Rbrace) {
						bad = "`" + e.Name + "` is not a field of the page being written"
					}
				}
			}
			return true
		})
		r.Check(bad == "", "C33.R6", "writePage|record|"+f.Name(), c.P.Pos(as.Pos()), "recorded from the page that was written",
			"the end-of-stream rewrite rebuilds the last page from "+f.Name()+", but "+bad+": when the final packet spans several pages the rewritten page differs from the one it replaces")
		return true
	})
	if n < 3 {
		r.Undecided("C33.R6", "writePage|records", pos, sprintf("expected the last-page fields read by markTrackEndOfStream to be recorded in the page loop, found %d", n))
	}
}
