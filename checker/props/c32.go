package props

import (
	"go/ast"
	"go/constant"
	"go/token"
	"go/types"
	"time"

	"verif/checker/core"
)

func init() {
	register(&Prop{
		ID:        "C32",
		Engine:    "e5layout+e2cfg",
		Technique: "writer/reader byte-layout extraction (offset, width, byte order, provenance of the written value, destination of the read value) compared field by field with the IVF container table; dispatch tables mime type -> codec -> FourCC -> write function from dominating switch facts; path rule for the frame counter and the seek-back rewrite",
		LevelText: "Every field of the 32-byte IVF file header and the 12-byte frame header is extracted from ivfwriter (what is stored where, from which configuration field) and from ivfreader (what is decoded where, into which header field) and both are compared with the IVF format table, so a swapped, mis-sized or wrong-endian field on either side is a violation for every file. The frame counter is shown to be incremented exactly once on every successful writeFrame and nowhere else, and Close rewrites it at the offset the reader decodes NumFrames from, only behind the io.WriteSeeker test.",
		LevelNote: "Trusted: the IVF field table transcribed in props/c32.go; go/types constant evaluation. Does not decide frame assembly from RTP (VP8/VP9/AV1 depacketisation), PTS arithmetic, or I/O errors.",
		DesignRef: "DESIGN.md §5 C32",
		Run:       runC32,
	})
}

const c32W, c32R = "pkg/media/ivfwriter", "pkg/media/ivfreader"

func runC32(c *Ctx) {
	r := c.R
	t0 := time.Now()
	defer func() { r.Extra["rules_wall_s"] = time.Since(t0).Seconds() }()
	r.Rule("C32.R1", "IVF layout: every field of the file header (DKIF@0, version@4/16, header size@6/16, FourCC@8/4, width@12/16, height@14/16, timebase denominator@16/32, numerator@20/32, frame count@24/32, unused@28/32) and of the frame header (size@0/32, pts@4/64), all little-endian, is stored by ivfwriter at that offset/width/byte order from the matching configuration value and decoded by ivfreader at the same offset/width/byte order into the matching header field; header buffers are 32 and 12 bytes on both sides; the signature and version the writer stores are the ones the reader accepts; Close's rewrite targets the frame-count field", 19)
	r.Rule("C32.R2", "dispatch tables: mime type -> codec constant (WithCodec), codec -> FourCC (writeHeader: VP80/VP90/AV01), codec -> write function (WriteRTP); the header-size field holds the header buffer's length", 10)
	r.NotCovered = append(r.NotCovered, "frame assembly from RTP packets (depacketizers, keyframe detection)")
	r.Rule("C32.R3", "frame counter: count is modified only by a single increment in writeFrame that lies on every path to a success return and at most once per call; frame bytes reach the output only through writeFrame; Close seeks and rewrites the counter only when the output is an io.WriteSeeker", 6)
	r.NotCovered = append(r.NotCovered, "frame assembly from RTP packets (depacketisation, keyframe gating)", "PTS/timebase arithmetic", "short writes and I/O errors of the underlying writer")
	r.Trusted = append(r.Trusted, "IVF container layout (https://wiki.multimedia.cx/index.php/IVF) as transcribed in props/c32.go")

	r.Rule("C32.R5", "keyframe gate latches first: in every ivfwriter depacketizing function each append to the frame buffer is dominated by the store seenKeyFrame = true or by a branch that establishes seenKeyFrame (continuation fragments of the first keyframe pass the gate)", 3)
	r.Rule("C32.R6", "IVFReader.ParseNextFrame returns nil or a buffer allocated in that call (make / append to nil / clone), never a slice of storage the reader keeps", 1)
	c32R56(c) // c32b.go

	l := core.NewLayout(c.P)
	writeHeader := c.mustFunc("C32.R1", c32W, "IVFWriter.writeHeader")
	writeFrame := c.mustFunc("C32.R1", c32W, "IVFWriter.writeFrame")
	closeFn := c.mustFunc("C32.R1", c32W, "IVFWriter.Close")
	parseHeader := c.mustFunc("C32.R1", c32R, "IVFReader.parseFileHeader")
	parseFrame := c.mustFunc("C32.R1", c32R, "IVFReader.ParseNextFrame")
	if writeHeader == nil || writeFrame == nil || closeFn == nil || parseHeader == nil || parseFrame == nil {
		return
	}

	// ---- R1: file header
	fileRows := []c32Row{
		{Name: "signature", Off: 0, Width: 4, WOrigins: []string{`const:"DKIF"`}, RSink: "field:IVFFileHeader.signature"},
		{Name: "version", Off: 4, Width: 2, Endian: "LE", WOrigins: []string{"const:0"}, RSink: "field:IVFFileHeader.version"},
		{Name: "header-size", Off: 6, Width: 2, Endian: "LE", WOrigins: []string{"const:32"}, RSink: "field:IVFFileHeader.headerSize"},
		{Name: "fourcc", Off: 8, Width: 4, WOrigins: []string{"~const:"}, RSink: "field:IVFFileHeader.FourCC", WAlternatives: 3},
		{Name: "width", Off: 12, Width: 2, Endian: "LE", WOrigins: []string{"field:IVFWriter.videoWidth"}, RSink: "field:IVFFileHeader.Width"},
		{Name: "height", Off: 14, Width: 2, Endian: "LE", WOrigins: []string{"field:IVFWriter.videoHeight"}, RSink: "field:IVFFileHeader.Height"},
		{Name: "timebase-denominator", Off: 16, Width: 4, Endian: "LE", WOrigins: []string{"field:IVFWriter.timebaseDenominator"}, RSink: "field:IVFFileHeader.TimebaseDenominator"},
		{Name: "timebase-numerator", Off: 20, Width: 4, Endian: "LE", WOrigins: []string{"field:IVFWriter.timebaseNumerator"}, RSink: "field:IVFFileHeader.TimebaseNumerator"},
		{Name: "frame-count", Off: 24, Width: 4, Endian: "LE", WOrigins: []string{"~const:"}, RSink: "field:IVFFileHeader.NumFrames"},
		{Name: "unused", Off: 28, Width: 4, Endian: "LE", WOrigins: []string{"const:0"}, RSink: "field:IVFFileHeader.unused", ROptional: true},
	}
	wH, wBuf, ok1 := c32Buffer(c, l, "C32.R1", "file-header|writer", writeHeader, true)
	rH, rBuf, ok2 := c32Buffer(c, l, "C32.R1", "file-header|reader", parseHeader, false)
	if ok1 && ok2 {
		c32CheckRows(c, l, "C32.R1", "file-header", fileRows, wH, rH)
		c32BufLens(c, l, "C32.R1", "file-header|buffer-length", writeHeader, wBuf, parseHeader, rBuf, 32)
	}
	// frame header
	frameRows := []c32Row{
		{Name: "frame-size", Off: 0, Width: 4, Endian: "LE", WOrigins: []string{"~len("}, RSink: "field:IVFFrameHeader.FrameSize"},
		{Name: "pts", Off: 4, Width: 8, Endian: "LE", WOrigins: []string{"*"}, RSink: "field:IVFFrameHeader.Timestamp"},
	}
	wF, wfBuf, ok3 := c32Buffer(c, l, "C32.R1", "frame-header|writer", writeFrame, true)
	rF, rfBuf, ok4 := c32Buffer(c, l, "C32.R1", "frame-header|reader", parseFrame, false)
	if ok3 && ok4 {
		c32CheckRows(c, l, "C32.R1", "frame-header", frameRows, wF, rF)
		c32BufLens(c, l, "C32.R1", "frame-header|buffer-length", writeFrame, wfBuf, parseFrame, rfBuf, 12)
		c32FrameSizeIsPayload(c, l, writeFrame, wF, parseFrame)
	}
	// magic / version agreement
	c32Magic(c, wH)
	// Close's rewrite
	c32CloseRewrite(c, l, closeFn, rH)

	// ---- R2
	c32Dispatch(c, l, writeHeader, wH, wBuf)

	// ---- R3
	c32Counter(c, writeFrame, closeFn)

	if c.Thorough {
		c32Sweep(c, l, "C32.R1", c32W, map[string]bool{writeHeader.Name(): true, writeFrame.Name(): true, closeFn.Name(): true})
		c32Sweep(c, l, "C32.R1", c32R, map[string]bool{parseHeader.Name(): true, parseFrame.Name(): true})
	}
	c32Arith(c)
}

// c32BufLens: both header buffers have the specified constant length.
func c32BufLens(c *Ctx, l *core.Layout, rule, key string, wfi *core.FuncInfo, wBuf types.Object, rfi *core.FuncInfo, rBuf types.Object, want int64) {
	lenOf := func(fi *core.FuncInfo, obj types.Object) (int64, bool) {
		var id *ast.Ident
		ast.Inspect(fi.Decl.Body, func(n ast.Node) bool {
			if x, ok := n.(*ast.Ident); ok && id == nil && fi.Pkg.TypesInfo.ObjectOf(x) == obj {
				id = x
			}
			return id == nil
		})
		if id == nil {
			return 0, false
		}
		return l.KnownLen(fi, id)
	}
	wl, okw := lenOf(wfi, wBuf)
	rl, okr := lenOf(rfi, rBuf)
	pos := c.P.Pos(wfi.Decl.Pos())
	switch {
	case !okw || !okr:
		c.R.Undecided(rule, key, pos, sprintf("header buffer length is not a constant (writer known=%v, reader known=%v)", okw, okr))
	default:
		c.R.Check(wl == want && rl == want, rule, key, pos, sprintf("writer and reader buffers are %d bytes", want), sprintf("writer buffer %d bytes, reader buffer %d bytes, format %d", wl, rl, want))
	}
}

// c32FrameSizeIsPayload: the size field holds the length of exactly the slice that is written after the
// header, and the reader allocates/reads exactly FrameSize bytes.
func c32FrameSizeIsPayload(c *Ctx, l *core.Layout, writeFrame *core.FuncInfo, wF []*core.LayoutEntry, parseFrame *core.FuncInfo) {
	info := writeFrame.Pkg.TypesInfo
	var sizeEntry *core.LayoutEntry
	for _, e := range wF {
		if e.OffKnown && e.Off == 0 {
			sizeEntry = e
		}
	}
	key := "frame-header|size-is-length-of-written-frame"
	if sizeEntry == nil {
		return
	}
	pos := c.P.Pos(sizeEntry.Pos)
	// the value is T(len(X))
	var lenArg ast.Expr
	e := ast.Unparen(sizeEntry.Val)
	for {
		call, ok := e.(*ast.CallExpr)
		if !ok {
			break
		}
		if tv, ok := info.Types[call.Fun]; ok && tv.IsType() && len(call.Args) == 1 {
			e = ast.Unparen(call.Args[0])
			continue
		}
		if id, ok := ast.Unparen(call.Fun).(*ast.Ident); ok {
			if b, ok := info.Uses[id].(*types.Builtin); ok && b.Name() == "len" {
				lenArg = call.Args[0]
			}
		}
		break
	}
	if lenArg == nil {
		c.R.Undecided("C32.R1", key, pos, "the frame-size value is not a conversion of len(x)")
		return
	}
	lv := core.VarOf(info, lenArg)
	// besides the header buffer exactly one slice is written, and the size field holds the length of that slice
	wroteSame, writes := false, 0
	hdrBuf := sizeEntry.BufObj
	ast.Inspect(writeFrame.Decl.Body, func(n ast.Node) bool {
		call, ok := n.(*ast.CallExpr)
		if !ok || len(call.Args) != 1 {
			return true
		}
		if fn := core.Callee(info, call); fn != nil && fn.Name() == "Write" {
			writes++
			v := core.VarOf(info, call.Args[0])
			if v != nil && v == lv && types.Object(v) != hdrBuf {
				wroteSame = true
			}
		}
		return true
	})
	c.R.Check(lv != nil && wroteSame && writes == 2, "C32.R1", key, pos, "size = len(frame) and the same slice is written after the header", sprintf("the size field is len(%s) but that slice is not what is written after the header (Write calls: %d)", exprStr(lenArg), writes))

	// reader: make([]byte, header.FrameSize) then ReadFull into it
	rinfo := parseFrame.Pkg.TypesInfo
	fs := c.mustField("C32.R1", c32R, "IVFFrameHeader", "FrameSize")
	if fs == nil {
		return
	}
	okMake := false
	var p token.Pos = parseFrame.Decl.Pos()
	ast.Inspect(parseFrame.Decl.Body, func(n ast.Node) bool {
		call, ok := n.(*ast.CallExpr)
		if !ok || len(call.Args) < 2 {
			return true
		}
		if id, ok := ast.Unparen(call.Fun).(*ast.Ident); ok {
			if b, ok := rinfo.Uses[id].(*types.Builtin); ok && b.Name() == "make" && core.FieldOf(rinfo, call.Args[1]) == fs {
				okMake, p = true, call.Pos()
			}
		}
		return true
	})
	c.R.Check(okMake, "C32.R1", "frame-header|reader-reads-FrameSize-bytes", c.P.Pos(p), "payload buffer has FrameSize bytes", "the reader does not size the payload buffer with the decoded FrameSize")
}

// c32Magic: the constants the writer stores as signature/version are accepted by the reader's checks.
func c32Magic(c *Ctx, wH []*core.LayoutEntry) {
	for _, f := range []struct {
		off   int64
		field string
	}{{0, "signature"}, {4, "version"}} {
		fv := c.mustField("C32.R1", c32R, "IVFFileHeader", f.field)
		if fv == nil {
			continue
		}
		accepted := c32FieldCompared(c, c32R, fv)
		key := "file-header|reader-accepts-written-" + f.field
		var written constant.Value
		pos := "-"
		for _, e := range wH {
			if e.OffKnown && e.Off == f.off {
				written, pos = e.Const, c.P.Pos(e.Pos)
			}
		}
		switch {
		case written == nil:
			c.R.Undecided("C32.R1", key, pos, "the writer does not store a constant "+f.field)
		case len(accepted) == 0:
			c.R.Undecided("C32.R1", key, pos, "the reader never compares "+f.field+" with a constant")
		default:
			ok := true
			for _, a := range accepted {
				if a.Kind() != written.Kind() || !constant.Compare(a, token.EQL, written) {
					ok = false
				}
			}
			c.R.Check(ok, "C32.R1", key, pos, "writer stores "+written.ExactString()+", the value the reader requires", sprintf("writer stores %s but the reader requires %v", written.ExactString(), accepted))
		}
	}
}

// c32CloseRewrite: Seek(off, SeekStart) with off = offset of the field the reader decodes into NumFrames; 4 bytes LE of count.
func c32CloseRewrite(c *Ctx, l *core.Layout, closeFn *core.FuncInfo, rH []*core.LayoutEntry) {
	info := closeFn.Pkg.TypesInfo
	key := "file-header|close-rewrites-frame-count"
	var numOff, numW int64 = -1, -1
	numEndian := ""
	for _, e := range rH {
		if c32HasSink(l.EntrySinks(e), "field:IVFFileHeader.NumFrames") {
			numOff, numW, numEndian = e.Off, e.Width, e.Endian
		}
	}
	pos := c.P.Pos(closeFn.Decl.Pos())
	if numOff < 0 {
		c.R.Undecided("C32.R1", key, pos, "the reader entry that fills NumFrames was not found")
		return
	}
	var seeks []*ast.CallExpr
	ast.Inspect(closeFn.Decl.Body, func(n ast.Node) bool {
		if call, ok := n.(*ast.CallExpr); ok && len(call.Args) == 2 {
			if fn := core.Callee(info, call); fn != nil && fn.Name() == "Seek" {
				seeks = append(seeks, call)
			}
		}
		return true
	})
	es, _ := l.Entries(closeFn)
	var puts []*core.LayoutEntry
	for _, e := range es {
		if e.Write && e.Kind == "uint" {
			puts = append(puts, e)
		}
	}
	if len(seeks) != 1 || len(puts) != 1 {
		c.R.Undecided("C32.R1", key, pos, sprintf("expected one Seek and one integer store in Close, found %d / %d", len(seeks), len(puts)))
		return
	}
	off, okOff := l.ConstInt(closeFn, seeks[0].Args[0])
	whence, okWh := l.ConstInt(closeFn, seeks[0].Args[1])
	bl, okLen := l.KnownLen(closeFn, puts[0].BufExpr)
	origins := l.Origins(closeFn, puts[0].Val)
	bad := ""
	switch {
	case !okOff || !okWh:
		bad = "Seek offset/whence is not constant"
	case whence != 0:
		bad = sprintf("Seek whence is %d, not io.SeekStart", whence)
	case off != numOff:
		bad = sprintf("Close seeks to offset %d but the reader decodes NumFrames at offset %d", off, numOff)
	case !puts[0].OffKnown || puts[0].Off != 0 || puts[0].Width != numW || puts[0].Endian != numEndian:
		bad = sprintf("Close stores %s, the reader decodes @%d/%d %s", puts[0], numOff, numW, numEndian)
	case !okLen || bl != numW:
		bad = sprintf("the rewrite buffer is %d bytes (known=%v), the field has %d", bl, okLen, numW)
	case len(origins) != 1 || origins[0] != "field:IVFWriter.count":
		bad = sprintf("the rewritten value comes from %v, not from the frame counter", origins)
	}
	// the buffer written by ws.Write is the one just filled
	if bad == "" {
		wrote := false
		ast.Inspect(closeFn.Decl.Body, func(n ast.Node) bool {
			if call, ok := n.(*ast.CallExpr); ok && len(call.Args) == 1 {
				if fn := core.Callee(info, call); fn != nil && fn.Name() == "Write" && info.ObjectOf(identOf(call.Args[0])) == puts[0].BufObj && puts[0].BufObj != nil {
					wrote = true
				}
			}
			return true
		})
		if !wrote {
			bad = "the buffer holding the counter is not the one written after the Seek"
		}
	}
	c.R.Check(bad == "", "C32.R1", key, c.P.Pos(seeks[0].Pos()), sprintf("Seek(%d, SeekStart) + %d bytes %s of count", off, numW, numEndian), bad)
}

func identOf(e ast.Expr) *ast.Ident {
	id, _ := ast.Unparen(e).(*ast.Ident)
	if id == nil {
		return &ast.Ident{}
	}
	return id
}

// c32Dispatch checks the three tables mime -> codec, codec -> fourcc, codec -> write function.
func c32Dispatch(c *Ctx, l *core.Layout, writeHeader *core.FuncInfo, wH []*core.LayoutEntry, wBuf types.Object) {
	r := c.R
	codecF := c.mustField("C32.R2", c32W, "IVFWriter", "codec")
	if codecF == nil {
		return
	}
	wantFourCC := map[string]string{"codecVP8": "VP80", "codecVP9": "VP90", "codecAV1": "AV01"}
	wantMime := map[string]string{"video/VP8": "codecVP8", "video/VP9": "codecVP9", "video/AV1": "codecAV1"}
	wantFn := map[string]string{"codecVP8": "(*IVFWriter).writeVP8", "codecVP9": "(*IVFWriter).writeVP9", "codecAV1": "(*IVFWriter).writeAV1"}
	for k := range wantFourCC {
		c.mustConst("C32.R2", c32W, k)
	}
	isCodec := func(g *core.Graph) func(ast.Expr) bool {
		return func(x ast.Expr) bool { return core.FieldOf(g.Info, x) == codecF }
	}

	// codec -> FourCC
	g := c.P.GraphOf(writeHeader)
	seen := map[string]bool{}
	for _, e := range wH {
		if !e.OffKnown || e.Off != 8 {
			continue
		}
		n := c32NodeOf(g, e.Node)
		pos := c.P.Pos(e.Pos)
		if n < 0 || e.Const == nil || e.Const.Kind() != constant.String {
			r.Undecided("C32.R2", "fourcc|non-constant", pos, "a FourCC store is not a constant string or not in the control-flow graph")
			continue
		}
		ks := c32EqFacts(g, n, isCodec(g))
		four := constant.StringVal(e.Const)
		if len(ks) != 1 {
			r.Fail("C32.R2", "fourcc|"+four, pos, sprintf("FourCC %q is stored without being confined to one codec arm (%d dominating codec tests)", four, len(ks)))
			continue
		}
		name := c32ConstName(c, c32W, "codec", ks[0])
		seen[name] = true
		r.Check(wantFourCC[name] == four, "C32.R2", "fourcc|"+name, pos, name+" -> "+four, sprintf("codec %s writes FourCC %q, the IVF FourCC for it is %q", name, four, wantFourCC[name]))
	}
	for name := range wantFourCC {
		if !seen[name] {
			r.Fail("C32.R2", "fourcc|"+name, c.P.Pos(writeHeader.Decl.Pos()), "no FourCC is written for "+name)
		}
	}
	// header-size field == buffer length
	for _, e := range wH {
		if e.OffKnown && e.Off == 6 && e.Const != nil {
			var id *ast.Ident
			ast.Inspect(writeHeader.Decl.Body, func(n ast.Node) bool {
				if x, ok := n.(*ast.Ident); ok && id == nil && writeHeader.Pkg.TypesInfo.ObjectOf(x) == wBuf {
					id = x
				}
				return id == nil
			})
			bl, ok := int64(-1), false
			if id != nil {
				bl, ok = l.KnownLen(writeHeader, id)
			}
			v, _ := constant.Int64Val(e.Const)
			r.Check(ok && v == bl, "C32.R2", "header-size-field=buffer-length", c.P.Pos(e.Pos), sprintf("header-size field %d = len(header)", v), sprintf("header-size field holds %d, the header buffer has %d bytes", v, bl))
		}
	}

	// mime -> codec (function literal inside WithCodec)
	if wc := c.mustFunc("C32.R2", c32W, "WithCodec"); wc != nil {
		seenM := map[string]bool{}
		ast.Inspect(wc.Decl.Body, func(n ast.Node) bool {
			fl, ok := n.(*ast.FuncLit)
			if !ok {
				return true
			}
			lg := c.P.GraphOfLit(fl)
			if lg == nil {
				return false
			}
			mimeParam := wc.Obj.Type().(*types.Signature).Params().At(0)
			for _, nd := range lg.Nodes {
				as, ok := nd.Ast.(*ast.AssignStmt)
				if !ok || len(as.Lhs) != 1 || core.FieldOf(lg.Info, as.Lhs[0]) != codecF {
					continue
				}
				tv := lg.Info.Types[as.Rhs[0]]
				pos := c.P.Pos(as.Pos())
				if tv.Value == nil {
					r.Undecided("C32.R2", "mime|non-constant-codec", pos, "codec assigned from a non-constant")
					continue
				}
				codec := c32ConstName(c, c32W, "codec", tv.Value)
				ks := c32EqFacts(lg, nd.ID, func(x ast.Expr) bool { return core.VarOf(lg.Info, x) == mimeParam })
				if len(ks) != 1 || ks[0].Kind() != constant.String {
					r.Fail("C32.R2", "mime|->"+codec, pos, "codec assignment is not confined to one mime-type arm")
					continue
				}
				mime := constant.StringVal(ks[0])
				seenM[mime] = true
				r.Check(wantMime[mime] == codec, "C32.R2", "mime|"+mime, pos, mime+" -> "+codec, sprintf("mime type %q selects %s, expected %s", mime, codec, wantMime[mime]))
			}
			return false
		})
		for m := range wantMime {
			if !seenM[m] {
				r.Fail("C32.R2", "mime|"+m, c.P.Pos(wc.Decl.Pos()), "mime type "+m+" selects no codec")
			}
		}
	}

	// codec -> write function
	if wr := c.mustFunc("C32.R2", c32W, "IVFWriter.WriteRTP"); wr != nil {
		wg := c.P.GraphOf(wr)
		seenF := map[string]bool{}
		for _, nd := range wg.Nodes {
			if nd.Ast == nil {
				continue
			}
			for _, call := range core.CallsIn(nd.Ast) {
				fn := core.Callee(wg.Info, call)
				if fn == nil || c.P.DeclOf(fn) == nil {
					continue
				}
				name := core.FuncName(fn)
				isWrite := false
				for _, w := range wantFn {
					if w == name {
						isWrite = true
					}
				}
				if !isWrite {
					continue
				}
				ks := c32EqFacts(wg, nd.ID, isCodec(wg))
				pos := c.P.Pos(call.Pos())
				if len(ks) != 1 {
					r.Fail("C32.R2", "write-dispatch|"+name, pos, name+" is called without being confined to one codec arm")
					continue
				}
				codec := c32ConstName(c, c32W, "codec", ks[0])
				seenF[codec] = true
				r.Check(wantFn[codec] == name, "C32.R2", "write-dispatch|"+codec, pos, codec+" -> "+name, sprintf("codec %s dispatches to %s, expected %s", codec, name, wantFn[codec]))
			}
		}
		for k := range wantFn {
			if !seenF[k] {
				r.Fail("C32.R2", "write-dispatch|"+k, c.P.Pos(wr.Decl.Pos()), "no write function is dispatched for "+k)
			}
		}
	}
}

// c32Counter is R3.
func c32Counter(c *Ctx, writeFrame, closeFn *core.FuncInfo) {
	r := c.R
	countF := c.mustField("C32.R3", c32W, "IVFWriter", "count")
	ioW := c.mustField("C32.R3", c32W, "IVFWriter", "ioWriter")
	if countF == nil || ioW == nil {
		return
	}
	pkg := c.P.Pkg(c32W)
	info := pkg.TypesInfo
	// who writes count
	incs := 0
	for _, fi := range c.P.AllFuncs() {
		if fi.Pkg != pkg || fi.Decl.Body == nil {
			continue
		}
		ast.Inspect(fi.Decl.Body, func(n ast.Node) bool {
			switch s := n.(type) {
			case *ast.IncDecStmt:
				if core.FieldOf(info, s.X) == countF {
					key := "count-write|in:" + fi.Name()
					ok := fi == writeFrame && s.Tok == token.INC
					if ok {
						incs++
					}
					r.Check(ok, "C32.R3", key, c.P.Pos(s.Pos()), "count++ in writeFrame", "the frame counter is modified outside writeFrame (or decremented): it no longer equals the number of frames written")
				}
			case *ast.AssignStmt:
				for i, lh := range s.Lhs {
					if core.FieldOf(info, lh) != countF {
						continue
					}
					key := "count-write|in:" + fi.Name()
					ok := false
					if fi == writeFrame && s.Tok == token.ADD_ASSIGN && len(s.Rhs) == len(s.Lhs) {
						if tv := info.Types[s.Rhs[i]]; tv.Value != nil && tv.Value.ExactString() == "1" {
							ok = true
							incs++
						}
					}
					r.Check(ok, "C32.R3", key, c.P.Pos(s.Pos()), "count += 1 in writeFrame", "the frame counter is assigned outside a single increment in writeFrame")
				}
			case *ast.KeyValueExpr:
				if id, ok := s.Key.(*ast.Ident); ok && info.Uses[id] == types.Object(countF) {
					tv := info.Types[s.Value]
					r.Check(tv.Value != nil && tv.Value.ExactString() == "0", "C32.R3", "count-init|in:"+fi.Name(), c.P.Pos(s.Pos()), "initialised to 0", "the frame counter starts at a value other than 0")
				}
			case *ast.UnaryExpr:
				if s.Op == token.AND && core.FieldOf(info, s.X) == countF {
					r.Fail("C32.R3", "count-addr|in:"+fi.Name(), c.P.Pos(s.Pos()), "address of the frame counter taken")
				}
			}
			return true
		})
	}
	// increment on every success path, at most once
	g := c.P.GraphOf(writeFrame)
	incNodes := g.FindNodes(func(n ast.Node) bool {
		switch s := n.(type) {
		case *ast.IncDecStmt:
			return core.FieldOf(g.Info, s.X) == countF
		case *ast.AssignStmt:
			for _, lh := range s.Lhs {
				if core.FieldOf(g.Info, lh) == countF {
					return true
				}
			}
		}
		return false
	})
	pos := c.P.Pos(writeFrame.Decl.Pos())
	if len(incNodes) == 0 {
		r.Fail("C32.R3", "writeFrame|count-on-success-path", pos, "writeFrame never increments the frame counter")
	} else {
		incSet := core.NodeSet(incNodes)
		bad := ""
		nSucc := 0
		for _, rn := range g.Returns() {
			ret := g.Nodes[rn].Ast.(*ast.ReturnStmt)
			if c32FailureOnly(g, rn, ret) {
				continue
			}
			nSucc++
			if !g.Dominated(rn, incSet) {
				bad = "a return that may report success at " + c.P.Pos(ret.Pos()) + " is reachable without incrementing the counter (frame written, not counted)"
			}
		}
		// at most once: no increment reachable from an increment
		for _, a := range incNodes {
			reach := g.Reach([]int{a}, nil, nil)
			for _, b := range incNodes {
				if a != b && reach[b] {
					bad = "the counter can be incremented twice in one call"
				}
			}
			for _, e := range g.Nodes[a].Succs {
				if g.Reach([]int{e.To}, nil, nil)[a] {
					bad = "the counter increment lies in a loop"
				}
			}
		}
		if nSucc == 0 {
			bad = "writeFrame has no success return"
		}
		r.Check(bad == "", "C32.R3", "writeFrame|count-on-success-path", c.P.Pos(g.PosOf(incNodes[0])), sprintf("every one of %d success-capable returns is dominated by the single increment", nSucc), bad)
	}
	// frame bytes reach the output only through writeFrame / writeHeader; Close goes through the seeker
	for _, fi := range c.P.AllFuncs() {
		if fi.Pkg != pkg || fi.Decl.Body == nil {
			continue
		}
		ast.Inspect(fi.Decl.Body, func(n ast.Node) bool {
			call, ok := n.(*ast.CallExpr)
			if !ok {
				return true
			}
			sel, ok := ast.Unparen(call.Fun).(*ast.SelectorExpr)
			if !ok || core.FieldOf(info, sel.X) != ioW || sel.Sel.Name != "Write" {
				return true
			}
			okSite := fi == writeFrame || fi.Name() == "(*IVFWriter).writeHeader"
			r.Check(okSite, "C32.R3", "output-write|in:"+fi.Name(), c.P.Pos(call.Pos()), "output written by the header/frame writer", "bytes are written to the output outside writeHeader/writeFrame: the file no longer consists of header + counted frames")
			return true
		})
	}
	// Close: Seek and the rewrite only behind the WriteSeeker assertion
	cg := c.P.GraphOf(closeFn)
	var seekNodes []int
	for _, nd := range cg.Nodes {
		if nd.Ast == nil {
			continue
		}
		for _, call := range core.CallsIn(nd.Ast) {
			if fn := core.Callee(cg.Info, call); fn != nil && fn.Name() == "Seek" {
				seekNodes = append(seekNodes, nd.ID)
			}
		}
	}
	key := "Close|rewrite-only-when-seekable"
	if len(seekNodes) != 1 {
		r.Undecided("C32.R3", key, c.P.Pos(closeFn.Decl.Pos()), sprintf("expected one Seek in Close, found %d", len(seekNodes)))
		return
	}
	// the ok variable of `ws, ok := i.ioWriter.(io.WriteSeeker)`
	var okVar, wsVar *types.Var
	ast.Inspect(closeFn.Decl.Body, func(n ast.Node) bool {
		as, isAs := n.(*ast.AssignStmt)
		if !isAs || len(as.Lhs) != 2 || len(as.Rhs) != 1 {
			return true
		}
		ta, isTA := ast.Unparen(as.Rhs[0]).(*ast.TypeAssertExpr)
		if !isTA || core.FieldOf(cg.Info, ta.X) != ioW {
			return true
		}
		if it, isI := cg.Info.TypeOf(ta.Type).Underlying().(*types.Interface); isI {
			hasSeek := false
			for i := 0; i < it.NumMethods(); i++ {
				if it.Method(i).Name() == "Seek" {
					hasSeek = true
				}
			}
			if hasSeek {
				wsVar, okVar = core.VarOf(cg.Info, as.Lhs[0]), core.VarOf(cg.Info, as.Lhs[1])
			}
		}
		return true
	})
	if okVar == nil {
		r.Fail("C32.R3", key, c.P.Pos(cg.PosOf(seekNodes[0])), "Close seeks without a type assertion of the output to an interface with Seek")
		return
	}
	guarded := false
	for _, a := range cg.AtomsAt(seekNodes[0]) {
		if a.K != nil && a.K.Kind() == constant.Bool && constant.BoolVal(a.K) && a.Op == token.EQL && core.VarOf(cg.Info, a.X) == okVar {
			guarded = true
		}
	}
	// the Seek receiver is the asserted value
	recvOK := false
	for _, call := range core.CallsIn(cg.Nodes[seekNodes[0]].Ast) {
		if sel, ok := ast.Unparen(call.Fun).(*ast.SelectorExpr); ok && sel.Sel.Name == "Seek" && core.VarOf(cg.Info, sel.X) == wsVar {
			recvOK = true
		}
	}
	r.Check(guarded && recvOK, "C32.R3", key, c.P.Pos(cg.PosOf(seekNodes[0])), "Seek is dominated by the successful io.WriteSeeker assertion", "the frame-count rewrite is not confined to outputs that implement io.WriteSeeker")
}

// c32FailureOnly reports whether a return statement can only return a non-nil error:
// its error operand is a variable known non-nil by a dominating `v != nil` test, or a non-nil expression.
func c32FailureOnly(g *core.Graph, n int, ret *ast.ReturnStmt) bool {
	sig := g.Sig()
	idx := core.ErrResultIndex(sig)
	if idx < 0 || len(ret.Results) != sig.Results().Len() {
		return false
	}
	e := ret.Results[idx]
	if core.IsNilIdent(g.Info, e) {
		return false
	}
	v := core.VarOf(g.Info, e)
	if v == nil {
		// package-level error value or constructor call
		if call, ok := ast.Unparen(e).(*ast.CallExpr); ok {
			if fn := core.Callee(g.Info, call); fn != nil && fn.Pkg() != nil && (fn.Pkg().Path() == "errors" || fn.Pkg().Path() == "fmt") {
				return true
			}
			return false
		}
		return true
	}
	if v.Pkg() != nil && v.Parent() == v.Pkg().Scope() {
		return true
	}
	for _, a := range g.AtomsAt(n) {
		if a.IsNil && a.Op == token.NEQ && core.VarOf(g.Info, a.X) == v {
			return true
		}
	}
	return false
}
