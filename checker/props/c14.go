package props

import (
	"go/ast"
	"go/constant"
	"go/token"
	"go/types"
	"regexp"
	"strings"
	"time"

	"verif/checker/core"
)

func init() {
	register(&Prop{
		ID:        "C14",
		Engine:    "e2cfg+e6flow",
		Technique: "gate rules on the CFG with three-valued evaluation of branch conditions under a valuation (verification disabled = false, fingerprint comparison = false): which exits are reachable and whether they can return nil; must-pass-through rules for the verify option and the option forwarding loops; provenance of the signaled fingerprint and of the presented certificate through canonical def-use rendering",
		LevelText: "Gate clauses of fingerprint authentication: every set of DTLS options built by the transport contains WithVerifyPeerCertificate(t.verifyPeerCertificateFunc()) and both the client and the server arm forward every shared option to pion/dtls, which is the only place a DTLS connection is created; with verification not disabled the verifier can only return nil through validateFingerPrint; validateFingerPrint returns nil only on the true edge of a comparison between the fingerprint of the presented certificate (hash taken from the signaled algorithm) and the signaled value, so an empty or non-matching list yields an error; the signaled fingerprint reaches the transport unchanged from extractFingerprint(desc.parsed), which rejects descriptions without one before the transports are started; the certificate whose fingerprint is advertised and the one presented are the same element of the same list, hashed with SHA-256.",
		LevelNote: "Trusted: pion/dtls invokes the VerifyPeerCertificate callback and aborts the handshake on error; fingerprint.Fingerprint / HashFromString; sentinel errors are non-nil. Does not decide 'never reaches connected / no data delivered' (runtime).",
		DesignRef: "DESIGN.md §5 C14",
		Run:       runC14,
	})
}

const (
	c14DTLSPath = "github.com/pion/dtls/v3"
	c14FPPath   = "github.com/pion/dtls/v3/pkg/crypto/fingerprint"
)

func runC14(c *Ctx) {
	r := c.R
	t0 := time.Now()
	defer func() { r.Extra["rule_eval_s"] = time.Since(t0).Seconds() }()
	r.Rule("C14.R1", "every path of dtlsSharedOptions puts WithVerifyPeerCertificate(t.verifyPeerCertificateFunc()) into the returned options and nothing resets them afterwards; start passes exactly these options to connectDTLS; every exit of connectDTLS returns a pion/dtls connection built from options that forward every shared option (range loop appending each element); no other function of the module creates a DTLS connection", 5)
	r.Rule("C14.R2", "in the verifier closure, under the valuation 'disableCertificateFingerprintVerification is false', every reachable exit returns a certainly non-nil error or the result of validateFingerPrint applied to the parsed first presented certificate", 2)
	r.Rule("C14.R3", "in validateFingerPrint, under the valuation 'the comparison is false', every reachable exit returns a certainly non-nil error (so an empty or non-matching fingerprint list is rejected); the comparison is between fingerprint.Fingerprint(<presented certificate>, HashFromString(<signaled algorithm>)) and the signaled value of the same list element of t.remoteParameters.Fingerprints", 2)
	r.Rule("C14.R4", "provenance: DTLSTransport.remoteParameters is written only by prepareStart from its parameter, which Start/StartContext/start pass through; startTransports builds the parameters from its fingerprint arguments, which at its only call site are results 0 (value) and 1 (hash) of extractFingerprint(desc.parsed); extractFingerprint returns (parts[1], parts[0]) of the \"hash value\" attribute and fails when no fingerprint is present; the transports are started only after extractFingerprint succeeded", 9)
	r.Rule("C14.R7", "Certificate.Equals (SetConfiguration's guard against replacing the presented certificate) returns true only when the two X.509 certificates are Equal, and compares no key material by pointer/interface identity", 6)
	r.Rule("C14.R8", "every write of pc.configuration.Certificates after construction (SetConfiguration) is dominated by a length-equality test and by a loop that fails unless old[i].Equals(new[i]) for every position i: the index-k agreement of C14.R5 survives SetConfiguration", 1)
	r.Rule("C14.R9", "prepareStart stores DTLSTransport.remoteParameters only on the accepted path: no possibly-failing return is reachable after the store (a rejected second Start does not replace the fingerprints the handshake in flight is verified against)", 1)
	r.Rule("C14.R5", "advertised = presented: the SDP generators fingerprint pc.configuration.Certificates[k] and the transport presents t.certificates[k] (certificate and private key) with the same constant k; t.certificates is written only by the constructor, which copies its argument in order, and NewPeerConnection passes pc.configuration.Certificates; GetFingerprints hashes the certificate's own x509Cert with SHA-256", 8)
	r.NotCovered = append(r.NotCovered,
		"that pion/dtls calls the VerifyPeerCertificate callback and fails the handshake on a non-nil result",
		"'never reaches the connected state / no data is delivered' (runtime consequence of the failed handshake)",
		"which of several media-level fingerprints is authoritative (extractFingerprint's selection policy)",
		"that pc.configuration.Certificates is not modified after construction (C39 decides that)")
	r.Trusted = append(r.Trusted, "pion/dtls option semantics (WithVerifyPeerCertificate, ClientWithOptions/ServerWithOptions)", "fingerprint.Fingerprint / HashFromString / StringFromHash", "package-level error variables initialised with errors.New are non-nil")

	c14R1(c)
	c14R23(c)
	c14R4(c)
	c14R5(c)
	c14ClientAuth(c)
	c14CertEquals(c, "C14.R7", "C14.R7")
	c14R8(c) // c14b.go
	c14R9(c)
}

func c14IsPkgFunc(info *types.Info, call *ast.CallExpr, path, name string) bool {
	return core.CalleeIs(info, call, path, name)
}

// c14ReturnedVar: the single variable all returns of g return as result idx (nil if not of that shape).
func c14ReturnedVar(g *core.Graph, idx int) *types.Var {
	var v *types.Var
	for _, id := range g.Returns() {
		ret := g.Nodes[id].Ast.(*ast.ReturnStmt)
		if len(ret.Results) <= idx {
			return nil
		}
		rv := core.VarOf(g.Info, ret.Results[idx])
		if rv == nil || (v != nil && rv != v) {
			return nil
		}
		v = rv
	}
	return v
}

func c14IsAppendTo(info *types.Info, e ast.Expr, v *types.Var) (*ast.CallExpr, bool) {
	call, ok := ast.Unparen(e).(*ast.CallExpr)
	if !ok || len(call.Args) == 0 {
		return nil, false
	}
	id, ok := call.Fun.(*ast.Ident)
	if !ok {
		return nil, false
	}
	if b, ok := info.Uses[id].(*types.Builtin); !ok || b.Name() != "append" {
		return nil, false
	}
	return call, core.VarOf(info, call.Args[0]) == v
}

// ---------------------------------------------------------------- R1

// c14IncludesVerify: does every path of fi return an options slice that contains
// WithVerifyPeerCertificate(t.verifyPeerCertificateFunc())? A forward must-analysis over the
// node graph: the state is the set of local slice variables known to contain the option;
// composite literals, append (which preserves and may add), copies and same-package helpers
// that themselves always include the option are understood; the join is intersection.
func c14IncludesVerify(c *Ctx, fi *core.FuncInfo, verifyFn *types.Func, depth int) (ok bool, why string, pos tokenPos) {
	g := c.P.GraphOf(fi)
	info := g.Info
	isVerifyOpt := func(e ast.Expr, at int) bool {
		call, ok := ast.Unparen(e).(*ast.CallExpr)
		if !ok || !c14IsPkgFunc(info, call, c14DTLSPath, "WithVerifyPeerCertificate") || len(call.Args) != 1 {
			return false
		}
		return g.Canon(at, call.Args[0]) == "$recv."+verifyFn.Name()+"()"
	}
	type set map[*types.Var]bool
	var has func(e ast.Expr, at int, st set) bool
	has = func(e ast.Expr, at int, st set) bool {
		switch x := ast.Unparen(e).(type) {
		case *ast.Ident:
			if v, _ := info.Uses[x].(*types.Var); v != nil {
				return st[v]
			}
		case *ast.CompositeLit:
			for _, el := range x.Elts {
				if isVerifyOpt(el, at) {
					return true
				}
			}
		case *ast.CallExpr:
			if id, ok := x.Fun.(*ast.Ident); ok {
				if b, ok := info.Uses[id].(*types.Builtin); ok && b.Name() == "append" && len(x.Args) > 0 {
					if has(x.Args[0], at, st) {
						return true
					}
					for i, a := range x.Args[1:] {
						if isVerifyOpt(a, at) {
							return true
						}
						if x.Ellipsis.IsValid() && i == len(x.Args)-2 && has(a, at, st) {
							return true
						}
					}
					return false
				}
			}
			if depth > 0 {
				if h := c.P.DeclOf(core.Callee(info, x)); h != nil && h.Decl.Body != nil && h != fi {
					o, _, _ := c14IncludesVerify(c, h, verifyFn, depth-1)
					return o
				}
			}
		}
		return false
	}
	// must-dataflow
	in := map[int]set{g.Entry: {}}
	work := []int{g.Entry}
	clone := func(s set) set {
		n := set{}
		for k, v := range s {
			if v {
				n[k] = true
			}
		}
		return n
	}
	for len(work) > 0 {
		n := work[0]
		work = work[1:]
		out := clone(in[n])
		if nd := g.Nodes[n]; nd.Ast != nil {
			core.InspectShallow(nd.Ast, func(y ast.Node) bool {
				switch as := y.(type) {
				case *ast.AssignStmt:
					if len(as.Lhs) == len(as.Rhs) {
						for i, l := range as.Lhs {
							if v := core.VarOf(info, l); v != nil {
								out[v] = has(as.Rhs[i], n, in[n])
							}
						}
					} else {
						for _, l := range as.Lhs {
							if v := core.VarOf(info, l); v != nil {
								out[v] = false
							}
						}
					}
				case *ast.ValueSpec:
					for i, nm := range as.Names {
						if v, _ := info.Defs[nm].(*types.Var); v != nil {
							out[v] = len(as.Values) == len(as.Names) && has(as.Values[i], n, in[n])
						}
					}
				case *ast.UnaryExpr:
					if as.Op == token.AND {
						if v := core.VarOf(info, as.X); v != nil {
							out[v] = false // address taken: may be overwritten elsewhere
						}
					}
				}
				return true
			})
		}
		for _, e := range g.Nodes[n].Succs {
			cur, seen := in[e.To]
			if !seen {
				in[e.To] = clone(out)
				work = append(work, e.To)
				continue
			}
			changed := false
			for k := range cur {
				if cur[k] && !out[k] {
					cur[k] = false
					changed = true
				}
			}
			if changed {
				work = append(work, e.To)
			}
		}
	}
	rets := g.Returns()
	if len(rets) == 0 {
		return false, "no return statement", fi.Decl.Pos()
	}
	for _, id := range rets {
		ret := g.Nodes[id].Ast.(*ast.ReturnStmt)
		if len(ret.Results) == 0 || !has(ret.Results[0], id, in[id]) {
			return false, "a return is reachable whose options do not (on every path) contain WithVerifyPeerCertificate(t." + verifyFn.Name() + "()): the peer certificate would not be checked against the signaled fingerprint", g.PosOf(id)
		}
	}
	return true, "", fi.Decl.Pos()
}

// c14PassesToWithCertificates: does fi hand its parameter pidx to dtls.WithCertificates (directly or through a same-package helper)?
func c14PassesToWithCertificates(c *Ctx, fi *core.FuncInfo, pidx, depth int) bool {
	g := c.P.GraphOf(fi)
	want := "$p" + itoaC14(pidx)
	for _, nd := range g.Nodes {
		if nd.Ast == nil {
			continue
		}
		for _, call := range core.CallsIn(nd.Ast) {
			if c14IsPkgFunc(g.Info, call, c14DTLSPath, "WithCertificates") {
				for _, a := range call.Args {
					if g.Canon(nd.ID, a) == want {
						return true
					}
				}
				continue
			}
			if depth <= 0 {
				continue
			}
			if h := c.P.DeclOf(core.Callee(g.Info, call)); h != nil && h.Decl.Body != nil && h != fi {
				for j, a := range call.Args {
					if g.Canon(nd.ID, a) == want && c14PassesToWithCertificates(c, h, j, depth-1) {
						return true
					}
				}
			}
		}
	}
	return false
}

// c14ForwardsAll: does fi return a slice to which every element of parameter pidx is appended?
func c14ForwardsAll(c *Ctx, fi *core.FuncInfo, pidx int) (bool, string) {
	g := c.P.GraphOf(fi)
	info := g.Info
	_, params := g.ParamVars()
	if pidx >= len(params) {
		return false, "parameter index out of range"
	}
	P := params[pidx]
	R := c14ReturnedVar(g, 0)
	if R == nil {
		return false, "the converted options are not returned through one local variable"
	}
	var loop *ast.RangeStmt
	ast.Inspect(g.Body, func(n ast.Node) bool {
		if rs, ok := n.(*ast.RangeStmt); ok && core.VarOf(info, rs.X) == P {
			loop = rs
		}
		return true
	})
	if loop == nil || loop.Value == nil {
		return false, "no range loop over the shared options"
	}
	val := core.VarOf(info, loop.Value)
	var rangeEdges []core.EdgeRef
	var headBlock any
	for _, n := range g.Nodes {
		for i, e := range n.Succs {
			if e.Range == loop && e.Branch == 1 {
				rangeEdges = append(rangeEdges, core.EdgeRef{From: n.ID, Idx: i})
				headBlock = n.Block
			}
		}
	}
	if len(rangeEdges) != 1 {
		return false, "range loop not found in the control-flow graph"
	}
	appendNodes := map[int]bool{}
	loopHead := -1
	for _, n := range g.Nodes {
		if any(n.Block) == headBlock && n.Kind == core.NHead {
			loopHead = n.ID
		}
		as, ok := n.Ast.(*ast.AssignStmt)
		if !ok || len(as.Lhs) != 1 || len(as.Rhs) != 1 || core.VarOf(info, as.Lhs[0]) != R {
			continue
		}
		if app, toR := c14IsAppendTo(info, as.Rhs[0], R); app != nil && toR && len(app.Args) == 2 && core.VarOf(info, app.Args[1]) == val && !app.Ellipsis.IsValid() {
			if loop.Body.Pos() <= as.Pos() && as.End() <= loop.Body.End() {
				appendNodes[n.ID] = true
			}
		}
	}
	if len(appendNodes) == 0 {
		return false, "the loop over the shared options does not append each option to the result"
	}
	// every iteration appends
	isHead := func(n int) bool { return any(g.Nodes[n].Block) == headBlock }
	reach := g.Reach([]int{g.Nodes[rangeEdges[0].From].Succs[rangeEdges[0].Idx].To}, func(n int) bool { return appendNodes[n] || isHead(n) }, nil)
	for n := range reach {
		if (isHead(n) || n == g.Exit) && !appendNodes[n] {
			return false, "an iteration over the shared options can end without appending the option (an option - possibly the certificate verifier - is dropped)"
		}
	}
	// every return comes after the loop; later definitions only append
	for _, id := range g.Returns() {
		if loopHead >= 0 && !g.Dominated(id, map[int]bool{loopHead: true}) {
			return false, "a return is reachable without running the forwarding loop"
		}
	}
	for _, d := range g.AllDefs(R) {
		if appendNodes[d.Node] || d.Node < 0 {
			continue
		}
		if loopHead >= 0 && g.Reach([]int{loopHead}, nil, nil)[d.Node] {
			if _, toR := c14IsAppendTo(info, d.Rhs, R); !toR {
				return false, "the result is re-assigned after the forwarding loop"
			}
		}
	}
	return true, ""
}

func c14R1(c *Ctx) {
	r := c.R
	shared := c.mustFunc("C14.R1", "", "DTLSTransport.dtlsSharedOptions")
	verifyFn := c.mustFunc("C14.R1", "", "DTLSTransport.verifyPeerCertificateFunc")
	connect := c.mustFunc("C14.R1", "", "DTLSTransport.connectDTLS")
	start := c.mustFunc("C14.R1", "", "DTLSTransport.start")
	if shared == nil || verifyFn == nil || connect == nil || start == nil {
		return
	}
	ok, why, p := c14IncludesVerify(c, shared, verifyFn.Obj, 2)
	r.Check(ok, "C14.R1", "dtlsSharedOptions|always-includes-verify-option", c.P.Pos(p), "every path returns options containing WithVerifyPeerCertificate(t.verifyPeerCertificateFunc())", why)

	// connectDTLS: every exit returns a dtls connection built from forwarded options
	cg := c.P.GraphOf(connect)
	info := cg.Info
	_, cparams := cg.ParamVars()
	sharedIdx := -1
	for i, pv := range cparams {
		if sl, ok := pv.Type().(*types.Slice); ok {
			if n, ok := sl.Elem().(*types.Named); ok && n.Obj().Pkg() != nil && n.Obj().Pkg().Path() == c14DTLSPath && n.Obj().Name() == "Option" {
				sharedIdx = i
			}
		}
	}
	if sharedIdx < 0 {
		r.Undecided("C14.R1", "connectDTLS|shared-options-parameter", c.P.Pos(connect.Decl.Pos()), "connectDTLS has no []dtls.Option parameter")
		return
	}
	isFactory := func(inf *types.Info, call *ast.CallExpr) bool {
		fn := core.Callee(inf, call)
		if fn == nil || fn.Pkg() == nil || fn.Pkg().Path() != c14DTLSPath {
			return false
		}
		res := fn.Type().(*types.Signature).Results()
		for i := 0; i < res.Len(); i++ {
			if p, ok := res.At(i).Type().(*types.Pointer); ok {
				if n, ok := p.Elem().(*types.Named); ok && n.Obj().Name() == "Conn" && n.Obj().Pkg().Path() == c14DTLSPath {
					return true
				}
			}
		}
		return false
	}
	arms := 0
	for _, id := range cg.Returns() {
		ret := cg.Nodes[id].Ast.(*ast.ReturnStmt)
		pos := c.P.Pos(ret.Pos())
		var call *ast.CallExpr
		if len(ret.Results) == 1 {
			call, _ = ast.Unparen(ret.Results[0]).(*ast.CallExpr)
		}
		if call == nil || !isFactory(info, call) {
			r.Undecided("C14.R1", "connectDTLS|exit", pos, "an exit of connectDTLS does not directly return a pion/dtls connection constructor call: "+sprintf("%d result(s)", len(ret.Results)))
			continue
		}
		arms++
		fname := core.Callee(info, call).Name()
		key := "connectDTLS|" + fname + "|forwards-all-shared-options"
		if !call.Ellipsis.IsValid() {
			r.Fail("C14.R1", key, pos, "the connection is created without an options slice: the verify option cannot have been forwarded")
			continue
		}
		last := call.Args[len(call.Args)-1]
		okFwd, why := false, ""
		if v := core.VarOf(info, last); v != nil && v == cparams[sharedIdx] {
			okFwd = true
		} else {
			// local := t.toXOptions(sharedOpts)
			var conv *ast.CallExpr
			if v != nil {
				ds := cg.DefsReaching(id, v)
				if len(ds) == 1 && ds[0].Rhs != nil && ds[0].Idx < 0 {
					conv, _ = ast.Unparen(ds[0].Rhs).(*ast.CallExpr)
				}
			} else {
				conv, _ = ast.Unparen(last).(*ast.CallExpr)
			}
			why = "the options passed to " + fname + " are not derived from the shared options: " + cg.Canon(id, last)
			if conv != nil {
				if h := c.P.DeclOf(core.Callee(info, conv)); h != nil && h.Decl.Body != nil {
					pidx := -1
					for i, a := range conv.Args {
						if core.VarOf(info, a) == cparams[sharedIdx] {
							pidx = i
						}
					}
					if pidx >= 0 {
						c.R.Saw(h.Name())
						okFwd, why = c14ForwardsAll(c, h, pidx)
						if !okFwd {
							why = h.Name() + ": " + why
						}
					}
				}
			}
		}
		r.Check(okFwd, "C14.R1", key, pos, "every shared option (hence the certificate verifier) reaches "+fname, why)
	}
	r.Check(arms >= 2, "C14.R1", "connectDTLS|client-and-server-arm", c.P.Pos(connect.Decl.Pos()), sprintf("%d connection-creating exits", arms), "expected a client and a server arm in connectDTLS")

	// callers of connectDTLS pass dtlsSharedOptions' result; connections are created only in connectDTLS
	nCallers := 0
	for _, fi := range c.P.AllFuncs() {
		if fi.Decl.Body == nil {
			continue
		}
		inf := fi.Pkg.TypesInfo
		var g *core.Graph
		ast.Inspect(fi.Decl.Body, func(n ast.Node) bool {
			call, ok := n.(*ast.CallExpr)
			if !ok {
				return true
			}
			if isFactory(inf, call) && fi != connect && c14IsExample(fi) {
				r.Info("C14.R1", "dtls-connection-created|in:"+fi.Pkg.PkgPath+"."+fi.Name(), c.P.Pos(call.Pos()), "example program creating its own DTLS connection (application code, not the library)")
			} else if isFactory(inf, call) && fi != connect {
				r.Fail("C14.R1", "dtls-connection-created|in:"+fi.Name(), c.P.Pos(call.Pos()), "a DTLS connection is created outside connectDTLS: its options are not checked to contain the certificate verifier")
			}
			if core.IsCallTo(inf, call, connect.Obj) {
				nCallers++
				if g == nil {
					g = c.P.GraphOf(fi)
				}
				at := g.NodeContaining(call)
				cn := ""
				if at >= 0 && sharedIdx < len(call.Args) {
					cn = g.Canon(at, call.Args[sharedIdx])
				}
				want := "$recv." + shared.Obj.Name() + "("
				r.Check(strings.HasPrefix(cn, want), "C14.R1", "connectDTLS-call|in:"+fi.Name()+"|shared-options-argument", c.P.Pos(call.Pos()), "passes "+cn, "connectDTLS is called with options that are not the result of dtlsSharedOptions: "+cn)
			}
			return true
		})
	}
	if nCallers == 0 {
		r.Fail("C14.R1", "connectDTLS-call|none", c.P.Pos(connect.Decl.Pos()), "connectDTLS is never called")
	}
	_ = start
}

// ---------------------------------------------------------------- R2, R3

// c14ErrClass classifies a returned error expression on a path with facts f.
func c14ErrClass(c *Ctx, g *core.Graph, e ast.Expr, f core.Facts) string {
	info := g.Info
	switch {
	case core.IsNilIdent(info, e):
		return "nil"
	case core.CertainlyNonNil(info, e), c.P.SentinelError(info, e):
		return "nonnil"
	}
	if v := core.VarOf(info, e); v != nil {
		switch {
		case f.IsNonNil(v):
			return "nonnil"
		case f.IsNil(v):
			return "nil"
		}
	}
	return "unknown"
}

func c14R23(c *Ctx) {
	r := c.R
	verifyFn := c.mustFunc("C14.R2", "", "DTLSTransport.verifyPeerCertificateFunc")
	validate := c.mustFunc("C14.R3", "", "DTLSTransport.validateFingerPrint")
	disableF := c.mustField("C14.R2", "", "SettingEngine", "disableCertificateFingerprintVerification")
	remoteCertF := c.mustField("C14.R2", "", "DTLSTransport", "remoteCertificate")
	if verifyFn == nil || validate == nil || disableF == nil || remoteCertF == nil {
		return
	}
	// ---- R2: the closure
	vg := c.P.GraphOf(verifyFn)
	var lit *ast.FuncLit
	for _, id := range vg.Returns() {
		ret := vg.Nodes[id].Ast.(*ast.ReturnStmt)
		if len(ret.Results) == 1 {
			if fl, ok := ast.Unparen(ret.Results[0]).(*ast.FuncLit); ok {
				if lit != nil {
					lit = nil
					break
				}
				lit = fl
			}
		}
	}
	if lit == nil || len(vg.Returns()) != 1 {
		r.Undecided("C14.R2", "verifyPeerCertificateFunc|closure", c.P.Pos(verifyFn.Decl.Pos()), "expected verifyPeerCertificateFunc to return exactly one function literal")
	} else {
		g := c.P.GraphOfLit(lit)
		info := g.Info
		pos := c.P.Pos(lit.Pos())
		isDisable := func(e ast.Expr) bool { return core.FieldOf(info, e) == disableF }
		// the flag must not be copied into a local we cannot follow
		atoms := func(val int) core.AtomFn {
			return g.WithLocalBools(func(e ast.Expr) (int, bool) {
				if isDisable(e) {
					return val, true
				}
				return 0, false
			})
		}
		ex := g.Explore(core.ExploreOpts{Atoms: atoms(core.False)})
		r.Cells += len(ex.Reached)
		bad := ""
		nDelegate := 0
		for id, fs := range ex.Reached {
			ret, ok := g.Nodes[id].Ast.(*ast.ReturnStmt)
			if !ok {
				continue
			}
			if len(ret.Results) != 1 {
				bad = "unexpected return shape at " + c.P.Pos(ret.Pos())
				continue
			}
			e := ast.Unparen(ret.Results[0])
			if call, ok := e.(*ast.CallExpr); ok && core.IsCallTo(info, call, validate.Obj) {
				nDelegate++
				// argument: x509.ParseCertificate(<first presented certificate>)
				cn := g.Canon(id, call.Args[0])
				okArg := false
				if m := regexp.MustCompile(`^x509\.ParseCertificate\((.*)\)#0$`).FindStringSubmatch(cn); m != nil {
					src := m[1]
					if src == "$p0[0]" {
						okArg = true
					} else if src == "free:t.remoteCertificate" || strings.HasSuffix(src, ".remoteCertificate") {
						// the field must have been assigned from the first presented certificate on every path to here
						assigns := map[int]bool{}
						for _, n := range g.Nodes {
							as, ok := n.Ast.(*ast.AssignStmt)
							if !ok || len(as.Lhs) != len(as.Rhs) {
								continue
							}
							for i, l := range as.Lhs {
								if core.FieldOf(info, l) == remoteCertF {
									if g.Canon(n.ID, as.Rhs[i]) == "$p0[0]" {
										assigns[n.ID] = true
									} else {
										assigns = map[int]bool{-1: true}
									}
								}
							}
						}
						okArg = len(assigns) > 0 && !assigns[-1] && g.Dominated(id, assigns)
					}
				}
				if !okArg {
					bad = "validateFingerPrint is applied to " + cn + ", expected the parsed first presented certificate (rawCerts[0])"
				}
				continue
			}
			for _, f := range fs {
				if cls := c14ErrClass(c, g, e, f); cls != "nonnil" {
					bad = sprintf("with fingerprint verification enabled the verifier can return %s at %s without consulting validateFingerPrint (%s): a peer with any certificate is accepted", exprStr(e), c.P.Pos(ret.Pos()), cls)
				}
			}
		}
		if nDelegate == 0 && bad == "" {
			bad = "with fingerprint verification enabled no exit of the verifier delegates to validateFingerPrint"
		}
		r.Check(bad == "", "C14.R2", "verifyPeerCertificateFunc$closure|verification-enabled|nil-only-via-validateFingerPrint", pos, sprintf("%d delegating exit(s); every other reachable exit returns a non-nil error", nDelegate), bad)
		// non-vacuity of the valuation: with the flag true a nil exit exists (so the flag is really what opens the gate)
		ex2 := g.Explore(core.ExploreOpts{Atoms: atoms(core.True)})
		nilReach := false
		for id, fs := range ex2.Reached {
			if ret, ok := g.Nodes[id].Ast.(*ast.ReturnStmt); ok && len(ret.Results) == 1 {
				for _, f := range fs {
					if c14ErrClass(c, g, ret.Results[0], f) == "nil" {
						nilReach = true
					}
				}
			}
		}
		if nilReach {
			r.OK("C14.R2", "verifyPeerCertificateFunc$closure|verification-disabled|opt-out-honoured", pos, "with the flag set the verifier accepts without comparing (explicit opt-out)")
		} else {
			r.Info("C14.R2", "verifyPeerCertificateFunc$closure|verification-disabled|opt-out-honoured", pos, "the opt-out flag no longer opens a nil exit (stricter than required)")
		}
	}

	// ---- R3: validateFingerPrint
	g := c.P.GraphOf(validate)
	info := g.Info
	pos := c.P.Pos(validate.Decl.Pos())
	remParamsF := c.mustField("C14.R3", "", "DTLSTransport", "remoteParameters")
	fpsF := c.mustField("C14.R3", "", "DTLSParameters", "Fingerprints")
	if remParamsF == nil || fpsF == nil {
		return
	}
	// comparison atoms: strings.EqualFold(a, b) or a == b whose operands are the computed and the signaled value
	cmpKey := "validateFingerPrint|comparison-operands"
	isCmp := func(e ast.Expr) (a, b ast.Expr, ok bool) {
		switch x := ast.Unparen(e).(type) {
		case *ast.CallExpr:
			if c14IsPkgFunc(info, x, "strings", "EqualFold") && len(x.Args) == 2 {
				return x.Args[0], x.Args[1], true
			}
		case *ast.BinaryExpr:
			if x.Op == token.EQL {
				if tv, ok := info.Types[x.X]; ok && types.Identical(tv.Type.Underlying(), types.Typ[types.String]) {
					return x.X, x.Y, true
				}
			}
		}
		return nil, nil, false
	}
	var cmpNodes []int
	var cmpExprs []ast.Expr
	for _, n := range g.Nodes {
		if n.Ast == nil {
			continue
		}
		core.InspectShallow(n.Ast, func(y ast.Node) bool {
			if e, ok := y.(ast.Expr); ok {
				if a, b, ok := isCmp(e); ok {
					ca, cb := g.Canon(n.ID, a), g.Canon(n.ID, b)
					if strings.Contains(ca+cb, "fingerprint.Fingerprint(") {
						cmpNodes = append(cmpNodes, n.ID)
						cmpExprs = append(cmpExprs, e)
					}
				}
			}
			return true
		})
	}
	if len(cmpExprs) != 1 {
		r.Fail("C14.R3", cmpKey, pos, sprintf("expected exactly one comparison involving fingerprint.Fingerprint(...) in validateFingerPrint, found %d: the presented certificate is not compared with the signaled fingerprint", len(cmpExprs)))
		return
	}
	a, b, _ := isCmp(cmpExprs[0])
	ca, cb := g.Canon(cmpNodes[0], a), g.Canon(cmpNodes[0], b)
	if !strings.Contains(ca, "fingerprint.Fingerprint(") {
		ca, cb = cb, ca
	}
	elem := "range-value($recv.remoteParameters.Fingerprints)"
	wantComputed := "fingerprint.Fingerprint($p0, fingerprint.HashFromString(" + elem + ".Algorithm)#0)#0"
	wantSignaled := elem + ".Value"
	okOps := ca == wantComputed && cb == wantSignaled
	r.Check(okOps, "C14.R3", cmpKey, c.P.Pos(cmpExprs[0].Pos()), "compares "+ca+" with "+cb,
		sprintf("the comparison is between %s and %s; expected %s and %s (presented certificate hashed with the signaled algorithm vs the signaled value of the same fingerprint)", ca, cb, wantComputed, wantSignaled))

	cmpAtom := func(val int) core.AtomFn {
		return g.WithLocalBools(func(e ast.Expr) (int, bool) {
			if e == ast.Unparen(cmpExprs[0]) || e == cmpExprs[0] {
				return val, true
			}
			return 0, false
		})
	}
	ex := g.Explore(core.ExploreOpts{Atoms: cmpAtom(core.False)})
	r.Cells += len(ex.Reached)
	bad := ""
	nret := 0
	for id, fs := range ex.Reached {
		ret, ok := g.Nodes[id].Ast.(*ast.ReturnStmt)
		if !ok || len(ret.Results) != 1 {
			continue
		}
		nret++
		for _, f := range fs {
			if cls := c14ErrClass(c, g, ret.Results[0], f); cls != "nonnil" {
				bad = sprintf("validateFingerPrint can return %s at %s (%s) although no signaled fingerprint matched the presented certificate", exprStr(ret.Results[0]), c.P.Pos(ret.Pos()), cls)
			}
		}
	}
	if nret == 0 {
		bad = "no exit reachable under 'comparison false'"
	}
	// non-vacuity: with the comparison true a nil exit is reachable
	ex2 := g.Explore(core.ExploreOpts{Atoms: cmpAtom(core.True)})
	nilReach := false
	for id, fs := range ex2.Reached {
		if ret, ok := g.Nodes[id].Ast.(*ast.ReturnStmt); ok && len(ret.Results) == 1 {
			for _, f := range fs {
				if c14ErrClass(c, g, ret.Results[0], f) == "nil" {
					nilReach = true
				}
			}
		}
	}
	if bad == "" && !nilReach {
		bad = "validateFingerPrint never returns nil: a matching peer is rejected as well"
	}
	r.Check(bad == "", "C14.R3", "validateFingerPrint|nil-only-on-match", pos, sprintf("%d exit(s) reachable without a match, all return a non-nil error (an empty list included)", nret), bad)
}

// ---------------------------------------------------------------- R4

func c14R4(c *Ctx) {
	r := c.R
	remParamsF := c.mustField("C14.R4", "", "DTLSTransport", "remoteParameters")
	prepare := c.mustFunc("C14.R4", "", "DTLSTransport.prepareStart")
	startFn := c.mustFunc("C14.R4", "", "DTLSTransport.start")
	Start := c.mustFunc("C14.R4", "", "DTLSTransport.Start")
	StartCtx := c.mustFunc("C14.R4", "", "DTLSTransport.StartContext")
	startTransports := c.mustFunc("C14.R4", "", "PeerConnection.startTransports")
	extract := c.mustFunc("C14.R4", "", "extractFingerprint")
	setRemote := c.mustFunc("C14.R4", "", "PeerConnection.SetRemoteDescription")
	if remParamsF == nil || prepare == nil || startFn == nil || Start == nil || StartCtx == nil || startTransports == nil || extract == nil || setRemote == nil {
		return
	}
	// (a) who writes remoteParameters
	nW := 0
	for _, fi := range c.P.AllFuncs() {
		if fi.Decl.Body == nil {
			continue
		}
		inf := fi.Pkg.TypesInfo
		ast.Inspect(fi.Decl.Body, func(n ast.Node) bool {
			switch s := n.(type) {
			case *ast.AssignStmt:
				for i, l := range s.Lhs {
					// the field itself or one of its sub-fields
					base := ast.Unparen(l)
					for {
						if core.FieldOf(inf, base) == remParamsF {
							break
						}
						se, ok := base.(*ast.SelectorExpr)
						if !ok {
							base = nil
							break
						}
						base = ast.Unparen(se.X)
					}
					if base == nil {
						continue
					}
					nW++
					key := "write:remoteParameters|in:" + fi.Name()
					g := c.P.GraphOf(fi)
					at := g.NodeContaining(s)
					cn := ""
					if at >= 0 && len(s.Rhs) == len(s.Lhs) {
						cn = g.Canon(at, s.Rhs[i])
					}
					r.Check(fi == prepare && cn == "$p0" && core.FieldOf(inf, l) == remParamsF, "C14.R4", key, c.P.Pos(s.Pos()), "prepareStart stores its parameter",
						"DTLSTransport.remoteParameters (the fingerprints validateFingerPrint trusts) is written outside prepareStart or not from its parameter: "+cn)
				}
			case *ast.UnaryExpr:
				if s.Op == token.AND && core.FieldOf(inf, s.X) == remParamsF {
					r.Undecided("C14.R4", "addr:remoteParameters|in:"+fi.Name(), c.P.Pos(s.Pos()), "address of remoteParameters taken")
				}
			}
			return true
		})
	}
	if nW == 0 {
		r.Fail("C14.R4", "write:remoteParameters|none", "-", "remoteParameters is never written: validateFingerPrint compares against an empty list")
	}
	// (b) pass-through start -> prepareStart, Start/StartContext -> start
	pass := func(caller, callee *core.FuncInfo, argIdx int) {
		g := c.P.GraphOf(caller)
		key := "pass-through|" + caller.Name() + "->" + callee.Name()
		n := 0
		bad := ""
		for _, nd := range g.Nodes {
			if nd.Ast == nil {
				continue
			}
			for _, call := range core.CallsIn(nd.Ast) {
				if core.IsCallTo(g.Info, call, callee.Obj) {
					n++
					if cn := g.Canon(nd.ID, call.Args[argIdx]); cn != "$p"+itoaC14(c14ParamIdxOfType(g, "DTLSParameters")) {
						bad = "passes " + cn + " instead of its own remoteParameters parameter"
					}
				}
			}
		}
		if n == 0 {
			bad = caller.Name() + " does not call " + callee.Name()
		}
		r.Check(bad == "", "C14.R4", key, c.P.Pos(caller.Decl.Pos()), "remote parameters passed through unchanged", bad)
	}
	pass(startFn, prepare, 0)
	pass(Start, startFn, 0)
	pass(StartCtx, startFn, 0)

	// (c) startTransports: literal built from its parameters
	sg := c.P.GraphOf(startTransports)
	valIdx, hashIdx := -1, -1
	nStart := 0
	for _, nd := range sg.Nodes {
		if nd.Ast == nil {
			continue
		}
		for _, call := range core.CallsIn(nd.Ast) {
			if !core.IsCallTo(sg.Info, call, Start.Obj) && !core.IsCallTo(sg.Info, call, StartCtx.Obj) {
				continue
			}
			nStart++
			cn := sg.Canon(nd.ID, call.Args[len(call.Args)-1])
			m := regexp.MustCompile(`Fingerprints: \[\]DTLSFingerprint\{\{(.*?)\}\}`).FindStringSubmatch(cn)
			ok := false
			if m != nil {
				alg := regexp.MustCompile(`Algorithm: \$p([0-9]+)`).FindStringSubmatch(m[1])
				val := regexp.MustCompile(`Value: \$p([0-9]+)`).FindStringSubmatch(m[1])
				if alg != nil && val != nil && strings.Count(m[1], ":") == 2 {
					hashIdx, valIdx = atoiC14(alg[1]), atoiC14(val[1])
					ok = true
				}
			}
			r.Check(ok, "C14.R4", "startTransports|DTLSParameters-from-arguments", c.P.Pos(call.Pos()), sprintf("Fingerprints = [{Algorithm: $p%d, Value: $p%d}]", hashIdx, valIdx),
				"the DTLS transport is started with fingerprints that are not exactly one {Algorithm, Value} pair taken from startTransports' parameters: "+cn)
		}
	}
	if nStart != 1 {
		r.Undecided("C14.R4", "startTransports|DTLSParameters-from-arguments", c.P.Pos(startTransports.Decl.Pos()), sprintf("expected one dtlsTransport.Start call in startTransports, found %d", nStart))
		return
	}
	// other callers of Start/StartContext inside the module
	for _, fi := range c.P.AllFuncs() {
		if fi.Decl.Body == nil || fi == startTransports {
			continue
		}
		inf := fi.Pkg.TypesInfo
		ast.Inspect(fi.Decl.Body, func(n ast.Node) bool {
			if call, ok := n.(*ast.CallExpr); ok && (core.IsCallTo(inf, call, Start.Obj) || core.IsCallTo(inf, call, StartCtx.Obj)) {
				if c14IsExample(fi) {
					r.Info("C14.R4", "DTLSTransport.Start-call|in:"+fi.Pkg.PkgPath+"."+fi.Name(), c.P.Pos(call.Pos()), "ORTC example program starting the transport with parameters it exchanged itself (application code)")
					return true
				}
				r.Undecided("C14.R4", "DTLSTransport.Start-call|in:"+fi.Name(), c.P.Pos(call.Pos()), "a second call site starts the DTLS transport: the provenance of its fingerprints is not modelled")
			}
			return true
		})
	}
	if valIdx < 0 || hashIdx < 0 {
		return
	}
	// (d) call sites of startTransports
	nSites := 0
	for _, fi := range c.P.AllFuncs() {
		if fi.Decl.Body == nil {
			continue
		}
		inf := fi.Pkg.TypesInfo
		og := c.P.GraphOf(fi)
		var walk func(n ast.Node, lits []*ast.FuncLit)
		walk = func(root ast.Node, lits []*ast.FuncLit) {
			ast.Inspect(root, func(n ast.Node) bool {
				if fl, ok := n.(*ast.FuncLit); ok && ast.Node(fl) != root {
					walk(fl, append(append([]*ast.FuncLit{}, lits...), fl))
					return false
				}
				call, ok := n.(*ast.CallExpr)
				if !ok || !core.IsCallTo(inf, call, startTransports.Obj) {
					return true
				}
				nSites++
				key := "startTransports-call|in:" + fi.Name() + "|fingerprint-arguments"
				pos := c.P.Pos(call.Pos())
				// resolve the two arguments in the outermost function at the node holding the literal
				at := -1
				if len(lits) > 0 {
					at = og.NodeContaining(lits[0])
				} else {
					at = og.NodeContaining(call)
				}
				if at < 0 {
					r.Undecided("C14.R4", key, pos, "cannot locate the call in the control-flow graph")
					return true
				}
				want := func(idx int) string { return "webrtc." + extract.Obj.Name() + "($p0.parsed)#" + itoaC14(idx) }
				cv, ch := og.Canon(at, call.Args[valIdx]), og.Canon(at, call.Args[hashIdx])
				okArgs := cv == want(0) && ch == want(1) && fi == setRemote
				r.Check(okArgs, "C14.R4", key, pos, "value = extractFingerprint(desc.parsed)#0, hash = #1",
					sprintf("the fingerprint handed to the DTLS transport is (%s, %s); expected results 0 and 1 of extractFingerprint applied to the description being set", cv, ch))
				// started only after extractFingerprint succeeded
				edges := map[core.EdgeRef]bool{}
				for _, nd := range og.Nodes {
					for i, e := range nd.Succs {
						if e.Cond == nil || e.Tag != nil {
							continue
						}
						nils, _ := core.EdgeNilFacts(inf, e.Cond, e.Branch == 1)
						succ := false
						for _, v := range nils {
							if !isErrorType(v.Type()) {
								continue
							}
							ds := og.DefsReaching(nd.ID, v)
							if len(ds) == 1 && ds[0].Rhs != nil {
								if dc, ok := ast.Unparen(ds[0].Rhs).(*ast.CallExpr); ok && core.IsCallTo(inf, dc, extract.Obj) {
									succ = true
								}
							}
						}
						if succ {
							edges[core.EdgeRef{From: nd.ID, Idx: i}] = true
						}
					}
				}
				r.Check(len(edges) > 0 && og.DominatedByEdges(at, edges), "C14.R4", "startTransports-call|in:"+fi.Name()+"|after-extractFingerprint-succeeded", pos,
					"the transports are started only on the success edge of extractFingerprint", "the transports can be started on a path on which extractFingerprint's error was not checked to be nil")
				return true
			})
		}
		walk(fi.Decl.Body, nil)
	}
	if nSites == 0 {
		r.Fail("C14.R4", "startTransports-call|none", "-", "startTransports is never called")
	}

	// (e) extractFingerprint: results and the no-fingerprint error
	eg := c.P.GraphOf(extract)
	einfo := eg.Info
	epos := c.P.Pos(extract.Decl.Pos())
	var srcVar *types.Var
	bad := ""
	nOK := 0
	for _, id := range eg.Returns() {
		ret := eg.Nodes[id].Ast.(*ast.ReturnStmt)
		if len(ret.Results) != 3 || !core.IsNilIdent(einfo, ret.Results[2]) {
			if len(ret.Results) == 3 && !core.CertainlyNonNil(einfo, ret.Results[2]) && !c.P.SentinelError(einfo, ret.Results[2]) {
				bad = "an exit returns an error that is not certainly non-nil: " + exprStr(ret.Results[2])
			}
			continue
		}
		nOK++
		cv, ch := eg.Canon(id, ret.Results[0]), eg.Canon(id, ret.Results[1])
		mv := regexp.MustCompile(`^strings\.Split\((.*), " "\)\[1\]$`).FindStringSubmatch(cv)
		mh := regexp.MustCompile(`^strings\.Split\((.*), " "\)\[0\]$`).FindStringSubmatch(ch)
		if mv == nil || mh == nil || mv[1] != mh[1] {
			bad = sprintf("the success exit returns (%s, %s); expected (value, hash) = (parts[1], parts[0]) of the attribute split at the single space (RFC 8122 'hash-func SP fingerprint')", cv, ch)
			continue
		}
		// the variable that was split
		for _, nd := range eg.Nodes {
			if nd.Ast == nil {
				continue
			}
			for _, call := range core.CallsIn(nd.Ast) {
				if c14IsPkgFunc(einfo, call, "strings", "Split") && len(call.Args) == 2 {
					srcVar = core.VarOf(einfo, call.Args[0])
				}
			}
		}
	}
	if nOK == 0 {
		bad = "extractFingerprint has no success exit"
	}
	r.Check(bad == "", "C14.R4", "extractFingerprint|results=(value,hash)", epos, "returns (parts[1], parts[0], nil) of the split attribute", bad)
	if srcVar != nil {
		// under 'the attribute string is empty' no success exit is reachable
		emptyAtom := func(val int) core.AtomFn {
			return func(e ast.Expr) (int, bool) {
				b, ok := e.(*ast.BinaryExpr)
				if !ok || (b.Op != token.EQL && b.Op != token.NEQ) {
					return 0, false
				}
				x, y := b.X, b.Y
				if core.VarOf(einfo, y) == srcVar {
					x, y = y, x
				}
				tv, okc := einfo.Types[y]
				if core.VarOf(einfo, x) != srcVar || !okc || tv.Value == nil || tv.Value.Kind() != constant.String || constant.StringVal(tv.Value) != "" {
					return 0, false
				}
				if b.Op == token.NEQ {
					return 1 - val, true
				}
				return val, true
			}
		}
		ex := eg.Explore(core.ExploreOpts{Atoms: emptyAtom(core.True)})
		r.Cells += len(ex.Reached)
		bad = ""
		for id := range ex.Reached {
			if ret, ok := eg.Nodes[id].Ast.(*ast.ReturnStmt); ok && len(ret.Results) == 3 && core.IsNilIdent(einfo, ret.Results[2]) {
				bad = "extractFingerprint can succeed although no fingerprint attribute was found (every `fingerprint == \"\"` test true): the transports would be started without a fingerprint to check"
			}
		}
		r.Check(bad == "", "C14.R4", "extractFingerprint|no-fingerprint-is-an-error", epos, "with no fingerprint attribute anywhere, only error exits are reachable", bad)
	} else if bad == "" {
		r.Undecided("C14.R4", "extractFingerprint|no-fingerprint-is-an-error", epos, "cannot identify the attribute variable that is split")
	}
}

// c14IsExample: functions of the example programs (users of the public API, not part of the library).
func c14IsExample(fi *core.FuncInfo) bool {
	return strings.Contains(fi.Pkg.PkgPath, "/examples/")
}

func c14ParamIdxOfType(g *core.Graph, typeName string) int {
	_, params := g.ParamVars()
	for i, p := range params {
		if n, ok := p.Type().(*types.Named); ok && n.Obj().Name() == typeName {
			return i
		}
	}
	return -1
}

func itoaC14(i int) string { return sprintf("%d", i) }
func atoiC14(s string) int {
	n := 0
	for _, ch := range s {
		n = n*10 + int(ch-'0')
	}
	return n
}

// ---------------------------------------------------------------- R5

func c14R5(c *Ctx) {
	r := c.R
	getFP := c.mustFunc("C14.R5", "", "Certificate.GetFingerprints")
	prepare := c.mustFunc("C14.R5", "", "DTLSTransport.prepareStart")
	newDTLS := c.mustFunc("C14.R5", "", "API.NewDTLSTransport")
	certsF := c.mustField("C14.R5", "", "DTLSTransport", "certificates")
	getLocal := c.mustFunc("C14.R5", "", "DTLSTransport.GetLocalParameters")
	startFn := c.mustFunc("C14.R5", "", "DTLSTransport.start")
	shared := c.mustFunc("C14.R5", "", "DTLSTransport.dtlsSharedOptions")
	if getFP == nil || prepare == nil || newDTLS == nil || certsF == nil || getLocal == nil || startFn == nil || shared == nil {
		return
	}
	// presented: prepareStart's tls.Certificate
	pg := c.P.GraphOf(prepare)
	presented := -1
	bad := ""
	nLit := 0
	for _, id := range pg.Returns() {
		ret := pg.Nodes[id].Ast.(*ast.ReturnStmt)
		if len(ret.Results) != 3 || !core.IsNilIdent(pg.Info, ret.Results[2]) {
			continue
		}
		nLit++
		cn := pg.Canon(id, ret.Results[1])
		mc := regexp.MustCompile(`Certificate: \[\]\[\]byte\{\$recv\.certificates\[([0-9]+)\]\.x509Cert\.Raw\}`).FindStringSubmatch(cn)
		mk := regexp.MustCompile(`PrivateKey: \$recv\.certificates\[([0-9]+)\]\.privateKey`).FindStringSubmatch(cn)
		if mc == nil || mk == nil || mc[1] != mk[1] {
			bad = "the presented tls.Certificate is " + cn + "; expected {Certificate: [t.certificates[k].x509Cert.Raw], PrivateKey: t.certificates[k].privateKey} for one constant k"
			continue
		}
		presented = atoiC14(mc[1])
	}
	if nLit == 0 {
		bad = "prepareStart has no success exit returning the certificate to present"
	}
	r.Check(bad == "", "C14.R5", "prepareStart|presented-certificate", c.P.Pos(prepare.Decl.Pos()), sprintf("presents t.certificates[%d] (certificate and key)", presented), bad)

	// the presented certificate reaches WithCertificates
	sg := c.P.GraphOf(startFn)
	okChain := false
	for _, nd := range sg.Nodes {
		if nd.Ast == nil {
			continue
		}
		for _, call := range core.CallsIn(nd.Ast) {
			if core.IsCallTo(sg.Info, call, shared.Obj) && len(call.Args) == 1 {
				okChain = strings.HasPrefix(sg.Canon(nd.ID, call.Args[0]), "$recv."+prepare.Obj.Name()+"(") && strings.HasSuffix(sg.Canon(nd.ID, call.Args[0]), "#1")
			}
		}
	}
	okWith := c14PassesToWithCertificates(c, shared, 0, 2)
	r.Check(okChain && okWith, "C14.R5", "start|presented-certificate-reaches-WithCertificates", c.P.Pos(startFn.Decl.Pos()), "prepareStart's certificate is the one passed to dtls.WithCertificates",
		sprintf("the certificate returned by prepareStart is not the one handed to dtls.WithCertificates (start passes it: %v, dtlsSharedOptions uses its parameter: %v)", okChain, okWith))

	// advertised: GetFingerprints receivers in the module
	nAdv := 0
	for _, fi := range c.P.AllFuncs() {
		if fi.Decl.Body == nil || fi.Pkg != c.P.Pkg("") {
			continue
		}
		g := c.P.GraphOf(fi)
		for _, nd := range g.Nodes {
			if nd.Ast == nil {
				continue
			}
			for _, call := range core.CallsIn(nd.Ast) {
				if !core.IsCallTo(g.Info, call, getFP.Obj) {
					continue
				}
				se, ok := ast.Unparen(call.Fun).(*ast.SelectorExpr)
				if !ok {
					continue
				}
				cn := g.Canon(nd.ID, se.X)
				key := "advertised-fingerprint|in:" + fi.Name()
				pos := c.P.Pos(call.Pos())
				switch {
				case fi == getLocal:
					r.Check(cn == "range-value($recv.certificates)", "C14.R5", key, pos, "ORTC: advertises the fingerprints of all of t.certificates", "GetLocalParameters fingerprints "+cn+" instead of the transport's certificates")
				case fi.Name() == "(*Certificate).collectStats" || strings.HasSuffix(fi.Name(), ".collectStats"):
					r.Info("C14.R5", key, pos, "statistics only, not signaled")
				default:
					nAdv++
					m := regexp.MustCompile(`^\$recv\.configuration\.Certificates\[([0-9]+)\]$`).FindStringSubmatch(cn)
					r.Check(m != nil && atoiC14(m[1]) == presented, "C14.R5", key, pos, sprintf("advertises pc.configuration.Certificates[%d], the index that is presented", presented),
						sprintf("the SDP advertises the fingerprint of %s but the transport presents t.certificates[%d]: the remote peer's check fails (or checks another certificate)", cn, presented))
				}
			}
		}
	}
	if nAdv < 2 {
		r.Fail("C14.R5", "advertised-fingerprint|generators", "-", sprintf("expected the two SDP generators to call GetFingerprints, found %d call(s)", nAdv))
	}

	// the transport's list: written only by the constructor, copied in order from its argument; NewPeerConnection passes the configuration's list
	ng := c.P.GraphOf(newDTLS)
	_, nparams := ng.ParamVars()
	var certParam *types.Var
	for _, p := range nparams {
		if sl, ok := p.Type().(*types.Slice); ok {
			if n, ok := sl.Elem().(*types.Named); ok && n.Obj().Name() == "Certificate" {
				certParam = p
			}
		}
	}
	for _, fi := range c.P.AllFuncs() {
		if fi.Decl.Body == nil || fi == newDTLS {
			continue
		}
		inf := fi.Pkg.TypesInfo
		ast.Inspect(fi.Decl.Body, func(n ast.Node) bool {
			switch s := n.(type) {
			case *ast.AssignStmt:
				for _, l := range s.Lhs {
					base := ast.Unparen(l)
					if ix, ok := base.(*ast.IndexExpr); ok {
						base = ast.Unparen(ix.X)
					}
					if core.FieldOf(inf, base) == certsF {
						r.Fail("C14.R5", "write:certificates|in:"+fi.Name(), c.P.Pos(s.Pos()), "DTLSTransport.certificates is modified outside its constructor: the presented certificate can differ from the advertised one")
					}
				}
			case *ast.KeyValueExpr:
				if id, ok := s.Key.(*ast.Ident); ok && inf.Uses[id] == types.Object(certsF) {
					r.Fail("C14.R5", "init:certificates|in:"+fi.Name(), c.P.Pos(s.Pos()), "DTLSTransport.certificates is initialised outside its constructor")
				}
			}
			return true
		})
	}
	bad = ""
	if certParam == nil {
		bad = "NewDTLSTransport has no []Certificate parameter"
	} else {
		var loop *ast.RangeStmt
		ast.Inspect(ng.Body, func(n ast.Node) bool {
			if rs, ok := n.(*ast.RangeStmt); ok && core.VarOf(ng.Info, rs.X) == certParam {
				loop = rs
			}
			return true
		})
		if loop == nil || loop.Value == nil {
			bad = "the constructor does not range over its certificates argument"
		} else {
			val := core.VarOf(ng.Info, loop.Value)
			var edge []int
			var headBlock any
			for _, n := range ng.Nodes {
				for _, e := range n.Succs {
					if e.Range == loop && e.Branch == 1 {
						edge = append(edge, e.To)
						headBlock = n.Block
					}
				}
			}
			appends := map[int]bool{}
			for _, n := range ng.Nodes {
				as, ok := n.Ast.(*ast.AssignStmt)
				if !ok || len(as.Lhs) != 1 || len(as.Rhs) != 1 || core.FieldOf(ng.Info, as.Lhs[0]) != certsF {
					continue
				}
				call, ok := ast.Unparen(as.Rhs[0]).(*ast.CallExpr)
				if ok && len(call.Args) == 2 && core.FieldOf(ng.Info, call.Args[0]) == certsF && core.VarOf(ng.Info, call.Args[1]) == val {
					if id, ok := call.Fun.(*ast.Ident); ok && id.Name == "append" {
						appends[n.ID] = true
					}
				} else if loop.Body.Pos() <= as.Pos() && as.End() <= loop.Body.End() {
					bad = "the certificate list is assigned inside the loop other than by appending the current element"
				}
			}
			if len(appends) == 0 {
				bad = "the constructor does not append each configured certificate to t.certificates"
			} else {
				isHead := func(n int) bool { return any(ng.Nodes[n].Block) == headBlock }
				reach := ng.Reach(edge, func(n int) bool { return appends[n] || isHead(n) }, nil)
				for n := range reach {
					if isHead(n) {
						bad = "an iteration over the configured certificates can skip a certificate without failing: the transport's index k would denote another certificate than the configuration's index k"
					}
					if ret, ok := ng.Nodes[n].Ast.(*ast.ReturnStmt); ok {
						if len(ret.Results) != 2 || !core.CertainlyNonNil(ng.Info, ret.Results[1]) {
							bad = "the certificate loop is left by a return that does not fail"
						}
					}
				}
			}
		}
	}
	r.Check(bad == "", "C14.R5", "NewDTLSTransport|copies-certificates-in-order", c.P.Pos(newDTLS.Decl.Pos()), "every configured certificate is appended in order (or construction fails)", bad)

	nCtor := 0
	for _, fi := range c.P.AllFuncs() {
		if fi.Decl.Body == nil || fi.Pkg != c.P.Pkg("") {
			continue
		}
		g := c.P.GraphOf(fi)
		for _, nd := range g.Nodes {
			if nd.Ast == nil {
				continue
			}
			for _, call := range core.CallsIn(nd.Ast) {
				if !core.IsCallTo(g.Info, call, newDTLS.Obj) || len(call.Args) != 2 {
					continue
				}
				nCtor++
				cn := g.Canon(nd.ID, call.Args[1])
				r.Check(strings.HasSuffix(cn, ".configuration.Certificates"), "C14.R5", "NewDTLSTransport-call|in:"+fi.Name(), c.P.Pos(call.Pos()), "constructed with "+cn,
					"the peer connection's DTLS transport is constructed with "+cn+" instead of pc.configuration.Certificates (whose element k is advertised)")
			}
		}
	}
	if nCtor == 0 {
		r.Fail("C14.R5", "NewDTLSTransport-call|none", "-", "NewDTLSTransport is not called inside the module")
	}

	// GetFingerprints: hashes the certificate's own x509Cert, SHA-256 among the algorithms
	fg := c.P.GraphOf(getFP)
	bad = ""
	nFP := 0
	sha := false
	for _, nd := range fg.Nodes {
		if nd.Ast == nil {
			continue
		}
		for _, call := range core.CallsIn(nd.Ast) {
			if c14IsPkgFunc(fg.Info, call, c14FPPath, "Fingerprint") && len(call.Args) == 2 {
				nFP++
				c0, c1 := fg.Canon(nd.ID, call.Args[0]), fg.Canon(nd.ID, call.Args[1])
				if c0 != "$recv.x509Cert" {
					bad = "GetFingerprints hashes " + c0 + " instead of the certificate's own x509Cert"
				}
				if strings.Contains(c1, "crypto.SHA256") {
					sha = true
				}
			}
		}
	}
	if nFP == 0 {
		bad = "GetFingerprints does not call fingerprint.Fingerprint"
	} else if !sha && bad == "" {
		bad = "crypto.SHA256 is not among the algorithms GetFingerprints hashes with"
	}
	r.Check(bad == "", "C14.R5", "GetFingerprints|sha256-of-own-certificate", c.P.Pos(getFP.Decl.Pos()), "SHA-256 of c.x509Cert", bad)
}
