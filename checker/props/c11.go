package props

import (
	"go/ast"
	"go/constant"
	"go/token"
	"go/types"
	"strings"
	"time"

	"verif/checker/core"
)

func init() {
	register(&Prop{
		ID:        "C11",
		Engine:    "e3lock+e2cfg",
		Technique: "atomic-only access sweep for the saved SDP origin, exclusive-lock rule for the call sites of updateSDPOrigin, valuation-restricted path rule over updateSDPOrigin (compare-and-swap succeeded / failed) for what is stored and what is written into the description, must-pass-through rule updateSDPOrigin -> Marshal in CreateOffer/CreateAnswer",
		LevelText: "Structural clauses of the o= line: the saved origin is reachable only through updateSDPOrigin, where every access is a sync/atomic operation, and every call site holds pc.mu exclusively (so two generations never interleave); when the compare-and-swap from 0 fails the description gets the saved session id (atomic load) and a version that is the result of an atomic add of a constant >= 1 (strictly greater than every earlier one), when it succeeds the description's own id is saved; CreateOffer and CreateAnswer marshal a description only after updateSDPOrigin was applied to that very description.",
		LevelNote: "Trusted: sync/atomic semantics, the must-lockset analysis. Does not decide uint64 wrap-around nor the library's initial random id/version (a zero id would spin, a zero version would re-initialise).",
		DesignRef: "DESIGN.md §5 C11",
		Run:       runC11,
	})
}

const c11MuClass = "PeerConnection.mu"

func runC11(c *Ctx) {
	r := c.R
	t0 := time.Now()
	defer func() { r.Extra["rule_eval_s"] = time.Since(t0).Seconds() }()
	r.Rule("C11.R1", "every use of PeerConnection.sdpOrigin is `&pc.sdpOrigin` passed to updateSDPOrigin; inside updateSDPOrigin every use of the saved origin is `&origin.SessionVersion` / `&origin.SessionID` as the address operand of a sync/atomic call; every call site of updateSDPOrigin (or, for a lock-free unexported helper, every caller of the helper) holds pc.mu exclusively", 6)
	r.Rule("C11.R2", "updateSDPOrigin: the first-use test is CompareAndSwapUint64(&origin.SessionVersion, 0, descr.Origin.SessionVersion); when it succeeds the description's session id is stored and the description is left untouched; when it fails every path to the exit writes descr.Origin.SessionID from an atomic load of the saved id and descr.Origin.SessionVersion from AddUint64(&origin.SessionVersion, c) with constant c >= 1, and nothing else writes them", 5)
	r.Rule("C11.R3", "in CreateOffer and CreateAnswer every Marshal of a session description (direct, or inside a same-package helper the description is handed to) is preceded, on every path from the description's definition, by updateSDPOrigin(&pc.sdpOrigin, <that description>); the order may be established inside the helper", 2)
	r.NotCovered = append(r.NotCovered, "uint64 wrap-around of the version", "the library's initial random session id / version (a zero id makes the wait loop spin; a zero version re-initialises)", "descriptions produced by other means than CreateOffer/CreateAnswer")
	r.Trusted = append(r.Trusted, "sync/atomic semantics", "must-lockset analysis (core/locks.go)")

	upd := c.mustFunc("C11.R1", "", "updateSDPOrigin")
	originF := c.mustField("C11.R1", "", "PeerConnection", "sdpOrigin")
	if upd == nil || originF == nil {
		return
	}
	// fields of sdp.Origin
	var verF, idF *types.Var
	if st, ok := originF.Type().Underlying().(*types.Struct); ok {
		for i := 0; i < st.NumFields(); i++ {
			switch st.Field(i).Name() {
			case "SessionVersion":
				verF = st.Field(i)
			case "SessionID":
				idF = st.Field(i)
			}
		}
	}
	if verF == nil || idF == nil {
		r.Fail("C11.R1", "anchor:sdp.Origin.SessionVersion/SessionID", "-", "the saved origin's type no longer has SessionVersion and SessionID fields (fails closed)")
		return
	}
	c11R1(c, upd, originF, verF, idF)
	c11R2(c, upd, verF, idF)
	c11R3(c, upd, originF)
}

func c11AtomicName(info *types.Info, call *ast.CallExpr) string {
	fn := core.Callee(info, call)
	if fn == nil || fn.Pkg() == nil || fn.Pkg().Path() != "sync/atomic" {
		return ""
	}
	return fn.Name()
}

// c11Bodies enumerates every function body of the module: declarations and function literals.
func c11Bodies(c *Ctx, f func(g *core.Graph, name string, fi *core.FuncInfo)) {
	for _, fi := range c.P.AllFuncs() {
		if fi.Decl.Body == nil {
			continue
		}
		f(c.P.GraphOf(fi), fi.Name(), fi)
		n := 0
		ast.Inspect(fi.Decl.Body, func(x ast.Node) bool {
			if fl, ok := x.(*ast.FuncLit); ok {
				if lg := c.P.GraphOfLit(fl); lg != nil {
					n++
					f(lg, sprintf("%s$lit%d", fi.Name(), n), fi)
				}
			}
			return true
		})
	}
}

func c11R1(c *Ctx, upd *core.FuncInfo, originF, verF, idF *types.Var) {
	r := c.R
	// (a) uses of pc.sdpOrigin
	nUse := 0
	for _, fi := range c.P.AllFuncs() {
		if fi.Decl.Body == nil {
			continue
		}
		info := fi.Pkg.TypesInfo
		okUse := map[ast.Expr]bool{}
		ast.Inspect(fi.Decl.Body, func(n ast.Node) bool {
			if call, ok := n.(*ast.CallExpr); ok && core.IsCallTo(info, call, upd.Obj) {
				for _, a := range call.Args {
					if u, ok := ast.Unparen(a).(*ast.UnaryExpr); ok && u.Op == token.AND && core.FieldOf(info, u.X) == originF {
						okUse[ast.Unparen(u.X)] = true
					}
				}
			}
			return true
		})
		bad, n := 0, 0
		var badPos token.Pos
		ast.Inspect(fi.Decl.Body, func(x ast.Node) bool {
			if se, ok := x.(*ast.SelectorExpr); ok && core.FieldOf(info, se) == originF {
				n++
				if !okUse[se] {
					bad++
					if !badPos.IsValid() {
						badPos = se.Pos()
					}
				}
			}
			if kv, ok := x.(*ast.KeyValueExpr); ok {
				if id, ok := kv.Key.(*ast.Ident); ok && info.Uses[id] == types.Object(originF) {
					n++
					bad++
					badPos = kv.Pos()
				}
			}
			return true
		})
		if n == 0 {
			continue
		}
		nUse += n
		key := "use:sdpOrigin|in:" + fi.Name()
		if bad > 0 {
			r.Fail("C11.R1", key, c.P.Pos(badPos), sprintf("%d of %d uses of pc.sdpOrigin are not `&pc.sdpOrigin` handed to updateSDPOrigin: the saved session id/version is read or written outside the atomic protocol (concurrent CreateOffer/CreateAnswer can observe or produce a stale or duplicate version)", bad, n))
		} else {
			r.OK("C11.R1", key, c.P.Pos(fi.Decl.Pos()), sprintf("%d use(s), all `&pc.sdpOrigin` passed to updateSDPOrigin", n))
		}
	}
	if nUse == 0 {
		r.Fail("C11.R1", "use:sdpOrigin|none", "-", "pc.sdpOrigin is never used: generated descriptions do not share a saved origin")
	}

	// (b) inside updateSDPOrigin: the saved origin is touched only through sync/atomic
	g := c.P.GraphOf(upd)
	info := g.Info
	_, params := g.ParamVars()
	if len(params) != 2 {
		r.Undecided("C11.R1", "updateSDPOrigin|shape", c.P.Pos(upd.Decl.Pos()), "expected parameters (origin, descr)")
		return
	}
	origin := params[0]
	atomicOperand := map[ast.Expr]string{} // &origin.F operand -> atomic function
	ast.Inspect(upd.Decl.Body, func(n ast.Node) bool {
		call, ok := n.(*ast.CallExpr)
		if !ok {
			return true
		}
		if name := c11AtomicName(info, call); name != "" && len(call.Args) > 0 {
			if u, ok := ast.Unparen(call.Args[0]).(*ast.UnaryExpr); ok && u.Op == token.AND {
				if se, ok := ast.Unparen(u.X).(*ast.SelectorExpr); ok && core.VarOf(info, se.X) == origin {
					atomicOperand[se] = name
				}
			}
		}
		return true
	})
	perField := map[string][2]int{} // field -> {ok, bad}
	var badPos token.Pos
	covered := map[*ast.Ident]bool{}
	ast.Inspect(upd.Decl.Body, func(n ast.Node) bool {
		if se, ok := n.(*ast.SelectorExpr); ok && core.VarOf(info, se.X) == origin {
			if id, ok := ast.Unparen(se.X).(*ast.Ident); ok {
				covered[id] = true
			}
			f := core.FieldOf(info, se)
			name := "other"
			if f == verF {
				name = "SessionVersion"
			} else if f == idF {
				name = "SessionID"
			} else if f != nil {
				name = f.Name()
			}
			cnt := perField[name]
			if atomicOperand[se] != "" {
				cnt[0]++
			} else {
				cnt[1]++
				if !badPos.IsValid() {
					badPos = se.Pos()
				}
			}
			perField[name] = cnt
		}
		return true
	})
	// any other use of the origin pointer itself (passing it on, dereferencing it)
	escapes := 0
	ast.Inspect(upd.Decl.Body, func(n ast.Node) bool {
		if id, ok := n.(*ast.Ident); ok && info.Uses[id] == types.Object(origin) && !covered[id] {
			escapes++
			if !badPos.IsValid() {
				badPos = id.Pos()
			}
		}
		return true
	})
	for _, name := range []string{"SessionVersion", "SessionID"} {
		cnt := perField[name]
		key := "updateSDPOrigin|atomic-only|origin." + name
		switch {
		case cnt[0]+cnt[1] == 0:
			r.Fail("C11.R1", key, c.P.Pos(upd.Decl.Pos()), "updateSDPOrigin never accesses the saved "+name)
		case cnt[1] > 0:
			r.Fail("C11.R1", key, c.P.Pos(badPos), sprintf("%d of %d accesses to the saved %s are not sync/atomic operations: two concurrent generations can read the same version or a torn id", cnt[1], cnt[0]+cnt[1], name))
		default:
			r.OK("C11.R1", key, c.P.Pos(upd.Decl.Pos()), sprintf("%d access(es), all through sync/atomic", cnt[0]))
		}
		r.Cells += cnt[0] + cnt[1]
	}
	for name, cnt := range perField {
		if name != "SessionVersion" && name != "SessionID" {
			r.Info("C11.R1", "updateSDPOrigin|saved-origin-field|"+name, c.P.Pos(upd.Decl.Pos()), sprintf("%d access(es) to another field of the saved origin (not part of the property)", cnt[0]+cnt[1]))
		}
	}
	r.Check(escapes == 0, "C11.R1", "updateSDPOrigin|origin-pointer-does-not-escape", c.P.Pos(upd.Decl.Pos()), "the saved origin is only used through field addresses", sprintf("the origin pointer is used %d time(s) other than through a field selection (copied or passed on): accesses through the copy are not checked", escapes))

	// (c) call sites hold pc.mu exclusively. A call site inside an unexported helper that never
	// touches pc.mu itself counts as "under pc.mu" when every call site of the helper (module-wide,
	// transitively through further such helpers) holds it exclusively; one obligation per root caller.
	nSites := 0
	c11Bodies(c, func(bg *core.Graph, name string, fi *core.FuncInfo) {
		var li *core.LockInfo
		for _, n := range bg.Nodes {
			if n.Ast == nil {
				continue
			}
			for _, call := range core.CallsIn(n.Ast) {
				if !core.IsCallTo(bg.Info, call, upd.Obj) {
					continue
				}
				nSites++
				if li == nil {
					li = core.Locks(bg)
				}
				mode := li.HeldClasses(li.In[n.ID])[c11MuClass]
				_, isGo := n.Ast.(*ast.GoStmt)
				_, isDefer := n.Ast.(*ast.DeferStmt)
				key := "updateSDPOrigin-call|in:" + name + "|holds-pc.mu-exclusively"
				switch {
				case isGo || isDefer:
					r.Fail("C11.R1", key, c.P.Pos(call.Pos()), "updateSDPOrigin is started with go/defer: it does not run inside the caller's critical section")
				case mode == "W":
					r.OK("C11.R1", key, c.P.Pos(call.Pos()), "pc.mu held in write mode")
				case mode == "R":
					r.Fail("C11.R1", key, c.P.Pos(call.Pos()), "updateSDPOrigin is called under pc.mu.RLock only: two generations can run concurrently and their marshalled versions can be observed out of order")
				default:
					// not held here: is this body a lock-free unexported helper whose callers all hold pc.mu?
					roots, why := c11CallerLocks(c, bg, fi, 3, map[*core.FuncInfo]bool{})
					if why != "" {
						r.Fail("C11.R1", key, c.P.Pos(call.Pos()), "updateSDPOrigin is called without pc.mu ("+why+"): a concurrent CreateOffer/CreateAnswer can take a later version and return first")
						continue
					}
					for _, rt := range roots {
						k := "updateSDPOrigin-call|in:" + name + "<-" + rt.name + "|holds-pc.mu-exclusively"
						switch rt.mode {
						case "W":
							r.OK("C11.R1", k, rt.pos, "the helper takes no lock itself and this caller holds pc.mu in write mode")
						case "R":
							r.Fail("C11.R1", k, rt.pos, "this caller reaches updateSDPOrigin (through "+name+") under pc.mu.RLock only: two generations can run concurrently and their marshalled versions can be observed out of order")
						default:
							r.Fail("C11.R1", k, rt.pos, "this caller reaches updateSDPOrigin (through "+name+") without pc.mu ("+rt.why+"): a concurrent CreateOffer/CreateAnswer can take a later version and return first")
						}
					}
				}
			}
		}
	})
	if nSites < 1 {
		r.Fail("C11.R1", "updateSDPOrigin-call|sites", "-", "updateSDPOrigin is never called: generated descriptions do not share a saved origin")
	}
}

type c11Root struct {
	name, mode, pos, why string
}

// c11CallerLocks: body bg (of declared function fi; a literal has name != fi's) does not hold pc.mu at the
// point of interest. If it is the body of an unexported declared function that performs no operation on
// pc.mu itself and whose function value never escapes, return for every call site (module-wide) the lock mode
// held there - recursing through further such helpers. why != "" means the inference does not apply.
func c11CallerLocks(c *Ctx, bg *core.Graph, fi *core.FuncInfo, depth int, seen map[*core.FuncInfo]bool) ([]c11Root, string) {
	if _, isLit := bg.Fn.(*ast.FuncLit); isLit {
		return nil, "inside a function literal that does not take the lock"
	}
	if fi.Obj.Exported() {
		return nil, "in an exported function, callable without the lock"
	}
	if depth <= 0 || seen[fi] {
		return nil, "helper chain too deep or recursive"
	}
	seen[fi] = true
	for _, o := range core.Locks(bg).Ops {
		if o.Class == c11MuClass {
			return nil, "the enclosing function operates pc.mu itself but does not hold it here"
		}
	}
	var roots []c11Root
	why := ""
	c11Bodies(c, func(cg *core.Graph, cname string, cfi *core.FuncInfo) {
		if why != "" {
			return
		}
		var li *core.LockInfo
		for _, n := range cg.Nodes {
			if n.Ast == nil {
				continue
			}
			// uses of the helper as a value (method value, assignment) escape the call-site analysis
			callFuns := map[ast.Expr]bool{}
			for _, call := range core.CallsIn(n.Ast) {
				if core.IsCallTo(cg.Info, call, fi.Obj) {
					callFuns[ast.Unparen(call.Fun)] = true
				}
			}
			core.InspectShallow(n.Ast, func(y ast.Node) bool {
				switch x := y.(type) {
				case *ast.SelectorExpr:
					if cg.Info.Uses[x.Sel] == types.Object(fi.Obj) && !callFuns[x] {
						why = "the helper " + fi.Name() + " is used as a function value in " + cname
					}
					if callFuns[x] {
						return true
					}
				case *ast.Ident:
					if cg.Info.Uses[x] == types.Object(fi.Obj) && !callFuns[x] {
						// the Sel of a selector in call position is visited too: accept when its parent selector is the callee
						ok := false
						for f := range callFuns {
							if se, isSel := f.(*ast.SelectorExpr); isSel && se.Sel == x {
								ok = true
							}
						}
						if !ok {
							why = "the helper " + fi.Name() + " is used as a function value in " + cname
						}
					}
				}
				return true
			})
			for _, call := range core.CallsIn(n.Ast) {
				if !core.IsCallTo(cg.Info, call, fi.Obj) {
					continue
				}
				pos := c.P.Pos(call.Pos())
				if _, isGo := n.Ast.(*ast.GoStmt); isGo {
					roots = append(roots, c11Root{name: cname, pos: pos, why: "started with go"})
					continue
				}
				if _, isDefer := n.Ast.(*ast.DeferStmt); isDefer {
					roots = append(roots, c11Root{name: cname, pos: pos, why: "deferred call"})
					continue
				}
				// a method helper must be invoked on the caller's own receiver (same PeerConnection, same pc.mu)
				if se, ok := ast.Unparen(call.Fun).(*ast.SelectorExpr); ok && fi.Decl.Recv != nil {
					if _, isLit := cg.Fn.(*ast.FuncLit); !isLit && cg.Canon(n.ID, se.X) != "$recv" {
						roots = append(roots, c11Root{name: cname, pos: pos, why: "helper invoked on another object than the caller's receiver"})
						continue
					}
				}
				if li == nil {
					li = core.Locks(cg)
				}
				mode := li.HeldClasses(li.In[n.ID])[c11MuClass]
				if mode == "W" || mode == "R" {
					roots = append(roots, c11Root{name: cname, mode: mode, pos: pos})
					continue
				}
				sub, w := c11CallerLocks(c, cg, cfi, depth-1, seen)
				if w != "" {
					roots = append(roots, c11Root{name: cname, pos: pos, why: w})
					continue
				}
				for _, sr := range sub {
					sr.name = cname + "<-" + sr.name
					roots = append(roots, sr)
				}
			}
		}
	})
	if why != "" {
		return nil, why
	}
	if len(roots) == 0 {
		return nil, "the enclosing helper " + fi.Name() + " has no call site"
	}
	return roots, ""
}

func c11R2(c *Ctx, upd *core.FuncInfo, verF, idF *types.Var) {
	r := c.R
	g := c.P.GraphOf(upd)
	info := g.Info
	pos := c.P.Pos(upd.Decl.Pos())
	// the compare-and-swap
	var cas *ast.CallExpr
	nCas := 0
	ast.Inspect(upd.Decl.Body, func(n ast.Node) bool {
		if call, ok := n.(*ast.CallExpr); ok && strings.HasPrefix(c11AtomicName(info, call), "CompareAndSwap") {
			cas = call
			nCas++
		}
		return true
	})
	if nCas != 1 || len(cas.Args) != 3 {
		r.Undecided("C11.R2", "updateSDPOrigin|first-use-test", pos, sprintf("expected exactly one CompareAndSwap in updateSDPOrigin, found %d", nCas))
		return
	}
	at := g.NodeContaining(cas)
	a0, a2 := g.Canon(at, cas.Args[0]), g.Canon(at, cas.Args[2])
	oldTV := info.Types[cas.Args[1]]
	okCas := a0 == "&$p0.SessionVersion" && a2 == "$p1.Origin.SessionVersion" && oldTV.Value != nil && constant.Sign(oldTV.Value) == 0
	r.Check(okCas, "C11.R2", "updateSDPOrigin|first-use-test", c.P.Pos(cas.Pos()), "CompareAndSwap(&origin.SessionVersion, 0, descr.Origin.SessionVersion)",
		sprintf("the first-use test is CompareAndSwap(%s, %s, %s); expected (&origin.SessionVersion, 0, descr.Origin.SessionVersion)", a0, exprStr(cas.Args[1]), a2))

	casAtom := func(val int) core.AtomFn {
		return g.WithLocalBools(func(e ast.Expr) (int, bool) {
			if e == ast.Expr(cas) {
				return val, true
			}
			return 0, false
		})
	}
	// classify the nodes that write the description's origin or store into the saved one
	type wr struct {
		node int
		what string // "descr.id", "descr.ver", "store.id", "other-store"
		ok   bool
		why  string
	}
	var writes []wr
	for _, n := range g.Nodes {
		if n.Ast == nil {
			continue
		}
		if as, ok := n.Ast.(*ast.AssignStmt); ok {
			for i, l := range as.Lhs {
				f := core.FieldOf(info, l)
				if f != verF && f != idF {
					continue
				}
				lc := g.Canon(n.ID, l)
				if !strings.HasPrefix(lc, "$p1.") {
					continue
				}
				var rhs ast.Expr
				if len(as.Rhs) == len(as.Lhs) {
					rhs = as.Rhs[i]
				}
				w := wr{node: n.ID}
				call, _ := ast.Unparen(rhs).(*ast.CallExpr)
				if f == idF {
					w.what = "descr.id"
					w.ok = as.Tok == token.ASSIGN && call != nil && strings.HasPrefix(c11AtomicName(info, call), "Load") && len(call.Args) == 1 && g.Canon(n.ID, call.Args[0]) == "&$p0.SessionID"
					w.why = "descr.Origin.SessionID is written from " + g.Canon(n.ID, rhs) + ", expected an atomic load of the saved session id"
				} else {
					w.what = "descr.ver"
					delta := constant.Value(nil)
					if call != nil && strings.HasPrefix(c11AtomicName(info, call), "Add") && len(call.Args) == 2 && g.Canon(n.ID, call.Args[0]) == "&$p0.SessionVersion" {
						delta = info.Types[call.Args[1]].Value
					}
					w.ok = as.Tok == token.ASSIGN && delta != nil && constant.Sign(delta) > 0
					switch {
					case delta != nil && constant.Sign(delta) <= 0:
						w.why = "the version written into the description is the saved version plus " + delta.String() + ": it is not strictly greater than the previous one"
					default:
						w.why = "descr.Origin.SessionVersion is written from " + g.Canon(n.ID, rhs) + ", expected atomic.AddUint64(&origin.SessionVersion, <constant >= 1>)"
					}
				}
				writes = append(writes, w)
			}
		}
		if _, ok := n.Ast.(*ast.IncDecStmt); ok {
			for _, l := range core.AssignTargets(n.Ast) {
				if f := core.FieldOf(info, l); (f == verF || f == idF) && strings.HasPrefix(g.Canon(n.ID, l), "$p1.") {
					writes = append(writes, wr{node: n.ID, what: "descr.other", why: "the description's origin is modified by ++/--"})
				}
			}
		}
		for _, call := range core.CallsIn(n.Ast) {
			name := c11AtomicName(info, call)
			if !strings.HasPrefix(name, "Store") || len(call.Args) != 2 {
				continue
			}
			if g.Canon(n.ID, call.Args[0]) == "&$p0.SessionID" {
				v := g.Canon(n.ID, call.Args[1])
				writes = append(writes, wr{node: n.ID, what: "store.id", ok: v == "$p1.Origin.SessionID", why: "the saved session id is initialised from " + v + ", expected descr.Origin.SessionID"})
			} else {
				writes = append(writes, wr{node: n.ID, what: "other-store", why: "unexpected atomic store to " + g.Canon(n.ID, call.Args[0])})
			}
		}
	}
	sel := func(what string) map[int]bool {
		m := map[int]bool{}
		for _, w := range writes {
			if w.what == what && w.ok {
				m[w.node] = true
			}
		}
		return m
	}
	badWrite := func(ex *core.Exploration, allowed ...string) string {
		for _, w := range writes {
			if !ex.Has(w.node) {
				continue
			}
			al := false
			for _, a := range allowed {
				if w.what == a {
					al = true
				}
			}
			if !al {
				return "on this path " + w.what + " is written (" + w.why + ")"
			}
			if !w.ok {
				return w.why
			}
		}
		return ""
	}
	mustPass := func(atoms core.AtomFn, via map[int]bool) bool {
		if len(via) == 0 {
			return false
		}
		ex := g.Explore(core.ExploreOpts{Atoms: atoms, Avoid: func(n int) bool { return via[n] }})
		c.R.Cells += len(ex.Reached)
		return !ex.Has(g.Exit)
	}
	// first path
	exT := g.Explore(core.ExploreOpts{Atoms: casAtom(core.True)})
	r.Cells += len(exT.Reached)
	bad := badWrite(exT, "store.id")
	if bad == "" && !mustPass(casAtom(core.True), sel("store.id")) {
		bad = "when the compare-and-swap succeeds a path reaches the exit without storing the description's session id: later descriptions wait forever or carry id 0"
	}
	r.Check(bad == "", "C11.R2", "updateSDPOrigin|first-generation|saves-id,leaves-description", pos, "stores descr.Origin.SessionID, writes nothing into the description", bad)
	// later paths
	exF := g.Explore(core.ExploreOpts{Atoms: casAtom(core.False)})
	r.Cells += len(exF.Reached)
	bad = badWrite(exF, "descr.id", "descr.ver")
	r.Check(bad == "", "C11.R2", "updateSDPOrigin|later-generation|only-atomic-derived-writes", pos, "the description's id/version are written only from the atomic load / add", bad)
	r.Check(mustPass(casAtom(core.False), sel("descr.id")), "C11.R2", "updateSDPOrigin|later-generation|session-id-from-saved-origin", pos, "every path writes descr.Origin.SessionID from atomic.LoadUint64(&origin.SessionID)",
		"when the compare-and-swap fails a path reaches the exit without copying the saved session id into the description: descriptions of one PeerConnection carry different o= session ids")
	r.Check(mustPass(casAtom(core.False), sel("descr.ver")), "C11.R2", "updateSDPOrigin|later-generation|version-from-atomic-add", pos, "every path writes descr.Origin.SessionVersion from atomic.AddUint64(&origin.SessionVersion, c), c >= 1",
		"when the compare-and-swap fails a path reaches the exit without writing a version obtained from atomic.AddUint64(&origin.SessionVersion, <constant >= 1>) into the description: the version does not strictly increase")
}

func c11R3(c *Ctx, upd *core.FuncInfo, originF *types.Var) {
	r := c.R
	if c.Thorough {
		// whole-module sweep: every other place that marshals a session description is listed (not judged:
		// only CreateOffer/CreateAnswer produce the descriptions the property speaks about)
		for _, fi := range c.P.AllFuncs() {
			if fi.Decl.Body == nil || strings.Contains(fi.Pkg.PkgPath, "/examples/") {
				continue
			}
			if n := fi.Obj.Name(); fi.Pkg == c.P.Pkg("") && (n == "CreateOffer" || n == "CreateAnswer") {
				continue
			}
			info := fi.Pkg.TypesInfo
			ast.Inspect(fi.Decl.Body, func(x ast.Node) bool {
				if call, ok := x.(*ast.CallExpr); ok && core.CalleeIs(info, call, c11SDPPath, "SessionDescription.Marshal") {
					r.Info("C11.R3", "Marshal|in:"+fi.Name(), c.P.Pos(call.Pos()), "a session description is marshalled outside CreateOffer/CreateAnswer (listed by the thorough sweep, not judged)")
				}
				return true
			})
		}
	}
	x := &c11Stamp{c: c, upd: upd, originF: originF, memo: map[string]*c11Summary{}}
	for _, name := range []string{"PeerConnection.CreateOffer", "PeerConnection.CreateAnswer"} {
		fi := c.mustFunc("C11.R3", "", name)
		if fi == nil {
			continue
		}
		g := c.P.GraphOf(fi)
		key := fi.Name() + "|updateSDPOrigin-before-Marshal"
		pos := c.P.Pos(fi.Decl.Pos())
		n, via, bad := x.check(g, nil, 2)
		if n == 0 && bad == "" {
			bad = "no (*sdp.SessionDescription).Marshal call found (directly or in a same-package helper the description is handed to)"
		}
		ok := "each preceded by updateSDPOrigin on the same description"
		if len(via) > 0 {
			ok += " (established inside " + strings.Join(via, ", ") + ")"
		}
		r.Check(bad == "", "C11.R3", key, pos, sprintf("%d Marshal point(s), %s", n, ok), bad)
	}
}

const c11SDPPath = "github.com/pion/sdp/v3"

// c11Summary describes what a same-package helper does with the description passed as one parameter.
type c11Summary struct {
	marshals   int    // Marshal points on the parameter inside the helper (transitively)
	safe       bool   // every one of them is preceded, inside the helper, by the update
	bad        string // why not safe
	updatesAll bool   // every path entry -> exit passes the update of the parameter
	sameOrigin bool   // the update uses &<receiver>.sdpOrigin (the caller must invoke the helper on its own receiver)
}

type c11Stamp struct {
	c       *Ctx
	upd     *core.FuncInfo
	originF *types.Var
	memo    map[string]*c11Summary
}

// isUpdate: node contains updateSDPOrigin(&<recv>.sdpOrigin, D) (not go/defer).
func (x *c11Stamp) isUpdate(g *core.Graph, n *core.Node, D *types.Var) bool {
	if n.Ast == nil {
		return false
	}
	switch n.Ast.(type) {
	case *ast.GoStmt, *ast.DeferStmt:
		return false
	}
	for _, uc := range core.CallsIn(n.Ast) {
		if core.IsCallTo(g.Info, uc, x.upd.Obj) && len(uc.Args) == 2 && core.VarOf(g.Info, uc.Args[1]) == D {
			if u, ok := ast.Unparen(uc.Args[0]).(*ast.UnaryExpr); ok && u.Op == token.AND && core.FieldOf(g.Info, u.X) == x.originF {
				return true
			}
		}
	}
	return false
}

// helperCall: does node n hand D to a same-package declared helper invoked on the caller's own receiver
// (or a plain function)? Returns the helper and the parameter index.
func (x *c11Stamp) helperCalls(g *core.Graph, n *core.Node, D *types.Var) (out []struct {
	fi   *core.FuncInfo
	pidx int
	call *ast.CallExpr
}) {
	if n.Ast == nil {
		return nil
	}
	switch n.Ast.(type) {
	case *ast.GoStmt, *ast.DeferStmt:
		return nil
	}
	for _, call := range core.CallsIn(n.Ast) {
		h := x.c.P.DeclOf(core.Callee(g.Info, call))
		if h == nil || h.Decl.Body == nil || h == x.upd || h.Pkg != g.Owner.Pkg {
			continue
		}
		if se, ok := ast.Unparen(call.Fun).(*ast.SelectorExpr); ok && h.Decl.Recv != nil {
			if g.Canon(n.ID, se.X) != "$recv" {
				continue // invoked on another object: its saved origin is not ours
			}
		}
		for i, a := range call.Args {
			if core.VarOf(g.Info, a) == D {
				out = append(out, struct {
					fi   *core.FuncInfo
					pidx int
					call *ast.CallExpr
				}{h, i, call})
			}
		}
	}
	return out
}

func (x *c11Stamp) summary(h *core.FuncInfo, pidx, depth int) *c11Summary {
	k := sprintf("%s#%d", h.Name(), pidx)
	if s, ok := x.memo[k]; ok {
		return s
	}
	s := &c11Summary{}
	x.memo[k] = s // recursion guard: an unfinished summary claims nothing
	hg := x.c.P.GraphOf(h)
	_, params := hg.ParamVars()
	if depth <= 0 || pidx >= len(params) {
		return s
	}
	P := params[pidx]
	// the parameter must not be re-bound inside the helper
	for _, d := range hg.AllDefs(P) {
		if d.Node >= 0 {
			s.bad = "the helper " + h.Name() + " re-assigns its description parameter"
			return s
		}
	}
	n, _, bad := x.check(hg, P, depth-1)
	s.marshals, s.bad, s.safe = n, bad, bad == ""
	// every path to the exit passes an update point of P
	upd := map[int]bool{}
	for _, nd := range hg.Nodes {
		if x.isUpdate(hg, nd, P) {
			upd[nd.ID] = true
		}
		for _, hc := range x.helperCalls(hg, nd, P) {
			if x.summary(hc.fi, hc.pidx, depth-1).updatesAll {
				upd[nd.ID] = true
			}
		}
	}
	s.updatesAll = len(upd) > 0 && !hg.Reach([]int{hg.Entry}, func(id int) bool { return upd[id] }, nil)[hg.Exit]
	return s
}

// check examines every Marshal point of graph g (only: of variable only, when non-nil): a direct
// D.Marshal() or a call handing D to a helper that marshals it. Each must be stamped: either the helper
// establishes update-before-Marshal itself, or from every definition of D reaching the point the point is
// unreachable without passing an update point (a direct updateSDPOrigin(&pc.sdpOrigin, D) or a helper
// that always updates D). Returns the number of Marshal points, the helpers that established the order
// themselves, and the first failure.
func (x *c11Stamp) check(g *core.Graph, only *types.Var, depth int) (n int, via []string, bad string) {
	c := x.c
	info := g.Info
	type point struct {
		node   int
		D      *types.Var
		pos    token.Pos
		inside *c11Summary
		helper string
	}
	var points []point
	for _, nd := range g.Nodes {
		if nd.Ast == nil {
			continue
		}
		for _, call := range core.CallsIn(nd.Ast) {
			if core.CalleeIs(info, call, c11SDPPath, "SessionDescription.Marshal") {
				se, _ := ast.Unparen(call.Fun).(*ast.SelectorExpr)
				if se == nil {
					continue
				}
				D := core.VarOf(info, se.X)
				if D == nil {
					if only == nil {
						n++
						bad = "Marshal is applied to an expression that is not a local variable: " + exprStr(se.X)
					}
					continue
				}
				if only != nil && D != only {
					continue
				}
				points = append(points, point{node: nd.ID, D: D, pos: call.Pos()})
			}
		}
		// calls handing a *sdp.SessionDescription local to a helper that marshals it
		core.InspectShallow(nd.Ast, func(y ast.Node) bool {
			id, ok := y.(*ast.Ident)
			if !ok {
				return true
			}
			D, _ := info.Uses[id].(*types.Var)
			if D == nil || (only != nil && D != only) || !c11IsSessionDescPtr(D.Type()) {
				return true
			}
			for _, hc := range x.helperCalls(g, nd, D) {
				sm := x.summary(hc.fi, hc.pidx, depth)
				if sm.marshals == 0 && sm.bad == "" {
					continue
				}
				dup := false
				for _, p := range points {
					if p.node == nd.ID && p.D == D && p.helper == hc.fi.Name() {
						dup = true
					}
				}
				if !dup {
					points = append(points, point{node: nd.ID, D: D, pos: hc.call.Pos(), inside: sm, helper: hc.fi.Name()})
				}
			}
			return true
		})
	}
	for _, p := range points {
		n++
		if p.inside != nil && p.inside.safe {
			via = append(via, p.helper)
			continue
		}
		// update points for p.D in this body
		updates := map[int]bool{}
		for _, m := range g.Nodes {
			if x.isUpdate(g, m, p.D) {
				updates[m.ID] = true
			}
			for _, hc := range x.helperCalls(g, m, p.D) {
				if m.ID != p.node && x.summary(hc.fi, hc.pidx, depth).updatesAll {
					updates[m.ID] = true
				}
			}
		}
		where := c.P.Pos(p.pos)
		if p.inside != nil {
			where += " (inside " + p.helper + ": " + p.inside.bad + ")"
		}
		if len(updates) == 0 {
			bad = sprintf("the description marshalled at %s is never passed to updateSDPOrigin(&pc.sdpOrigin, ...) before: it carries the library's fresh random o= line", where)
			continue
		}
		var starts []int
		for _, d := range g.DefsReaching(p.node, p.D) {
			if d.Node >= 0 {
				starts = append(starts, g.SuccIDs(d.Node)...)
			} else {
				starts = append(starts, g.Entry)
			}
		}
		reach := g.Reach(starts, func(id int) bool { return updates[id] }, nil)
		c.R.Cells += len(reach)
		if reach[p.node] && !updates[p.node] {
			bad = sprintf("the description marshalled at %s can reach Marshal without updateSDPOrigin having been applied to it since it was (re)generated: its o= line has a fresh session id / an old version", where)
		}
	}
	return n, via, bad
}

func c11IsSessionDescPtr(t types.Type) bool {
	p, ok := t.(*types.Pointer)
	if !ok {
		return false
	}
	n, ok := p.Elem().(*types.Named)
	return ok && n.Obj().Pkg() != nil && n.Obj().Pkg().Path() == c11SDPPath && n.Obj().Name() == "SessionDescription"
}
