package props

import (
	"go/ast"
	"go/constant"
	"go/token"
	"go/types"
	"strings"

	"verif/checker/core"
)

func init() {
	register(&Prop{
		ID:        "C10",
		Engine:    "e2cfg+e6flow+e1tab",
		Technique: "path rules over go/cfg with constant propagation (results of the RTX test / map lookups / the id counter injected or enumerated), AST provenance closure for the values handed to WithCodec / rtcp-fb / WithExtMap, who-may-write sweep for the codec lists",
		LevelText: "Structural clauses that make a generated media section internally consistent: the codec list of a section is always the RTX-filtered list (R1), the filter removes exactly the RTX entries whose apt names no payload type of the same list (R2), rtcp-fb lines carry the payload type of the codec line emitted in the same iteration (R3), locally allocated header-extension ids are enumerated 1..14, skip ids in use and are map keys (R4), and the registered/negotiated lists only grow through addCodec, which refuses a second codec with the same payload type (R5).",
		LevelNote: "Trusted: pion/sdp's WithCodec emits rtpmap/fmtp for exactly the payload type it is given. Remote-chosen extmap ids are stored unvalidated and reported as not decided; payload-type uniqueness of user-supplied SetCodecPreferences lists is not decided.",
		DesignRef: "DESIGN.md §5 C10",
		Run:       runC10,
	})
}

func runC10(c *Ctx) {
	r := c.R
	r.Rule("C10.R1", "every return of RTPTransceiver.getCodecs is a result of filterUnattachedRTX; WithCodec is called only in addTransceiverSDP and every operand of it derives only from the elements of transceiver.getCodecs()", 3)
	r.Rule("C10.R2", "filterUnattachedRTX scans the list from the end, tests element i of the list against the same list, and removes element i exactly when isRTX and not primaryExists; primaryPayloadTypeForRTXExists reports isRTX whenever the mime type equals video/rtx (case-insensitive) and primaryExists only when an element of its haystack has the payload type parsed from the needle's apt", 10)
	r.Rule("C10.R3", "in addTransceiverSDP every rtcp-fb value starts with the PayloadType of the loop variable whose PayloadType is given to WithCodec in the same iteration, and its feedback comes from that codec", 3)
	r.Rule("C10.R4", "getRTPParametersByKind: an id allocated locally is the counter of a loop whose values are all within 1..14, is stored only when neither the section's map nor the negotiated map holds it; every header extension returned takes its ID from a map key; addTransceiverSDP's extmap values come from getRTPParametersByKind", 6)
	r.Rule("C10.R5", "addCodec returns the list unchanged when an element has the new codec's payload type and appends only after the whole list was scanned; the four codec lists are written only through addCodec on the same list (RegisterFeedback replaces an element by itself with extended feedback; copy() clones)", 10)
	r.Rule("C10.R6", "setCodecPreferencesFromRemoteDescription: every descending index scan over a codec working list reaches index 0 and removes exactly the element it stands on (a local codec, once matched, cannot be matched again, so no payload type is listed twice)", 4)
	r.Rule("C10.R8", "findRTXPayloadType pairs a primary with an RTX only under equality: every return of an element's payload type is dominated by the true edge of an == between that element's fmtp line and the apt value built from the needle", 1)
	r.Rule("C10.R7", "no in-place element removal (s = append(s[:i], s[i+1:]...)) on a codec list whose backing array may be shared with a list stored in a struct (MediaEngine codec lists, transceiver preferences): alias sets computed through locals, sub-slices, same-module callees and every call site", 2)
	r.NotCovered = append(r.NotCovered,
		"remote-chosen extmap ids (stored unvalidated; with extmap-allow-mixed ids above 14 are legal)",
		"payload-type uniqueness of user-supplied SetCodecPreferences lists",
		"URI uniqueness across remote remaps",
		"that SetCodecPreferences stores a filtered list (redundant: getCodecs filters what it returns; listed, not judged)")
	r.Trusted = append(r.Trusted, "pion/sdp MediaDescription.WithCodec emits rtpmap/fmtp for the payload type it is given", "go/types, go/cfg")

	c10R1(c)
	c10R2(c)
	c10R3(c)
	c10R4(c)
	c10R5(c)
	c10R6(c)
	c10R7(c)
	c10R8(c) // c10e.go
}

// c10StdSummary: provenance summaries of pure library helpers.
func c10StdSummary(call *ast.CallExpr, fn *types.Func, idx int) ([]ast.Expr, bool) {
	if fn.Pkg() == nil {
		return nil, false
	}
	switch fn.Pkg().Path() + "." + fn.Name() {
	case "strings.TrimPrefix", "strings.TrimSuffix", "strings.ToLower", "strings.ToUpper", "strings.TrimSpace":
		return call.Args[:1], true
	case "strconv.Atoi", "strconv.ParseUint", "strconv.ParseInt":
		if idx == 0 {
			return call.Args[:1], true
		}
		return nil, true
	case "fmt.Sprintf":
		return call.Args, true
	}
	return nil, false
}

// ---- R1

func c10R1(c *Ctx) {
	r := c.R
	const rule = "C10.R1"
	getCodecs := c.mustFunc(rule, "", "RTPTransceiver.getCodecs")
	filter := c.mustFunc(rule, "", "filterUnattachedRTX")
	addT := c.mustFunc(rule, "", "addTransceiverSDP")
	if getCodecs == nil || filter == nil || addT == nil {
		return
	}
	// (a) every return of getCodecs is filtered
	g := c.P.GraphOf(getCodecs)
	rets := g.Returns()
	cnt := 0
	for _, rn := range rets {
		ret := g.Nodes[rn].Ast.(*ast.ReturnStmt)
		cnt++
		key := sprintf("%s|return#%d|filtered", getCodecs.Name(), cnt)
		if len(ret.Results) != 1 {
			r.Undecided(rule, key, c.P.Pos(ret.Pos()), "return without an explicit result")
			continue
		}
		why := c10Filtered(c, getCodecs, g, rn, ret.Results[0], filter.Obj, 0)
		r.Check(why == "", rule, key, c.P.Pos(ret.Pos()), "result of filterUnattachedRTX", "getCodecs can return a list that did not pass filterUnattachedRTX ("+why+"): an RTX entry whose apt names no listed payload type can reach the media section")
	}
	if cnt == 0 {
		r.Fail(rule, getCodecs.Name()+"|returns", c.P.Pos(getCodecs.Decl.Pos()), "no return statement")
	}
	// SetCodecPreferences' store: listed, not judged
	if set := c.P.Func("", "RTPTransceiver.SetCodecPreferences"); set != nil {
		if f := c.P.Field("", "RTPTransceiver", "codecs"); f != nil {
			sg := c.P.GraphOf(set)
			for _, n := range sg.Nodes {
				as, ok := n.Ast.(*ast.AssignStmt)
				if !ok || len(as.Lhs) != len(as.Rhs) {
					continue
				}
				for i, l := range as.Lhs {
					if core.FieldOf(sg.Info, l) == f {
						why := c10Filtered(c, set, sg, n.ID, as.Rhs[i], filter.Obj, 0)
						d := "stored value is a result of filterUnattachedRTX"
						if why != "" {
							d = "stored value is not filtered (" + why + ")"
						}
						r.Info(rule, set.Name()+"|store:codecs", c.P.Pos(as.Pos()), d+"; not judged: getCodecs filters every list it returns, so this store cannot affect a generated section")
					}
				}
			}
		}
	}
	// (b) every operand of every WithCodec call derives only from getCodecs(); when the codec line is emitted by a
	// helper, its parameters are bound to the arguments of every call site (transitively)
	withCodec := c10SDPMethod(c, "WithCodec")
	if withCodec == nil {
		r.Fail(rule, "anchor:sdp.MediaDescription.WithCodec", "-", "method no longer resolves (fails closed)")
		return
	}
	up := c10NewUpProv(c)
	total := 0
	for _, fi := range c.P.AllFuncs() {
		if fi.Decl.Body == nil {
			continue
		}
		info := fi.Pkg.TypesInfo
		k := 0
		ast.Inspect(fi.Decl.Body, func(n ast.Node) bool {
			call, ok := n.(*ast.CallExpr)
			if !ok || !core.IsCallTo(info, call, withCodec) {
				return true
			}
			k++
			total++
			bad := ""
			for _, a := range call.Args {
				lv := up.leaves(fi, a, 0)
				for key, lf := range lv {
					if lf.Kind == "call" && lf.Fn == getCodecs.Obj {
						continue
					}
					bad = "operand " + exprStr(a) + " derives from " + key
				}
			}
			r.Check(bad == "", rule, sprintf("%s|WithCodec#%d|operands-from-getCodecs", fi.Name(), k), c.P.Pos(call.Pos()), "all operands derive from elements of transceiver.getCodecs()", "a codec line is built from something other than getCodecs(): "+bad)
			return true
		})
	}
	if total == 0 {
		r.Fail(rule, "call:WithCodec", c.P.Pos(addT.Decl.Pos()), "no codec line is emitted anywhere (WithCodec is never called): the rule lost its anchor")
	}
}

// c10UpProv resolves provenance across helper boundaries upwards: a parameter leaf of an unexported function that is
// only ever called directly is replaced by the provenance of the corresponding argument at every call site.
type c10UpProv struct {
	c       *Ctx
	provs   map[*core.FuncInfo]*core.Prov
	callers map[*types.Func][]c10CallSite
	escapes map[*types.Func]bool // used as a value (not in call position)
}

type c10CallSite struct {
	fi   *core.FuncInfo
	call *ast.CallExpr
}

func c10NewUpProv(c *Ctx) *c10UpProv {
	u := &c10UpProv{c: c, provs: map[*core.FuncInfo]*core.Prov{}, callers: map[*types.Func][]c10CallSite{}, escapes: map[*types.Func]bool{}}
	for _, fi := range c.P.AllFuncs() {
		if fi.Decl.Body == nil {
			continue
		}
		info := fi.Pkg.TypesInfo
		inCallPos := map[*ast.Ident]bool{}
		ast.Inspect(fi.Decl.Body, func(n ast.Node) bool {
			switch x := n.(type) {
			case *ast.CallExpr:
				if fn := core.Callee(info, x); fn != nil && c.P.DeclOf(fn) != nil {
					u.callers[fn] = append(u.callers[fn], c10CallSite{fi, x})
					switch f := ast.Unparen(x.Fun).(type) {
					case *ast.Ident:
						inCallPos[f] = true
					case *ast.SelectorExpr:
						inCallPos[f.Sel] = true
					}
				}
			case *ast.Ident:
				if fn, ok := info.Uses[x].(*types.Func); ok && !inCallPos[x] && c.P.DeclOf(fn) != nil {
					u.escapes[fn.Origin()] = true
				}
			}
			return true
		})
	}
	return u
}

func (u *c10UpProv) prov(fi *core.FuncInfo) *core.Prov {
	if p := u.provs[fi]; p != nil {
		return p
	}
	p := core.NewProv(u.c.P, fi)
	p.Summary = c10StdSummary
	u.provs[fi] = p
	return p
}

func (u *c10UpProv) leaves(fi *core.FuncInfo, e ast.Expr, depth int) map[string]core.Leaf {
	out := map[string]core.Leaf{}
	for k, lf := range u.prov(fi).Leaves(e) {
		if lf.Kind != "param" || depth >= 3 || fi.Obj.Exported() || u.escapes[fi.Obj] || len(u.callers[fi.Obj]) == 0 {
			if lf.Kind == "param" {
				k = "param:" + lf.Name + " of " + fi.Name()
			}
			out[k] = lf
			continue
		}
		sig := fi.Obj.Type().(*types.Signature)
		for _, cs := range u.callers[fi.Obj] {
			var args []ast.Expr
			if sig.Variadic() && lf.Idx == sig.Params().Len()-1 {
				args = cs.call.Args[min(lf.Idx, len(cs.call.Args)):]
			} else if lf.Idx < len(cs.call.Args) {
				args = cs.call.Args[lf.Idx : lf.Idx+1]
			}
			for _, a := range args {
				for k2, l2 := range u.leaves(cs.fi, a, depth+1) {
					out[k2] = l2
				}
			}
		}
	}
	return out
}

// c10SDPMethod resolves a method of github.com/pion/sdp/v3.MediaDescription through the root package's imports.
func c10SDPMethod(c *Ctx, name string) *types.Func {
	root := c.P.Pkg("")
	for path, imp := range root.Imports {
		if !strings.HasPrefix(path, "github.com/pion/sdp/") {
			continue
		}
		tn, _ := imp.Types.Scope().Lookup("MediaDescription").(*types.TypeName)
		if tn == nil {
			continue
		}
		obj, _, _ := types.LookupFieldOrMethod(types.NewPointer(tn.Type()), true, imp.Types, name)
		if fn, ok := obj.(*types.Func); ok {
			return fn.Origin()
		}
	}
	return nil
}

// c10Filtered explains why e (at node `at` of g) is not a result of filterUnattachedRTX ("" if it is).
func c10Filtered(c *Ctx, fi *core.FuncInfo, g *core.Graph, at int, e ast.Expr, filter *types.Func, depth int) string {
	e = ast.Unparen(e)
	info := g.Info
	if call, ok := e.(*ast.CallExpr); ok {
		fn := core.Callee(info, call)
		if fn == nil {
			return "dynamic call " + exprStr(call.Fun)
		}
		if fn == filter.Origin() {
			return ""
		}
		// a same-module helper all of whose returns are filtered
		if callee := c.P.DeclOf(fn); callee != nil && callee.Decl.Body != nil && depth < 2 {
			cg := c.P.GraphOf(callee)
			rets := cg.Returns()
			if len(rets) == 0 {
				return "helper " + callee.Name() + " has no return"
			}
			for _, rn := range rets {
				ret := cg.Nodes[rn].Ast.(*ast.ReturnStmt)
				if len(ret.Results) != 1 {
					return "helper " + callee.Name() + " has a naked/multi-value return"
				}
				if w := c10Filtered(c, callee, cg, rn, ret.Results[0], filter, depth+1); w != "" {
					return "via " + callee.Name() + ": " + w
				}
			}
			return ""
		}
		return "call of " + core.FuncName(fn)
	}
	if v := core.VarOf(info, e); v != nil && depth < 4 {
		// every reaching definition must be filtered
		type def struct {
			node int
			rhs  ast.Expr
		}
		var defs []def
		seen := map[int]bool{}
		bad := ""
		var walk func(n int)
		walk = func(n int) {
			for _, p := range g.Nodes[n].Preds {
				if seen[p] {
					continue
				}
				seen[p] = true
				if a := g.Nodes[p].Ast; a != nil {
					found := false
					core.InspectShallow(a, func(x ast.Node) bool {
						switch s := x.(type) {
						case *ast.AssignStmt:
							for i, l := range s.Lhs {
								if core.VarOf(info, l) == v {
									found = true
									if len(s.Rhs) == len(s.Lhs) {
										defs = append(defs, def{p, s.Rhs[i]})
									} else {
										bad = "multi-value definition of " + v.Name()
									}
								}
							}
						case *ast.ValueSpec:
							for i, nm := range s.Names {
								if info.Defs[nm] == types.Object(v) {
									found = true
									if len(s.Values) == len(s.Names) {
										defs = append(defs, def{p, s.Values[i]})
									} else {
										bad = "zero/multi-value definition of " + v.Name()
									}
								}
							}
						}
						return true
					})
					if found {
						continue
					}
				}
				if p == g.Entry {
					bad = v.Name() + " reaches the return undefined (parameter or zero value)"
				}
				walk(p)
			}
		}
		walk(at)
		if bad != "" {
			return bad
		}
		if len(defs) == 0 {
			return v.Name() + " has no reaching definition"
		}
		for _, d := range defs {
			if w := c10Filtered(c, fi, g, d.node, d.rhs, filter, depth+1); w != "" {
				return v.Name() + " = " + exprStr(d.rhs) + ": " + w
			}
		}
		return ""
	}
	return "expression " + exprStr(e)
}

// c10ResultAt evaluates result k of the function at a return node under env (named results read from env for naked returns).
func c10ResultAt(cf *core.ConstFlow, g *core.Graph, sig *types.Signature, retNode int, env core.CFEnv, k int) (constant.Value, bool) {
	ret, _ := g.Nodes[retNode].Ast.(*ast.ReturnStmt)
	if ret != nil && len(ret.Results) == sig.Results().Len() {
		return cf.Eval(ret.Results[k], env)
	}
	if ret == nil || len(ret.Results) == 0 {
		return env.Get(sig.Results().At(k))
	}
	return nil, false
}

// ---- R2

func c10R2(c *Ctx) {
	const rule = "C10.R2"
	filter := c.mustFunc(rule, "", "filterUnattachedRTX")
	prim := c.mustFunc(rule, "", "primaryPayloadTypeForRTXExists")
	if filter == nil || prim == nil {
		return
	}
	c10R2Filter(c, rule, filter, prim)
	c10R2Primary(c, rule, prim)
}

func c10R2Filter(c *Ctx, rule string, filter, prim *core.FuncInfo) {
	r := c.R
	g := c.P.GraphOf(filter)
	info := g.Info
	pos := c.P.Pos(filter.Decl.Pos())
	sig := filter.Obj.Type().(*types.Signature)
	fn := filter.Name()
	if sig.Params().Len() != 1 || sig.Results().Len() != 1 {
		r.Undecided(rule, fn+"|shape", pos, "unexpected signature")
		return
	}
	list := sig.Params().At(0)
	// the test
	defNode := -1
	var testCall *ast.CallExpr
	var isRTX, primExists *types.Var
	nTests := 0
	for _, n := range g.Nodes {
		if n.Ast == nil {
			continue
		}
		for _, call := range core.CallsIn(n.Ast) {
			if !core.IsCallTo(info, call, prim.Obj) {
				continue
			}
			nTests++
			testCall = call
			if as, ok := n.Ast.(*ast.AssignStmt); ok && len(as.Lhs) == 2 && len(as.Rhs) == 1 && ast.Unparen(as.Rhs[0]) == ast.Expr(call) {
				defNode, isRTX, primExists = n.ID, core.VarOf(info, as.Lhs[0]), core.VarOf(info, as.Lhs[1])
			}
		}
	}
	if nTests != 1 || defNode < 0 || isRTX == nil || primExists == nil {
		r.Undecided(rule, fn+"|test", pos, sprintf("expected exactly one 'isRTX, primaryExists := primaryPayloadTypeForRTXExists(elem, list)' (found %d call(s)); cannot relate the removal to the test", nTests))
		return
	}
	// the enclosing index loop, descending
	var loop *ast.ForStmt
	for _, x := range g.PathTo(testCall) {
		if fs, ok := x.(*ast.ForStmt); ok {
			loop = fs
		}
	}
	idx := c10DescendingLoop(info, loop, list)
	r.Check(idx != nil, rule, fn+"|scan-from-the-end", pos, "index loop from len(list)-1 down to 0", "the list is not scanned by an index loop running from len(list)-1 down to 0: removing element i while scanning forward skips the element that follows it")
	if idx == nil {
		return
	}
	// operands of the test: (list[i], list)
	elemOK := false
	a0 := ast.Unparen(testCall.Args[0])
	isElem := func(e ast.Expr) bool {
		ix, ok := ast.Unparen(e).(*ast.IndexExpr)
		return ok && core.VarOf(info, ix.X) == list && core.VarOf(info, ix.Index) == idx
	}
	if isElem(a0) {
		elemOK = true
	} else if v := core.VarOf(info, a0); v != nil {
		pv := core.NewProv(c.P, filter)
		ds := pv.DefExprs(v)
		elemOK = len(ds) == 1 && ds[0] != nil && isElem(ds[0])
	}
	r.Check(elemOK && core.VarOf(info, testCall.Args[1]) == list, rule, fn+"|test-operands", c.P.Pos(testCall.Pos()),
		"element i of the list is tested against the same list", "the RTX test is not applied to (list[i], list) with the list being filtered: the primary is searched in a different list than the one that reaches the section ("+exprStr(testCall)+")")

	// removal sites and other writes of the list
	removal := map[int]bool{}
	for _, n := range g.Nodes {
		as, ok := n.Ast.(*ast.AssignStmt)
		if !ok {
			continue
		}
		for i, l := range as.Lhs {
			if c15RootVar(info, l) != list {
				continue
			}
			if core.VarOf(info, l) == list && len(as.Rhs) == len(as.Lhs) && (c10IsRemoveAt(info, as.Rhs[i], list, idx) || c10IsRemoveAtHelper(c, info, as.Rhs[i], list, idx)) {
				removal[n.ID] = true
				continue
			}
			// a whole-list clone (list = append([]T{}, list...) / slices.Clone(list)) keeps the contents: not a modification
			if core.VarOf(info, l) == list && len(as.Rhs) == len(as.Lhs) && c10IsCloneOf(info, as.Rhs[i], list) {
				continue
			}
			r.Fail(rule, fn+"|list-write", c.P.Pos(as.Pos()), "the list is modified other than by removing element i: "+exprStr(as.Lhs[i])+" = ...")
		}
	}
	if len(removal) == 0 {
		r.Fail(rule, fn+"|removal", pos, "no statement removes element i from the list (list = append(list[:i], list[i+1:]...))")
		return
	}
	postNode := g.NodeOf(loop.Post)
	for _, sc := range []struct{ a, b bool }{{true, false}, {true, true}, {false, false}, {false, true}} {
		sc := sc
		key := sprintf("%s|removal|isRTX=%v,primaryExists=%v", fn, sc.a, sc.b)
		mk := func(stopAtRemoval bool) *core.CFResult {
			cf := &core.ConstFlow{G: g,
				Inject: func(node int, v *types.Var, rhs ast.Expr, i int, env core.CFEnv) (constant.Value, bool) {
					if node == defNode && v == isRTX {
						return constant.MakeBool(sc.a), true
					}
					if node == defNode && v == primExists {
						return constant.MakeBool(sc.b), true
					}
					return nil, false
				},
				Stop: func(n int) bool { return n == postNode || n == defNode || (stopAtRemoval && removal[n]) },
			}
			res := cf.Run(defNode, core.CFEnv{})
			r.Cells += res.States
			return res
		}
		res := mk(true)
		removed := false
		for n := range removal {
			if res.ReachedNode(n) {
				removed = true
			}
		}
		skipped := res.ReachedNode(postNode) || res.ReachedNode(g.Exit)
		want := sc.a && !sc.b
		switch {
		case len(res.Problems) > 0:
			r.Undecided(rule, key, pos, strings.Join(res.Problems, "; "))
		case want && !removed:
			r.Fail(rule, key, pos, "an RTX entry whose primary payload type is not in the list is not removed")
		case want && skipped:
			r.Fail(rule, key, pos, "an RTX entry whose primary payload type is not in the list can survive the iteration (a path reaches the next iteration without the removal)")
		case !want && removed:
			r.Fail(rule, key, pos, "an entry is removed although it is not an unattached RTX entry")
		default:
			r.OK(rule, key, pos, sprintf("removed=%v", removed))
		}
	}
	// the result is the filtered list
	okRet := true
	for _, rn := range g.Returns() {
		ret := g.Nodes[rn].Ast.(*ast.ReturnStmt)
		if len(ret.Results) != 1 || core.VarOf(info, ret.Results[0]) != list {
			okRet = false
		}
	}
	r.Check(okRet, rule, fn+"|returns-the-list", pos, "returns the filtered list", "a return does not return the list being filtered")
}

// c10DescendingLoop recognises `for i := len(list) - 1; i >= 0; i--` and returns i.
func c10DescendingLoop(info *types.Info, fs *ast.ForStmt, list *types.Var) *types.Var {
	if fs == nil || fs.Init == nil || fs.Cond == nil || fs.Post == nil {
		return nil
	}
	as, ok := fs.Init.(*ast.AssignStmt)
	if !ok || len(as.Lhs) != 1 || len(as.Rhs) != 1 {
		return nil
	}
	i := core.VarOf(info, as.Lhs[0])
	be, ok := ast.Unparen(as.Rhs[0]).(*ast.BinaryExpr)
	if i == nil || !ok || be.Op != token.SUB || !c10IsLenOf(info, be.X, list) || !c10IsIntConst(info, be.Y, 1) {
		return nil
	}
	cond, ok := ast.Unparen(fs.Cond).(*ast.BinaryExpr)
	if !ok || core.VarOf(info, cond.X) != i {
		return nil
	}
	if !((cond.Op == token.GEQ && c10IsIntConst(info, cond.Y, 0)) || (cond.Op == token.GTR && c10IsIntConst(info, cond.Y, -1))) {
		return nil
	}
	post, ok := fs.Post.(*ast.IncDecStmt)
	if !ok || post.Tok != token.DEC || core.VarOf(info, post.X) != i {
		return nil
	}
	// the index must not be assigned in the body
	mod := false
	ast.Inspect(fs.Body, func(n ast.Node) bool {
		switch s := n.(type) {
		case *ast.AssignStmt:
			for _, l := range s.Lhs {
				if core.VarOf(info, l) == i {
					mod = true
				}
			}
		case *ast.IncDecStmt:
			if core.VarOf(info, s.X) == i {
				mod = true
			}
		}
		return true
	})
	if mod {
		return nil
	}
	return i
}

func c10IsLenOf(info *types.Info, e ast.Expr, v *types.Var) bool {
	call, ok := ast.Unparen(e).(*ast.CallExpr)
	if !ok || len(call.Args) != 1 {
		return false
	}
	id, ok := ast.Unparen(call.Fun).(*ast.Ident)
	if !ok {
		return false
	}
	b, ok := info.Uses[id].(*types.Builtin)
	return ok && b.Name() == "len" && core.VarOf(info, call.Args[0]) == v
}

func c10IsIntConst(info *types.Info, e ast.Expr, want int64) bool {
	tv := info.Types[e]
	if tv.Value == nil || tv.Value.Kind() != constant.Int {
		return false
	}
	v, exact := constant.Int64Val(tv.Value)
	return exact && v == want
}

// c10IsRemoveAt: append(list[:i], list[i+1:]...) or slices.Delete(list, i, i+1).
func c10IsRemoveAt(info *types.Info, e ast.Expr, list, idx *types.Var) bool {
	call, ok := ast.Unparen(e).(*ast.CallExpr)
	if !ok {
		return false
	}
	isIdx := func(x ast.Expr) bool { return core.VarOf(info, x) == idx }
	isIdxPlus1 := func(x ast.Expr) bool {
		be, ok := ast.Unparen(x).(*ast.BinaryExpr)
		return ok && be.Op == token.ADD && ((isIdx(be.X) && c10IsIntConst(info, be.Y, 1)) || (isIdx(be.Y) && c10IsIntConst(info, be.X, 1)))
	}
	if id, ok := ast.Unparen(call.Fun).(*ast.Ident); ok {
		if b, ok := info.Uses[id].(*types.Builtin); ok && b.Name() == "append" && len(call.Args) == 2 && call.Ellipsis.IsValid() {
			lo, ok1 := ast.Unparen(call.Args[0]).(*ast.SliceExpr)
			hi, ok2 := ast.Unparen(call.Args[1]).(*ast.SliceExpr)
			if ok1 && ok2 && core.VarOf(info, lo.X) == list && core.VarOf(info, hi.X) == list &&
				lo.Low == nil && lo.High != nil && isIdx(lo.High) && hi.High == nil && hi.Low != nil && isIdxPlus1(hi.Low) {
				return true
			}
		}
		return false
	}
	if fn := core.Callee(info, call); fn != nil && fn.Pkg() != nil && fn.Pkg().Path() == "slices" && fn.Name() == "Delete" && len(call.Args) == 3 {
		return core.VarOf(info, call.Args[0]) == list && isIdx(call.Args[1]) && isIdxPlus1(call.Args[2])
	}
	return false
}

func c10R2Primary(c *Ctx, rule string, prim *core.FuncInfo) {
	r := c.R
	g := c.P.GraphOf(prim)
	info := g.Info
	pos := c.P.Pos(prim.Decl.Pos())
	fn := prim.Name()
	sig := prim.Obj.Type().(*types.Signature)
	mimeF := c.mustField(rule, "", "RTPCodecCapability", "MimeType")
	ptF := c.mustField(rule, "", "RTPCodecParameters", "PayloadType")
	kRTX := c.mustConst(rule, "", "MimeTypeRTX")
	if mimeF == nil || ptF == nil || kRTX == nil {
		return
	}
	if sig.Params().Len() != 2 || sig.Results().Len() != 2 {
		r.Undecided(rule, fn+"|shape", pos, "unexpected signature")
		return
	}
	needle, hay := sig.Params().At(0), sig.Params().At(1)
	pv := core.NewProv(c.P, prim)
	pv.Summary = func(call *ast.CallExpr, f *types.Func, idx int) ([]ast.Expr, bool) {
		if f.Pkg() != nil && f.Pkg().Path() == core.ModPath+"/internal/fmtp" {
			switch f.Name() {
			case "Parse":
				return call.Args, true
			case "Parameter":
				if sel, ok := ast.Unparen(call.Fun).(*ast.SelectorExpr); ok {
					return []ast.Expr{sel.X}, true
				}
			}
		}
		return c10StdSummary(call, f, idx)
	}
	onlyFrom := func(e ast.Expr, p *types.Var) bool {
		lv := pv.Leaves(e)
		if len(lv) == 0 {
			return false
		}
		for _, lf := range lv {
			if lf.Kind != "param" || lf.Var != p {
				return false
			}
		}
		return true
	}
	isRTXTest := func(e ast.Expr) bool {
		call, ok := ast.Unparen(e).(*ast.CallExpr)
		if !ok || len(call.Args) != 2 {
			return false
		}
		f := core.Callee(info, call)
		if f == nil || f.Pkg() == nil || f.Pkg().Path() != "strings" || f.Name() != "EqualFold" {
			return false
		}
		for _, pr := range [][2]ast.Expr{{call.Args[0], call.Args[1]}, {call.Args[1], call.Args[0]}} {
			tv := info.Types[pr[1]]
			if core.FieldOf(info, pr[0]) == mimeF && c15RootVar(info, pr[0]) == needle && tv.Value != nil && constant.Compare(tv.Value, token.EQL, kRTX.Val()) {
				return true
			}
		}
		return false
	}
	isPTEq := func(e ast.Expr) bool {
		be, ok := ast.Unparen(e).(*ast.BinaryExpr)
		if !ok || be.Op != token.EQL {
			return false
		}
		for _, pr := range [][2]ast.Expr{{be.X, be.Y}, {be.Y, be.X}} {
			if core.FieldOf(info, pr[0]) == ptF && onlyFrom(pr[0], hay) && onlyFrom(pr[1], needle) {
				return true
			}
		}
		return false
	}
	nRTX, nPT := 0, 0
	aptOK := false
	ast.Inspect(prim.Decl.Body, func(n ast.Node) bool {
		if e, ok := n.(ast.Expr); ok {
			if isRTXTest(e) {
				nRTX++
			}
			if isPTEq(e) {
				nPT++
			}
		}
		if call, ok := n.(*ast.CallExpr); ok {
			if f := core.Callee(info, call); f != nil && f.Name() == "Parameter" && f.Pkg() != nil && f.Pkg().Path() == core.ModPath+"/internal/fmtp" && len(call.Args) == 1 {
				if tv := info.Types[call.Args[0]]; tv.Value != nil && tv.Value.Kind() == constant.String && constant.StringVal(tv.Value) == "apt" {
					aptOK = true
				}
			}
		}
		return true
	})
	if nRTX == 0 || nPT == 0 || !aptOK {
		r.Fail(rule, fn+"|anchors", pos, sprintf("expected strings.EqualFold(needle.MimeType, MimeTypeRTX) (found %d), a comparison haystackElem.PayloadType == <apt of needle> (found %d) and Parameter(\"apt\") (found: %v)", nRTX, nPT, aptOK))
		return
	}
	initEnv := core.CFEnv{}
	for i := 0; i < 2; i++ {
		if v := sig.Results().At(i); v.Name() != "" && v.Name() != "_" {
			initEnv = initEnv.With(v, constant.MakeBool(false))
		}
	}
	exits := func(cf *core.ConstFlow, res *core.CFResult, k int, want bool) (bad string, n int) {
		nodes := append(g.Returns(), g.Exit)
		for _, rn := range nodes {
			if rn == g.Exit {
				// fall off the end only (returns lead to Exit too): skip, handled through return nodes
				continue
			}
			for _, env := range res.Reached[rn] {
				n++
				v, ok := c10ResultAt(cf, g, sig, rn, env, k)
				if !ok {
					bad = "result undetermined at " + c.P.Pos(g.PosOf(rn))
				} else if constant.BoolVal(v) != want {
					bad = sprintf("result is %v at %s", constant.BoolVal(v), c.P.Pos(g.PosOf(rn)))
				}
			}
		}
		return
	}
	// A1: mime is RTX => isRTX true at every exit
	{
		cf := &core.ConstFlow{G: g, Assume: func(e ast.Expr, env core.CFEnv) (constant.Value, bool) {
			if isRTXTest(e) {
				return constant.MakeBool(true), true
			}
			return nil, false
		}}
		res := cf.Run(g.Entry, initEnv)
		r.Cells += res.States
		bad, n := exits(cf, res, 0, true)
		if n == 0 {
			bad = "no exit reached"
		}
		r.Check(bad == "", rule, fn+"|isRTX-when-mime-is-rtx", pos, sprintf("%d exit state(s), isRTX true", n), "with the needle's mime type equal to video/rtx (any case) isRTX is not reported: "+bad+" (the entry would never be filtered)")
	}
	// A1': mime is not RTX => isRTX false
	{
		cf := &core.ConstFlow{G: g, Assume: func(e ast.Expr, env core.CFEnv) (constant.Value, bool) {
			if isRTXTest(e) {
				return constant.MakeBool(false), true
			}
			return nil, false
		}}
		res := cf.Run(g.Entry, initEnv)
		r.Cells += res.States
		bad, n := exits(cf, res, 0, false)
		if n == 0 {
			bad = "no exit reached"
		}
		r.Check(bad == "", rule, fn+"|not-isRTX-otherwise", pos, sprintf("%d exit state(s), isRTX false", n), "a codec whose mime type is not video/rtx is reported as RTX: "+bad+" (a primary codec could be removed)")
	}
	// A2: no haystack element has the apt payload type => primaryExists false
	{
		cf := &core.ConstFlow{G: g, Assume: func(e ast.Expr, env core.CFEnv) (constant.Value, bool) {
			if isPTEq(e) {
				return constant.MakeBool(false), true
			}
			return nil, false
		}}
		res := cf.Run(g.Entry, initEnv)
		r.Cells += res.States
		bad, n := exits(cf, res, 1, false)
		if n == 0 {
			bad = "no exit reached"
		}
		r.Check(bad == "", rule, fn+"|primaryExists-only-on-payload-type-match", pos, sprintf("%d exit state(s), primaryExists false", n), "primaryExists can be reported although no element of the haystack has the payload type named by the needle's apt: "+bad)
	}
}

// ---- R3

func c10R3(c *Ctx) {
	r := c.R
	const rule = "C10.R3"
	addT := c.mustFunc(rule, "", "addTransceiverSDP")
	ptF := c.mustField(rule, "", "RTPCodecParameters", "PayloadType")
	fbF := c.mustField(rule, "", "RTPCodecCapability", "RTCPFeedback")
	withCodec := c10SDPMethod(c, "WithCodec")
	withValue := c10SDPMethod(c, "WithValueAttribute")
	if addT == nil || ptF == nil || fbF == nil || withCodec == nil || withValue == nil {
		if addT != nil && (withCodec == nil || withValue == nil) {
			r.Fail(rule, "anchor:sdp.MediaDescription", "-", "WithCodec/WithValueAttribute no longer resolve")
		}
		return
	}
	// every function of the root package that emits a codec line or an rtcp-fb attribute (addTransceiverSDP itself,
	// or a helper the emission loop was moved into) is judged on its own: the relation is local to the loop
	totalFB, totalLoops := 0, 0
	for _, fi := range c.P.AllFuncs() {
		if fi.Decl.Body == nil || fi.Pkg != addT.Pkg {
			continue
		}
		emits := false
		finfo := fi.Pkg.TypesInfo
		ast.Inspect(fi.Decl.Body, func(x ast.Node) bool {
			if call, ok := x.(*ast.CallExpr); ok {
				if core.IsCallTo(finfo, call, withCodec) {
					emits = true
				}
				if core.IsCallTo(finfo, call, withValue) && len(call.Args) == 2 {
					if tv := finfo.Types[call.Args[0]]; tv.Value != nil && tv.Value.Kind() == constant.String && constant.StringVal(tv.Value) == "rtcp-fb" {
						emits = true
					}
				}
			}
			return true
		})
		if !emits {
			continue
		}
		nfb, nl := c10R3In(c, rule, fi, ptF, fbF, withCodec, withValue)
		totalFB += nfb
		totalLoops += nl
	}
	if totalFB == 0 {
		r.Fail(rule, "rtcp-fb", c.P.Pos(addT.Decl.Pos()), "no rtcp-fb attribute is emitted anywhere: the rule lost its anchor")
	}
	if totalLoops == 0 {
		r.Fail(rule, "codec-loop", c.P.Pos(addT.Decl.Pos()), "no loop emits the codec line with the loop variable's PayloadType")
	}
}

// c10R3In judges the rtcp-fb attributes and the codec loop(s) of one function.
func c10R3In(c *Ctx, rule string, addT *core.FuncInfo, ptF, fbF *types.Var, withCodec, withValue *types.Func) (int, int) {
	r := c.R
	g := c.P.GraphOf(addT)
	info := g.Info
	fn := addT.Name()
	// the codec loops: range statements whose body calls WithCodec with uint8(v.PayloadType), v the range value
	codecVarOf := func(rs *ast.RangeStmt) *types.Var {
		if rs.Value == nil {
			return nil
		}
		v := core.VarOf(info, rs.Value)
		found := false
		ast.Inspect(rs.Body, func(n ast.Node) bool {
			call, ok := n.(*ast.CallExpr)
			if !ok || !core.IsCallTo(info, call, withCodec) || len(call.Args) == 0 {
				return true
			}
			a := ast.Unparen(call.Args[0])
			if conv, ok := a.(*ast.CallExpr); ok && len(conv.Args) == 1 {
				if tv, ok := info.Types[conv.Fun]; ok && tv.IsType() {
					a = ast.Unparen(conv.Args[0])
				}
			}
			if core.FieldOf(info, a) == ptF && c15RootVar(info, a) == v {
				found = true
			}
			return true
		})
		if found {
			return v
		}
		return nil
	}
	n := 0
	ast.Inspect(addT.Decl.Body, func(x ast.Node) bool {
		call, ok := x.(*ast.CallExpr)
		if !ok || !core.IsCallTo(info, call, withValue) || len(call.Args) != 2 {
			return true
		}
		tv := info.Types[call.Args[0]]
		if tv.Value == nil || tv.Value.Kind() != constant.String || constant.StringVal(tv.Value) != "rtcp-fb" {
			return true
		}
		n++
		key := sprintf("%s|rtcp-fb#%d", fn, n)
		p := c.P.Pos(call.Pos())
		// innermost enclosing codec loop
		var codec *types.Var
		for _, e := range g.PathTo(call) {
			if rs, ok := e.(*ast.RangeStmt); ok {
				if v := codecVarOf(rs); v != nil {
					codec = v
				}
			}
		}
		if codec == nil {
			r.Fail(rule, key, p, "an rtcp-fb attribute is emitted outside the loop that emits the codec line (WithCodec(uint8(codec.PayloadType), ...)): it cannot refer to that line's payload type")
			return true
		}
		sp, ok := ast.Unparen(call.Args[1]).(*ast.CallExpr)
		f := (*types.Func)(nil)
		if ok {
			f = core.Callee(info, sp)
		}
		if f == nil || f.Pkg() == nil || f.Pkg().Path() != "fmt" || f.Name() != "Sprintf" || len(sp.Args) < 2 {
			r.Undecided(rule, key, p, "the rtcp-fb value is not built by fmt.Sprintf(format, payloadType, ...): "+exprStr(call.Args[1]))
			return true
		}
		ftv := info.Types[sp.Args[0]]
		bad := ""
		if ftv.Value == nil || ftv.Value.Kind() != constant.String || !strings.HasPrefix(constant.StringVal(ftv.Value), "%d ") {
			bad = "the format does not start with the payload type (\"%d \")"
		}
		if a := sp.Args[1]; core.FieldOf(info, a) != ptF || c15RootVar(info, a) != codec {
			bad = "the payload type printed is " + exprStr(a) + ", not the PayloadType of the codec whose line is emitted in this iteration"
		}
		// the remaining operands come from a feedback element of the same codec
		pv := core.NewProv(c.P, addT)
		for _, a := range sp.Args[2:] {
			root := c15RootVar(info, a)
			okFB := false
			if root != nil {
				for _, d := range pv.DefExprs(root) {
					if d != nil && core.FieldOf(info, d) == fbF && c15RootVar(info, d) == codec {
						okFB = true
					} else {
						okFB = false
						break
					}
				}
			}
			if !okFB {
				bad = "operand " + exprStr(a) + " is not an RTCPFeedback element of the codec whose line is emitted in this iteration"
			}
		}
		r.Check(bad == "", rule, key, p, "payload type and feedback of the iteration's codec", bad)
		return true
	})
	// the codec loop(s) of this function
	loops := 0
	ast.Inspect(addT.Decl.Body, func(x ast.Node) bool {
		if rs, ok := x.(*ast.RangeStmt); ok && codecVarOf(rs) != nil {
			loops++
		}
		return true
	})
	if loops >= 1 {
		r.OK(rule, fn+"|codec-loop", c.P.Pos(addT.Decl.Pos()), sprintf("%d loop(s) emit WithCodec(uint8(v.PayloadType), ...)", loops))
	}
	return n, loops
}

// c10IsRemoveAtHelper: e is helper(list, idx) for a same-module function whose only statement returns its first
// parameter with the element at its second parameter removed.
func c10IsRemoveAtHelper(c *Ctx, info *types.Info, e ast.Expr, list, idx *types.Var) bool {
	call, ok := ast.Unparen(e).(*ast.CallExpr)
	if !ok || len(call.Args) != 2 || core.VarOf(info, call.Args[0]) != list || core.VarOf(info, call.Args[1]) != idx {
		return false
	}
	fi := c.P.DeclOf(core.Callee(info, call))
	if fi == nil || fi.Decl.Body == nil || len(fi.Decl.Body.List) != 1 {
		return false
	}
	ret, ok := fi.Decl.Body.List[0].(*ast.ReturnStmt)
	sig := fi.Obj.Type().(*types.Signature)
	if !ok || len(ret.Results) != 1 || sig.Params().Len() != 2 {
		return false
	}
	return c10IsRemoveAt(fi.Pkg.TypesInfo, ret.Results[0], sig.Params().At(0), sig.Params().At(1))
}
