package props

import (
	"go/constant"
	"go/token"
	"go/types"

	"golang.org/x/tools/go/ssa"

	"verif/checker/core"
)

// c26R5: RTP header-length arithmetic of the RTX unwrap (RFC 3550 §5.1, §5.3.1).
//
// The OSN sits right after the RTP header, whose length is
// 12 + 4·CC (+ 4·(1 + extension length) when X is set), with the 16-bit
// extension length stored 2 bytes into the extension header, i.e. at offset
// 12 + 4·CC + 2. Decided on go/ssa by data dependence:
//
//	(a) CC, X and P are taken from byte 0 with the masks 0x0F, 0x10, 0x20;
//	(b) the offset at which the extension length is read depends on CC (it is not a fixed offset);
//	(c) the offset of the OSN bytes depends on CC and on the extension-length read,
//	    and is built from the constants 12 and 4.
//
// Added after seed C26-m1 (extension length read at b[14:16] before the CSRC
// list was accounted for: wrong OSN for every packet with CSRCs and an extension).
func c26R5(c *Ctx) {
	r := c.R
	fi := c.mustFunc("C26.R5", "", "RTPReceiver.maybeStartRepairStreamReader")
	if fi == nil {
		return
	}
	fn := c.P.SSAFunc(fi)
	if fn == nil {
		r.Fail("C26.R5", "anchor:ssa", "-", "no SSA body")
		return
	}
	pos := c.P.Pos(fi.Decl.Pos())
	u16 := c.P.MethodOfExternal("encoding/binary", "bigEndian", "Uint16")
	if u16 == nil {
		r.Fail("C26.R5", "anchor:binary.BigEndian.Uint16", "-", "encoding/binary bigEndian.Uint16 no longer resolves")
		return
	}
	isByteSlice := func(t types.Type) bool {
		s, ok := t.Underlying().(*types.Slice)
		if !ok {
			return false
		}
		b, ok := s.Elem().Underlying().(*types.Basic)
		return ok && b.Kind() == types.Uint8
	}
	constInt := func(v ssa.Value) (int64, bool) {
		k, ok := v.(*ssa.Const)
		if !ok || k.Value == nil || k.Value.Kind() != constant.Int {
			return 0, false
		}
		n, exact := constant.Int64Val(k.Value)
		return n, exact
	}
	// load of element `idx` (constant) of a byte slice
	byteLoadAt := func(v ssa.Value, idx int64) bool {
		u, ok := v.(*ssa.UnOp)
		if !ok || u.Op != token.MUL {
			return false
		}
		ia, ok := u.X.(*ssa.IndexAddr)
		if !ok || !isByteSlice(ia.X.Type()) {
			return false
		}
		n, ok := constInt(ia.Index)
		return ok && n == idx
	}
	var fns []*ssa.Function
	fns = append(fns, fn)
	fns = append(fns, fn.AnonFuncs...)
	// helpers of the same package called from the reader (e.g. the header/padding length computation
	// extracted into a function): their bodies are part of the arithmetic that is judged
	samePkg := func(f *ssa.Function) bool {
		return f != nil && f.Pkg != nil && fn.Pkg != nil && f.Pkg == fn.Pkg && len(f.Blocks) > 0
	}
	seenFn := map[*ssa.Function]bool{}
	for _, f := range fns {
		seenFn[f] = true
	}
	for i := 0; i < len(fns) && len(fns) < 16; i++ {
		for _, b := range fns[i].Blocks {
			for _, ins := range b.Instrs {
				if call, ok := ins.(ssa.CallInstruction); ok {
					if sc := call.Common().StaticCallee(); samePkg(sc) && !seenFn[sc] && sc.Signature.Recv() == nil {
						seenFn[sc] = true
						fns = append(fns, sc)
					}
				}
			}
		}
	}
	masks := map[int64]ssa.Value{} // mask -> value (b[0] & mask)
	var extReads []*ssa.Call       // Uint16(b[lo:hi]) with non-constant lo
	var osnIdx []ssa.Value         // non-constant indices of byte loads that are stored into b[2] / b[3]
	for _, f := range fns {
		for _, b := range f.Blocks {
			for _, ins := range b.Instrs {
				switch x := ins.(type) {
				case *ssa.BinOp:
					if x.Op == token.AND {
						if m, ok := constInt(x.Y); ok && byteLoadAt(x.X, 0) {
							masks[m] = x
						} else if m, ok := constInt(x.X); ok && byteLoadAt(x.Y, 0) {
							masks[m] = x
						}
					}
				case *ssa.Call:
					cm := x.Common()
					if sc := cm.StaticCallee(); sc != nil && sc.Object() == types.Object(u16) && len(cm.Args) >= 1 {
						arg := cm.Args[len(cm.Args)-1]
						if sl, ok := arg.(*ssa.Slice); ok && sl.Low != nil {
							if _, isConst := constInt(sl.Low); !isConst {
								extReads = append(extReads, x)
							}
						}
					}
				case *ssa.Store:
					// b[2] = b[e] / b[3] = b[e']
					ia, ok := x.Addr.(*ssa.IndexAddr)
					if !ok || !isByteSlice(ia.X.Type()) {
						continue
					}
					if n, ok := constInt(ia.Index); !ok || (n != 2 && n != 3) {
						continue
					}
					if u, ok := x.Val.(*ssa.UnOp); ok && u.Op == token.MUL {
						if src, ok := u.X.(*ssa.IndexAddr); ok && isByteSlice(src.X.Type()) {
							if _, isConst := constInt(src.Index); !isConst {
								osnIdx = append(osnIdx, src.Index)
							}
						}
					}
				}
			}
		}
	}
	// (a)
	for _, m := range []struct {
		mask int64
		name string
	}{{0x0F, "CC"}, {0x10, "X"}, {0x20, "P"}} {
		_, ok := masks[m.mask]
		r.Check(ok, "C26.R5", sprintf("rtx-unwrap|byte0-mask|%s=0x%02X", m.name, m.mask), pos, "b[0] & mask present",
			sprintf("no `b[0] & 0x%02X` found: the %s field of the RTP header is not taken from byte 0 with the RFC 3550 mask", m.mask, m.name))
	}
	cc := masks[0x0F]
	if cc == nil {
		return
	}
	// (b)
	if len(extReads) == 0 {
		r.Fail("C26.R5", "rtx-unwrap|extension-length|offset-depends-on-CC", pos, "the 16-bit extension length is read at a fixed offset (or not at all): with CSRCs present the extension header starts 4*CC bytes later, so the header length - and with it the OSN offset - is wrong")
	}
	for i, er := range extReads {
		sl := er.Common().Args[len(er.Common().Args)-1].(*ssa.Slice)
		d := core.ValueDepsFollow(sl.Low, samePkg)
		r.Cells += len(d.Values)
		r.Check(d.ContainsEquiv(cc), "C26.R5", sprintf("rtx-unwrap|extension-length#%d|offset-depends-on-CC", i), c.P.Pos(er.Pos()),
			"the extension length is read after the CSRC list", "the offset at which the extension length is read does not depend on the CSRC count: with CSRCs present the wrong bytes are taken as extension length and the OSN is read from the wrong place")
	}
	// (c)
	if len(osnIdx) == 0 {
		r.Undecided("C26.R5", "rtx-unwrap|osn-offset", pos, "no `b[2] = b[<header length>]` / `b[3] = …` stores found")
	}
	for i, idx := range osnIdx {
		d := core.ValueDepsFollow(idx, samePkg)
		r.Cells += len(d.Values)
		why := ""
		if !d.ContainsEquiv(cc) {
			why = "does not depend on the CSRC count"
		}
		hasExt := false
		for _, er := range extReads {
			if d.Values[er] {
				hasExt = true
			}
		}
		if why == "" && !hasExt {
			why = "does not depend on the extension length"
		}
		has12, has4 := false, false
		for v := range d.Values {
			if n, ok := constInt(v); ok {
				if n == 12 {
					has12 = true
				}
				if n == 4 {
					has4 = true
				}
			}
		}
		if why == "" && (!has12 || !has4) {
			why = "is not built from the fixed header size 12 and the word size 4"
		}
		r.Check(why == "", "C26.R5", sprintf("rtx-unwrap|osn-offset#%d", i), c.P.Pos(idx.Pos()), "OSN offset = 12 + 4*CC (+ extension)", "the offset the original sequence number is read from "+why)
	}
}
