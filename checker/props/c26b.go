package props

import (
	"go/constant"
	"go/token"
	"go/types"
	"sort"
	"strings"

	"golang.org/x/tools/go/ssa"

	"verif/checker/core"
)

// c26R5: RTP header-length arithmetic of the RTX unwrap (RFC 3550 §5.1, §5.3.1).
//
// The OSN sits right after the RTP header, whose length is
// 12 + 4·CC (+ 4·(1 + extension length) when X is set), with the 16-bit
// extension length stored 2 bytes into the extension header, i.e. at offset
// 12 + 4·CC + 2. Decided on go/ssa by data dependence:
//
//	(a) CC, X and P are taken from byte 0 with the masks 0x0F, 0x10, 0x20;
//	(b) the offset at which the extension length is read depends on CC (it is not a fixed offset);
//	(c) the offset of the OSN bytes depends on CC and on the extension-length read,
//	    and is built from the constants 12 and 4.
//
// Added after seed C26-m1 (extension length read at b[14:16] before the CSRC
// list was accounted for: wrong OSN for every packet with CSRCs and an extension).
func c26R5(c *Ctx, rule string) {
	r := c.R
	fi := c.mustFunc(rule, "", "RTPReceiver.maybeStartRepairStreamReader")
	if fi == nil {
		return
	}
	fn := c.P.SSAFunc(fi)
	if fn == nil {
		r.Fail(rule, "anchor:ssa", "-", "no SSA body")
		return
	}
	pos := c.P.Pos(fi.Decl.Pos())
	u16 := c.P.MethodOfExternal("encoding/binary", "bigEndian", "Uint16")
	if u16 == nil {
		r.Fail(rule, "anchor:binary.BigEndian.Uint16", "-", "encoding/binary bigEndian.Uint16 no longer resolves")
		return
	}
	isByteSlice := func(t types.Type) bool {
		s, ok := t.Underlying().(*types.Slice)
		if !ok {
			return false
		}
		b, ok := s.Elem().Underlying().(*types.Basic)
		return ok && b.Kind() == types.Uint8
	}
	constInt := func(v ssa.Value) (int64, bool) {
		k, ok := v.(*ssa.Const)
		if !ok || k.Value == nil || k.Value.Kind() != constant.Int {
			return 0, false
		}
		n, exact := constant.Int64Val(k.Value)
		return n, exact
	}
	// load of element `idx` (constant) of a byte slice
	byteLoadAt := func(v ssa.Value, idx int64) bool {
		u, ok := v.(*ssa.UnOp)
		if !ok || u.Op != token.MUL {
			return false
		}
		ia, ok := u.X.(*ssa.IndexAddr)
		if !ok || !isByteSlice(ia.X.Type()) {
			return false
		}
		n, ok := constInt(ia.Index)
		return ok && n == idx
	}
	var fns []*ssa.Function
	fns = append(fns, fn)
	fns = append(fns, fn.AnonFuncs...)
	// helpers of the same package called from the reader (e.g. the header/padding length computation
	// extracted into a function): their bodies are part of the arithmetic that is judged
	samePkg := func(f *ssa.Function) bool {
		return f != nil && f.Pkg != nil && fn.Pkg != nil && f.Pkg == fn.Pkg && len(f.Blocks) > 0
	}
	seenFn := map[*ssa.Function]bool{}
	for _, f := range fns {
		seenFn[f] = true
	}
	for i := 0; i < len(fns) && len(fns) < 16; i++ {
		for _, b := range fns[i].Blocks {
			for _, ins := range b.Instrs {
				if call, ok := ins.(ssa.CallInstruction); ok {
					if sc := call.Common().StaticCallee(); samePkg(sc) && !seenFn[sc] && sc.Signature.Recv() == nil {
						seenFn[sc] = true
						fns = append(fns, sc)
					}
				}
			}
		}
	}
	masks := map[int64]ssa.Value{} // mask -> value (b[0] & mask)
	var extReads []*ssa.Call       // Uint16(b[lo:hi]) with non-constant lo
	var osnIdx []ssa.Value         // non-constant indices of byte loads that are stored into b[2] / b[3]
	for _, f := range fns {
		for _, b := range f.Blocks {
			for _, ins := range b.Instrs {
				switch x := ins.(type) {
				case *ssa.BinOp:
					if x.Op == token.AND {
						if m, ok := constInt(x.Y); ok && byteLoadAt(x.X, 0) {
							masks[m] = x
						} else if m, ok := constInt(x.X); ok && byteLoadAt(x.Y, 0) {
							masks[m] = x
						}
					}
				case *ssa.Call:
					cm := x.Common()
					if sc := cm.StaticCallee(); sc != nil && sc.Object() == types.Object(u16) && len(cm.Args) >= 1 {
						arg := cm.Args[len(cm.Args)-1]
						if sl, ok := arg.(*ssa.Slice); ok && sl.Low != nil {
							if _, isConst := constInt(sl.Low); !isConst {
								extReads = append(extReads, x)
							}
						}
					}
				case *ssa.Store:
					// b[2] = b[e] / b[3] = b[e']
					ia, ok := x.Addr.(*ssa.IndexAddr)
					if !ok || !isByteSlice(ia.X.Type()) {
						continue
					}
					if n, ok := constInt(ia.Index); !ok || (n != 2 && n != 3) {
						continue
					}
					if u, ok := x.Val.(*ssa.UnOp); ok && u.Op == token.MUL {
						if src, ok := u.X.(*ssa.IndexAddr); ok && isByteSlice(src.X.Type()) {
							if _, isConst := constInt(src.Index); !isConst {
								osnIdx = append(osnIdx, src.Index)
							}
						}
					}
				}
			}
		}
	}
	// (a)
	for _, m := range []struct {
		mask int64
		name string
	}{{0x0F, "CC"}, {0x10, "X"}, {0x20, "P"}} {
		_, ok := masks[m.mask]
		r.Check(ok, rule, sprintf("rtx-unwrap|byte0-mask|%s=0x%02X", m.name, m.mask), pos, "b[0] & mask present",
			sprintf("no `b[0] & 0x%02X` found: the %s field of the RTP header is not taken from byte 0 with the RFC 3550 mask", m.mask, m.name))
	}
	cc := masks[0x0F]
	if cc == nil {
		return
	}
	// (b)
	if len(extReads) == 0 {
		r.Fail(rule, "rtx-unwrap|extension-length|offset-depends-on-CC", pos, "the 16-bit extension length is read at a fixed offset (or not at all): with CSRCs present the extension header starts 4*CC bytes later, so the header length - and with it the OSN offset - is wrong")
	}
	for i, er := range extReads {
		sl := er.Common().Args[len(er.Common().Args)-1].(*ssa.Slice)
		d := core.ValueDepsFollow(sl.Low, samePkg)
		r.Cells += len(d.Values)
		r.Check(d.ContainsEquiv(cc), rule, sprintf("rtx-unwrap|extension-length#%d|offset-depends-on-CC", i), c.P.Pos(er.Pos()),
			"the extension length is read after the CSRC list", "the offset at which the extension length is read does not depend on the CSRC count: with CSRCs present the wrong bytes are taken as extension length and the OSN is read from the wrong place")
	}
	// (c)
	if len(osnIdx) == 0 {
		r.Undecided(rule, "rtx-unwrap|osn-offset", pos, "no `b[2] = b[<header length>]` / `b[3] = …` stores found")
	}
	for i, idx := range osnIdx {
		d := core.ValueDepsFollow(idx, samePkg)
		r.Cells += len(d.Values)
		why := ""
		if !d.ContainsEquiv(cc) {
			why = "does not depend on the CSRC count"
		}
		hasExt := false
		for _, er := range extReads {
			if d.Values[er] {
				hasExt = true
			}
		}
		if why == "" && !hasExt {
			why = "does not depend on the extension length"
		}
		has12, has4 := false, false
		for v := range d.Values {
			if n, ok := constInt(v); ok {
				if n == 12 {
					has12 = true
				}
				if n == 4 {
					has4 = true
				}
			}
		}
		if why == "" && (!has12 || !has4) {
			why = "is not built from the fixed header size 12 and the word size 4"
		}
		r.Check(why == "", rule, sprintf("rtx-unwrap|osn-offset#%d", i), c.P.Pos(idx.Pos()), "OSN offset = 12 + 4*CC (+ extension)", "the offset the original sequence number is read from "+why)
	}
	// (d) value of the OSN offset as a linear form over CC (CSRC count) and L (extension length in words):
	// RFC 3550: 12 + 4*CC without extension, 12 + 4*CC + 4*(1 + L) with one. Evaluated symbolically on SSA
	// (constants, +, -, * by a constant, shifts by a constant, conversions, phi = alternatives, same-package
	// helper results); when the expression is outside that fragment the clause is listed, not judged.
	isCC := func(v ssa.Value) bool {
		x, ok := v.(*ssa.BinOp)
		if !ok || x.Op != token.AND {
			return false
		}
		if m, ok := constInt(x.Y); ok && m == 0x0F && byteLoadAt(x.X, 0) {
			return true
		}
		if m, ok := constInt(x.X); ok && m == 0x0F && byteLoadAt(x.Y, 0) {
			return true
		}
		return false
	}
	isExtRead := func(v ssa.Value) bool {
		for _, er := range extReads {
			if v == ssa.Value(er) {
				return true
			}
		}
		return false
	}
	type lin struct{ c, cc, l int64 }
	var eval func(v ssa.Value, depth int, visiting map[ssa.Value]bool) ([]lin, bool)
	eval = func(v ssa.Value, depth int, visiting map[ssa.Value]bool) ([]lin, bool) {
		if depth > 40 || visiting[v] {
			return nil, false
		}
		if n, ok := constInt(v); ok {
			return []lin{{c: n}}, true
		}
		if isCC(v) {
			return []lin{{cc: 1}}, true
		}
		if isExtRead(v) {
			return []lin{{l: 1}}, true
		}
		visiting[v] = true
		defer delete(visiting, v)
		switch x := v.(type) {
		case *ssa.Convert:
			return eval(x.X, depth+1, visiting)
		case *ssa.ChangeType:
			return eval(x.X, depth+1, visiting)
		case *ssa.Phi:
			var out []lin
			for _, e := range x.Edges {
				fs, ok := eval(e, depth+1, visiting)
				if !ok {
					return nil, false
				}
				out = append(out, fs...)
			}
			if len(out) > 16 {
				return nil, false
			}
			return out, true
		case *ssa.BinOp:
			a, ok1 := eval(x.X, depth+1, visiting)
			b, ok2 := eval(x.Y, depth+1, visiting)
			if !ok1 || !ok2 {
				return nil, false
			}
			var out []lin
			for _, p := range a {
				for _, q := range b {
					switch x.Op {
					case token.ADD:
						out = append(out, lin{p.c + q.c, p.cc + q.cc, p.l + q.l})
					case token.SUB:
						out = append(out, lin{p.c - q.c, p.cc - q.cc, p.l - q.l})
					case token.MUL:
						switch {
						case p.cc == 0 && p.l == 0:
							out = append(out, lin{p.c * q.c, p.c * q.cc, p.c * q.l})
						case q.cc == 0 && q.l == 0:
							out = append(out, lin{p.c * q.c, q.c * p.cc, q.c * p.l})
						default:
							return nil, false
						}
					case token.SHL:
						if q.cc != 0 || q.l != 0 || q.c < 0 || q.c > 16 {
							return nil, false
						}
						k := int64(1) << uint(q.c)
						out = append(out, lin{p.c * k, p.cc * k, p.l * k})
					default:
						return nil, false
					}
				}
			}
			if len(out) > 16 {
				return nil, false
			}
			return out, true
		case *ssa.Extract:
			call, ok := x.Tuple.(*ssa.Call)
			if !ok {
				return nil, false
			}
			sc := call.Common().StaticCallee()
			if !samePkg(sc) {
				return nil, false
			}
			var out []lin
			for _, b := range sc.Blocks {
				for _, ins := range b.Instrs {
					if ret, ok := ins.(*ssa.Return); ok && x.Index < len(ret.Results) {
						fs, ok := eval(ret.Results[x.Index], depth+1, visiting)
						if !ok {
							return nil, false
						}
						out = append(out, fs...)
					}
				}
			}
			return out, len(out) > 0
		case *ssa.Call:
			sc := x.Common().StaticCallee()
			if !samePkg(sc) {
				return nil, false
			}
			var out []lin
			for _, b := range sc.Blocks {
				for _, ins := range b.Instrs {
					if ret, ok := ins.(*ssa.Return); ok && len(ret.Results) == 1 {
						fs, ok := eval(ret.Results[0], depth+1, visiting)
						if !ok {
							return nil, false
						}
						out = append(out, fs...)
					}
				}
			}
			return out, len(out) > 0
		}
		return nil, false
	}
	for i, idx := range osnIdx {
		forms, ok := eval(idx, 0, map[ssa.Value]bool{})
		key := sprintf("rtx-unwrap|osn-offset#%d|value", i)
		if !ok {
			r.Info(rule, key, c.P.Pos(idx.Pos()), "the OSN offset is not a linear expression of CC and the extension length in the supported fragment: value not judged")
			continue
		}
		// the two stores read b[h] and b[h+1]; normalise by the smallest constant part
		set := map[lin]bool{}
		for _, f := range forms {
			set[f] = true
		}
		okForm := func(delta int64) bool {
			want := map[lin]bool{{12 + delta, 4, 0}: true, {16 + delta, 4, 4}: true}
			if len(set) != len(want) {
				return false
			}
			for f := range set {
				if !want[f] {
					return false
				}
			}
			return true
		}
		var got []string
		for f := range set {
			got = append(got, sprintf("%d + %d*CC + %d*L", f.c, f.cc, f.l))
		}
		sort.Strings(got)
		r.Cells++
		r.Check(okForm(0) || okForm(1), rule, key, c.P.Pos(idx.Pos()), "OSN offset is 12 + 4*CC, plus 4*(1+L) when the X bit is set",
			"the offset the original sequence number is read from evaluates to {"+strings.Join(got, " | ")+"}, RFC 3550 gives {12 + 4*CC | 16 + 4*CC + 4*L} (fixed header, CSRC list, and with X set the 4-byte extension header plus L words): retransmissions carrying a header extension are unwrapped at the wrong offset")
	}

}
