package props

import (
	"go/ast"
	"go/constant"
	"go/token"
	"go/types"
	"math/big"
	"regexp"
	"strings"
	"time"

	"verif/checker/core"
)

func init() {
	register(&Prop{
		ID:        "C36",
		Engine:    "e4range+e5layout",
		Technique: "interval analysis refined by dominating guards (go/cfg) for every unsigned subtraction, narrowing/sign-changing conversion and narrow addition in the rtpdump encoder/decoder; nil-check dominance for net.IP.To4; writer/reader byte-layout agreement of the file header and the record header against the rtpdump format table; preamble format string matched against the reader's regular expression",
		LevelText: "Every unsigned subtraction, narrowing conversion and narrow-typed addition in pkg/media/rtpdump is an obligation: the interval of the operand, computed from its type, its definitions and the guards that dominate the statement, must fit (and the guard's other branch must end in an error return), otherwise the input that wraps is reported. The 16-byte file header and 8-byte record header are extracted from Marshal and Unmarshal and compared field by field (offset, width, big-endian, source and destination) with the rtptools format.",
		LevelNote: "Trusted: interval arithmetic of core/guards.go (+ - * / %, conversions, joins over definitions, guard atoms on stable expressions); rtpdump format as transcribed. int is taken as 64-bit (thorough repeats on GOARCH=386 declarations only through go/types constants). Does not decide I/O behaviour or RTP/RTCP payload contents.",
		DesignRef: "DESIGN.md §5 C36",
		Run:       runC36,
	})
}

const c36Rel = "pkg/media/rtpdump"

func runC36(c *Ctx) {
	r := c.R
	t0 := time.Now()
	defer func() { r.Extra["rules_wall_s"] = time.Since(t0).Seconds() }()
	r.Rule("C36.R1", "reader: every unsigned subtraction with a non-constant operand (Reader.Next: record length minus the record header length) is dominated by a guard that makes the minuend at least the subtrahend", 1)
	r.Rule("C36.R2", "writer: every narrowing or sign-changing integer conversion and every narrow-typed addition of an input-derived quantity (payload length into the 16-bit length fields, start time into 32-bit seconds/microseconds, offset into 32-bit milliseconds) fits its target for all inputs that pass the dominating guards, the guards' other branch returns an error, and the result of net.IP.To4 is nil-checked before use", 8)
	r.Rule("C36.R3", "layout: file header (seconds@0/32, microseconds@4/32, IPv4 source@8/4, port@12/16, big-endian, 16 bytes) and record header (length@0/16, packet length@2/16, offset@4/32, big-endian, 8 bytes) are stored by Marshal and decoded by Unmarshal at the same offset/width/byte order from/to the matching fields; seconds and microseconds are split and recombined with the same units; the record fields derive from the payload length / RTCP flag / offset and are inverted by the reader; the preamble the writer prints matches the reader's regular expression and peek length", 14)
	r.NotCovered = append(r.NotCovered, "payload bytes themselves (copied verbatim)", "short reads/writes of the underlying stream", "RTP with an empty payload (indistinguishable from RTCP in the format; excluded by the property's 1..65527 range)")
	r.Trusted = append(r.Trusted, "rtptools rtpdump file format (https://www.cs.columbia.edu/irt/software/rtptools/) as transcribed in props/c36.go", "interval arithmetic and guard-dominance argument of core/guards.go")
	r.Rule("C36.R6", "the rtpdump reader fills its header and payload buffers completely: reads of the underlying stream go through io.ReadFull / io.ReadAtLeast, never a bare Read (a valid record larger than the buffered data is not mistaken for a malformed file)", 2)
	c36R6(c) // c25c.go
	l := core.NewLayout(c.P)
	rec := &c36Recorder{r: r, verdict: map[string]bool{}}
	c36Ranges(c, l, rec, false)
	c36Layout(c, l)
	if c.Thorough {
		// int is 32 bits wide on GOARCH=386: repeat the range obligations there and report what differs
		p386, err := c.Load386()
		if err != nil {
			r.Undecided("C36.R2", "GOARCH=386|load", "-", "cannot load the GOARCH=386 configuration: "+err.Error())
			return
		}
		c2 := *c
		c2.P = p386
		a := &c36Arch386{r: r, baseline: rec.verdict}
		c36Ranges(&c2, core.NewLayout(p386), a, true)
		r.Extra["goarch_386_same_verdict"] = a.same
	}
}

// ---------- R1 / R2 ----------

// c36Rep is the part of core.Report the range rules use; the GOARCH=386 pass reports through a filter that
// keeps only obligations whose verdict differs from the amd64 pass.
type c36Rep interface {
	OK(rule, key, pos, detail string)
	Fail(rule, key, pos, detail string)
	Check(ok bool, rule, key, pos, okDetail, failDetail string) bool
}

type c36Recorder struct {
	r       *core.Report
	verdict map[string]bool
}

func (x *c36Recorder) OK(rule, key, pos, detail string) {
	x.verdict[rule+"|"+key] = true
	x.r.OK(rule, key, pos, detail)
}
func (x *c36Recorder) Fail(rule, key, pos, detail string) {
	x.verdict[rule+"|"+key] = false
	x.r.Fail(rule, key, pos, detail)
}
func (x *c36Recorder) Check(ok bool, rule, key, pos, okDetail, failDetail string) bool {
	x.verdict[rule+"|"+key] = ok
	return x.r.Check(ok, rule, key, pos, okDetail, failDetail)
}

type c36Arch386 struct {
	r        *core.Report
	baseline map[string]bool
	same     int
}

func (x *c36Arch386) report(ok bool, rule, key, pos, detail string) {
	if b, seen := x.baseline[rule+"|"+key]; seen && b == ok {
		x.same++
		return
	}
	if ok {
		x.r.OK(rule, key+"|GOARCH=386", pos, detail)
	} else {
		x.r.Fail(rule, key+"|GOARCH=386", pos, "on GOARCH=386 (32-bit int): "+detail)
	}
}
func (x *c36Arch386) OK(rule, key, pos, detail string)   { x.report(true, rule, key, pos, detail) }
func (x *c36Arch386) Fail(rule, key, pos, detail string) { x.report(false, rule, key, pos, detail) }
func (x *c36Arch386) Check(ok bool, rule, key, pos, okDetail, failDetail string) bool {
	if ok {
		x.report(true, rule, key, pos, okDetail)
	} else {
		x.report(false, rule, key, pos, failDetail)
	}
	return ok
}

func c36Ranges(c *Ctx, l *core.Layout, r c36Rep, bits32 bool) {
	pkg := c.P.Pkg(c36Rel)
	if pkg == nil {
		r.Fail("C36.R1", "anchor:"+c36Rel, "-", "package no longer resolves")
		return
	}
	for _, name := range []string{"Reader.Next"} {
		c.mustFunc("C36.R1", c36Rel, name)
	}
	for _, name := range []string{"Packet.Marshal", "Header.Marshal", "Packet.offsetMs", "NewWriter"} {
		c.mustFunc("C36.R2", c36Rel, name)
	}
	for _, fi := range c.P.AllFuncs() {
		if fi.Pkg != pkg || fi.Decl.Body == nil {
			continue
		}
		c.R.Saw(c36Rel + "." + fi.Name())
		g := c.P.GraphOf(fi)
		rg := core.NewRanges(g, l)
		rg.Bits32 = bits32
		info := g.Info
		for _, nd := range g.Nodes {
			if nd.Ast == nil {
				continue
			}
			core.InspectShallow(nd.Ast, func(x ast.Node) bool {
				switch e := x.(type) {
				case *ast.BinaryExpr:
					if tv := info.Types[e]; tv.Value != nil {
						return true
					}
					bt, ok := info.TypeOf(e).Underlying().(*types.Basic)
					if !ok || bt.Info()&types.IsInteger == 0 {
						return true
					}
					tr, _ := core.TypeRange(info.TypeOf(e), bits32)
					switch {
					case e.Op == token.SUB && bt.Info()&types.IsUnsigned != 0:
						a, b := rg.At(nd.ID, e.X), rg.At(nd.ID, e.Y)
						key := fi.Name() + "|unsigned-sub|" + c36Shape(l, fi, e.X) + " - " + c36Shape(l, fi, e.Y)
						pos := c.P.Pos(e.Pos())
						c.R.Cells++
						ok := a.Lo != nil && b.Hi != nil && a.Lo.Cmp(b.Hi) >= 0
						why := ""
						if ok {
							why = c36GuardsFail(c, g, nd.ID, []ast.Expr{e.X, e.Y})
						}
						switch {
						case !ok:
							r.Fail("C36.R1", key, pos, sprintf("unsigned subtraction %s may wrap: minuend %s, subtrahend %s at this point (no dominating guard establishes %s >= %s); a record whose length field is smaller than the record header is read as a ~64 KiB payload", exprStr(e), a, b, exprStr(e.X), exprStr(e.Y)))
						case why != "":
							r.Fail("C36.R1", key, pos, why)
						default:
							r.OK("C36.R1", key, pos, sprintf("minuend %s >= subtrahend %s", a, b))
						}
					case (e.Op == token.ADD || e.Op == token.MUL) && tr.Hi != nil && tr.Hi.BitLen() <= 32:
						// narrow-typed arithmetic on non-constant operands must not wrap
						a, b := rg.At(nd.ID, e.X), rg.At(nd.ID, e.Y)
						key := fi.Name() + "|narrow-" + map[token.Token]string{token.ADD: "add", token.MUL: "mul"}[e.Op] + "|" + c36Shape(l, fi, e.X) + " , " + c36Shape(l, fi, e.Y)
						pos := c.P.Pos(e.Pos())
						c.R.Cells++
						var res core.Interval
						fits := false
						if a.Lo != nil && a.Hi != nil && b.Lo != nil && b.Hi != nil {
							if e.Op == token.ADD {
								res = core.Interval{Lo: new(big.Int).Add(a.Lo, b.Lo), Hi: new(big.Int).Add(a.Hi, b.Hi)}
							} else {
								res = core.Interval{Lo: new(big.Int).Mul(a.Lo, b.Lo), Hi: new(big.Int).Mul(a.Hi, b.Hi)}
							}
							fits = res.Within(tr)
						}
						why := ""
						if fits {
							why = c36GuardsFail(c, g, nd.ID, []ast.Expr{e.X, e.Y})
						}
						switch {
						case !fits:
							r.Fail("C36.R2", key, pos, sprintf("%s is computed in %s and may wrap: operands %s and %s (no dominating range check)", exprStr(e), info.TypeOf(e), a, b))
						case why != "":
							r.Fail("C36.R2", key, pos, why)
						default:
							r.OK("C36.R2", key, pos, sprintf("result %s fits %s", res, info.TypeOf(e)))
						}
					}
				case *ast.CallExpr:
					tv, ok := info.Types[e.Fun]
					if !ok || !tv.IsType() || len(e.Args) != 1 {
						c36To4(c, l, r, fi, g, nd.ID, e)
						return true
					}
					if atv := info.Types[e.Args[0]]; atv.Value != nil {
						return true
					}
					to, ok1 := core.TypeRange(tv.Type, bits32)
					from, ok2 := core.TypeRange(info.TypeOf(e.Args[0]), bits32)
					if !ok1 || !ok2 || from.Within(to) {
						return true
					}
					in := rg.At(nd.ID, e.Args[0])
					key := fi.Name() + "|narrowing|" + types.TypeString(tv.Type, func(*types.Package) string { return "" }) + "(" + c36Shape(l, fi, e.Args[0]) + ")"
					pos := c.P.Pos(e.Pos())
					c.R.Cells++
					fits := in.Within(to)
					why := ""
					if fits {
						why = c36GuardsFail(c, g, nd.ID, []ast.Expr{e.Args[0]})
					}
					rule := "C36.R2"
					switch {
					case !fits:
						r.Fail(rule, key, pos, sprintf("conversion %s truncates: the operand ranges over %s at this point, the target holds %s (no dominating range check that returns an error)", exprStr(e), in, to))
					case why != "":
						r.Fail(rule, key, pos, why)
					default:
						r.OK(rule, key, pos, sprintf("operand %s fits %s", in, to))
					}
				}
				return true
			})
		}
	}
}

// c36Shape renders an operand by what it is made of (origins), not by how it is spelled.
func c36Shape(l *core.Layout, fi *core.FuncInfo, e ast.Expr) string {
	o := l.Origins(fi, e)
	var keep []string
	for _, s := range o {
		if strings.HasPrefix(s, "op") {
			continue
		}
		keep = append(keep, s)
	}
	if len(keep) > 4 {
		keep = keep[:4]
	}
	return strings.Join(keep, "+")
}

// c36GuardsFail checks that every guard whose atoms speak about the operands leaves, on its other branch,
// only through error returns (the writer refuses / the reader rejects instead of silently continuing).
// It returns a non-empty explanation when a guard's other branch can return success.
func c36GuardsFail(c *Ctx, g *core.Graph, n int, operands []ast.Expr) string {
	info := g.Info
	mentions := func(x ast.Expr) bool {
		for _, op := range operands {
			found := false
			ast.Inspect(op, func(y ast.Node) bool {
				if ye, ok := y.(ast.Expr); ok && core.SameExpr(info, ye, x) {
					found = true
				}
				return !found
			})
			if found {
				return true
			}
			// the operand may be a local defined from the guarded expression: compare root variables
			if rv, xv := core.RootVar(info, op), core.RootVar(info, x); rv != nil && rv == xv {
				return true
			}
		}
		return false
	}
	for _, a := range g.AtomsAt(n) {
		if a.K == nil || !mentions(a.X) {
			continue
		}
		// the other branch of the guard
		from := g.Nodes[a.GuardFact.Edge.From]
		for i, e := range from.Succs {
			if i == a.GuardFact.Edge.Idx || e.Branch == 0 {
				continue
			}
			reach := g.Reach([]int{e.To}, nil, nil)
			if reach[n] {
				continue // not an exclusive guard (should not happen for a dominating edge)
			}
			for _, rn := range g.Returns() {
				if !reach[rn] {
					continue
				}
				// returns that are also reachable through the guarded branch belong to the common tail
				if g.Reach([]int{g.Nodes[a.GuardFact.Edge.From].Succs[a.GuardFact.Edge.Idx].To}, nil, nil)[rn] {
					continue
				}
				ret := g.Nodes[rn].Ast.(*ast.ReturnStmt)
				if core.ErrResultIndex(g.Sig()) >= 0 && !c32FailureOnly(g, rn, ret) {
					return sprintf("the range check %s is not enforced by an error: its failing branch returns at %s without reporting an error", exprStr(a.GuardFact.Cond), c.P.Pos(ret.Pos()))
				}
			}
		}
	}
	return ""
}

// c36To4: the result of (net.IP).To4 must be nil-checked before it is used.
func c36To4(c *Ctx, l *core.Layout, r c36Rep, fi *core.FuncInfo, g *core.Graph, n int, call *ast.CallExpr) {
	info := g.Info
	fn := core.Callee(info, call)
	if fn == nil || fn.Pkg() == nil || fn.Pkg().Path() != "net" || fn.Name() != "To4" {
		return
	}
	// The key names what is converted and where the result goes, not the enclosing function, so that extracting the
	// statement into a helper does not turn a recorded finding into a new one.
	recvDesc := "?"
	if sel, ok := ast.Unparen(call.Fun).(*ast.SelectorExpr); ok {
		if f := core.FieldOf(info, sel.X); f != nil {
			recvDesc = f.Name()
		} else {
			recvDesc = exprStr(sel.X)
		}
	}
	sink := "bytes"
	for p := l.Parent(fi, call); p != nil; p = l.Parent(fi, p) {
		if _, isStmt := p.(ast.Stmt); isStmt {
			break
		}
		if ce, ok := p.(*ast.CallExpr); ok {
			if se, ok := ast.Unparen(ce.Fun).(*ast.SelectorExpr); ok && se.Sel.Name == "String" {
				sink = "text"
			}
		}
	}
	key := "To4(" + recvDesc + ")->" + sink + "|To4-result-nil-checked"
	pos := c.P.Pos(call.Pos())
	c.R.Cells++
	parent := l.Parent(fi, call)
	for {
		if pe, ok := parent.(*ast.ParenExpr); ok {
			parent = l.Parent(fi, pe)
			continue
		}
		break
	}
	var v *types.Var
	switch p := parent.(type) {
	case *ast.AssignStmt:
		if len(p.Lhs) == 1 && len(p.Rhs) == 1 {
			v = core.VarOf(info, p.Lhs[0])
		}
	case *ast.ValueSpec:
		if len(p.Names) == 1 {
			v, _ = info.Defs[p.Names[0]].(*types.Var)
		}
	case *ast.BinaryExpr:
		// x.To4() == nil / != nil: a test, not a use
		if (p.Op == token.EQL || p.Op == token.NEQ) && (core.IsNilIdent(info, p.X) || core.IsNilIdent(info, p.Y)) {
			r.OK("C36.R2", key+"|test", pos, "used only as a nil test")
			return
		}
	}
	if v == nil {
		r.Fail("C36.R2", key, pos, "the result of To4() is used directly without a nil check: for an IPv6 (or unset) source it is nil and the writer emits a corrupt preamble/header instead of refusing")
		return
	}
	// every use of v other than a nil comparison must be dominated by v != nil
	bad := ""
	uses := 0
	for _, nd := range g.Nodes {
		if nd.Ast == nil {
			continue
		}
		core.InspectShallow(nd.Ast, func(x ast.Node) bool {
			id, ok := x.(*ast.Ident)
			if !ok || info.Uses[id] != types.Object(v) {
				return true
			}
			if be, ok := l.Parent(fi, id).(*ast.BinaryExpr); ok && (be.Op == token.EQL || be.Op == token.NEQ) && (core.IsNilIdent(info, be.X) || core.IsNilIdent(info, be.Y)) {
				return true
			}
			uses++
			checked := false
			for _, a := range g.AtomsAt(nd.ID) {
				if a.IsNil && a.Op == token.NEQ && core.VarOf(info, a.X) == v {
					checked = true
					if why := c36GuardsFail(c, g, nd.ID, []ast.Expr{id}); why != "" {
						bad = why
					}
				}
			}
			if !checked {
				bad = sprintf("the To4() result is used at %s without a dominating nil check: for an IPv6 (or unset) source it is nil and the writer emits a corrupt preamble/header instead of refusing", c.P.Pos(id.Pos()))
			}
			return true
		})
	}
	r.Check(bad == "", "C36.R2", key, pos, sprintf("%d use(s), all behind a nil check that returns an error", uses), bad)
}

// ---------- R3 ----------

func c36Layout(c *Ctx, l *core.Layout) {
	hm := c.mustFunc("C36.R3", c36Rel, "Header.Marshal")
	hu := c.mustFunc("C36.R3", c36Rel, "Header.Unmarshal")
	pm := c.mustFunc("C36.R3", c36Rel, "packetHeader.Marshal")
	pu := c.mustFunc("C36.R3", c36Rel, "packetHeader.Unmarshal")
	if hm == nil || hu == nil || pm == nil || pu == nil {
		return
	}
	timeOrigins := []string{"~call:time.Time.", "~const:", "~op"}
	fileRows := []c32Row{
		{Name: "start-seconds", Off: 0, Width: 4, Endian: "BE", WOrigins: timeOrigins, RSink: "field:Header.Start via time.Unix#0"},
		{Name: "start-microseconds", Off: 4, Width: 4, Endian: "BE", WOrigins: timeOrigins, RSink: "field:Header.Start via op*1000 time.Unix#1"},
		{Name: "source", Off: 8, Width: 4, WOrigins: []string{"call:net.IP.To4#0"}, RSink: "field:Header.Source via net.IPv4#%d"},
		{Name: "port", Off: 12, Width: 2, Endian: "BE", WOrigins: []string{"field:Header.Port"}, RSink: "field:Header.Port"},
	}
	wH, wBuf, ok1 := c32Buffer(c, l, "C36.R3", "file-header|writer", hm, true)
	rH, _, ok2 := c32Buffer(c, l, "C36.R3", "file-header|reader", hu, false)
	if ok1 && ok2 {
		c32CheckRows(c, l, "C36.R3", "file-header", fileRows, wH, rH)
		c36BufLen(c, l, "file-header", hm, wBuf, hu, rH, "headerLen", 16)
		c36TimeSplit(c, l, hm, wH)
	}
	recRows := []c32Row{
		{Name: "length", Off: 0, Width: 2, Endian: "BE", WOrigins: []string{"field:packetHeader.Length"}, RSink: "field:packetHeader.Length"},
		{Name: "packet-length", Off: 2, Width: 2, Endian: "BE", WOrigins: []string{"field:packetHeader.PacketLength"}, RSink: "field:packetHeader.PacketLength"},
		{Name: "offset", Off: 4, Width: 4, Endian: "BE", WOrigins: []string{"field:packetHeader.Offset"}, RSink: "field:packetHeader.Offset"},
	}
	wP, wpBuf, ok3 := c32Buffer(c, l, "C36.R3", "record-header|writer", pm, true)
	rP, _, ok4 := c32Buffer(c, l, "C36.R3", "record-header|reader", pu, false)
	if ok3 && ok4 {
		c32CheckRows(c, l, "C36.R3", "record-header", recRows, wP, rP)
		c36BufLen(c, l, "record-header", pm, wpBuf, pu, rP, "pktHeaderLen", 8)
	}
	c36RecordSemantics(c, l)
	c36Preamble(c, l)
}

// c36BufLen: the writer's buffer has the format's length (and that is the named constant); every reader
// entry is dominated by a guard len(buf) >= end of the entry.
func c36BufLen(c *Ctx, l *core.Layout, prefix string, wfi *core.FuncInfo, wBuf types.Object, rfi *core.FuncInfo, rEntries []*core.LayoutEntry, constName string, want int64) {
	r := c.R
	k := c.mustConst("C36.R3", c36Rel, constName)
	var id *ast.Ident
	ast.Inspect(wfi.Decl.Body, func(n ast.Node) bool {
		if x, ok := n.(*ast.Ident); ok && id == nil && wfi.Pkg.TypesInfo.ObjectOf(x) == wBuf {
			id = x
		}
		return id == nil
	})
	wl, okw := int64(-1), false
	if id != nil {
		wl, okw = l.KnownLen(wfi, id)
	}
	kv := int64(-1)
	if k != nil {
		kv, _ = constant.Int64Val(k.Val())
	}
	r.Check(okw && wl == want && kv == want, "C36.R3", prefix+"|buffer-length", c.P.Pos(wfi.Decl.Pos()), sprintf("writer buffer and %s are %d bytes", constName, want), sprintf("writer buffer %d bytes (known=%v), %s=%d, format %d", wl, okw, constName, kv, want))
	// reader side: guarded
	g := c.P.GraphOf(rfi)
	bad := ""
	for _, e := range rEntries {
		if !e.OffKnown || e.Width < 0 || e.Fn != rfi {
			continue
		}
		n := c32NodeOf(g, e.Node)
		if n < 0 {
			continue
		}
		// lower bound of len(buf) at the entry, from the dominating guard atoms
		lo := int64(0)
		for _, a := range g.AtomsAt(n) {
			call, ok := ast.Unparen(a.X).(*ast.CallExpr)
			if !ok || len(call.Args) != 1 || a.K == nil {
				continue
			}
			if idf, ok := ast.Unparen(call.Fun).(*ast.Ident); !ok || idf.Name != "len" || g.Info.ObjectOf(identOf(call.Args[0])) != e.BufObj {
				continue
			}
			kk, _ := constant.Int64Val(a.K)
			switch a.Op {
			case token.GEQ:
				lo = max(lo, kk)
			case token.GTR:
				lo = max(lo, kk+1)
			case token.EQL:
				lo = max(lo, kk)
			}
		}
		if lo < e.Off+e.Width {
			bad = sprintf("the read of [%d,%d) at %s is not dominated by a length check (known len >= %d)", e.Off, e.Off+e.Width, c.P.Pos(e.Pos), lo)
		}
	}
	r.Check(bad == "", "C36.R3", prefix+"|reader-length-guard", c.P.Pos(rfi.Decl.Pos()), "every decoded range is behind a length check", bad)
}

// c36TimeSplit evaluates the two stored time fields for sample instants: seconds = floor(t), microseconds = the sub-second part in µs.
func c36TimeSplit(c *Ctx, l *core.Layout, hm *core.FuncInfo, wH []*core.LayoutEntry) {
	r := c.R
	g := c.P.GraphOf(hm)
	info := g.Info
	var sec, usec *core.LayoutEntry
	for _, e := range wH {
		if e.OffKnown && e.Off == 0 {
			sec = e
		}
		if e.OffKnown && e.Off == 4 {
			usec = e
		}
	}
	if sec == nil || usec == nil {
		return
	}
	samples := []int64{0, 1_000_000_000, 1_553_475_661_000_250_999, 4_294_967_295_999_999_999}
	bad, undec := "", ""
	for _, nanos := range samples {
		for _, tgt := range []struct {
			e    *core.LayoutEntry
			want int64
			what string
		}{{sec, nanos / 1_000_000_000, "seconds"}, {usec, nanos % 1_000_000_000 / 1000, "microseconds"}} {
			ev := &core.Evaluator{P: c.P, Fuel: 500}
			ev.Expr = func(e ast.Expr) (core.EVal, bool) {
				call, ok := e.(*ast.CallExpr)
				if !ok {
					return core.EVal{}, false
				}
				fn := core.Callee(info, call)
				if fn == nil || fn.Pkg() == nil || fn.Pkg().Path() != "time" {
					return core.EVal{}, false
				}
				switch fn.Name() {
				case "UnixNano":
					return core.EInt(nanos, types.Typ[types.Int64]), true
				case "UnixMicro":
					return core.EInt(nanos/1000, types.Typ[types.Int64]), true
				case "UnixMilli":
					return core.EInt(nanos/1_000_000, types.Typ[types.Int64]), true
				case "Unix":
					if len(call.Args) == 0 {
						return core.EInt(nanos/1_000_000_000, types.Typ[types.Int64]), true
					}
				case "Nanosecond":
					return core.EInt(nanos%1_000_000_000, types.Typ[types.Int]), true
				}
				return core.EVal{}, false
			}
			ev.LocalDef = func(v *types.Var) ast.Expr { return l.UniqueDef(hm, v) }
			v := ev.NewFrame(g).Eval(tgt.e.Val)
			r.Cells++
			got, ok := v.Int64()
			switch {
			case !ok:
				undec = sprintf("%s for t=%dns: %s", tgt.what, nanos, v)
			case got != tgt.want:
				bad = sprintf("for a start time of %d ns the %s field is %d, expected %d", nanos, tgt.what, got, tgt.want)
			}
		}
	}
	key := "file-header|time-split"
	pos := c.P.Pos(sec.Pos)
	if undec != "" {
		r.Undecided("C36.R3", key, pos, "the stored time fields could not be evaluated: "+undec)
		return
	}
	r.Check(bad == "", "C36.R3", key, pos, sprintf("seconds/microseconds correct at %d sample instants (reader recombines with time.Unix(sec, usec*1000))", len(samples)), bad)
}

// c36RecordSemantics: Packet.Marshal's header fields as functions of (payload length, RTCP flag, offset) and the
// reader's inverse in Reader.Next, evaluated at sample points (boundaries included).
func c36RecordSemantics(c *Ctx, l *core.Layout) {
	r := c.R
	marshal := c.mustFunc("C36.R3", c36Rel, "Packet.Marshal")
	next := c.mustFunc("C36.R3", c36Rel, "Reader.Next")
	offsetMs := c.mustFunc("C36.R3", c36Rel, "Packet.offsetMs")
	hoff := c.mustFunc("C36.R3", c36Rel, "packetHeader.offset")
	if marshal == nil || next == nil || offsetMs == nil || hoff == nil {
		return
	}
	hdrT := c.P.Named(c36Rel, "packetHeader")
	pktT := c.P.Named(c36Rel, "Packet")
	if hdrT == nil || pktT == nil {
		return
	}
	// writer: the packetHeader composite literal in Marshal
	var wlit *ast.CompositeLit
	ast.Inspect(marshal.Decl.Body, func(n ast.Node) bool {
		if cl, ok := n.(*ast.CompositeLit); ok && types.Identical(marshal.Pkg.TypesInfo.TypeOf(cl), hdrT) {
			wlit = cl
		}
		return true
	})
	// reader: the Packet composite literal in Next, and the make() length
	var rlit *ast.CompositeLit
	var mk *ast.CallExpr
	ast.Inspect(next.Decl.Body, func(n ast.Node) bool {
		switch x := n.(type) {
		case *ast.CompositeLit:
			if types.Identical(next.Pkg.TypesInfo.TypeOf(x), pktT) && len(x.Elts) > 0 {
				rlit = x
			}
		case *ast.CallExpr:
			if id, ok := ast.Unparen(x.Fun).(*ast.Ident); ok && id.Name == "make" && len(x.Args) == 2 {
				if _, isB := next.Pkg.TypesInfo.Uses[id].(*types.Builtin); isB {
					mk = x
				}
			}
		}
		return true
	})
	key := "record-header|fields-round-trip"
	pos := c.P.Pos(marshal.Decl.Pos())
	if wlit == nil || rlit == nil || mk == nil {
		r.Undecided("C36.R3", key, pos, sprintf("cannot find the record header literal in Marshal (%v), the Packet literal (%v) or the payload allocation (%v) in Next", wlit != nil, rlit != nil, mk != nil))
		return
	}
	fieldExpr := func(cl *ast.CompositeLit, name string) ast.Expr {
		for _, el := range cl.Elts {
			if kv, ok := el.(*ast.KeyValueExpr); ok {
				if id, ok := kv.Key.(*ast.Ident); ok && id.Name == name {
					return kv.Value
				}
			}
		}
		return nil
	}
	wg, rgph := c.P.GraphOf(marshal), c.P.GraphOf(next)
	bad, undec := "", ""
	for _, plen := range []int64{1, 12, 1400, 65527} {
		for _, rtcp := range []bool{false, true} {
			for _, offMs := range []int64{0, 1, 123456, 4294967295} {
				// ---- writer side
				wev := &core.Evaluator{P: c.P, Fuel: 2000}
				wev.Path = func(p string) (core.EVal, bool) {
					switch p {
					case "recv.Payload":
						return core.EBytes("payload", plen), true
					case "recv.IsRTCP":
						return core.EBool(rtcp), true
					case "recv.Offset":
						return core.EInt(offMs*1_000_000, types.Typ[types.Int64]), true
					}
					return core.EVal{}, false
				}
				out := func() map[string]int64 {
					// run Marshal up to the literal: evaluate the statements before it by walking from entry
					fr := wev.NewFrame(wg)
					fr.Locals[marshal.Obj.Type().(*types.Signature).Recv()] = core.EVal{K: core.ERef, Path: "recv"}
					litNode := c32NodeOf(wg, wlit)
					if o := fr.Run(wg.Entry, func(n int) bool { return n == litNode }); o.Kind != "stopped" {
						undec = "Marshal: " + o.Kind + " " + o.Why
						return nil
					}
					res := map[string]int64{}
					for _, f := range []string{"Length", "PacketLength", "Offset"} {
						e := fieldExpr(wlit, f)
						if e == nil {
							undec = "Marshal does not set " + f
							return nil
						}
						v, ok := fr.Eval(e).Int64()
						if !ok {
							undec = "Marshal: " + f + " = " + fr.Eval(e).String()
							return nil
						}
						res[f] = v
					}
					return res
				}()
				r.Cells++
				if out == nil {
					continue
				}
				// ---- reader side
				rev := &core.Evaluator{P: c.P, Fuel: 2000}
				rev.Path = func(p string) (core.EVal, bool) {
					for _, f := range []string{"Length", "PacketLength", "Offset"} {
						if strings.HasSuffix(p, "."+f) {
							return core.EInt(out[f], hdrT.Underlying().(*types.Struct).Field(map[string]int{"Length": 0, "PacketLength": 1, "Offset": 2}[f]).Type()), true
						}
					}
					return core.EVal{}, false
				}
				rfr := rev.NewFrame(rgph)
				// bind the local header variable(s) of type packetHeader
				ast.Inspect(next.Decl.Body, func(n ast.Node) bool {
					if id, ok := n.(*ast.Ident); ok {
						if v, ok := next.Pkg.TypesInfo.Defs[id].(*types.Var); ok && types.Identical(v.Type(), hdrT) {
							rfr.Locals[v] = core.EVal{K: core.ERef, Path: "hdr"}
						}
					}
					return true
				})
				gotLen, ok1 := rfr.Eval(mk.Args[1]).Int64()
				isRTCP := rfr.Eval(fieldExpr(rlit, "IsRTCP"))
				off, ok3 := rfr.Eval(fieldExpr(rlit, "Offset")).Int64()
				switch {
				case !ok1 || !ok3 || !(isRTCP.IsTrue() || isRTCP.IsFalse()):
					undec = sprintf("Next: payload length %s, IsRTCP %s, Offset %s", rfr.Eval(mk.Args[1]), isRTCP, rfr.Eval(fieldExpr(rlit, "Offset")))
				case gotLen != plen:
					bad = sprintf("a %d-byte payload is stored with Length=%d and read back as %d bytes", plen, out["Length"], gotLen)
				case isRTCP.IsTrue() != rtcp:
					bad = sprintf("IsRTCP=%v with a %d-byte payload is stored with PacketLength=%d and read back as IsRTCP=%v", rtcp, plen, out["PacketLength"], isRTCP.IsTrue())
				case off != offMs*1_000_000:
					bad = sprintf("offset %d ms is stored as %d and read back as %d ns", offMs, out["Offset"], off)
				case !rtcp && out["PacketLength"] != plen:
					bad = sprintf("RTP packet length field is %d for a %d-byte packet", out["PacketLength"], plen)
				}
			}
		}
	}
	if undec != "" {
		r.Undecided("C36.R3", key, pos, "the record fields could not be evaluated: "+undec)
		return
	}
	r.Check(bad == "", "C36.R3", key, pos, "Length = len(payload)+8, PacketLength = len/0 (RTCP), Offset in ms; the reader inverts all three (sample points incl. 1 and 65527 bytes, 0 and 2^32-1 ms)", bad)
}

// c36Preamble: the writer's preamble format instantiated with extreme values matches the reader's regexp and fits the peek length.
func c36Preamble(c *Ctx, l *core.Layout) {
	r := c.R
	nw := c.mustFunc("C36.R3", c36Rel, "NewWriter")
	nr := c.mustFunc("C36.R3", c36Rel, "NewReader")
	pl := c.mustConst("C36.R3", c36Rel, "preambleLen")
	if nw == nil || nr == nil || pl == nil {
		return
	}
	var format, re string
	var fpos, rpos token.Pos
	// the format / regexp may live in a same-package helper that NewWriter / NewReader calls (depth 2) or in a package-level initialiser
	bodiesOf := func(root *core.FuncInfo) []ast.Node {
		out := []ast.Node{root.Decl.Body}
		seen := map[*core.FuncInfo]bool{root: true}
		frontier := []*core.FuncInfo{root}
		for depth := 0; depth < 2; depth++ {
			var next []*core.FuncInfo
			for _, f := range frontier {
				ast.Inspect(f.Decl.Body, func(n ast.Node) bool {
					if call, ok := n.(*ast.CallExpr); ok {
						if fn := core.Callee(f.Pkg.TypesInfo, call); fn != nil {
							if d := c.P.DeclOf(fn); d != nil && d.Pkg == root.Pkg && d.Decl.Body != nil && !seen[d] {
								seen[d] = true
								out = append(out, d.Decl.Body)
								next = append(next, d)
							}
						}
					}
					return true
				})
			}
			frontier = next
		}
		for _, file := range root.Pkg.Syntax {
			for _, d := range file.Decls {
				if gd, ok := d.(*ast.GenDecl); ok && gd.Tok == token.VAR {
					out = append(out, gd)
				}
			}
		}
		return out
	}
	for _, body := range bodiesOf(nw)[1:] {
		ast.Inspect(body, func(n ast.Node) bool {
			if call, ok := n.(*ast.CallExpr); ok && len(call.Args) >= 1 {
				if fn := core.Callee(nw.Pkg.TypesInfo, call); fn != nil && fn.Pkg() != nil && fn.Pkg().Path() == "fmt" && strings.HasPrefix(fn.Name(), "Sprintf") {
					if tv := nw.Pkg.TypesInfo.Types[call.Args[0]]; tv.Value != nil && tv.Value.Kind() == constant.String && strings.Contains(constant.StringVal(tv.Value), "rtpplay") {
						format, fpos = constant.StringVal(tv.Value), call.Pos()
					}
				}
			}
			return true
		})
	}
	for _, body := range bodiesOf(nr)[1:] {
		ast.Inspect(body, func(n ast.Node) bool {
			if call, ok := n.(*ast.CallExpr); ok && len(call.Args) == 1 {
				if fn := core.Callee(nr.Pkg.TypesInfo, call); fn != nil && fn.Pkg() != nil && fn.Pkg().Path() == "regexp" && strings.HasPrefix(fn.Name(), "MustCompile") {
					if tv := nr.Pkg.TypesInfo.Types[call.Args[0]]; tv.Value != nil && tv.Value.Kind() == constant.String && strings.Contains(constant.StringVal(tv.Value), "rtpplay") {
						re, rpos = constant.StringVal(tv.Value), call.Pos()
					}
				}
			}
			return true
		})
	}
	ast.Inspect(nw.Decl.Body, func(n ast.Node) bool {
		if call, ok := n.(*ast.CallExpr); ok && len(call.Args) >= 1 {
			if fn := core.Callee(nw.Pkg.TypesInfo, call); fn != nil && fn.Pkg() != nil && fn.Pkg().Path() == "fmt" && strings.HasPrefix(fn.Name(), "Sprintf") {
				if tv := nw.Pkg.TypesInfo.Types[call.Args[0]]; tv.Value != nil && tv.Value.Kind() == constant.String {
					format, fpos = constant.StringVal(tv.Value), call.Pos()
				}
			}
		}
		return true
	})
	ast.Inspect(nr.Decl.Body, func(n ast.Node) bool {
		if call, ok := n.(*ast.CallExpr); ok && len(call.Args) == 1 {
			if fn := core.Callee(nr.Pkg.TypesInfo, call); fn != nil && fn.Pkg() != nil && fn.Pkg().Path() == "regexp" && strings.HasPrefix(fn.Name(), "MustCompile") {
				if tv := nr.Pkg.TypesInfo.Types[call.Args[0]]; tv.Value != nil && tv.Value.Kind() == constant.String {
					re, rpos = constant.StringVal(tv.Value), call.Pos()
				}
			}
		}
		return true
	})
	key := "preamble|format-matches-reader-regexp"
	if format == "" || re == "" {
		r.Undecided("C36.R3", key, c.P.Pos(nw.Decl.Pos()), sprintf("preamble format constant found=%v, reader regexp constant found=%v", format != "", re != ""))
		return
	}
	_ = rpos
	rx, err := regexp.Compile(re)
	if err != nil {
		r.Fail("C36.R3", key, c.P.Pos(rpos), "the reader's preamble regexp does not compile: "+err.Error())
		return
	}
	if strings.Count(format, "%s") != 1 || strings.Count(format, "%d") != 1 || strings.Count(format, "%") != 2 {
		r.Undecided("C36.R3", key, c.P.Pos(fpos), "preamble format is not of the form ...%s...%d...")
		return
	}
	plen, _ := constant.Int64Val(pl.Val())
	bad := ""
	for _, ip := range []string{"0.0.0.0", "1.2.3.4", "255.255.255.255"} {
		for _, port := range []string{"0", "8080", "65535"} {
			s := strings.Replace(strings.Replace(format, "%s", ip, 1), "%d", port, 1)
			r.Cells++
			loc := rx.FindStringIndex(s)
			switch {
			case loc == nil || loc[0] != 0 || loc[1] != len(s):
				bad = sprintf("the preamble %q the writer prints is not matched by the reader's regexp %q", s, re)
			case int64(len(s)) > plen:
				bad = sprintf("the preamble %q is %d bytes, longer than the %d bytes the reader peeks", s, len(s), plen)
			}
		}
	}
	r.Check(bad == "", "C36.R3", key, c.P.Pos(fpos), "9 instantiations (extreme addresses/ports) match the reader's regexp within preambleLen", bad)
}
