package props

import (
	"go/ast"
	"go/types"
	"strings"

	"verif/checker/absint"
	"verif/checker/core"
)

// c08R6: application calls between SetRemoteDescription(offer) and CreateAnswer. C08.R1 shows the direction a
// transceiver has when SetRemoteDescription returns is a legal answer to the offered one; the answer renders
// Direction() when CreateAnswer runs. In between only setSendingTrack (AddTrack / RemoveTrack / ReplaceTrack paths)
// may move it (C08.R4). A legal answer stays legal for EVERY offered direction exactly when the move only removes
// capabilities: legal(O) is downward closed in {send, recv}. So setSendingTrack, tabulated over (track nil?, current
// direction): with track == nil the new direction's capabilities are a subset of the old one's (never gains recv or
// send); with a track it gains at most `send` (and AddTrack consults the recorded remote direction first: C08.R5).
// c08SendingTable tabulates RTPTransceiver.setSendingTrack over (track nil?, current direction) with setDirection as effect.
func c08SendingTable(c *Ctx, rule string) (t *absint.Table, caps map[string]string, fi *core.FuncInfo) {
	fi = c.mustFunc(rule, "", "RTPTransceiver.setSendingTrack")
	setDirection := c.mustFunc(rule, "", "RTPTransceiver.setDirection")
	direction := c.mustFunc(rule, "", "RTPTransceiver.Direction")
	if fi == nil || setDirection == nil || direction == nil {
		return nil, nil, nil
	}
	dom, ok := enumDomain(c, rule, "", "RTPTransceiverDirection", 77)
	if !ok {
		return nil, nil, nil
	}
	caps = map[string]string{}
	for _, n := range []struct{ k, v string }{{"RTPTransceiverDirectionSendrecv", "sr"}, {"RTPTransceiverDirectionSendonly", "s"}, {"RTPTransceiverDirectionRecvonly", "r"}, {"RTPTransceiverDirectionInactive", ""}} {
		k := c.mustConst(rule, "", n.k)
		if k == nil {
			return nil, nil, nil
		}
		caps[absint.ConstOf(k).String()] = n.v
	}
	dims := []absint.Dim{
		{Key: "$p0", Domain: []absint.Val{absint.Nil{}, absint.NonNil{Desc: "track"}}},
		{Key: c08DirKey, Domain: dom},
	}
	cfg := absint.Config{P: c.P, Dims: dims, MaxPaths: 20000,
		Inline: func(fn *types.Func) bool { return c13ValueHelper(fn) },
		OnCall: func(in *absint.Interp, st *absint.State, call *ast.CallExpr, fn *types.Func, recv absint.Val, args []absint.Val) (absint.Val, bool) {
			switch fn {
			case setDirection.Obj:
				if len(args) == 1 {
					st.SetDim(c08DirKey, args[0])
					st.Emit("dir=" + args[0].String())
					return absint.Tuple{}, true
				}
			case direction.Obj:
				if v, ok := st.Dim(c08DirKey); ok {
					return v, true
				}
			}
			return nil, false
		},
	}
	t = absint.Tabulate(cfg, fi)
	if tableProblems(c, rule, "setSendingTrack|table", c.P.Pos(fi.Decl.Pos()), t) {
		return nil, nil, nil
	}
	return t, caps, fi
}

const c08DirKey = "$recv.Direction()"

// c04R6 (C04): "after a change that requires renegotiation, such as adding a track ..., it fires": checkNegotiationNeeded
// sees an AddTrack / RemoveTrack on an already negotiated transceiver only through the transceiver's direction, so
// setSendingTrack must move it as W3C addTrack/removeTrack prescribe. Same table as C08.R6, judged for completeness:
// every successful outcome with a track ends in a sending direction (recvonly -> sendrecv, inactive -> sendonly), every
// successful outcome without one in a non-sending direction (sendrecv -> recvonly, sendonly -> inactive).
func c04R6(c *Ctx) {
	r := c.R
	const rule = "C04.R6"
	t, caps, fi := c08SendingTable(c, rule)
	if t == nil {
		return
	}
	pos := c.P.Pos(fi.Decl.Pos())
	r.Cells += len(t.Rows)
	for _, row := range t.Rows {
		old := row.Get(c08DirKey)
		oc, known := caps[old]
		if !known {
			continue
		}
		trackNil := row.Get("$p0") == "nil"
		key := "setSendingTrack|cell|track-nil=" + sprintf("%v", trackNil) + ",direction=" + old
		var bad []string
		for _, o := range row.Outcomes {
			if len(o.Results) != 1 {
				continue
			}
			if _, isNil := o.Results[0].(absint.Nil); !isNil {
				continue // a failing call changes nothing that needs negotiating
			}
			final := old
			for _, ev := range o.Trace {
				if strings.HasPrefix(ev, "dir=") {
					final = strings.TrimPrefix(ev, "dir=")
				}
			}
			fc, fk := caps[final]
			if !fk {
				continue
			}
			sends := strings.Contains(fc, "s")
			switch {
			case !trackNil && !sends:
				bad = append(bad, "a track was set but the direction stays "+final)
			case trackNil && sends:
				bad = append(bad, "the track was removed but the direction stays "+final)
			}
			_ = oc
		}
		r.Check(len(bad) == 0, rule, key, pos, "a successful call leaves a direction that sends iff a track is set (outcomes: "+outcomesStr(row.Outcomes)+")",
			strings.Join(bad, "; ")+": the transceiver's direction still matches what was negotiated, so checkNegotiationNeeded answers false and negotiationneeded never fires for this AddTrack/RemoveTrack")
	}
}

func c08R6(c *Ctx) {
	r := c.R
	const rule = "C08.R6"
	const dirKey = c08DirKey
	t, caps, fi := c08SendingTable(c, rule)
	if t == nil {
		return
	}
	pos := c.P.Pos(fi.Decl.Pos())
	r.Cells += len(t.Rows)
	subset := func(a, b string) bool {
		for _, ch := range a {
			if !strings.ContainsRune(b, ch) {
				return false
			}
		}
		return true
	}
	for _, row := range t.Rows {
		old := row.Get(dirKey)
		oc, known := caps[old]
		if !known {
			continue // a direction that is none of the four never reaches an answer through C08.R1's table
		}
		trackNil := row.Get("$p0") == "nil"
		key := "setSendingTrack|cell|track-nil=" + sprintf("%v", trackNil) + ",direction=" + old
		allowed := oc
		if !trackNil && !strings.Contains(allowed, "s") {
			allowed += "s"
		}
		var bad []string
		for _, o := range row.Outcomes {
			final, seen := old, false
			for _, ev := range o.Trace {
				if strings.HasPrefix(ev, "dir=") {
					final, seen = strings.TrimPrefix(ev, "dir="), true
				}
			}
			if !seen {
				continue
			}
			fc, fk := caps[final]
			if !fk {
				bad = append(bad, "direction becomes "+final+" (not one of the four)")
			} else if !subset(fc, allowed) {
				bad = append(bad, old+" -> "+final)
			}
		}
		what := "removing the track only removes capabilities"
		if !trackNil {
			what = "setting a track adds at most `send`"
		}
		r.Check(len(bad) == 0, rule, key, pos, what+" (outcomes: "+outcomesStr(row.Outcomes)+")",
			"setSendingTrack moves the direction "+strings.Join(bad, "; ")+": a transceiver whose direction was a legal answer when SetRemoteDescription returned can gain a capability the offer did not allow before CreateAnswer renders it (e.g. RemoveTrack after a recvonly offer narrowed it to sendonly)")
	}
}

// c08R7: "the answer never sends where the offer did not agree to receive". AddTrack between or after negotiations picks a
// transceiver for sending only when isSendAllowed says so; C08.R5 makes sure the remote direction of every negotiated
// section is recorded. This rule closes the loop: isSendAllowed, tabulated over (current direction, recorded remote
// direction), never answers true when the recorded remote direction is sendonly or inactive (the remote does not receive).
func c08R7(c *Ctx) {
	r := c.R
	const rule = "C08.R7"
	fi := c.mustFunc(rule, "", "RTPTransceiver.isSendAllowed")
	curFn := c.mustFunc(rule, "", "RTPTransceiver.getCurrentDirection")
	remFn := c.mustFunc(rule, "", "RTPTransceiver.getCurrentRemoteDirection")
	sendonly := c.mustConst(rule, "", "RTPTransceiverDirectionSendonly")
	inactive := c.mustConst(rule, "", "RTPTransceiverDirectionInactive")
	if fi == nil || curFn == nil || remFn == nil || sendonly == nil || inactive == nil {
		return
	}
	dom, ok := enumDomain(c, rule, "", "RTPTransceiverDirection", 77)
	if !ok {
		return
	}
	const curKey, remKey = "$recv.getCurrentDirection()", "$recv.getCurrentRemoteDirection()"
	cfg := absint.Config{P: c.P, MaxPaths: 20000,
		Dims: []absint.Dim{{Key: curKey, Domain: dom}, {Key: remKey, Domain: dom}},
		OnCall: func(in *absint.Interp, st *absint.State, call *ast.CallExpr, fn *types.Func, recv absint.Val, args []absint.Val) (absint.Val, bool) {
			switch fn {
			case curFn.Obj:
				if v, ok := st.Dim(curKey); ok {
					return v, true
				}
			case remFn.Obj:
				if v, ok := st.Dim(remKey); ok {
					return v, true
				}
			}
			return nil, false
		},
	}
	t := absint.Tabulate(cfg, fi)
	pos := c.P.Pos(fi.Decl.Pos())
	if tableProblems(c, rule, "isSendAllowed|table", pos, t) {
		return
	}
	r.Cells += len(t.Rows)
	blocked := map[string]bool{absint.ConstOf(sendonly).String(): true, absint.ConstOf(inactive).String(): true}
	for _, row := range t.Rows {
		rem := row.Get(remKey)
		if !blocked[rem] {
			continue
		}
		key := "isSendAllowed|cell|current=" + row.Get(curKey) + ",remote=" + rem
		mayTrue := false
		for _, o := range row.Outcomes {
			if len(o.Results) != 1 {
				mayTrue = true
				continue
			}
			if o.Results[0].String() != "false" {
				mayTrue = true
			}
		}
		r.Check(!mayTrue, rule, key, pos, "never allowed to send (outcomes: "+outcomesStr(row.Outcomes)+")",
			"isSendAllowed can answer true although the recorded remote direction is "+rem+" (the remote does not receive): AddTrack re-uses the transceiver for sending and the next answer to a sendonly/inactive offer says sendrecv/sendonly (outcomes: "+outcomesStr(row.Outcomes)+")")
	}
}
