package props

import (
	"fmt"
	"os"
	"sort"
	"strings"
	"time"

	"verif/checker/core"
	"verif/checker/e4"
)

// e4Ledger is a frozen table of residual obligations that were accepted after
// reading the code: key = "function | operand expression | kind:goal" (no line
// numbers), value = the written justification. Ledger entries are reading, not
// proof; the evidence counts them separately.
type e4Ledger map[string]string

// e4Scope describes what one property analyses.
type e4Scope struct {
	Prop     string
	Pkgs     []string                     // module-relative package paths compiled with the bounds-check report
	InScope  func(fi *core.FuncInfo) bool // functions whose obligations are judged
	Ledger   e4Ledger
	External map[string]string // accepted reasons for inlined external callees, keyed like the ledger
	// rule ids
	RBounds, RPanic, RArith, RInfra string
}

type e4Stats struct {
	Sites, KeptSites, SilentSites, Residual, Silent, ByCompiler, ByRule, ByLedger, Failed, Suspects, OutOfScope int
	Syntactic                                                                                                   int
	CompileMS, AnalyseMS                                                                                        int64
	SuspectKeys                                                                                                 []string
	ByKind                                                                                                      map[string]map[string]int
}

// e4Run executes engine E4 for one property on program p and reports into c.R.
// suffix distinguishes build configurations in construct keys ("" for the default one).
//
// Only the default configuration (linux/amd64) is judged. A secondary configuration (suffix "@386",
// thorough tier) is analysed with int/uint 32 bits wide; what cannot be proved there is LISTED as a
// suspect (r.Info) and counted in the evidence, not judged: the sandbox cannot execute 32-bit
// binaries, so a suspected 32-bit defect can neither be shown against the real code nor dismissed,
// and the builder's guide forbids parking unreproduced findings.
func e4Run(c *Ctx, p *core.Program, sc *e4Scope, suffix string) *e4Stats {
	r := c.R
	st := &e4Stats{ByKind: map[string]map[string]int{}}
	count := func(kind, how string) {
		if st.ByKind[kind] == nil {
			st.ByKind[kind] = map[string]int{}
		}
		st.ByKind[kind][how]++
	}
	eng := e4.NewEngine(p)
	var pkgPaths []string
	for _, rel := range sc.Pkgs {
		if p.Pkg(rel) == nil {
			r.Fail(sc.RInfra, "anchor:package "+rel+suffix, "-", "scoped package no longer exists (fails closed)")
			return st
		}
		pp := core.ModPath
		if rel != "" {
			pp += "/" + rel
		}
		pkgPaths = append(pkgPaths, pp)
	}
	t0 := time.Now()
	res, err := e4.RunBCE(p.Repo, p.GOARCH, pkgPaths)
	st.CompileMS = time.Since(t0).Milliseconds()
	t1 := time.Now()
	defer func() { st.AnalyseMS = time.Since(t1).Milliseconds() }()
	if err != nil {
		r.Fail(sc.RInfra, "compiler-residuals"+suffix, "-", "cannot obtain the compiler's residual bounds checks: "+err.Error())
		return st
	}
	r.OK(sc.RInfra, "compiler-canary"+suffix, "-", "the prove-pass report flags the unprovable canary access and not the guarded one")

	debug := os.Getenv("VERIF_E4_DEBUG") != ""
	usedLedger := map[string]bool{}
	type agg struct {
		key, pos   string
		n          int
		fails      []string
		hows       map[string]bool
		ledgerWhy  string
		rule       string
		undecided  bool
		compilerOb bool
	}
	aggs := map[string]*agg{}
	var order []string
	note := func(rule, key, pos string) *agg {
		k := rule + "\x00" + key
		a := aggs[k]
		if a == nil {
			a = &agg{key: key, pos: pos, hows: map[string]bool{}, rule: rule}
			aggs[k] = a
			order = append(order, k)
		}
		a.n++
		return a
	}

	scopedFuncs := map[*core.FuncInfo]bool{}
	var scoped []*core.FuncInfo
	for _, fi := range p.AllFuncs() {
		if fi.Decl.Body != nil && sc.InScope(fi) {
			scopedFuncs[fi] = true
			scoped = append(scoped, fi)
		}
	}
	// scope closure: an unexported function all of whose static callers are in scope (and that is never used as a
	// value) is code extracted from the scoped functions; its bounds checks belong to the same property.
	{
		calls := p.BuildStaticCalls()
		pkgs := map[string]bool{}
		for _, fi := range scoped {
			pkgs[fi.Pkg.PkgPath] = true
		}
		for changed := true; changed; {
			changed = false
			for _, fi := range p.AllFuncs() {
				if fi.Decl.Body == nil || scopedFuncs[fi] || !pkgs[fi.Pkg.PkgPath] || fi.Obj == nil || fi.Obj.Exported() {
					continue
				}
				callers := calls.Callers[fi.Obj]
				if len(callers) == 0 || len(calls.ValueRefs[fi.Obj]) > 0 {
					continue
				}
				ok := true
				for cf := range callers {
					if d := p.DeclOf(cf); d == nil || !scopedFuncs[d] {
						ok = false
					}
				}
				if ok {
					scopedFuncs[fi] = true
					scoped = append(scoped, fi)
					changed = true
				}
			}
		}
	}
	inScopeCtx := func(cx *e4.FnCtx) bool { return cx != nil && scopedFuncs[cx.Owner] }

	// total bounds-checked sites of the scoped functions (for the compiler-discharged count)
	for _, fi := range scoped {
		st.Sites += eng.CountBoundsSites(fi)
		r.Saw(fi.Name())
	}

	judge := func(ob *e4.Obligation, rule string) {
		eng.Discharge(ob)
		pos := p.Pos(ob.Pos)
		if ob.Kind == "narrow" {
			// a narrowing conversion cannot panic; its result is modelled as an arbitrary value of the target
			// type unless the operand is proved in range, so any later index/make/division that depends on it
			// is judged there. Listed, not judged.
			d := "operand proved in range"
			if !ob.Proved() {
				d = "may truncate (cannot panic; the result is treated as unknown by the bounds proofs)"
				count(ob.Kind, "may-truncate")
			} else {
				count(ob.Kind, "in-range")
			}
			r.Info(rule, ob.Key()+suffix, pos, d)
			return
		}
		if len(ob.Goals) == 0 {
			a := note(rule, ob.Key()+suffix, pos)
			switch ob.Kind {
			case "inlined":
				// a check inlined from a module function: the callee's own body carries the obligation
				callee := p.DeclOf(ob.Callee)
				if callee != nil && scopedFuncs[callee] {
					a.hows["the inlined callee "+callee.Name()+" is analysed itself"] = true
					count(ob.Kind, "rule")
				} else {
					a.undecided = true
					a.fails = append(a.fails, "bounds check inlined from "+core.FuncName(ob.Callee)+", which is outside the analysed scope")
				}
			default:
				a.hows["no run-time check needed"] = true
				count(ob.Kind, "rule")
			}
			return
		}
		for _, g := range ob.Goals {
			key := ob.GoalKey(g) + suffix
			a := note(rule, key, pos)
			a.compilerOb = ob.Compiler
			if g.Proved {
				a.hows[g.How] = true
				count(ob.Kind, "rule")
				continue
			}
			lk := ob.GoalKey(g)
			if why, ok := sc.Ledger[lk]; ok {
				usedLedger[lk] = true
				a.ledgerWhy = why
				count(ob.Kind, "ledger")
				continue
			}
			count(ob.Kind, "failed")
			d := "not implied by the dominating guards, definitions, range loops, caller-side guards or callee post-conditions, and not in the ledger"
			if g.NoLin {
				d = "no structural rule applies and there is no ledger entry"
			}
			if debug {
				d += "\n  " + eng.Explain(ob)
			}
			a.fails = append(a.fails, g.Name+": "+d)
		}
	}

	for _, pp := range pkgPaths {
		br := res[pp]
		rel := strings.TrimPrefix(strings.TrimPrefix(pp, core.ModPath), "/")
		pk := p.Pkg(rel)
		m := eng.MapBCE(br, pk)
		for _, d := range m.Unmapped {
			r.Undecided(sc.RInfra, sprintf("unmapped-diagnostic|%s|%s%s", relFile(p, d.File), d.Kind, suffix), sprintf("%s:%d:%d", relFile(p, d.File), d.Line, d.Col),
				"a residual bounds check reported by the compiler could not be attributed to an index/slice/call expression of a function (fails closed)")
		}
		ext := map[string]int{}
		for _, d := range m.External {
			ext[relFile(p, d.File)]++
		}
		var extNames []string
		for f, n := range ext {
			extNames = append(extNames, sprintf("%s×%d", f, n))
		}
		sort.Strings(extNames)
		if len(extNames) > 0 {
			r.Info(sc.RBounds, "external-instantiations|"+rel+suffix, "-", "residual checks inside code of other modules instantiated/inlined into this package (not judged: "+strings.Join(extNames, ", ")+")")
		}
		outside := map[string]int{}
		for _, ob := range m.Obligations {
			if !inScopeCtx(ob.Ctx) {
				outside[ob.Func]++
				st.OutOfScope++
			}
		}
		if len(outside) > 0 {
			var names []string
			for f, n := range outside {
				names = append(names, sprintf("%s×%d", f, n))
			}
			sort.Strings(names)
			r.Info(sc.RBounds, "outside-scope|"+rel+suffix, "-", sprintf("%d residual bounds checks in %d functions of this package that are outside the property's scope (listed, not judged): %s", st.OutOfScope, len(outside), strings.Join(names, ", ")))
		}
		for _, ob := range m.Obligations {
			if !inScopeCtx(ob.Ctx) {
				continue
			}
			st.Residual++
			if ob.Disproved && suffix != "" {
				r.Info(sc.RBounds, ob.Key()+":refuted"+suffix, p.Pos(ob.Pos), "SUSPECT: the prove pass refutes this check on this configuration")
				st.Suspects++
				continue
			}
			if ob.Disproved {
				r.Fail(sc.RBounds, ob.Key()+":refuted"+suffix, p.Pos(ob.Pos), "the compiler's prove pass shows this bounds check fails whenever it is reached (Disproved "+ob.Kind+")")
				st.Failed++
				count(ob.Kind, "refuted")
				continue
			}
			judge(ob, sc.RBounds)
		}
		// checks that vanished before the prove pass (constant folding, CSE): decided here, never assumed
		for _, fi := range scoped {
			if fi.Pkg != pk {
				continue
			}
			pr, kp, rf, sl := eng.SiteCounts(fi, m.Decided)
			st.ByCompiler += pr
			st.KeptSites += kp + rf
			st.SilentSites += sl
			for _, ob := range eng.SilentSites(fi, m.Decided) {
				st.Silent++
				ob.Kind += "*" // marks "not reported by the prove pass" in keys and statistics
				judge(ob, sc.RBounds)
			}
		}
	}
	for _, fi := range scoped {
		for _, ob := range eng.Syntactic(fi) {
			st.Syntactic++
			rule := sc.RArith
			if ob.Kind == "panic" || ob.Kind == "assert" {
				rule = sc.RPanic
			}
			judge(ob, rule)
		}
	}

	if debug {
		for _, k := range order {
			a := aggs[k]
			fmt.Fprintf(os.Stderr, "E4 %s %s @ %s: fails=%d ledger=%q hows=%v\n", a.rule, a.key, a.pos, len(a.fails), a.ledgerWhy, a.hows)
			if os.Getenv("VERIF_E4_DEBUG") == "3" {
				for _, f := range a.fails {
					fmt.Fprintf(os.Stderr, "   FAIL %s\n", f)
				}
			}
		}
	}
	for _, k := range order {
		a := aggs[k]
		mult := ""
		if a.n > 1 {
			mult = sprintf(" (%d occurrences)", a.n)
		}
		switch {
		case len(a.fails) > 0 && suffix != "":
			// secondary build configuration: listed as a suspect, not judged (see e4Run's doc comment)
			r.Info(a.rule, a.key, a.pos, "SUSPECT on this configuration only — not provable here although the default configuration is: "+strings.Join(a.fails, "; ")+mult)
			st.Suspects++
			st.SuspectKeys = append(st.SuspectKeys, a.key+" @ "+a.pos)
		case len(a.fails) > 0 && a.undecided:
			r.Undecided(a.rule, a.key, a.pos, strings.Join(a.fails, "; ")+mult)
			st.Failed++
		case len(a.fails) > 0:
			r.Fail(a.rule, a.key, a.pos, "unproven: "+strings.Join(a.fails, "; ")+mult)
			st.Failed++
		case a.ledgerWhy != "":
			r.OK(a.rule, a.key, a.pos, "ledger: "+a.ledgerWhy+mult)
			st.ByLedger++
		default:
			var hs []string
			for h := range a.hows {
				hs = append(hs, h)
			}
			sort.Strings(hs)
			r.OK(a.rule, a.key, a.pos, "proved: "+strings.Join(hs, "; ")+mult)
			st.ByRule++
		}
	}
	// ledger hygiene (only meaningful for the configuration the ledger was written for)
	if suffix == "" {
		var stale []string
		for k := range sc.Ledger {
			if !usedLedger[k] {
				stale = append(stale, k)
			}
		}
		sort.Strings(stale)
		for _, k := range stale {
			// Listed, not judged: an unused justification proves nothing wrong about the code (the obligation it covered was removed, moved or became provable); a moved obligation shows up as an unproven one under its new key.
			r.Info(sc.RInfra, "stale-ledger|"+k, "-", "ledger entry matches no undischarged obligation any more (the code changed: re-read it and update the ledger)")
		}
		if len(stale) == 0 {
			r.OK(sc.RInfra, "ledger-hygiene", "-", sprintf("all %d ledger entries match a live residual obligation", len(sc.Ledger)))
		}
	}
	r.Cells += eng.ProveCalls
	return st
}

func relFile(p *core.Program, f string) string {
	return strings.TrimPrefix(f, p.Repo+"/")
}

func e4Extra(r *core.Report, tag string, st *e4Stats) {
	r.Extra["bounds_sites"+tag] = st.Sites
	r.Extra["sites_kept_by_compiler"+tag] = st.KeptSites
	r.Extra["sites_folded_before_prove"+tag] = st.SilentSites
	r.Extra["compiler_residual_obligations"+tag] = st.Residual
	r.Extra["discharged_by_compiler"+tag] = st.ByCompiler
	r.Extra["discharged_by_rule"+tag] = st.ByRule
	r.Extra["accepted_by_ledger"+tag] = st.ByLedger
	r.Extra["undischarged"+tag] = st.Failed
	r.Extra["suspects_not_judged"+tag] = st.Suspects
	if len(st.SuspectKeys) > 0 {
		r.Extra["suspect_constructs"+tag] = st.SuspectKeys
	}
	r.Extra["residual_outside_scope"+tag] = st.OutOfScope
	r.Extra["syntactic_obligations"+tag] = st.Syntactic
	r.Extra["by_kind"+tag] = st.ByKind
	r.Extra["engine_ms"+tag] = map[string]int64{"compile_scoped_packages": st.CompileMS, "map_and_discharge": st.AnalyseMS}
}

var _ = fmt.Sprintf
