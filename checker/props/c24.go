package props

import (
	"go/ast"
	"go/constant"
	"go/token"
	"go/types"
	"regexp"
	"sort"
	"strings"
	"time"

	"verif/checker/core"
)

func init() {
	register(&Prop{
		ID:        "C24",
		Engine:    "e3lock+e2cfg",
		Technique: "lock-region (atomicity) rule for the 'who emits the nil end-of-gathering marker' decision on both sides (gatherer callback: publication of Complete + pool test; flushCandidates: read of the completion state + emptying of the pool); guarded-by sweep of the pool fields; path rules for pooled-xor-emitted and exactly-once flushing",
		LevelText: "The decision which side emits the nil marker is made from two shared facts (gatherer state, pool present). The check requires each side to read/write its pair of facts inside one critical section of candidatePoolLock, which rules out every interleaving in which both sides (or neither) emit the marker; it further requires every access to the pool that feeds an emission to hold that lock, every non-nil candidate to be pooled or emitted but never both on every path of the callback, and flushCandidates to swap the pool out atomically, empty it before emitting, and emit each pooled candidate exactly once per iteration with the nil marker last.",
		LevelNote: "Trusted: go/cfg, the must-lockset analysis, sync/atomic semantics, pion/ice invoking OnCandidate with nil exactly once at the end. Does not decide the relative order of the flush's emissions and concurrent direct emissions (a candidate can still follow the marker across goroutines).",
		DesignRef: "DESIGN.md §5 C24",
		Run:       runC24,
	})
}

const c24PoolLockClass = "ICEGatherer.candidatePoolLock"

var c24BaseRe = regexp.MustCompile(`(\$recv|free:[A-Za-z_][A-Za-z0-9_]*)\.`)

type c24ctx struct {
	c         *Ctx
	info      *types.Info
	pkg       *types.Package
	stateF    *types.Var
	poolF     *types.Var
	sizeF     *types.Var
	lockF     *types.Var
	complete  *types.Const
	stateT    types.Type
	candPtrT  types.Type // *ICECandidate
	memoPub   map[*types.Func]int
	memoRead  map[*types.Func]int
	memoStore map[*types.Func][]int
	// bodies whose pool reads feed an emission decision
	emissionBodies map[*core.Graph]bool
}

func runC24(c *Ctx) {
	r := c.R
	t0 := time.Now()
	defer func() { r.Extra["rule_eval_s"] = time.Since(t0).Seconds() }()
	r.Rule("C24.R1", "the decision who emits the nil end-of-gathering marker is atomic on both sides: in the gatherer's OnCandidate callback the publication of ICEGathererStateComplete and the test of the candidate pool, and in flushCandidates the read of the gatherer state that decides the marker and the emptying of the pool, each pair lies in one critical section of candidatePoolLock; the callback's marker is guarded by a pool test and the flush's marker by a test of the gatherer state", 4)
	r.Rule("C24.R4", "one marker per gathering across repeated flushes: flushCandidates' nil marker is reached only through a branch that requires a sample of the pool predicate taken before the pool is emptied, in the emptying critical section (a flush that finds the pool already inactive - second SetLocalDescription, pool size 0 - emits no marker, because the callback reported it)", 1)
	r.Rule("C24.R5", "the agent callback resolves the candidate handler when the candidate arrives: every handler variable it invokes is declared inside the callback literal, not captured from Gather() (with a pool, gathering starts before OnICECandidate can be registered)", 2)
	r.Rule("C24.R6", "no candidate after the marker: the flush's deliveries of pooled candidates are ordered before any marker the callback may report - they happen inside the critical section that takes the pool, or that section raises an in-progress field the callback's marker decision reads", 1)
	r.Rule("C24.R2", "guarded-by: every write of candidatePool / iceCandidatePoolSize anywhere in the module, and every read of them in the callback and in flushCandidates, holds candidatePoolLock", 5)
	r.Rule("C24.R3", "path rules: in the callback a non-nil candidate is appended to the pool or handed to the handler, never both and (unless its conversion failed) at least one, the pool test and the append share one critical section; flushCandidates snapshots and empties the pool in one critical section, before any emission, ranges over the snapshot, emits exactly one candidate per iteration (or skips a failed conversion) and emits the nil marker after the last candidate; the callback pools candidates and defers the marker under the same predicate; the handler is obtained only by these bodies", 10)
	r.NotCovered = append(r.NotCovered,
		"relative order of flushCandidates' emissions and concurrent direct emissions from the callback (a candidate may still be reported after the marker when the flush has read state=gathering and the callback then completes)",
		"that pion/ice calls OnCandidate(nil) exactly once and after all candidates",
		"reads of iceCandidatePoolSize outside the emission paths (ICEGatherer.updateServers reads it under g.lock only: a data race with flushCandidates, listed as not-judged; belongs to C40)")
	r.Trusted = append(r.Trusted, "must-lockset analysis (core/locks.go)", "sync/atomic store/load are the only accesses to ICEGatherer.state (checked: any other access is UNDECIDED)")

	gather := c.mustFunc("C24.R1", "", "ICEGatherer.Gather")
	flush := c.mustFunc("C24.R1", "", "ICEGatherer.flushCandidates")
	x := &c24ctx{c: c, memoPub: map[*types.Func]int{}, memoRead: map[*types.Func]int{}, memoStore: map[*types.Func][]int{}}
	x.stateF = c.mustField("C24.R1", "", "ICEGatherer", "state")
	x.poolF = c.mustField("C24.R2", "", "ICEGatherer", "candidatePool")
	x.sizeF = c.mustField("C24.R2", "", "ICEGatherer", "iceCandidatePoolSize")
	x.lockF = c.mustField("C24.R1", "", "ICEGatherer", "candidatePoolLock")
	x.complete = c.mustConst("C24.R1", "", "ICEGathererStateComplete")
	cand := c.P.Named("", "ICECandidate")
	if cand == nil {
		r.Fail("C24.R1", "anchor:/ICECandidate", "-", "anchored type no longer resolves (fails closed)")
	}
	if gather == nil || flush == nil || x.stateF == nil || x.poolF == nil || x.sizeF == nil || x.lockF == nil || x.complete == nil || cand == nil {
		return
	}
	x.info = gather.Pkg.TypesInfo
	x.pkg = gather.Pkg.Types
	x.stateT = x.complete.Type()
	x.candPtrT = types.NewPointer(cand)

	// the callback handed to (*ice.Agent).OnCandidate
	gg := c.P.GraphOf(gather)
	var cb *core.Graph
	cbName := ""
	nReg := 0
	for _, n := range gg.Nodes {
		if n.Ast == nil {
			continue
		}
		for _, call := range core.CallsIn(n.Ast) {
			if !core.CalleeIs(x.info, call, "github.com/pion/ice/v4", "Agent.OnCandidate") || len(call.Args) != 1 {
				continue
			}
			nReg++
			cb, cbName = x.resolveCallback(call.Args[0])
		}
	}
	if nReg != 1 || cb == nil {
		r.Undecided("C24.R1", "(*ICEGatherer).Gather|OnCandidate-callback", c.P.Pos(gather.Decl.Pos()), sprintf("expected exactly one agent.OnCandidate(<function literal or method>) registration in Gather, found %d (callback resolved: %v)", nReg, cb != nil))
		return
	}
	r.Saw("(*ICEGatherer).Gather$OnCandidate")

	// The end-of-gathering path and the pooling path may have been extracted into
	// helpers: pick, among the callback and its same-package callees, the body that
	// emits the nil marker and the body that appends to the pool.
	bodies := x.calleeBodies(cb, cbName, 2)
	nilBody, nilName, nNil := cb, cbName, 0
	poolBody, poolName, nPool := cb, cbName, 0
	for _, b := range bodies {
		if len(x.nilEmissions(b.g)) > 0 {
			nNil++
			nilBody, nilName = b.g, b.name
		}
		if len(x.candidateAppends(b.g)) > 0 {
			nPool++
			poolBody, poolName = b.g, b.name
		}
	}
	if nNil > 1 || nPool > 1 {
		r.Undecided("C24.R1", cbName+"|callback-bodies", c.P.Pos(cb.Fn.Pos()), sprintf("the nil marker is emitted in %d and the pool appended in %d different functions reachable from the callback: cannot attribute the decision to one body", nNil, nPool))
		return
	}
	x.emissionBodies = map[*core.Graph]bool{cb: true, nilBody: true, poolBody: true, c.P.GraphOf(flush): true}

	x.handlerUsers(gather, flush, bodies)
	x.r1Callback(nilBody, nilName)
	x.r1Flush(flush)
	x.r2(cb, cbName, flush)
	x.r3Callback(poolBody, poolName, nilBody, nilName)
	x.r3Flush(flush)
	x.r4Flush(flush, nilBody) // c24b.go
	x.r5Callback(cb, cbName, bodies)
	x.r6Order(flush, nilBody)
}

// handlerUsers: the candidate handler is obtained only by the bodies this check analyses
// (the callback and what it calls, flushCandidates) and stored by OnLocalCandidate.
func (x *c24ctx) handlerUsers(gather, flush *core.FuncInfo, bodies []c24Body) {
	c, r := x.c, x.c.R
	hf := c.mustField("C24.R3", "", "ICEGatherer", "onLocalCandidateHandler")
	if hf == nil {
		return
	}
	allowed := map[*core.FuncInfo]bool{gather: true, flush: true}
	for _, b := range bodies {
		if b.g.Owner != nil {
			allowed[b.g.Owner] = true
		}
	}
	var others []string
	pos := "-"
	n := 0
	for _, fi := range c.P.AllFuncs() {
		if fi.Decl.Body == nil {
			continue
		}
		info := fi.Pkg.TypesInfo
		ast.Inspect(fi.Decl.Body, func(y ast.Node) bool {
			se, ok := y.(*ast.SelectorExpr)
			if !ok || core.FieldOf(info, se) != hf {
				return true
			}
			n++
			if allowed[fi] {
				return true
			}
			// a plain Store of a new handler is fine (OnLocalCandidate)
			store := false
			ast.Inspect(fi.Decl.Body, func(z ast.Node) bool {
				if call, ok := z.(*ast.CallExpr); ok {
					if s2, ok := ast.Unparen(call.Fun).(*ast.SelectorExpr); ok && ast.Unparen(s2.X) == ast.Expr(se) && s2.Sel.Name == "Store" {
						store = true
					}
				}
				return true
			})
			if !store {
				others = append(others, fi.Name())
				pos = c.P.Pos(se.Pos())
			}
			return true
		})
	}
	r.Check(len(others) == 0 && n >= 3, "C24.R3", "candidate-handler|obtained-only-by-callback-and-flushCandidates", pos, sprintf("%d uses of ICEGatherer.onLocalCandidateHandler, all in the analysed bodies or a Store", n),
		sprintf("the candidate handler is also obtained in %v: emissions from there are not covered by the once/marker rules", others))
}

type c24Body struct {
	g    *core.Graph
	name string
}

// calleeBodies returns root and the bodies of same-package declared functions it calls (not via go), depth-bounded.
func (x *c24ctx) calleeBodies(root *core.Graph, rootName string, depth int) []c24Body {
	out := []c24Body{{root, rootName}}
	seen := map[*core.Graph]bool{root: true}
	var walk func(g *core.Graph, d int)
	walk = func(g *core.Graph, d int) {
		if d <= 0 {
			return
		}
		for _, n := range g.Nodes {
			if n.Ast == nil {
				continue
			}
			if _, isGo := n.Ast.(*ast.GoStmt); isGo {
				continue
			}
			for _, call := range core.CallsIn(n.Ast) {
				fi := x.c.P.DeclOf(core.Callee(g.Info, call))
				if fi == nil || fi.Decl.Body == nil || fi.Pkg.Types != x.pkg {
					continue
				}
				cg := x.c.P.GraphOf(fi)
				if seen[cg] {
					continue
				}
				seen[cg] = true
				out = append(out, c24Body{cg, fi.Name()})
				walk(cg, d-1)
			}
		}
	}
	walk(root, depth)
	return out
}

// candidateVar returns the parameter of type ice.Candidate of the body (nil if none or several).
func (x *c24ctx) candidateVar(g *core.Graph) *types.Var {
	_, params := c24Params(g)
	var out *types.Var
	for _, p := range params {
		if n, ok := p.Type().(*types.Named); ok && n.Obj().Pkg() != nil && n.Obj().Pkg().Path() == "github.com/pion/ice/v4" && n.Obj().Name() == "Candidate" {
			if out != nil {
				return nil
			}
			out = p
		}
	}
	return out
}

// candidateAppends lists the nodes `pool = append(pool, <candidate parameter>)`.
func (x *c24ctx) candidateAppends(g *core.Graph) []int {
	candVar := x.candidateVar(g)
	if candVar == nil {
		return nil
	}
	var appends []int
	for _, n := range g.Nodes {
		as, ok := n.Ast.(*ast.AssignStmt)
		if !ok {
			continue
		}
		for i, l := range as.Lhs {
			if core.FieldOf(g.Info, l) != x.poolF || len(as.Rhs) != len(as.Lhs) {
				continue
			}
			if call, ok := ast.Unparen(as.Rhs[i]).(*ast.CallExpr); ok {
				if id, ok := call.Fun.(*ast.Ident); ok {
					if b, ok := g.Info.Uses[id].(*types.Builtin); ok && b.Name() == "append" && core.UsesVar(g.Info, call, candVar) {
						appends = append(appends, n.ID)
					}
				}
			}
		}
	}
	return c24Filter(appends, g.Live())
}

// resolveCallback returns the graph of the callback body: a function literal, a
// method value / function name, or a literal that only forwards to one.
func (x *c24ctx) resolveCallback(arg ast.Expr) (*core.Graph, string) {
	c := x.c
	arg = ast.Unparen(arg)
	if fl, ok := arg.(*ast.FuncLit); ok {
		g := c.P.GraphOfLit(fl)
		return g, "(*ICEGatherer).Gather$OnCandidate"
	}
	var obj types.Object
	switch a := arg.(type) {
	case *ast.Ident:
		obj = x.info.Uses[a]
	case *ast.SelectorExpr:
		obj = x.info.Uses[a.Sel]
	}
	if fn, ok := obj.(*types.Func); ok {
		if fi := c.P.DeclOf(fn); fi != nil && fi.Decl.Body != nil {
			return c.P.GraphOf(fi), fi.Name()
		}
	}
	return nil, ""
}

// ---- classification of accesses to ICEGatherer.state ----

// atomicKind classifies a sync/atomic function: "store", "load" or "".
func c24AtomicKind(fn *types.Func) string {
	if fn == nil || fn.Pkg() == nil || fn.Pkg().Path() != "sync/atomic" {
		return ""
	}
	switch {
	case strings.HasPrefix(fn.Name(), "Load"):
		return "load"
	case strings.HasPrefix(fn.Name(), "Store"), strings.HasPrefix(fn.Name(), "Swap"), strings.HasPrefix(fn.Name(), "CompareAndSwap"), strings.HasPrefix(fn.Name(), "Add"), strings.HasPrefix(fn.Name(), "And"), strings.HasPrefix(fn.Name(), "Or"):
		return "store"
	}
	return ""
}

// stripConv removes conversions and parentheses: (*uint32)(p) -> p.
func c24StripConv(info *types.Info, e ast.Expr) ast.Expr {
	for {
		e = ast.Unparen(e)
		call, ok := e.(*ast.CallExpr)
		if !ok || len(call.Args) != 1 {
			return e
		}
		if tv, ok := info.Types[call.Fun]; ok && tv.IsType() {
			e = call.Args[0]
			continue
		}
		return e
	}
}

// ptrParamKind: what does declared function fn do with its pointer parameter i? "store", "load" or "" (unknown).
func (x *c24ctx) ptrParamKind(fn *types.Func, i int) string {
	fi := x.c.P.DeclOf(fn)
	if fi == nil || fi.Decl.Body == nil {
		return ""
	}
	sig := fn.Type().(*types.Signature)
	if i >= sig.Params().Len() {
		return ""
	}
	pv := sig.Params().At(i)
	info := fi.Pkg.TypesInfo
	kind := ""
	other := false
	ast.Inspect(fi.Decl.Body, func(n ast.Node) bool {
		call, ok := n.(*ast.CallExpr)
		if !ok {
			return true
		}
		for _, a := range call.Args {
			if core.VarOf(info, c24StripConv(info, a)) != pv {
				continue
			}
			switch c24AtomicKind(core.Callee(info, call)) {
			case "store":
				kind = "store"
			case "load":
				if kind == "" {
					kind = "load"
				}
			default:
				if tv, ok := info.Types[call.Fun]; !ok || !tv.IsType() {
					other = true
				}
			}
		}
		return true
	})
	if other {
		return ""
	}
	return kind
}

// stateAccess describes one syntactic access to the state field inside a node.
type c24StateAccess struct {
	kind  string   // "store", "load", "unknown"
	value ast.Expr // stored value (store only, may be nil)
}

// stateAccesses lists the direct accesses to ICEGatherer.state in node n (shallow).
func (x *c24ctx) stateAccesses(info *types.Info, n ast.Node) []c24StateAccess {
	var out []c24StateAccess
	handled := map[ast.Node]bool{}
	core.InspectShallow(n, func(y ast.Node) bool {
		switch s := y.(type) {
		case *ast.CallExpr:
			for i, a := range s.Args {
				u, ok := c24StripConv(info, a).(*ast.UnaryExpr)
				if !ok || u.Op != token.AND || core.FieldOf(info, u.X) != x.stateF {
					continue
				}
				handled[ast.Unparen(u.X)] = true
				fn := core.Callee(info, s)
				kind := c24AtomicKind(fn)
				if kind == "" && fn != nil {
					kind = x.ptrParamKind(fn, i)
				}
				acc := c24StateAccess{kind: kind}
				if kind == "" {
					acc.kind = "unknown"
				}
				if kind == "store" && len(s.Args) > i+1 {
					acc.value = s.Args[len(s.Args)-1]
				}
				out = append(out, acc)
			}
		case *ast.AssignStmt:
			for i, l := range s.Lhs {
				if core.FieldOf(info, l) == x.stateF {
					handled[ast.Unparen(l)] = true
					acc := c24StateAccess{kind: "store"}
					if len(s.Rhs) == len(s.Lhs) {
						acc.value = s.Rhs[i]
					}
					out = append(out, acc)
				}
			}
		case *ast.SelectorExpr:
			if core.FieldOf(info, s) == x.stateF && !handled[s] {
				out = append(out, c24StateAccess{kind: "load"}) // plain (non-atomic) read
			}
		}
		return true
	})
	return out
}

func (x *c24ctx) isCompleteConst(info *types.Info, e ast.Expr) bool {
	if e == nil {
		return false
	}
	e = c24StripConv(info, e)
	tv, ok := info.Types[e]
	if !ok || tv.Value == nil || !types.Identical(tv.Type, x.stateT) {
		return false
	}
	return constant.Compare(tv.Value, token.EQL, x.complete.Val())
}

// storedParams: the parameter indices of fn whose value fn stores into the state field (directly or through one more level).
func (x *c24ctx) storedParams(fn *types.Func, depth int) []int {
	if v, ok := x.memoStore[fn]; ok {
		return v
	}
	x.memoStore[fn] = nil
	fi := x.c.P.DeclOf(fn)
	if fi == nil || fi.Decl.Body == nil || fi.Pkg.Types != x.pkg || depth <= 0 {
		return nil
	}
	info := fi.Pkg.TypesInfo
	sig := fn.Type().(*types.Signature)
	set := map[int]bool{}
	paramIdx := func(e ast.Expr) int {
		v := core.VarOf(info, c24StripConv(info, e))
		for i := 0; v != nil && i < sig.Params().Len(); i++ {
			if sig.Params().At(i) == v {
				return i
			}
		}
		return -1
	}
	ast.Inspect(fi.Decl.Body, func(n ast.Node) bool {
		if _, ok := n.(*ast.FuncLit); ok {
			return false
		}
		if st, ok := n.(ast.Stmt); ok {
			for _, acc := range x.stateAccessesStmt(info, st) {
				if acc.kind == "store" && acc.value != nil {
					if i := paramIdx(acc.value); i >= 0 {
						set[i] = true
					}
				}
			}
		}
		if call, ok := n.(*ast.CallExpr); ok {
			if callee := core.Callee(info, call); callee != nil && callee != fn {
				for _, k := range x.storedParams(callee, depth-1) {
					if k < len(call.Args) {
						if i := paramIdx(call.Args[k]); i >= 0 {
							set[i] = true
						}
					}
				}
			}
		}
		return true
	})
	var out []int
	for i := range set {
		out = append(out, i)
	}
	sort.Ints(out)
	x.memoStore[fn] = out
	return out
}

// stateAccessesStmt is stateAccesses for simple statements only (so that nested statements are not counted twice).
func (x *c24ctx) stateAccessesStmt(info *types.Info, st ast.Stmt) []c24StateAccess {
	switch st.(type) {
	case *ast.ExprStmt, *ast.AssignStmt, *ast.ReturnStmt, *ast.DeferStmt, *ast.GoStmt, *ast.IncDecStmt, *ast.DeclStmt:
		return x.stateAccesses(info, st)
	}
	return nil
}

// publishes reports whether graph node n publishes ICEGathererStateComplete into the state field.
func (x *c24ctx) publishes(info *types.Info, n ast.Node, depth int) bool {
	for _, acc := range x.stateAccesses(info, n) {
		if acc.kind == "store" && x.isCompleteConst(info, acc.value) {
			return true
		}
	}
	for _, call := range core.CallsIn(n) {
		callee := core.Callee(info, call)
		if callee == nil {
			continue
		}
		for _, k := range x.storedParams(callee, 3) {
			if k < len(call.Args) && x.isCompleteConst(info, call.Args[k]) {
				return true
			}
		}
		if depth > 0 && x.fnPublishes(callee, depth-1) {
			return true
		}
	}
	return false
}

func (x *c24ctx) fnPublishes(fn *types.Func, depth int) bool {
	if v, ok := x.memoPub[fn]; ok {
		return v == 1
	}
	x.memoPub[fn] = 0
	fi := x.c.P.DeclOf(fn)
	if fi == nil || fi.Decl.Body == nil || fi.Pkg.Types != x.pkg {
		return false
	}
	g := x.c.P.GraphOf(fi)
	for _, n := range g.Nodes {
		if n.Ast != nil && x.publishes(fi.Pkg.TypesInfo, n.Ast, depth) {
			x.memoPub[fn] = 1
			return true
		}
	}
	return false
}

// readsState reports whether node n reads the gatherer state: a direct load of
// the field or a call to an accessor (result type ICEGathererState or bool)
// of the package that does so (depth-bounded).
func (x *c24ctx) readsState(info *types.Info, n ast.Node, depth int) (reads bool, unknown bool) {
	for _, acc := range x.stateAccesses(info, n) {
		switch acc.kind {
		case "load":
			reads = true
		case "unknown":
			unknown = true
		}
	}
	for _, call := range core.CallsIn(n) {
		callee := core.Callee(info, call)
		if callee == nil || depth <= 0 {
			continue
		}
		if x.fnReadsState(callee, depth-1) {
			reads = true
		}
	}
	return reads, unknown
}

func (x *c24ctx) fnReadsState(fn *types.Func, depth int) bool {
	if v, ok := x.memoRead[fn]; ok {
		return v == 1
	}
	x.memoRead[fn] = 0
	fi := x.c.P.DeclOf(fn)
	if fi == nil || fi.Decl.Body == nil || fi.Pkg.Types != x.pkg {
		return false
	}
	res := fn.Type().(*types.Signature).Results()
	if res.Len() != 1 {
		return false
	}
	rt := res.At(0).Type()
	if !types.Identical(rt, x.stateT) && !types.Identical(rt, types.Typ[types.Bool]) {
		return false
	}
	g := x.c.P.GraphOf(fi)
	for _, n := range g.Nodes {
		if n.Ast == nil {
			continue
		}
		if rd, _ := x.readsState(fi.Pkg.TypesInfo, n.Ast, depth); rd {
			x.memoRead[fn] = 1
			return true
		}
	}
	return false
}

// ---- emissions ----

// handlerCall classifies call as an invocation of a candidate handler
// (function value of type func(*ICECandidate)); isNil says whether the marker is passed.
func (x *c24ctx) handlerCall(info *types.Info, call *ast.CallExpr) (is bool, isNil bool) {
	if len(call.Args) != 1 {
		return false, false
	}
	tv, ok := info.Types[call.Fun]
	if !ok || tv.IsType() {
		return false, false
	}
	sig, ok := tv.Type.Underlying().(*types.Signature)
	if !ok || sig.Params().Len() != 1 || sig.Results().Len() != 0 || !types.Identical(sig.Params().At(0).Type(), x.candPtrT) {
		return false, false
	}
	if fn := core.Callee(info, call); fn != nil {
		// a declared function: only a wrapper that forwards its parameter to a handler value counts
		fi := x.c.P.DeclOf(fn)
		if fi == nil || fi.Decl.Body == nil || fi.Pkg.Types != x.pkg {
			return false, false
		}
		fwd := false
		pv := fn.Type().(*types.Signature).Params().At(0)
		ast.Inspect(fi.Decl.Body, func(n ast.Node) bool {
			if c2, ok := n.(*ast.CallExpr); ok && core.Callee(fi.Pkg.TypesInfo, c2) == nil {
				if is, _ := x.handlerCall(fi.Pkg.TypesInfo, c2); is && core.VarOf(fi.Pkg.TypesInfo, c2.Args[0]) == pv {
					fwd = true
				}
			}
			return true
		})
		if !fwd {
			return false, false
		}
	}
	return true, core.IsNilIdent(info, call.Args[0])
}

func (x *c24ctx) emissions(g *core.Graph, wantNil bool) []int {
	return g.FindNodes(func(n ast.Node) bool {
		call, ok := n.(*ast.CallExpr)
		if !ok {
			return false
		}
		is, isNil := x.handlerCall(g.Info, call)
		return is && isNil == wantNil
	})
}

func (x *c24ctx) nilEmissions(g *core.Graph) []int {
	if g == nil {
		return nil
	}
	return x.emissions(g, true)
}

// ---- pool accesses ----

func (x *c24ctx) poolWrites(info *types.Info, n ast.Node) (fields []string) {
	core.InspectShallow(n, func(y ast.Node) bool {
		switch s := y.(type) {
		case *ast.AssignStmt:
			for _, l := range s.Lhs {
				switch core.FieldOf(info, l) {
				case x.poolF:
					fields = append(fields, "candidatePool")
				case x.sizeF:
					fields = append(fields, "iceCandidatePoolSize")
				}
			}
		case *ast.IncDecStmt:
			switch core.FieldOf(info, s.X) {
			case x.poolF:
				fields = append(fields, "candidatePool")
			case x.sizeF:
				fields = append(fields, "iceCandidatePoolSize")
			}
		case *ast.UnaryExpr:
			if s.Op == token.AND {
				switch core.FieldOf(info, s.X) {
				case x.poolF:
					fields = append(fields, "&candidatePool")
				case x.sizeF:
					fields = append(fields, "&iceCandidatePoolSize")
				}
			}
		}
		return true
	})
	return fields
}

func (x *c24ctx) poolReads(info *types.Info, n ast.Node) bool {
	// a read is any selection of the fields that is not purely the target of an assignment
	lhs := map[ast.Expr]bool{}
	core.InspectShallow(n, func(y ast.Node) bool {
		if s, ok := y.(*ast.AssignStmt); ok && s.Tok == token.ASSIGN {
			for _, l := range s.Lhs {
				lhs[ast.Unparen(l)] = true
			}
		}
		return true
	})
	found := false
	core.InspectShallow(n, func(y ast.Node) bool {
		if se, ok := y.(*ast.SelectorExpr); ok && !lhs[se] {
			if f := core.FieldOf(info, se); f == x.poolF || f == x.sizeF {
				found = true
			}
		}
		return !found
	})
	return found
}

func c24LockInst(li *core.LockInfo) string {
	inst := ""
	for i, cl := range li.ClassOf {
		if cl == c24PoolLockClass {
			if inst != "" && inst != i {
				return "" // two different instances in one body: cannot name the region
			}
			inst = i
		}
	}
	return inst
}

// sameRegion orders the two nodes by reachability and applies the E3 region rule.
func c24SameRegion(g *core.Graph, li *core.LockInfo, a, b int, inst string) (bool, string) {
	if inst == "" {
		return false, "candidatePoolLock is not taken in this function"
	}
	if a == b {
		if li.In[a].Has(inst) {
			return true, ""
		}
		return false, "the operation does not hold " + inst
	}
	if !g.Reach([]int{a}, nil, nil)[b] {
		a, b = b, a
	}
	return li.SameRegion(a, b, inst)
}

// ---- R1 ----

func (x *c24ctx) r1Callback(g *core.Graph, name string) {
	c, r := x.c, x.c.R
	key := name + "|publish-complete+pool-test|one-region"
	pos := c.P.Pos(g.Fn.Pos())
	nilEm := x.nilEmissions(g)
	if len(nilEm) == 0 {
		r.Undecided("C24.R1", key, pos, "no invocation of the candidate handler with nil found in the callback: the end-of-gathering path is not recognised")
		return
	}
	var pubs, tests []int
	unknownAcc := false
	for _, n := range g.Nodes {
		if n.Ast == nil {
			continue
		}
		if _, isGo := n.Ast.(*ast.GoStmt); isGo {
			continue
		}
		if x.publishes(g.Info, n.Ast, 3) {
			pubs = append(pubs, n.ID)
		}
		for _, acc := range x.stateAccesses(g.Info, n.Ast) {
			if acc.kind == "unknown" {
				unknownAcc = true
			}
		}
		if x.poolReads(g.Info, n.Ast) {
			reach := g.Reach([]int{n.ID}, nil, nil)
			for _, e := range nilEm {
				if reach[e] && e != n.ID {
					tests = append(tests, n.ID)
					break
				}
			}
		}
	}
	live := g.Live()
	pubs = c24Filter(pubs, live)
	tests = c24Filter(tests, live)
	switch {
	case unknownAcc:
		r.Undecided("C24.R1", key, pos, "an access to ICEGatherer.state in the callback is neither a recognised atomic store nor load")
		return
	case len(pubs) == 0:
		r.Undecided("C24.R1", key, pos, "the callback emits the nil marker but no publication of ICEGathererStateComplete was found in it (state published elsewhere?)")
		return
	case len(tests) == 0:
		r.Fail("C24.R1", name+"|nil-marker-decided-by-pool-test", c.P.Pos(g.PosOf(nilEm[0])), "the callback emits the nil marker without testing the candidate pool: with a pool, flushCandidates emits a second marker")
		return
	}
	r.OK("C24.R1", name+"|nil-marker-decided-by-pool-test", c.P.Pos(g.PosOf(tests[0])), sprintf("%d pool test(s) precede the callback's nil marker", len(tests)))
	li := core.Locks(g)
	inst := c24LockInst(li)
	x.c.R.Cells += len(pubs) * len(tests)
	for _, p := range pubs {
		for _, t := range tests {
			if ok, why := c24SameRegion(g, li, p, t, inst); !ok {
				r.Fail("C24.R1", key, c.P.Pos(g.PosOf(p)), sprintf("publication of ICEGathererStateComplete (%s) and the pool test (%s) are not in one critical section of candidatePoolLock: %s. flushCandidates can run between them, read state=complete and find the pool it then empties, so both sides emit the nil marker (two markers, pooled candidates after the first)", c.P.Pos(g.PosOf(p)), c.P.Pos(g.PosOf(t)), why))
				return
			}
		}
	}
	r.OK("C24.R1", key, c.P.Pos(g.PosOf(pubs[0])), sprintf("%d publication(s) and %d pool test(s) share one critical section of %s", len(pubs), len(tests), inst))
}

func c24Filter(ids []int, live map[int]bool) []int {
	var out []int
	for _, i := range ids {
		if live[i] {
			out = append(out, i)
		}
	}
	return out
}

func (x *c24ctx) r1Flush(flush *core.FuncInfo) {
	c, r := x.c, x.c.R
	g := c.P.GraphOf(flush)
	key := flush.Name() + "|state-read+pool-empty|one-region"
	pos := c.P.Pos(flush.Decl.Pos())
	nilEm := x.nilEmissions(g)
	if len(nilEm) == 0 {
		r.Undecided("C24.R1", key, pos, "flushCandidates no longer invokes the handler with nil: the marker protocol changed, re-model the rule")
		return
	}
	var empties []int
	for _, n := range g.Nodes {
		if n.Ast == nil {
			continue
		}
		for _, f := range x.poolWrites(g.Info, n.Ast) {
			if f == "candidatePool" {
				empties = append(empties, n.ID)
			}
		}
	}
	empties = c24Filter(empties, g.Live())
	if len(empties) == 0 {
		r.Fail("C24.R1", flush.Name()+"|pool-emptied", pos, "flushCandidates never empties the pool")
		return
	}
	// state reads that decide a nil emission
	type cand struct {
		node int
		vars map[*types.Var]bool
	}
	var reads []cand
	for _, n := range g.Nodes {
		if n.Ast == nil {
			continue
		}
		rd, unk := x.readsState(g.Info, n.Ast, 3)
		if unk {
			r.Undecided("C24.R1", key, c.P.Pos(g.PosOf(n.ID)), "an access to ICEGatherer.state in flushCandidates is neither a recognised atomic store nor load")
			return
		}
		if !rd {
			continue
		}
		cd := cand{node: n.ID, vars: map[*types.Var]bool{}}
		for _, l := range core.AssignTargets(n.Ast) {
			if v := core.VarOf(g.Info, l); v != nil {
				cd.vars[v] = true
			}
		}
		reads = append(reads, cd)
	}
	// taint closure over assignments
	for i := range reads {
		for changed := true; changed; {
			changed = false
			for _, n := range g.Nodes {
				as, ok := n.Ast.(*ast.AssignStmt)
				if !ok {
					continue
				}
				uses := false
				for _, rhs := range as.Rhs {
					for v := range reads[i].vars {
						if core.UsesVar(g.Info, rhs, v) {
							uses = true
						}
					}
				}
				if !uses {
					continue
				}
				for _, l := range as.Lhs {
					if v := core.VarOf(g.Info, l); v != nil && !reads[i].vars[v] {
						reads[i].vars[v] = true
						changed = true
					}
				}
			}
		}
	}
	// deciding conditions: a two-way branch from exactly one side of which a nil emission is reachable
	decides := func(n *core.Node) bool {
		if len(n.Succs) != 2 || n.Succs[0].Cond == nil {
			return false
		}
		for _, e := range nilEm {
			a := g.Reach([]int{n.Succs[0].To}, nil, nil)[e]
			b := g.Reach([]int{n.Succs[1].To}, nil, nil)[e]
			if a != b {
				return true
			}
		}
		return false
	}
	var relevant []int
	decided := false
	for _, n := range g.Nodes {
		if n.Ast == nil || !decides(n) {
			continue
		}
		for _, cd := range reads {
			hit := cd.node == n.ID
			for v := range cd.vars {
				if core.UsesVar(g.Info, n.Ast, v) {
					hit = true
				}
			}
			if hit {
				decided = true
				relevant = append(relevant, cd.node)
			}
		}
	}
	if !decided {
		r.Fail("C24.R1", flush.Name()+"|nil-marker-decided-by-state", c.P.Pos(g.PosOf(nilEm[0])), "flushCandidates emits the nil marker on a branch that does not depend on the gatherer state: the marker is emitted whether or not gathering has completed")
		return
	}
	r.OK("C24.R1", flush.Name()+"|nil-marker-decided-by-state", c.P.Pos(g.PosOf(nilEm[0])), "the flush's nil marker is guarded by a test of the gatherer state")
	li := core.Locks(g)
	inst := c24LockInst(li)
	sort.Ints(relevant)
	x.c.R.Cells += len(relevant) * len(empties)
	for _, rd := range relevant {
		for _, e := range empties {
			if ok, why := c24SameRegion(g, li, rd, e, inst); !ok {
				r.Fail("C24.R1", key, c.P.Pos(g.PosOf(rd)), sprintf("the read of the gatherer state that decides the nil marker (%s) and the emptying of the pool (%s) are not in one critical section of candidatePoolLock: %s. The gatherer callback can publish Complete and test the (already emptied) pool in between, so both sides emit the nil marker", c.P.Pos(g.PosOf(rd)), c.P.Pos(g.PosOf(e)), why))
				return
			}
		}
	}
	r.OK("C24.R1", key, c.P.Pos(g.PosOf(relevant[0])), sprintf("state read and pool emptying share one critical section of %s", inst))
}

// ---- R2 ----

func (x *c24ctx) r2(cb *core.Graph, cbName string, flush *core.FuncInfo) {
	c, r := x.c, x.c.R
	type body struct {
		g    *core.Graph
		name string
		fi   *core.FuncInfo // nil for literals
	}
	var bodies []body
	seenLit := map[*ast.FuncLit]bool{}
	for _, fi := range c.P.AllFuncs() {
		if fi.Decl.Body == nil {
			continue
		}
		uses := false
		ast.Inspect(fi.Decl.Body, func(n ast.Node) bool {
			if se, ok := n.(*ast.SelectorExpr); ok {
				if f := core.FieldOf(fi.Pkg.TypesInfo, se); f == x.poolF || f == x.sizeF {
					uses = true
				}
			}
			return !uses
		})
		if !uses {
			continue
		}
		bodies = append(bodies, body{g: c.P.GraphOf(fi), name: fi.Name(), fi: fi})
		ast.Inspect(fi.Decl.Body, func(n ast.Node) bool {
			if fl, ok := n.(*ast.FuncLit); ok && !seenLit[fl] {
				seenLit[fl] = true
				if lg := c.P.GraphOfLit(fl); lg != nil {
					nm := fi.Name() + "$lit"
					if lg == cb {
						nm = cbName
					}
					bodies = append(bodies, body{g: lg, name: nm})
				}
			}
			return true
		})
	}
	emissionBody := func(b body) bool { return x.emissionBodies[b.g] || b.name == cbName }
	// one obligation per (body, field, kind); the position reported is the first unguarded access (or the first access)
	type agg struct {
		key, pos, badPos string
		n, bad           int
		undecided        bool
		read, emission   bool
	}
	var order []string
	aggs := map[string]*agg{}
	note := func(key, pos string, held, read, emission, undecided bool) {
		a := aggs[key]
		if a == nil {
			a = &agg{key: key, pos: pos, read: read, emission: emission}
			aggs[key] = a
			order = append(order, key)
		}
		a.n++
		if undecided {
			a.undecided = true
			a.badPos = pos
		}
		if !held {
			a.bad++
			if a.badPos == "" {
				a.badPos = pos
			}
		}
	}
	litIdx := map[string]int{}
	for _, b := range bodies {
		var li *core.LockInfo
		name := b.name
		if strings.HasSuffix(name, "$lit") {
			litIdx[name]++
			name = sprintf("%s%d", name, litIdx[name])
		}
		for _, n := range b.g.Nodes {
			if n.Ast == nil {
				continue
			}
			ws := x.poolWrites(b.g.Info, n.Ast)
			rd := x.poolReads(b.g.Info, n.Ast)
			if len(ws) == 0 && !rd {
				continue
			}
			if li == nil {
				li = core.Locks(b.g)
			}
			held := false
			for inst := range li.In[n.ID] {
				if li.ClassOf[inst] == c24PoolLockClass {
					held = true
				}
			}
			if !held && b.fi != nil && b.fi != flush {
				held = calledOnlyUnderLock(c, b.fi, c24PoolLockClass)
			}
			pos := c.P.Pos(b.g.PosOf(n.ID))
			for _, f := range c24Uniq(ws) {
				note(sprintf("guarded|%s|write|in:%s", strings.TrimPrefix(f, "&"), name), pos, held, false, emissionBody(b), strings.HasPrefix(f, "&"))
			}
			if rd {
				note(sprintf("guarded|pool-fields|read|in:%s", name), pos, held, true, emissionBody(b), false)
			}
		}
	}
	for _, k := range order {
		a := aggs[k]
		r.Cells += a.n
		switch {
		case a.undecided:
			r.Undecided("C24.R2", a.key, a.badPos, "the address of a pool field is taken: accesses through the pointer cannot be attributed to a lock region")
		case a.bad == 0:
			r.OK("C24.R2", a.key, a.pos, sprintf("%d access(es), all under candidatePoolLock", a.n))
		case !a.read:
			r.Fail("C24.R2", a.key, a.badPos, sprintf("pool field written without candidatePoolLock (%d of %d writes): the pooled/flushed decision races with the callback and flushCandidates", a.bad, a.n))
		case a.emission:
			r.Fail("C24.R2", a.key, a.badPos, sprintf("pool field read without candidatePoolLock on an emission path (%d of %d reads): the pooled/emitted decision can be taken on a stale value", a.bad, a.n))
		default:
			r.Info("C24.R2", a.key, a.badPos, "pool field read without candidatePoolLock outside the emission paths (does not feed an OnICECandidate decision; data race to be judged by C40)")
		}
	}
}

func c24Uniq(s []string) []string {
	sort.Strings(s)
	var out []string
	for i, v := range s {
		if i == 0 || v != s[i-1] {
			out = append(out, v)
		}
	}
	return out
}

// ---- R3 ----

// convErrVars: error variables assigned from the candidate conversion (any call returning (ICECandidate, error)).
func (x *c24ctx) convErrVars(g *core.Graph) map[*types.Var]bool {
	out := map[*types.Var]bool{}
	cand := x.candPtrT.(*types.Pointer).Elem()
	for _, n := range g.Nodes {
		as, ok := n.Ast.(*ast.AssignStmt)
		if !ok || len(as.Rhs) != 1 || len(as.Lhs) != 2 {
			continue
		}
		call, ok := ast.Unparen(as.Rhs[0]).(*ast.CallExpr)
		if !ok {
			continue
		}
		tv, ok := g.Info.Types[call]
		if !ok {
			continue
		}
		tup, ok := tv.Type.(*types.Tuple)
		if !ok || tup.Len() != 2 || !types.Identical(tup.At(0).Type(), cand) || !isErrorType(tup.At(1).Type()) {
			continue
		}
		if v := core.VarOf(g.Info, as.Lhs[1]); v != nil {
			out[v] = true
		}
	}
	return out
}

func (x *c24ctx) r3Callback(g *core.Graph, name string, nilBody *core.Graph, nilName string) {
	c, r := x.c, x.c.R
	pos := c.P.Pos(g.Fn.Pos())
	candVar := x.candidateVar(g)
	if candVar == nil {
		r.Undecided("C24.R3", name+"|non-nil-candidate", pos, "the callback body does not have exactly one parameter of type ice.Candidate")
		return
	}
	appends := x.candidateAppends(g)
	emits := c24Filter(x.emissions(g, false), g.Live())
	if len(appends) == 0 || len(emits) == 0 {
		r.Undecided("C24.R3", name+"|non-nil-candidate|pooled-xor-emitted", pos, sprintf("expected a pool append of the candidate and a handler invocation in the callback, found appends=%d emissions=%d", len(appends), len(emits)))
		return
	}
	// (i) never both, never twice
	bad := ""
	for _, a := range appends {
		reach := g.Reach([]int{a}, nil, nil)
		for _, h := range emits {
			if reach[h] {
				bad = sprintf("a candidate appended to the pool at %s can also reach the handler invocation at %s (reported now and again by flushCandidates)", c.P.Pos(g.PosOf(a)), c.P.Pos(g.PosOf(h)))
			}
		}
		for _, a2 := range appends {
			if c24SuccReach(g, a)[a2] {
				bad = sprintf("a candidate can be appended to the pool twice (%s)", c.P.Pos(g.PosOf(a)))
			}
		}
	}
	for _, h := range emits {
		reach := c24SuccReach(g, h)
		for _, a := range appends {
			if reach[a] {
				bad = sprintf("a candidate handed to the handler at %s can also be appended to the pool at %s", c.P.Pos(g.PosOf(h)), c.P.Pos(g.PosOf(a)))
			}
		}
		for _, h2 := range emits {
			if reach[h2] {
				bad = sprintf("a candidate can be handed to the handler twice (%s)", c.P.Pos(g.PosOf(h)))
			}
		}
	}
	r.Check(bad == "", "C24.R3", name+"|non-nil-candidate|pooled-xor-emitted", c.P.Pos(g.PosOf(appends[0])), "no path pools and emits the same candidate, none does either twice", bad)

	// (ii) at least one, unless the conversion failed
	stop := core.NodeSet(append(append([]int{}, appends...), emits...))
	convErr := x.convErrVars(g)
	init := core.Facts{}
	ex := g.Explore(core.ExploreOpts{Init: c24NonNil(init, candVar), Avoid: func(n int) bool { return stop[n] }})
	r.Cells += len(ex.Reached)
	bad = ""
	for _, f := range ex.Reached[g.Exit] {
		okExit := false
		for v := range convErr {
			if f.IsNonNil(v) {
				okExit = true
			}
		}
		if !okExit {
			bad = "a path on which the candidate is non-nil leaves the callback without pooling it or handing it to the handler (and not because its conversion failed): the candidate is never reported"
		}
	}
	r.Check(bad == "", "C24.R3", name+"|non-nil-candidate|pooled-or-emitted", pos, "every non-nil candidate is pooled or emitted unless its conversion failed", bad)

	// (iii) the pool test that leads to the append shares its critical section
	li := core.Locks(g)
	inst := c24LockInst(li)
	var poolPred []string
	poolPredOK := true
	for _, a := range appends {
		tests := x.decidingPoolTests(g, a)
		key := name + "|pool-test+append|one-region"
		if len(tests) == 0 {
			r.Fail("C24.R3", key, c.P.Pos(g.PosOf(a)), "the candidate is appended to the pool without a test of the pool state (after the flush the pool is nil: the appended candidate would never be reported)")
			continue
		}
		ok, why := true, ""
		for _, t := range tests {
			if o, w := c24SameRegion(g, li, t, a, inst); !o {
				ok, why = false, w
			}
			cj, known := x.orientedConjuncts(g, t, a, true)
			poolPred = append(poolPred, cj...)
			poolPredOK = poolPredOK && known
		}
		r.Check(ok, "C24.R3", key, c.P.Pos(g.PosOf(a)), "pool test and append share one critical section", "pool test and append are not in one critical section of candidatePoolLock ("+why+"): flushCandidates can empty the pool in between and the appended candidate is never reported")
	}

	// (iv) the nil marker is the last emission of the callback
	bad = ""
	nils := x.nilEmissions(nilBody)
	for _, e := range nils {
		reach := c24SuccReach(nilBody, e)
		for _, h := range x.emissions(nilBody, false) {
			if reach[h] {
				bad = "a candidate can be handed to the handler after the nil marker inside the callback"
			}
		}
		for _, e2 := range nils {
			if reach[e2] {
				bad = "the callback can emit the nil marker twice"
			}
		}
	}
	r.Check(bad == "", "C24.R3", nilName+"|nil-marker-last-and-once", c.P.Pos(nilBody.Fn.Pos()), "nothing is emitted after the callback's nil marker", bad)

	// (v) sibling agreement: the marker is deferred to the flush under exactly the predicate under which candidates are pooled
	var deferPred []string
	deferOK := len(nils) > 0
	for _, e := range nils {
		tests := x.decidingPoolTests(nilBody, e)
		if len(tests) == 0 {
			deferOK = false
		}
		for _, t := range tests {
			cj, known := x.orientedConjuncts(nilBody, t, e, false)
			deferPred = append(deferPred, cj...)
			deferOK = deferOK && known
		}
	}
	key := name + "|pooling-predicate=marker-deferral-predicate"
	a, b := strings.Join(c24Uniq(poolPred), " && "), strings.Join(c24Uniq(deferPred), " && ")
	switch {
	case !poolPredOK || !deferOK || a == "" || b == "":
		r.Undecided("C24.R3", key, pos, sprintf("cannot bring the pool tests into conjunctive form (pooling: %q, deferral: %q)", a, b))
	default:
		r.Check(a == b, "C24.R3", key, pos, "candidates are pooled and the nil marker is left to flushCandidates under the same predicate: "+a,
			sprintf("candidates are pooled when [%s] but the nil marker is left to flushCandidates when [%s]: in a state where the two differ either the marker is never emitted or it is emitted before the pooled candidates", a, b))
	}
}

// decidingPoolTests: two-way branch nodes that read a pool field (directly or
// through a local defined from one) and from exactly one side of which target is reachable.
func (x *c24ctx) decidingPoolTests(g *core.Graph, target int) []int {
	// locals defined from a pool read
	derived := map[*types.Var]bool{}
	for _, n := range g.Nodes {
		if n.Ast == nil || !x.poolReads(g.Info, n.Ast) {
			continue
		}
		for _, l := range core.AssignTargets(n.Ast) {
			if v := core.VarOf(g.Info, l); v != nil {
				derived[v] = true
			}
		}
	}
	var tests []int
	for _, n := range g.Nodes {
		if n.Ast == nil || n.ID == target || len(n.Succs) != 2 || n.Succs[0].Cond == nil {
			continue
		}
		reads := x.poolReads(g.Info, n.Ast)
		for v := range derived {
			if core.UsesVar(g.Info, n.Ast, v) {
				reads = true
			}
		}
		if !reads {
			continue
		}
		r0 := g.Reach([]int{n.Succs[0].To}, nil, nil)[target]
		r1 := g.Reach([]int{n.Succs[1].To}, nil, nil)[target]
		if r0 != r1 {
			tests = append(tests, n.ID)
		}
	}
	return tests
}

// orientedConjuncts renders the condition of test node t as a sorted list of
// conjuncts, oriented so that it is the predicate under which target is
// reached (reach=true) or not reached (reach=false). known=false when the
// oriented condition is a negated conjunction (not representable).
func (x *c24ctx) orientedConjuncts(g *core.Graph, t, target int, reach bool) (conj []string, known bool) {
	n := g.Nodes[t]
	trueReaches := g.Reach([]int{n.Succs[0].To}, nil, nil)[target]
	positive := trueReaches == reach
	cond := n.Succs[0].Cond
	at := t
	// resolve locals and negations
	for i := 0; i < 8; i++ {
		cond = ast.Unparen(cond)
		if u, ok := cond.(*ast.UnaryExpr); ok && u.Op == token.NOT {
			positive = !positive
			cond = u.X
			continue
		}
		if id, ok := cond.(*ast.Ident); ok {
			if v, ok := g.Info.Uses[id].(*types.Var); ok {
				ds := g.DefsReaching(at, v)
				if len(ds) == 1 && ds[0].Rhs != nil && ds[0].Idx < 0 {
					cond, at = ds[0].Rhs, ds[0].Node
					continue
				}
			}
		}
		break
	}
	var flat func(e ast.Expr) []ast.Expr
	flat = func(e ast.Expr) []ast.Expr {
		e = ast.Unparen(e)
		if b, ok := e.(*ast.BinaryExpr); ok && b.Op == token.LAND {
			return append(flat(b.X), flat(b.Y)...)
		}
		return []ast.Expr{e}
	}
	parts := flat(cond)
	// the gatherer is the method receiver in an extracted helper and a captured variable in the literal
	norm := func(s string) string { return c24BaseRe.ReplaceAllString(s, "$$g.") }
	if !positive {
		if len(parts) != 1 {
			return nil, false
		}
		return []string{"!" + norm(g.Canon(at, parts[0]))}, true
	}
	for _, p := range parts {
		conj = append(conj, norm(g.Canon(at, p)))
	}
	sort.Strings(conj)
	return conj, true
}

func c24NonNil(f core.Facts, v *types.Var) core.Facts { return core.FactsNonNil(f, v) }

// c24SuccReach: nodes reachable from the successors of n (n itself only if it lies on a cycle).
func c24SuccReach(g *core.Graph, n int) map[int]bool {
	var starts []int
	for _, e := range g.Nodes[n].Succs {
		starts = append(starts, e.To)
	}
	return g.Reach(starts, nil, nil)
}

func c24Params(g *core.Graph) (recv *types.Var, params []*types.Var) {
	sig := g.Sig()
	if sig == nil {
		return nil, nil
	}
	switch f := g.Fn.(type) {
	case *ast.FuncLit:
		for _, fl := range f.Type.Params.List {
			for _, nm := range fl.Names {
				if v, ok := g.Info.Defs[nm].(*types.Var); ok {
					params = append(params, v)
				}
			}
		}
	case *ast.FuncDecl:
		for i := 0; i < sig.Params().Len(); i++ {
			params = append(params, sig.Params().At(i))
		}
		if sig.Recv() != nil {
			recv = sig.Recv()
		}
	}
	return recv, params
}

func (x *c24ctx) r3Flush(flush *core.FuncInfo) {
	c, r := x.c, x.c.R
	g := c.P.GraphOf(flush)
	pos := c.P.Pos(flush.Decl.Pos())
	name := flush.Name()
	live := g.Live()

	// snapshot: local := g.candidatePool ; empty: g.candidatePool = <not derived from the pool>
	var snapNodes, emptyNodes []int
	snapVars := map[*types.Var]bool{}
	for _, n := range g.Nodes {
		as, ok := n.Ast.(*ast.AssignStmt)
		if !ok || !live[n.ID] || len(as.Lhs) != len(as.Rhs) {
			continue
		}
		for i, l := range as.Lhs {
			if core.FieldOf(g.Info, as.Rhs[i]) == x.poolF {
				if v := core.VarOf(g.Info, l); v != nil {
					snapVars[v] = true
					snapNodes = append(snapNodes, n.ID)
				}
			}
			if core.FieldOf(g.Info, l) == x.poolF && !core.ReadsField(g.Info, as.Rhs[i], x.poolF) {
				usesSnap := false
				for v := range snapVars {
					if core.UsesVar(g.Info, as.Rhs[i], v) {
						usesSnap = true
					}
				}
				if !usesSnap {
					emptyNodes = append(emptyNodes, n.ID)
				}
			}
		}
	}
	key := name + "|snapshot+empty|one-region"
	if len(snapNodes) != 1 || len(emptyNodes) != 1 {
		r.Fail("C24.R3", key, pos, sprintf("expected flushCandidates to copy the pool into one local and to reset the pool field once, found snapshots=%d resets=%d (a pool that is not emptied is reported again by the next flush; one that is not snapshotted is iterated outside the lock)", len(snapNodes), len(emptyNodes)))
		return
	}
	li := core.Locks(g)
	inst := c24LockInst(li)
	ok, why := c24SameRegion(g, li, snapNodes[0], emptyNodes[0], inst)
	r.Check(ok, "C24.R3", key, c.P.Pos(g.PosOf(snapNodes[0])), "the pool is swapped out inside one critical section", "snapshot and reset of the pool are not in one critical section of candidatePoolLock ("+why+"): a candidate appended in between is lost")

	emits := c24Filter(x.emissions(g, false), live)
	nils := c24Filter(x.nilEmissions(g), live)
	// emptied before any emission
	bad := ""
	for _, h := range append(append([]int{}, emits...), nils...) {
		if !g.Dominated(h, core.NodeSet(emptyNodes)) {
			bad = sprintf("the handler invocation at %s is reachable before the pool was emptied", c.P.Pos(g.PosOf(h)))
		}
	}
	if len(emits) == 0 {
		bad = "flushCandidates never hands a pooled candidate to the handler"
	}
	r.Check(bad == "", "C24.R3", name+"|empty-before-emission", c.P.Pos(g.PosOf(emptyNodes[0])), "the pool is emptied before the first emission", bad)

	// the loop ranges over the snapshot; one emission per iteration
	var loop *ast.RangeStmt
	ast.Inspect(g.Body, func(n ast.Node) bool {
		if rs, ok := n.(*ast.RangeStmt); ok {
			if v := core.VarOf(g.Info, rs.X); v != nil && snapVars[v] {
				loop = rs
			}
		}
		return true
	})
	key = name + "|exactly-one-emission-per-pooled-candidate"
	if loop == nil {
		r.Fail("C24.R3", key, pos, "flushCandidates does not range over its snapshot of the pool")
		return
	}
	var rangeEdges []core.EdgeRef
	head := -1
	for _, n := range g.Nodes {
		for i, e := range n.Succs {
			if e.Range == loop && e.Branch == 1 {
				rangeEdges = append(rangeEdges, core.EdgeRef{From: n.ID, Idx: i})
				head = n.ID
			}
		}
	}
	// the loop head is the synthetic head node of the range block: find it (the block's first node)
	if head < 0 || len(rangeEdges) != 1 {
		r.Undecided("C24.R3", key, c.P.Pos(loop.Pos()), "range loop edges not found in the control-flow graph")
		return
	}
	headBlock := g.Nodes[head].Block
	isHead := func(n int) bool { return g.Nodes[n].Block == headBlock }
	inBody := map[int]bool{}
	for _, h := range emits {
		if loop.Body.Pos() <= g.PosOf(h) && g.PosOf(h) <= loop.Body.End() {
			inBody[h] = true
		}
	}
	bad = ""
	if len(inBody) == 0 {
		bad = "no handler invocation inside the loop over the snapshot"
	}
	for _, h := range emits {
		if !inBody[h] {
			bad = sprintf("a candidate is handed to the handler outside the loop over the snapshot (%s)", c.P.Pos(g.PosOf(h)))
		}
	}
	// the emitted value derives from the range value
	for h := range inBody {
		for _, call := range core.CallsIn(g.Nodes[h].Ast) {
			if is, isNil := x.handlerCall(g.Info, call); is && !isNil {
				cn := g.Canon(h, call.Args[0])
				if !strings.Contains(cn, "range-value(") {
					bad = "the value handed to the handler is not derived from the loop's candidate: " + cn
				}
			}
		}
	}
	// every iteration emits once unless the conversion failed
	convErr := x.convErrVars(g)
	ex := g.Explore(core.ExploreOpts{StartEdge: rangeEdges, Avoid: func(n int) bool { return inBody[n] || isHead(n) }})
	r.Cells += len(ex.Reached)
	for n, fs := range ex.Reached {
		if !isHead(n) && n != g.Exit {
			continue
		}
		for _, f := range fs {
			failedConv := false
			for v := range convErr {
				if f.IsNonNil(v) {
					failedConv = true
				}
			}
			if !failedConv {
				bad = "an iteration over the pooled candidates can end without handing the candidate to the handler (and not because its conversion failed)"
			}
		}
	}
	for h := range inBody {
		reach := g.Reach(g.SuccIDs(h), isHead, nil)
		for h2 := range inBody {
			if reach[h2] {
				bad = "a pooled candidate can be handed to the handler twice in one iteration"
			}
		}
	}
	r.Check(bad == "", "C24.R3", key, c.P.Pos(loop.Pos()), "each pooled candidate is emitted exactly once (failed conversions are skipped)", bad)

	// nil marker last, once
	bad = ""
	for _, e := range nils {
		reach := c24SuccReach(g, e)
		for _, h := range emits {
			if reach[h] {
				bad = "flushCandidates can hand a candidate to the handler after its nil marker"
			}
		}
		for _, e2 := range nils {
			if reach[e2] {
				bad = "flushCandidates can emit the nil marker twice"
			}
		}
		// the marker follows the loop: every path to it passes the loop's exit edge or the loop is empty
		for h := range inBody {
			if g.Reach([]int{e}, nil, nil)[h] {
				bad = "the nil marker precedes the emission of pooled candidates"
			}
		}
	}
	r.Check(bad == "", "C24.R3", name+"|nil-marker-last-and-once", pos, "the nil marker is emitted at most once and after the pooled candidates", bad)
}
