package props

import (
	"go/ast"
	"go/token"
	"go/types"
	"sort"
	"strings"

	"verif/checker/core"
)

// c13R6: sibling agreement of the session-level flag readers. isIceLiteSet feeds both the ICE role selection and the
// lite override of a=setup; pion/sdp keeps trailing whitespace of a value-less attribute in its key, and the module's
// readers of value-less session attributes tolerate that by comparing strings.TrimSpace(a.Key). The readers
// (func(*sdp.SessionDescription) bool that scan desc.Attributes or call desc.Attribute with a constant key) must all
// recognise a key the same way; a reader that switches to the exact-match lookup alone stops seeing `a=ice-lite `.
func c13R6(c *Ctx) {
	r := c.R
	const rule = "C13.R6"
	lite := c.mustFunc(rule, "", "isIceLiteSet")
	if lite == nil {
		return
	}
	pkg := lite.Pkg
	info := pkg.TypesInfo
	form := func(fi *core.FuncInfo) string {
		trim, exact, raw := false, false, false
		valued := false
		ast.Inspect(fi.Decl.Body, func(x ast.Node) bool {
			switch v := x.(type) {
			case *ast.AssignStmt:
				// `value, ok := desc.Attribute(key)` with the value used: a valued attribute, not a flag
				if len(v.Rhs) == 1 && len(v.Lhs) == 2 {
					if call, ok := ast.Unparen(v.Rhs[0]).(*ast.CallExpr); ok {
						if sel, ok := ast.Unparen(call.Fun).(*ast.SelectorExpr); ok && sel.Sel.Name == "Attribute" {
							if id, ok := v.Lhs[0].(*ast.Ident); !ok || id.Name != "_" {
								valued = true
							}
						}
					}
				}
			case *ast.BinaryExpr:
				if v.Op != token.EQL && v.Op != token.NEQ {
					return true
				}
				for _, side := range []ast.Expr{v.X, v.Y} {
					side = ast.Unparen(side)
					if call, ok := side.(*ast.CallExpr); ok {
						if fn := core.Callee(info, call); fn != nil && fn.Pkg() != nil && fn.Pkg().Path() == "strings" && fn.Name() == "TrimSpace" && len(call.Args) == 1 {
							if sel, ok := ast.Unparen(call.Args[0]).(*ast.SelectorExpr); ok && sel.Sel.Name == "Key" {
								trim = true
							}
						}
					}
					if sel, ok := side.(*ast.SelectorExpr); ok && sel.Sel.Name == "Key" {
						raw = true
					}
				}
			case *ast.CallExpr:
				if sel, ok := ast.Unparen(v.Fun).(*ast.SelectorExpr); ok && sel.Sel.Name == "Attribute" {
					if fn := core.Callee(info, v); fn != nil && fn.Pkg() != nil && strings.Contains(fn.Pkg().Path(), "pion/sdp") {
						exact = true
					}
				}
			}
			return true
		})
		if valued {
			return ""
		}
		switch {
		case trim && !exact && !raw:
			return "whitespace-trimmed key comparison"
		case exact && !trim && !raw:
			return "exact-key lookup (desc.Attribute)"
		case raw && !trim && !exact:
			return "untrimmed key comparison"
		case !trim && !exact && !raw:
			return ""
		}
		return "mixed"
	}
	forms := map[string][]string{}
	var readers []*core.FuncInfo
	for _, fi := range c.P.AllFuncs() {
		if fi.Pkg != pkg || fi.Decl == nil || fi.Decl.Body == nil || fi.Decl.Recv != nil {
			continue
		}
		sig := fi.Obj.Type().(*types.Signature)
		if sig.Params().Len() != 1 || sig.Results().Len() != 1 || !types.Identical(sig.Results().At(0).Type(), types.Typ[types.Bool]) {
			continue
		}
		pt, ok := sig.Params().At(0).Type().(*types.Pointer)
		if !ok {
			continue
		}
		nt, ok := pt.Elem().(*types.Named)
		if !ok || nt.Obj().Name() != "SessionDescription" || nt.Obj().Pkg() == nil || !strings.Contains(nt.Obj().Pkg().Path(), "pion/sdp") {
			continue
		}
		f := form(fi)
		if f == "" {
			continue
		}
		readers = append(readers, fi)
		forms[f] = append(forms[f], fi.Name())
	}
	liteForm := form(lite)
	var desc []string
	for f, names := range forms {
		sort.Strings(names)
		desc = append(desc, f+": "+strings.Join(names, ", "))
	}
	sort.Strings(desc)
	r.Cells += len(readers)
	r.Check(len(forms) == 1 && liteForm != "" && liteForm != "mixed", rule, "session-flag-readers|same-key-recognition", c.P.Pos(lite.Decl.Pos()),
		sprintf("%d reader(s) of session-level flag attributes, all by %s", len(readers), liteForm),
		"the readers of session-level flag attributes recognise a key differently ("+strings.Join(desc, "; ")+"): pion/sdp keeps trailing whitespace in the key of a value-less attribute, so the exact-match reader misses a flag (`a=ice-lite `) its siblings would see - a full agent then stays controlled against a lite offerer and no agent is controlling")
}
